import KM.Model.PwCache
/-! Helper lemmas for C07 (nothing here is counted as an obligation). -/
namespace KM.PwCache

/-! ### the server loop -/

theorem loopWith_cons (chk : Srv → Option Bool) (st : Srv) (rest : List Srv) :
    loopWith chk (st :: rest) = match chk st with
      | some v => some v
      | none => loopWith chk rest := rfl

theorem checkServer_up (s : State) (u : User) {pw : Pw} (hpw : pw ≠ 0) :
    checkServer s .up u pw = some (s.dir u == some pw) := by simp [checkServer, hpw]

theorem checkServer_down (s : State) (u : User) {pw : Pw} (hpw : pw ≠ 0) :
    checkServer s .down u pw = none := by simp [checkServer, hpw]

theorem checkServer_err (s : State) (u : User) {pw : Pw} (hpw : pw ≠ 0) :
    checkServer s .err u pw = none := by simp [checkServer, hpw]

theorem loopWith_check (s : State) (u : User) (pw : Pw) (hpw : pw ≠ 0) (l : List Srv) :
    loopWith (fun st => checkServer s st u pw) l =
      if Srv.up ∈ l then some (s.dir u == some pw) else none := by
  induction l with
  | nil => simp [loopWith]
  | cons st rest ih =>
    rw [loopWith_cons]
    cases st with
    | up => simp only [checkServer_up s u hpw]; simp
    | down => simp only [checkServer_down s u hpw, ih]; simp
    | err => simp only [checkServer_err s u hpw, ih]; simp

theorem loopWith_empty_pw (s : State) (u : User) (l : List Srv) :
    loopWith (fun st => checkServer s st u 0) l = if l = [] then none else some false := by
  cases l with
  | nil => simp [loopWith]
  | cons st rest => simp [loopWith, checkServer]

theorem loop_of_answers (s : State) (u : User) (pw : Pw) (h : answers s) :
    loop s u pw = some (dirAccepts s u pw) := by
  unfold loop
  by_cases hpw : pw = 0
  · subst hpw
    rw [loopWith_empty_pw]
    have : s.srv ≠ [] := by
      intro he; unfold answers at h; rw [he] at h; cases h
    simp [this, dirAccepts]
  · rw [loopWith_check s u pw hpw]
    unfold answers at h
    simp [h, dirAccepts, hpw]

theorem loop_of_not_answers (s : State) (u : User) (pw : Pw) (h : ¬ answers s) :
    loop s u pw = none ∨ loop s u pw = some false := by
  unfold loop
  by_cases hpw : pw = 0
  · subst hpw
    rw [loopWith_empty_pw]
    by_cases he : s.srv = [] <;> simp [he]
  · rw [loopWith_check s u pw hpw]
    unfold answers at h
    simp [h]

theorem loop_some_true (s : State) (u : User) (pw : Pw) (h : loop s u pw = some true) :
    answers s ∧ dirAccepts s u pw = true := by
  by_cases ha : answers s
  · rw [loop_of_answers s u pw ha] at h
    exact ⟨ha, by simpa using h⟩
  · rcases loop_of_not_answers s u pw ha with h' | h' <;> rw [h'] at h <;> cases h

theorem dirAccepts_ne_zero {s : State} {u : User} {pw : Pw} (h : dirAccepts s u pw = true) : pw ≠ 0 := by
  unfold dirAccepts at h
  intro h0; subst h0; simp at h

/-! ### `GetSigned` -/

theorem checkRec_found {now : Nat} {u : User} {r : Rec} {p : Pw} (h : checkRec now u r = .found p) :
    now < r.columnExp ∧ r.sigOK = true ∧ r.signed.subject = u ∧ r.signed.type = pwType ∧
    now ≤ r.signed.exp ∧ r.signed.pwId = p := by
  unfold checkRec at h
  split at h
  · cases h
  · split at h
    · cases h
    · split at h
      · cases h
      · split at h
        · cases h
        · split at h
          · cases h
          · rename_i h1 h2 h3 h4 h5
            injection h with h
            refine ⟨by omega, ?_, by simpa using h3, by simpa using h4, by omega, h⟩
            cases hs : r.sigOK
            · exact absurd hs h2
            · rfl

theorem getSigned_found {s : State} {u : User} {p : Pw} (h : getSigned s u = .found p) :
    ∃ r, readRow s u = some r ∧ checkRec s.now u r = .found p := by
  unfold getSigned getSignedWith at h
  split at h
  · cases h
  · rename_i r hr
    exact ⟨r, hr, h⟩

theorem readRow_mem {s : State} {u : User} {r : Rec} (h : readRow s u = some r) :
    s.primary u = some r ∨ s.cache u = some r := by
  unfold readRow at h
  split at h
  · exact Or.inl h
  · exact Or.inr h

/-! ### stores -/

theorem upd_self (f : User → Option Rec) (u : User) (v : Option Rec) : upd f u v u = v := by
  simp [upd]

theorem upd_other (f : User → Option Rec) {u x : User} (v : Option Rec) (h : x ≠ u) : upd f u v x = f x := by
  simp [upd, h]

theorem upd_some {f : User → Option Rec} {u x : User} {v : Option Rec} {r : Rec}
    (h : upd f u v x = some r) : (x = u ∧ v = some r) ∨ (x ≠ u ∧ f x = some r) := by
  unfold upd at h
  split at h
  · rename_i hx; exact Or.inl ⟨hx, h⟩
  · rename_i hx; exact Or.inr ⟨hx, h⟩

theorem unexpired_some {now : Nat} {o : Option Rec} {r : Rec} (h : unexpired now o = some r) :
    o = some r ∧ now < r.columnExp := by
  unfold unexpired at h
  split at h
  · split at h
    · injection h with h; subst h; exact ⟨rfl, by omega⟩
    · cases h
  · cases h

/-! ### the invariant is preserved by every operation -/

theorem inv_init : Inv init := by
  refine ⟨?_, ?_, ?_⟩
  · intro sg h; simp [init] at h
  · intro u r h; simp [init] at h
  · intro u pw t h; simp [init] at h

theorem inv_of_same {s s' : State} (h : Inv s) (hi : s'.issued = s.issued) (hc : s'.confirmed = s.confirmed)
    (hn : s.now ≤ s'.now)
    (hr : ∀ u r, (s'.primary u = some r ∨ s'.cache u = some r) → (s.primary u = some r ∨ s.cache u = some r) ∨
        (r.sigOK = true → r.signed ∈ s.issued)) : Inv s' := by
  obtain ⟨h1, h2, h3⟩ := h
  refine ⟨?_, ?_, ?_⟩
  · intro sg hsg ht; rw [hi] at hsg; rw [hc]; exact h1 sg hsg ht
  · intro u r hrow hok
    rw [hi]
    rcases hr u r hrow with h' | h'
    · exact h2 u r h' hok
    · exact h' hok
  · intro u pw t hm; rw [hc] at hm
    have := h3 u pw t hm
    exact ⟨this.1, by omega⟩

theorem inv_delete {s : State} (h : Inv s) (u : User) : Inv (delete s u) := by
  refine inv_of_same h rfl rfl (Nat.le_refl _) ?_
  intro x r hrow
  left
  unfold delete at hrow
  rcases hrow with hp | hc
  · simp only at hp
    split at hp
    · rcases upd_some hp with ⟨_, hv⟩ | ⟨_, hv⟩
      · cases hv
      · exact Or.inl hv
    · exact Or.inl hp
  · exact Or.inr hc

theorem inv_login_accept {s : State} (h : Inv s) (u : User) (pw : Pw) (hpw : pw ≠ 0) :
    Inv { upsert s u pw with confirmed := (u, pw, s.now) :: s.confirmed } := by
  obtain ⟨h1, h2, h3⟩ := h
  refine ⟨?_, ?_, ?_⟩
  · intro sg hsg ht
    simp only [upsert, List.mem_cons] at hsg
    rcases hsg with rfl | hsg
    · exact ⟨s.now, by simp [freshSigned], by simp [freshSigned]⟩
    · obtain ⟨t, hm, he⟩ := h1 sg hsg ht
      exact ⟨t, List.mem_cons_of_mem _ hm, he⟩
  · intro x r hrow hok
    simp only [upsert] at hrow ⊢
    rcases hrow with hp | hc
    · split at hp
      · rcases upd_some hp with ⟨_, hv⟩ | ⟨_, hv⟩
        · injection hv with hv; subst hv; simp [freshRec]
        · exact List.mem_cons_of_mem _ (h2 x r (Or.inl hv) hok)
      · exact List.mem_cons_of_mem _ (h2 x r (Or.inl hp) hok)
    · exact List.mem_cons_of_mem _ (h2 x r (Or.inr hc) hok)
  · intro x p t hm
    simp only [upsert, List.mem_cons] at hm ⊢
    rcases hm with heq | hm
    · injection heq with h1' h2'; injection h2' with h2' h3'
      subst h2'; subst h3'
      exact ⟨hpw, Nat.le_refl _⟩
    · exact h3 x p t hm

theorem inv_login {s : State} (h : Inv s) (u : User) (pw : Pw) : Inv (login s u pw).1 := by
  unfold login loginWith
  split
  · rename_i hl
    exact inv_login_accept h u pw (dirAccepts_ne_zero (loop_some_true s u pw hl).2)
  · split
    · split
      · exact inv_delete h u
      · exact h
    · exact h
  · split <;> exact h

theorem inv_sync {s : State} (h : Inv s) : Inv (sync s) := by
  unfold sync
  split
  · exact h
  · refine inv_of_same h rfl rfl (Nat.le_refl _) ?_
    intro u r hrow
    left
    rcases hrow with hp | hc
    · exact Or.inl hp
    · exact Or.inl (unexpired_some hc).1

theorem coerce_ok {s : State} {r : Rec} (h : (coerce s r).sigOK = true) : (coerce s r).signed ∈ s.issued := by
  simp only [coerce, Bool.and_eq_true] at h ⊢
  exact List.contains_iff_mem.mp h.2

theorem inv_tamper_row {s : State} {f : User → Option Rec} {u x : User} {o : Option Rec} {r : Rec}
    (hp : upd f u (o.map (coerce s)) x = some r) : f x = some r ∨ (r.sigOK = true → r.signed ∈ s.issued) := by
  rcases upd_some hp with ⟨_, hv⟩ | ⟨_, hv⟩
  · right
    cases o with
    | none => cases hv
    | some r0 =>
      simp only [Option.map] at hv
      injection hv with hv; subst hv
      exact coerce_ok
  · exact Or.inl hv

theorem inv_step {s : State} (h : Inv s) (op : Op) : Inv (step s op) := by
  cases op with
  | login u pw => exact inv_login h u pw
  | setServer i st => exact inv_of_same h rfl rfl (Nat.le_refl _) (fun _ _ hr => Or.inl hr)
  | setServers l => exact inv_of_same h rfl rfl (Nat.le_refl _) (fun _ _ hr => Or.inl hr)
  | changePw u pw => exact inv_of_same h rfl rfl (Nat.le_refl _) (fun _ _ hr => Or.inl hr)
  | setAnon b => exact inv_of_same h rfl rfl (Nat.le_refl _) (fun _ _ hr => Or.inl hr)
  | advance dt => exact inv_of_same h rfl rfl (Nat.le_add_right _ _) (fun _ _ hr => Or.inl hr)
  | setPrim p => exact inv_of_same h rfl rfl (Nat.le_refl _) (fun _ _ hr => Or.inl hr)
  | sync => exact inv_sync h
  | tamper st u o =>
    cases st with
    | primary =>
      refine inv_of_same h rfl rfl (Nat.le_refl _) ?_
      intro x r hrow
      rcases hrow with hp | hc
      · rcases inv_tamper_row hp with h' | h'
        · exact Or.inl (Or.inl h')
        · exact Or.inr h'
      · exact Or.inl (Or.inr hc)
    | cache =>
      refine inv_of_same h rfl rfl (Nat.le_refl _) ?_
      intro x r hrow
      rcases hrow with hp | hc
      · exact Or.inl (Or.inl hp)
      · rcases inv_tamper_row hc with h' | h'
        · exact Or.inl (Or.inr h')
        · exact Or.inr h'
  | signOther sg =>
    show Inv (if sg.type = pwType then s else { s with issued := sg :: s.issued })
    split
    · exact h
    · rename_i hty
      obtain ⟨h1, h2, h3⟩ := h
      refine ⟨?_, ?_, h3⟩
      · intro sg' hsg ht
        simp only [List.mem_cons] at hsg
        rcases hsg with rfl | hsg
        · exact absurd ht hty
        · exact h1 sg' hsg ht
      · intro u r hrow hok
        exact List.mem_cons_of_mem _ (h2 u r hrow hok)

theorem inv_run {s : State} (h : Inv s) (ops : List Op) : Inv (run s ops) := by
  induction ops generalizing s with
  | nil => exact h
  | cons op rest ih => exact ih (inv_step h op)

end KM.PwCache
