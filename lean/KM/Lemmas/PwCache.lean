import KM.Model.PwCache
/-! Helper lemmas for C07 (nothing here is counted as an obligation). -/
namespace KM.PwCache

/-! ### the server × pattern loops -/

theorem loopWith_cons {α : Type} (chk : α → Option Bool) (a : α) (rest : List α) :
    loopWith chk (a :: rest) = match chk a with
      | some v => some v
      | none => loopWith chk rest := rfl

theorem loopWith_all_none {α : Type} (chk : α → Option Bool) (l : List α) (h : ∀ a, chk a = none) :
    loopWith chk l = none := by
  induction l with
  | nil => rfl
  | cons a rest ih => rw [loopWith_cons, h a]; exact ih

theorem loopWith_none_or_false {α : Type} (chk : α → Option Bool) (l : List α)
    (h : ∀ a, chk a = none ∨ chk a = some false) : loopWith chk l = none ∨ loopWith chk l = some false := by
  induction l with
  | nil => exact Or.inl rfl
  | cons a rest ih =>
    rw [loopWith_cons]
    rcases h a with h' | h' <;> rw [h']
    · exact ih
    · exact Or.inr rfl

/-- what the patterns yield on a reachable server -/
def patsValue (s : State) (u : User) (pw : Pw) : Option Bool :=
  (firstPat s).map (fun p => p == Pat.entry && holds s u pw)

theorem loopWith_patAnswer (s : State) (u : User) (pw : Pw) (l : List Pat) :
    loopWith (patAnswer s u pw) l =
      (l.find? (fun p => p != Pat.malformed)).map (fun p => p == Pat.entry && holds s u pw) := by
  induction l with
  | nil => rfl
  | cons p rest ih =>
    rw [loopWith_cons]
    have e1 : (Pat.entry != Pat.malformed) = true := by decide
    have e2 : (Pat.noEntry != Pat.malformed) = true := by decide
    have e3 : (Pat.malformed != Pat.malformed) = false := by decide
    have e4 : (Pat.noEntry == Pat.entry) = false := by decide
    cases p with
    | entry => simp [patAnswer, List.find?, e1]
    | noEntry => simp [patAnswer, List.find?, e2, e4]
    | malformed => simp only [patAnswer, ih]; simp [List.find?]

theorem inner_up (s : State) (u : User) {pw : Pw} (hpw : pw ≠ 0) :
    loopWith (fun p => checkServer s .up p u pw) s.pats = patsValue s u pw := by
  have : (fun p => checkServer s .up p u pw) = patAnswer s u pw := by
    funext p; simp [checkServer, hpw]
  rw [this, loopWith_patAnswer]; rfl

theorem inner_down (s : State) (u : User) {pw : Pw} (hpw : pw ≠ 0) :
    loopWith (fun p => checkServer s .down p u pw) s.pats = none :=
  loopWith_all_none _ _ (fun p => by simp [checkServer, hpw])

theorem inner_err (s : State) (u : User) {pw : Pw} (hpw : pw ≠ 0) :
    loopWith (fun p => checkServer s .err p u pw) s.pats = none :=
  loopWith_all_none _ _ (fun p => by simp [checkServer, hpw])

theorem outer_check (s : State) (u : User) (pw : Pw) (hpw : pw ≠ 0) (l : List Srv) :
    loopWith (fun st => loopWith (fun p => checkServer s st p u pw) s.pats) l =
      if Srv.up ∈ l then patsValue s u pw else none := by
  induction l with
  | nil => simp [loopWith]
  | cons st rest ih =>
    rw [loopWith_cons]
    cases st with
    | up =>
      simp only [inner_up s u hpw, ih]
      cases hv : patsValue s u pw <;> simp
    | down => simp only [inner_down s u hpw, ih]; simp
    | err => simp only [inner_err s u hpw, ih]; simp

theorem firstPat_of_exists {s : State} (h : ∃ p ∈ s.pats, p ≠ Pat.malformed) :
    ∃ p, firstPat s = some p ∧ p ≠ Pat.malformed := by
  unfold firstPat
  cases hf : s.pats.find? (fun p => p != Pat.malformed) with
  | none =>
    obtain ⟨p, hp, hne⟩ := h
    have := List.find?_eq_none.mp hf p hp
    simp at this
    exact absurd this hne
  | some p =>
    have := List.find?_some hf
    exact ⟨p, rfl, by simpa using this⟩

theorem firstPat_none_of_not_exists {s : State} (h : ¬ ∃ p ∈ s.pats, p ≠ Pat.malformed) : firstPat s = none := by
  unfold firstPat
  apply List.find?_eq_none.mpr
  intro p hp
  have : p = Pat.malformed := Classical.byContradiction (fun hne => h ⟨p, hp, hne⟩)
  simp [this]

theorem loop_of_answers (s : State) (u : User) (pw : Pw) (h : answers s) :
    loop s u pw = some (dirAccepts s u pw) := by
  unfold loop
  obtain ⟨hup, hex⟩ := h
  by_cases hpw : pw = 0
  · subst hpw
    cases hs : s.srv with
    | nil => rw [hs] at hup; cases hup
    | cons st rest =>
      obtain ⟨p0, hp0, _⟩ := hex
      cases hp : s.pats with
      | nil => rw [hp] at hp0; cases hp0
      | cons p prest =>
        simp [loopWith, checkServer, dirAccepts]
  · rw [outer_check s u pw hpw]
    obtain ⟨p, hfp, hne⟩ := firstPat_of_exists hex
    have hz : (pw != 0) = true := by simp [hpw]
    simp only [hup, if_true, patsValue, hfp, Option.map, dirAccepts, hz, Bool.true_and]
    simp

theorem loop_of_not_answers (s : State) (u : User) (pw : Pw) (h : ¬ answers s) :
    loop s u pw = none ∨ loop s u pw = some false := by
  unfold loop
  by_cases hpw : pw = 0
  · subst hpw
    apply loopWith_none_or_false
    intro st
    apply loopWith_none_or_false
    intro p
    right; simp [checkServer]
  · rw [outer_check s u pw hpw]
    left
    by_cases hup : Srv.up ∈ s.srv
    · have hno : ¬ ∃ p ∈ s.pats, p ≠ Pat.malformed := fun hex => h ⟨hup, hex⟩
      simp [hup, patsValue, firstPat_none_of_not_exists hno]
    · simp [hup]

theorem loop_some_true (s : State) (u : User) (pw : Pw) (h : loop s u pw = some true) :
    answers s ∧ dirAccepts s u pw = true := by
  by_cases ha : answers s
  · rw [loop_of_answers s u pw ha] at h
    exact ⟨ha, by simpa using h⟩
  · rcases loop_of_not_answers s u pw ha with h' | h' <;> rw [h'] at h <;> cases h

theorem dirAccepts_ne_zero {s : State} {u : User} {pw : Pw} (h : dirAccepts s u pw = true) : pw ≠ 0 := by
  unfold dirAccepts at h
  intro h0; subst h0; simp at h

/-! ### `GetSigned` -/

theorem checkRec_found {now : Nat} {u : User} {r : Rec} {p : Pw} (h : checkRec now u r = .found p) :
    now < r.columnExp ∧ r.sigOK = true ∧ r.signed.subject = u ∧ r.signed.type = pwType ∧
    now ≤ r.signed.exp ∧ r.signed.pwId = p := by
  unfold checkRec at h
  split at h
  · cases h
  · split at h
    · cases h
    · split at h
      · cases h
      · split at h
        · cases h
        · split at h
          · cases h
          · rename_i h1 h2 h3 h4 h5
            injection h with h
            refine ⟨by omega, ?_, by simpa using h3, by simpa using h4, by omega, h⟩
            cases hs : r.sigOK
            · exact absurd hs h2
            · rfl

theorem getSigned_found {s : State} {u : User} {p : Pw} (h : getSigned s u = .found p) :
    ∃ r, readRow s u = some r ∧ checkRec s.now u r = .found p := by
  unfold getSigned getSignedWith at h
  split at h
  · cases h
  · rename_i r hr
    exact ⟨r, hr, h⟩

theorem readRow_mem {s : State} {u : User} {r : Rec} (h : readRow s u = some r) :
    s.primary u = some r ∨ s.cache u = some r := by
  unfold readRow at h
  split at h
  · exact Or.inl h
  · exact Or.inr h

/-! ### stores -/

theorem upd_self (f : User → Option Rec) (u : User) (v : Option Rec) : upd f u v u = v := by
  simp [upd]

theorem upd_other (f : User → Option Rec) {u x : User} (v : Option Rec) (h : x ≠ u) : upd f u v x = f x := by
  simp [upd, h]

theorem upd_some {f : User → Option Rec} {u x : User} {v : Option Rec} {r : Rec}
    (h : upd f u v x = some r) : (x = u ∧ v = some r) ∨ (x ≠ u ∧ f x = some r) := by
  unfold upd at h
  split at h
  · rename_i hx; exact Or.inl ⟨hx, h⟩
  · rename_i hx; exact Or.inr ⟨hx, h⟩

theorem unexpired_some {now : Nat} {o : Option Rec} {r : Rec} (h : unexpired now o = some r) :
    o = some r ∧ now < r.columnExp := by
  unfold unexpired at h
  split at h
  · split at h
    · injection h with h; subst h; exact ⟨rfl, by omega⟩
    · cases h
  · cases h

/-! ### the invariant is preserved by every operation -/

theorem inv_init : Inv init := by
  refine ⟨?_, ?_, ?_⟩
  · intro sg h; simp [init] at h
  · intro u r h; simp [init] at h
  · intro u pw t h; simp [init] at h

theorem inv_of_same {s s' : State} (h : Inv s) (hi : s'.issued = s.issued) (hc : s'.confirmed = s.confirmed)
    (hn : s.now ≤ s'.now)
    (hr : ∀ u r, (s'.primary u = some r ∨ s'.cache u = some r) → (s.primary u = some r ∨ s.cache u = some r) ∨
        (r.sigOK = true → r.signed ∈ s.issued)) : Inv s' := by
  obtain ⟨h1, h2, h3⟩ := h
  refine ⟨?_, ?_, ?_⟩
  · intro sg hsg ht; rw [hi] at hsg; rw [hc]; exact h1 sg hsg ht
  · intro u r hrow hok
    rw [hi]
    rcases hr u r hrow with h' | h'
    · exact h2 u r h' hok
    · exact h' hok
  · intro u pw t hm; rw [hc] at hm
    have := h3 u pw t hm
    exact ⟨this.1, by omega⟩

theorem inv_delete {s : State} (h : Inv s) (u : User) : Inv (delete s u) := by
  refine inv_of_same h rfl rfl (Nat.le_refl _) ?_
  intro x r hrow
  left
  unfold delete at hrow
  rcases hrow with hp | hc
  · simp only at hp
    split at hp
    · rcases upd_some hp with ⟨_, hv⟩ | ⟨_, hv⟩
      · cases hv
      · exact Or.inl hv
    · exact Or.inl hp
  · exact Or.inr hc

theorem inv_login_accept {s : State} (h : Inv s) (u : User) (pw : Pw) (hpw : pw ≠ 0) :
    Inv { upsert s u pw with confirmed := (u, pw, s.now) :: s.confirmed } := by
  obtain ⟨h1, h2, h3⟩ := h
  refine ⟨?_, ?_, ?_⟩
  · intro sg hsg ht
    simp only [upsert, List.mem_cons] at hsg
    rcases hsg with rfl | hsg
    · exact ⟨s.now, by simp [freshSigned], by simp [freshSigned]⟩
    · obtain ⟨t, hm, he⟩ := h1 sg hsg ht
      exact ⟨t, List.mem_cons_of_mem _ hm, he⟩
  · intro x r hrow hok
    simp only [upsert] at hrow ⊢
    rcases hrow with hp | hc
    · split at hp
      · rcases upd_some hp with ⟨_, hv⟩ | ⟨_, hv⟩
        · injection hv with hv; subst hv; simp [freshRec]
        · exact List.mem_cons_of_mem _ (h2 x r (Or.inl hv) hok)
      · exact List.mem_cons_of_mem _ (h2 x r (Or.inl hp) hok)
    · exact List.mem_cons_of_mem _ (h2 x r (Or.inr hc) hok)
  · intro x p t hm
    simp only [upsert, List.mem_cons] at hm ⊢
    rcases hm with heq | hm
    · injection heq with h1' h2'; injection h2' with h2' h3'
      subst h2'; subst h3'
      exact ⟨hpw, Nat.le_refl _⟩
    · exact h3 x p t hm

theorem inv_login {s : State} (h : Inv s) (u : User) (pw : Pw) : Inv (login s u pw).1 := by
  unfold login loginWith
  split
  · rename_i hl
    exact inv_login_accept h u pw (dirAccepts_ne_zero (loop_some_true s u pw hl).2)
  · split
    · split
      · exact inv_delete h u
      · exact h
    · exact h
  · split <;> exact h

theorem inv_sync {s : State} (h : Inv s) : Inv (sync s) := by
  unfold sync
  split
  · exact h
  · refine inv_of_same h rfl rfl (Nat.le_refl _) ?_
    intro u r hrow
    left
    rcases hrow with hp | hc
    · exact Or.inl hp
    · exact Or.inl (unexpired_some hc).1

theorem coerce_ok {s : State} {r : Rec} (h : (coerce s r).sigOK = true) : (coerce s r).signed ∈ s.issued := by
  simp only [coerce, Bool.and_eq_true] at h ⊢
  exact List.contains_iff_mem.mp h.2

theorem inv_tamper_row {s : State} {f : User → Option Rec} {u x : User} {o : Option Rec} {r : Rec}
    (hp : upd f u (o.map (coerce s)) x = some r) : f x = some r ∨ (r.sigOK = true → r.signed ∈ s.issued) := by
  rcases upd_some hp with ⟨_, hv⟩ | ⟨_, hv⟩
  · right
    cases o with
    | none => cases hv
    | some r0 =>
      simp only [Option.map] at hv
      injection hv with hv; subst hv
      exact coerce_ok
  · exact Or.inl hv

theorem inv_step {s : State} (h : Inv s) (op : Op) : Inv (step s op) := by
  cases op with
  | login u pw => exact inv_login h u pw
  | setServer i st => exact inv_of_same h rfl rfl (Nat.le_refl _) (fun _ _ hr => Or.inl hr)
  | setServers l => exact inv_of_same h rfl rfl (Nat.le_refl _) (fun _ _ hr => Or.inl hr)
  | setPats l => exact inv_of_same h rfl rfl (Nat.le_refl _) (fun _ _ hr => Or.inl hr)
  | changePw u pw => exact inv_of_same h rfl rfl (Nat.le_refl _) (fun _ _ hr => Or.inl hr)
  | setAccount u ok => exact inv_of_same h rfl rfl (Nat.le_refl _) (fun _ _ hr => Or.inl hr)
  | setAnon b => exact inv_of_same h rfl rfl (Nat.le_refl _) (fun _ _ hr => Or.inl hr)
  | advance dt => exact inv_of_same h rfl rfl (Nat.le_add_right _ _) (fun _ _ hr => Or.inl hr)
  | setPrim p => exact inv_of_same h rfl rfl (Nat.le_refl _) (fun _ _ hr => Or.inl hr)
  | sync => exact inv_sync h
  | tamper st u o =>
    cases st with
    | primary =>
      refine inv_of_same h rfl rfl (Nat.le_refl _) ?_
      intro x r hrow
      rcases hrow with hp | hc
      · rcases inv_tamper_row hp with h' | h'
        · exact Or.inl (Or.inl h')
        · exact Or.inr h'
      · exact Or.inl (Or.inr hc)
    | cache =>
      refine inv_of_same h rfl rfl (Nat.le_refl _) ?_
      intro x r hrow
      rcases hrow with hp | hc
      · exact Or.inl (Or.inl hp)
      · rcases inv_tamper_row hc with h' | h'
        · exact Or.inl (Or.inr h')
        · exact Or.inr h'
  | signOther sg =>
    show Inv (if sg.type = pwType then s else { s with issued := sg :: s.issued })
    split
    · exact h
    · rename_i hty
      obtain ⟨h1, h2, h3⟩ := h
      refine ⟨?_, ?_, h3⟩
      · intro sg' hsg ht
        simp only [List.mem_cons] at hsg
        rcases hsg with rfl | hsg
        · exact absurd ht hty
        · exact h1 sg' hsg ht
      · intro u r hrow hok
        exact List.mem_cons_of_mem _ (h2 u r hrow hok)

theorem inv_run {s : State} (h : Inv s) (ops : List Op) : Inv (run s ops) := by
  induction ops generalizing s with
  | nil => exact h
  | cons op rest ih => exact ih (inv_step h op)

end KM.PwCache
