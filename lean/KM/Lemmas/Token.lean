import KM.Model.Token
/-! Helper lemmas about `KM.Token` (nothing here is a property obligation). -/
namespace KM.Token
open KM.Gen.C04

/-! ### decoding -/

theorem gInt_range (w : Wire) (f : Field) : inI64 (gInt w f) = true := by
  unfold gInt decInt
  split <;> try (simp [inI64])
  split <;> simp_all

theorem inI64_bounds {i : Int} (h : inI64 i = true) :
    -9223372036854775808 ≤ i ∧ i ≤ 9223372036854775807 := by
  simpa [inI64] using h

theorem set_same (w : Wire) (f : Field) (v : Option Val) : (w.set f v) f = v := by
  simp [Wire.set]

theorem set_other (w : Wire) {f g : Field} (v : Option Val) (h : g ≠ f) : (w.set f v) g = w g := by
  simp [Wire.set, h]

theorem gStr_set_other (w : Wire) {f g : Field} (v : Option Val) (h : g ≠ f) :
    gStr (w.set f v) g = gStr w g := by simp [gStr, set_other w v h]

theorem gInt_set_other (w : Wire) {f g : Field} (v : Option Val) (h : g ≠ f) :
    gInt (w.set f v) g = gInt w g := by simp [gInt, set_other w v h]

theorem gStrs_set_other (w : Wire) {f g : Field} (v : Option Val) (h : g ≠ f) :
    gStrs (w.set f v) g = gStrs w g := by simp [gStrs, set_other w v h]

theorem okStr_set_other (w : Wire) {f g : Field} (v : Option Val) (h : g ≠ f) :
    okStr (w.set f v) g = okStr w g := by simp [okStr, set_other w v h]

theorem okInt_set_other (w : Wire) {f g : Field} (v : Option Val) (h : g ≠ f) :
    okInt (w.set f v) g = okInt w g := by simp [okInt, set_other w v h]

theorem okStrs_set_other (w : Wire) {f g : Field} (v : Option Val) (h : g ≠ f) :
    okStrs (w.set f v) g = okStrs w g := by simp [okStrs, set_other w v h]

/-! ### time -/

theorem not_expired_ge {e : Int} {now : Clock} (hr : inI64 e = true) (hn : 0 ≤ now.sec)
    (h : expiredAt e now = false) : now.sec ≤ e := by
  have hb := inI64_bounds hr
  simp only [expiredAt, Bool.or_eq_false_iff, decide_eq_false_iff_not, Int.not_lt] at h
  have h1 := h.1
  unfold unixInternal wrap64 at h1
  omega

theorem expired_of_lt {e : Int} {now : Clock} (hr : inI64 e = true) (hn : 0 ≤ now.sec)
    (h : e < now.sec) : expiredAt e now = true := by
  have hb := inI64_bounds hr
  simp only [expiredAt, Bool.or_eq_true, decide_eq_true_eq]
  left
  unfold unixInternal wrap64
  omega

/-! ### signatures -/

theorem verifies_signed {d : Deployment} {a : Artefact} (h : verifies d a = true) :
    signedByDeployment d a = true := by
  unfold verifies at h
  split at h
  · cases h
  · simp only [Bool.and_eq_true] at h
    exact h.2

theorem not_signed_not_verifies {d : Deployment} {a : Artefact} (h : signedByDeployment d a = false) :
    verifies d a = false := by
  cases hv : verifies d a
  · rfl
  · rw [verifies_signed hv] at h; cases h

/-- the allowed list is exactly the trusted keys' own algorithms -/
theorem allowed_mem {d : Deployment} {l : List Alg} (h : allowed d = some l) (al : Alg) :
    al ∈ l ↔ ∃ k ∈ d.trusted, algOf k.ty = some al := by
  unfold allowed at h
  generalize d.trusted = ks at h
  induction ks generalizing l with
  | nil => simp at h; subst h; simp
  | cons k ks ih =>
    simp only [List.foldr_cons] at h
    split at h
    · rename_i a l' ha hl'
      cases h
      have := ih hl'
      simp only [List.mem_cons, this]
      constructor
      · rintro (rfl | ⟨k', hk', hal⟩)
        · exact ⟨k, Or.inl rfl, ha⟩
        · exact ⟨k', Or.inr hk', hal⟩
      · rintro ⟨k', hk', hal⟩
        rcases hk' with rfl | hk'
        · left; rw [ha] at hal; injection hal with hal; exact hal.symm
        · right; exact ⟨k', hk', hal⟩
    · cases h

/-! ### the value test shared by session / CLI / storage tokens -/

theorem authValues_ok {d : Deployment} {now : Clock} {want : Str} {w : Wire}
    (h : authValuesBad d now want w = false) :
    gStr w .iss = d.issuer ∧ gStr w .tokenType = want ∧ (gStrs w .aud).head? = some d.issuer ∧
    gInt w .nbf ≤ now.sec := by
  simp only [authValuesBad, Bool.or_eq_false_iff, bne_eq_false_iff_eq, decide_eq_false_iff_not,
    Int.not_lt, Nat.not_lt] at h
  obtain ⟨⟨⟨⟨h1, h2⟩, _⟩, h4⟩, h5⟩ := h
  exact ⟨h1, h2, h4, by omega⟩

theorem head_mem_contains {l : List Str} {s : Str} (h : l.head? = some s) : l.contains s = true := by
  cases l with
  | nil => cases h
  | cons a as => simp at h; subst h; simp

/-! ### unpacking accepted calls -/

theorem getAuthInfo_ok {d : Deployment} {now : Clock} {want : Str} {a : Artefact} {info : AuthInfo}
    (h : getAuthInfoFromJWT d now want a = .ok info) :
    verifies d a = true ∧ typedAuth a.claims = true ∧ authValuesBad d now want a.claims = false ∧
    info = { username := gStr a.claims .sub, authType := gInt a.claims .authType,
             expiresAt := gInt a.claims .exp, issuedAt := gInt a.claims .iat } := by
  unfold getAuthInfoFromJWT at h
  split at h
  · cases h
  · split at h
    · cases h
    · split at h
      · cases h
      · rename_i h1 h2 h3
        injection h with h
        simp only [Bool.not_eq_true', Bool.not_eq_false] at h1 h2
        refine ⟨by simpa using h1, by simpa using h2, by simpa using h3, h.symm⟩

theorem storageVerify_ok {d : Deployment} {now : Clock} {a : Artefact}
    (h : storageVerify d now a = .ok ()) :
    verifies d a = true ∧ typedStorage a.claims = true ∧ authValuesBad d now storageType a.claims = false := by
  unfold storageVerify at h
  split at h
  · cases h
  · split at h
    · cases h
    · split at h
      · cases h
      · rename_i h1 h2 h3
        exact ⟨by simpa using h1, by simpa using h2, by simpa using h3⟩

theorem isOk_iff {ε α} {r : Except ε α} : isOk r = true ↔ ∃ v, r = .ok v := by
  cases r <;> simp [isOk]

theorem acceptSession_ok {d : Deployment} {now : Clock} {req : Nat} {a : Artefact} {info : AuthInfo}
    (h : acceptSession d now req a = .ok info) :
    getAuthInfoFromJWT d now want_getAuthInfoFromAuthJWT a = .ok info ∧
    expiredAt info.expiresAt now = false ∧ (levelBits info.authType &&& req) ≠ 0 := by
  unfold acceptSession at h
  split at h
  · cases h
  · rename_i i hi
    split at h
    · cases h
    · split at h
      · cases h
      · rename_i h1 h2
        injection h with h
        subst h
        exact ⟨hi, by simpa using h1, by simpa using h2⟩

theorem acceptCliVerify_ok {d : Deployment} {now : Clock} {a : Artefact} {info : AuthInfo}
    (h : acceptCliVerify d now a = .ok info) :
    getAuthInfoFromJWT d now want_VerifyAuthTokenHandler a = .ok info ∧ expiredAt info.expiresAt now = false := by
  unfold acceptCliVerify at h
  split at h
  · cases h
  · rename_i i hi
    split at h
    · cases h
    · rename_i h1
      injection h with h
      subst h
      exact ⟨hi, by simpa using h1⟩

theorem acceptCliSend_ok {d : Deployment} {now : Clock} {u : Str} {a : Artefact} {info : AuthInfo}
    (h : acceptCliSend d now u a = .ok info) :
    getAuthInfoFromJWT d now want_SendAuthDocumentHandler a = .ok info ∧ info.username = u ∧
    expiredAt info.expiresAt now = false := by
  unfold acceptCliSend at h
  split at h
  · cases h
  · rename_i i hi
    split at h
    · cases h
    · split at h
      · cases h
      · rename_i h1 h2
        injection h with h
        subst h
        exact ⟨hi, by simpa using h1, by simpa using h2⟩

theorem acceptUpgrade_ok {d : Deployment} {now : Clock} {lvl : Int} {a : Artefact} {c : AuthClaims}
    (h : acceptUpgrade d now lvl a = .ok c) :
    verifies d a = true ∧ typedAuth a.claims = true ∧ authValuesBad d now sessionType a.claims = false ∧
    c = { decodeAuth a.claims with authType := lvl } := by
  unfold acceptUpgrade at h
  split at h
  · cases h
  · split at h
    · cases h
    · split at h
      · cases h
      · rename_i h1 h2 h3
        injection h with h
        exact ⟨by simpa using h1, by simpa using h2, by simpa using h3, h.symm⟩

theorem acceptStorage_ok {d : Deployment} {now : Clock} {r : Row} {u : Str} {ty : Int} {data : Str}
    (h : acceptStorage d now (some r) u ty = .ok data) :
    sqlMatch now r u ty = true ∧ storageVerify d now r.jws = .ok () ∧ gStr r.jws.claims .sub = u ∧
    gInt r.jws.claims .dataType = ty ∧ now.sec ≤ gInt r.jws.claims .exp ∧ data = gStr r.jws.claims .data := by
  simp only [acceptStorage] at h
  split at h
  · cases h
  · rename_i h0
    split at h
    · cases h
    · rename_i hv
      split at h
      · cases h
      · split at h
        · cases h
        · split at h
          · cases h
          · rename_i h1 h2 h3
            injection h with h
            refine ⟨by simpa using h0, hv, by simpa using h1, by simpa using h2, ?_, h.symm⟩
            simpa using h3

theorem codeChecks_ok {now : Clock} {cl rd : Str} {w : Wire} (h : codeChecks now cl rd w = .ok ()) :
    gStr w .sub = cl ∧ now.sec ≤ gInt w .exp ∧ gStr w .redirectUri = rd ∧ gStr w .typ = codeType := by
  unfold codeChecks at h
  split at h
  · cases h
  · split at h
    · cases h
    · split at h
      · cases h
      · split at h
        · cases h
        · rename_i h1 h2 h3 h4
          refine ⟨?_, by simpa using h2, by simpa using h3, by simpa using h4⟩
          have : cl = gStr w .sub := by simpa using h1
          exact this.symm

theorem acceptCode_ok {d : Deployment} {now : Clock} {cl rd : Str} {ok : Bool} {a : Artefact} {w : Wire}
    (h : acceptCode d now cl rd ok a = .ok w) :
    verifies d a = true ∧ typedCode a.claims = true ∧ ok = true ∧ codeChecks now cl rd a.claims = .ok () ∧
    w = a.claims := by
  unfold acceptCode at h
  split at h
  · cases h
  · split at h
    · cases h
    · split at h
      · cases h
      · split at h
        · cases h
        · rename_i h1 h2 h3 _ hc
          injection h with h
          exact ⟨by simpa using h1, by simpa using h2, by simpa using h3, hc, h.symm⟩

theorem acceptAccess_ok {d : Deployment} {now : Clock} {a : Artefact} {u : Str}
    (h : acceptAccess d now a = .ok u) :
    verifies d a = true ∧ typedAccess a.claims = true ∧ now.sec ≤ gInt a.claims .exp ∧
    gStr a.claims .typ = accessType ∧ gStr a.claims .iss = d.issuer ∧
    ((gStrs a.claims .aud) = [] ∨ (gStrs a.claims .aud).contains d.userinfoURL = true) ∧
    u = gStr a.claims .username := by
  unfold acceptAccess at h
  split at h
  · cases h
  · split at h
    · cases h
    · split at h
      · cases h
      · split at h
        · cases h
        · split at h
          · cases h
          · split at h
            · cases h
            · rename_i h1 h2 h3 h4 h5 h6
              injection h with h
              refine ⟨by simpa using h1, by simpa using h2, by simpa using h3, by simpa using h4,
                by simpa using h5, ?_, h.symm⟩
              simp only [Bool.and_eq_true, decide_eq_true_eq, Bool.not_eq_true', not_and,
                Bool.not_eq_false] at h6
              cases hl : gStrs a.claims .aud with
              | nil => left; rfl
              | cons x xs =>
                right
                rw [hl] at h6
                exact h6 (by simp)

/-! ### a consumer sees the claims object only through the keys of its own struct -/

theorem gStr_congr {w w' : Wire} {f : Field} (h : w' f = w f) : gStr w' f = gStr w f := by unfold gStr; rw [h]
theorem gInt_congr {w w' : Wire} {f : Field} (h : w' f = w f) : gInt w' f = gInt w f := by unfold gInt; rw [h]
theorem gStrs_congr {w w' : Wire} {f : Field} (h : w' f = w f) : gStrs w' f = gStrs w f := by unfold gStrs; rw [h]
theorem okStr_congr {w w' : Wire} {f : Field} (h : w' f = w f) : okStr w' f = okStr w f := by unfold okStr; rw [h]
theorem okInt_congr {w w' : Wire} {f : Field} (h : w' f = w f) : okInt w' f = okInt w f := by unfold okInt; rw [h]
theorem okStrs_congr {w w' : Wire} {f : Field} (h : w' f = w f) : okStrs w' f = okStrs w f := by unfold okStrs; rw [h]

theorem authValuesBad_congr {w w' : Wire} (d : Deployment) (now : Clock) (want : Str)
    (h1 : w' .iss = w .iss) (h3 : w' .aud = w .aud) (h5 : w' .nbf = w .nbf) (h7 : w' .tokenType = w .tokenType) :
    authValuesBad d now want w' = authValuesBad d now want w := by
  unfold authValuesBad
  rw [gStr_congr h1, gStr_congr h7, gStrs_congr h3, gInt_congr h5]

theorem typedAuth_congr {w w' : Wire}
    (h1 : w' .iss = w .iss) (h2 : w' .sub = w .sub) (h3 : w' .aud = w .aud)
    (h4 : w' .exp = w .exp) (h5 : w' .nbf = w .nbf) (h6 : w' .iat = w .iat)
    (h7 : w' .tokenType = w .tokenType) (h8 : w' .authType = w .authType) : typedAuth w' = typedAuth w := by
  unfold typedAuth
  rw [okStr_congr h1, okStr_congr h2, okStrs_congr h3, okInt_congr h4, okInt_congr h5, okInt_congr h6,
    okStr_congr h7, okInt_congr h8]

theorem getAuthInfo_congr (d : Deployment) (now : Clock) (want : Str) (a : Artefact) (w' : Wire)
    (h1 : w' .iss = a.claims .iss) (h2 : w' .sub = a.claims .sub) (h3 : w' .aud = a.claims .aud)
    (h4 : w' .exp = a.claims .exp) (h5 : w' .nbf = a.claims .nbf) (h6 : w' .iat = a.claims .iat)
    (h7 : w' .tokenType = a.claims .tokenType) (h8 : w' .authType = a.claims .authType) :
    getAuthInfoFromJWT d now want { a with claims := w' } = getAuthInfoFromJWT d now want a := by
  have vv : verifies d { a with claims := w' } = verifies d a := rfl
  unfold getAuthInfoFromJWT
  simp only
  rw [vv, typedAuth_congr h1 h2 h3 h4 h5 h6 h7 h8, authValuesBad_congr d now want h1 h3 h5 h7,
    gStr_congr h2, gInt_congr h8, gInt_congr h4, gInt_congr h6]

theorem acceptUpgrade_congr (d : Deployment) (now : Clock) (lvl : Int) (a : Artefact) (w' : Wire)
    (h1 : w' .iss = a.claims .iss) (h2 : w' .sub = a.claims .sub) (h3 : w' .aud = a.claims .aud)
    (h4 : w' .exp = a.claims .exp) (h5 : w' .nbf = a.claims .nbf) (h6 : w' .iat = a.claims .iat)
    (h7 : w' .tokenType = a.claims .tokenType) (h8 : w' .authType = a.claims .authType) :
    acceptUpgrade d now lvl { a with claims := w' } = acceptUpgrade d now lvl a := by
  have vv : verifies d { a with claims := w' } = verifies d a := rfl
  unfold acceptUpgrade decodeAuth
  simp only
  rw [vv, typedAuth_congr h1 h2 h3 h4 h5 h6 h7 h8, authValuesBad_congr d now sessionType h1 h3 h5 h7,
    gStr_congr h1, gStr_congr h2, gStrs_congr h3, gInt_congr h4, gInt_congr h5, gInt_congr h6, gStr_congr h7]

theorem storageVerify_congr (d : Deployment) (now : Clock) (a : Artefact) (w' : Wire)
    (h1 : w' .iss = a.claims .iss) (h2 : w' .sub = a.claims .sub) (h3 : w' .aud = a.claims .aud)
    (h4 : w' .nbf = a.claims .nbf) (h5 : w' .exp = a.claims .exp) (h6 : w' .iat = a.claims .iat)
    (h7 : w' .tokenType = a.claims .tokenType) (h8 : w' .dataType = a.claims .dataType)
    (h9 : w' .data = a.claims .data) :
    storageVerify d now { a with claims := w' } = storageVerify d now a := by
  have vv : verifies d { a with claims := w' } = verifies d a := rfl
  have t : typedStorage w' = typedStorage a.claims := by
    unfold typedStorage
    rw [okStr_congr h1, okStr_congr h2, okStrs_congr h3, okInt_congr h4, okInt_congr h5, okInt_congr h6,
      okStr_congr h7, okInt_congr h8, okStr_congr h9]
  unfold storageVerify
  simp only
  rw [vv, t, authValuesBad_congr d now storageType h1 h3 h4 h7]

theorem acceptStorage_congr (d : Deployment) (now : Clock) (r : Row) (u : Str) (ty : Int) (w' : Wire)
    (h1 : w' .iss = r.jws.claims .iss) (h2 : w' .sub = r.jws.claims .sub) (h3 : w' .aud = r.jws.claims .aud)
    (h4 : w' .nbf = r.jws.claims .nbf) (h5 : w' .exp = r.jws.claims .exp) (h6 : w' .iat = r.jws.claims .iat)
    (h7 : w' .tokenType = r.jws.claims .tokenType) (h8 : w' .dataType = r.jws.claims .dataType)
    (h9 : w' .data = r.jws.claims .data) :
    acceptStorage d now (some { r with jws := { r.jws with claims := w' } }) u ty = acceptStorage d now (some r) u ty := by
  have sm : sqlMatch now { r with jws := { r.jws with claims := w' } } u ty = sqlMatch now r u ty := rfl
  simp only [acceptStorage]
  rw [sm, storageVerify_congr d now r.jws w' h1 h2 h3 h4 h5 h6 h7 h8 h9, gStr_congr h2, gInt_congr h8,
    gInt_congr h5, gStr_congr h9]

theorem acceptCode_congr (d : Deployment) (now : Clock) (cl rd : Str) (ok : Bool) (a : Artefact) (w' : Wire)
    (h : ∀ g ∈ [Field.iss, .sub, .iat, .exp, .aud, .username, .authLevel, .authExp, .nonce, .redirectUri,
                .accessAudience, .scope, .typ, .jti, .protectedDataKey, .protectedData], w' g = a.claims g) :
    isOk (acceptCode d now cl rd ok { a with claims := w' }) = isOk (acceptCode d now cl rd ok a) := by
  have vv : verifies d { a with claims := w' } = verifies d a := rfl
  simp only [List.forall_mem_cons, List.not_mem_nil, false_imp_iff, implies_true, and_true] at h
  obtain ⟨h1, h2, h3, h4, h5, h6, h7, h8, h9, h10, h11, h12, h13, h14, h15, h16⟩ := h
  have t : typedCode w' = typedCode a.claims := by
    unfold typedCode
    rw [okStr_congr h1, okStr_congr h2, okInt_congr h3, okInt_congr h4, okStrs_congr h5, okStr_congr h6,
      okInt_congr h7, okInt_congr h8, okStr_congr h9, okStr_congr h10, okStrs_congr h11, okStr_congr h12,
      okStr_congr h13, okStr_congr h14, okStr_congr h15, okStr_congr h16]
  have cc : codeChecks now cl rd w' = codeChecks now cl rd a.claims := by
    unfold codeChecks
    rw [gStr_congr h2, gInt_congr h4, gStr_congr h10, gStr_congr h13]
  unfold acceptCode
  simp only
  rw [vv, t, cc]
  split
  · rfl
  · split
    · rfl
    · split
      · rfl
      · split <;> rfl

theorem acceptAccess_congr (d : Deployment) (now : Clock) (a : Artefact) (w' : Wire)
    (h1 : w' .iss = a.claims .iss) (h2 : w' .aud = a.claims .aud) (h3 : w' .username = a.claims .username)
    (h4 : w' .scope = a.claims .scope) (h5 : w' .exp = a.claims .exp) (h6 : w' .iat = a.claims .iat)
    (h7 : w' .typ = a.claims .typ) :
    acceptAccess d now { a with claims := w' } = acceptAccess d now a := by
  have vv : verifies d { a with claims := w' } = verifies d a := rfl
  have t : typedAccess w' = typedAccess a.claims := by
    unfold typedAccess
    rw [okStr_congr h1, okStrs_congr h2, okStr_congr h3, okStr_congr h4, okInt_congr h5, okInt_congr h6,
      okStr_congr h7]
  unfold acceptAccess
  simp only
  rw [vv, t, gInt_congr h5, gStr_congr h7, gStr_congr h1, gStrs_congr h2, gStr_congr h3]

end KM.Token
