import KM.Model.Admin
/-! Helper lemmas for property C08 (nothing here is counted as an obligation). -/
namespace KM.Admin

/-- the administrator predicate of the property text: configured by name, or the directory
answers and places the user in a configured admin group -/
def IsAdmin (cfg : Cfg) (groups : Groups) (u : Name) : Prop :=
  u ∈ cfg.adminUsers ∨ ∃ gs, groups u = some gs ∧ ∃ g, g ∈ cfg.adminGroups ∧ g ∈ gs

/-- configured automation identity: by name, or the directory answers and places it in a
configured automation group -/
def IsAutomationIdentity (cfg : Cfg) (groups : Groups) (r : Name) : Prop :=
  r ∈ cfg.automationUsers ∨ ∃ gs, groups r = some gs ∧ ∃ g, g ∈ cfg.automationUserGroups ∧ g ∈ gs

theorem getD_false_eq (o : Option Bool) : o.getD false = (o == some true) := by
  cases o with
  | none => rfl
  | some b => cases b <;> rfl

theorem isAdminFresh_eq (cfg : Cfg) (groups : Groups) (u : Name) :
    isAdminFresh cfg groups u = isAdmin cfg groups u := by
  unfold isAdminFresh isAdmin
  exact getD_false_eq _

theorem any_contains_iff (l gs : List Name) :
    l.any (fun g => gs.contains g) = true ↔ ∃ g, g ∈ l ∧ g ∈ gs := by
  simp [List.any_eq_true]

theorem isAdmin_iff (cfg : Cfg) (groups : Groups) (u : Name) :
    isAdmin cfg groups u = true ↔ IsAdmin cfg groups u := by
  unfold isAdmin adminVerdict IsAdmin
  by_cases h1 : cfg.adminUsers.contains u = true
  · simp only [h1, if_true]
    constructor
    · intro _; exact Or.inl (by simpa using h1)
    · intro _; rfl
  · have h1' : u ∉ cfg.adminUsers := by simpa using h1
    simp only [h1]
    by_cases h2 : cfg.adminGroups.isEmpty = true
    · simp only [h2, if_true]
      have he : cfg.adminGroups = [] := by simpa using h2
      constructor
      · intro h; cases h
      · intro h
        rcases h with h | ⟨gs, _, g, hg, _⟩
        · exact absurd h h1'
        · rw [he] at hg; cases hg
    · simp only [h2]
      cases hg : groups u with
      | none =>
        constructor
        · intro h; cases h
        · intro h
          rcases h with h | ⟨gs, hgs, _⟩
          · exact absurd h h1'
          · cases hgs
      | some gs =>
        constructor
        · intro h
          have : cfg.adminGroups.any (fun g => gs.contains g) = true := by
            simpa using h
          exact Or.inr ⟨gs, rfl, (any_contains_iff _ _).mp this⟩
        · intro h
          rcases h with h | ⟨gs', hgs, hex⟩
          · exact absurd h h1'
          · cases hgs
            simpa using hex

theorem isAutomationIdentity_iff (cfg : Cfg) (groups : Groups) (r : Name) :
    isAutomationIdentity cfg groups r = true ↔ IsAutomationIdentity cfg groups r := by
  unfold isAutomationIdentity automationUser IsAutomationIdentity
  by_cases h1 : cfg.automationUsers.contains r = true
  · simp only [h1, if_true]
    constructor
    · intro _; exact Or.inl (by simpa using h1)
    · intro _; rfl
  · have h1' : r ∉ cfg.automationUsers := by simpa using h1
    simp only [h1]
    cases hg : groups r with
    | none =>
      constructor
      · intro h; cases h
      · intro h
        rcases h with h | ⟨gs, hgs, _⟩
        · exact absurd h h1'
        · cases hgs
    | some gs =>
      constructor
      · intro h
        have : cfg.automationUserGroups.any (fun g => gs.contains g) = true := by
          simpa using h
        exact Or.inr ⟨gs, rfl, (any_contains_iff _ _).mp this⟩
      · intro h
        rcases h with h | ⟨gs', hgs, hex⟩
        · exact absurd h h1'
        · cases hgs
          simpa using hex

/-- the U2F bit of the generated constants is bit 3 -/
theorem u2fBit_iff (level : Nat) : u2fBit level = true ↔ level.testBit 3 = true := by
  unfold u2fBit
  have h8 : KM.Gen.authTypeU2F = 2 ^ 3 := by decide
  rw [h8]
  constructor
  · intro h
    have hne : level &&& 2 ^ 3 ≠ 0 := by simpa using h
    cases hb : level.testBit 3 with
    | true => rfl
    | false =>
      exfalso
      apply hne
      apply Nat.eq_of_testBit_eq
      intro i
      rw [Nat.testBit_and, Nat.testBit_two_pow, Nat.zero_testBit]
      by_cases hi : 3 = i
      · subst hi; simp [hb]
      · simp [hi]
  · intro h
    have : (level &&& 2 ^ 3).testBit 3 = true := by
      rw [Nat.testBit_and, Nat.testBit_two_pow]; simp [h]
    have hne : level &&& 2 ^ 3 ≠ 0 := by
      intro h0; rw [h0, Nat.zero_testBit] at this; cases this
    simpa using hne

/-! ### decisions of the individual gates -/

theorem gateToken_pass {actor : Name} {level : Nat} {target : Name} {adminV : Bool} {eff : Name}
    (h : gateToken actor level target adminV = .pass eff) :
    eff = target ∧ (target = actor ∨ (adminV = true ∧ u2fBit level = true)) := by
  unfold gateToken at h
  split at h
  · cases h
  · rename_i hc
    injection h with h
    refine ⟨h.symm, ?_⟩
    by_cases ht : target = actor
    · exact Or.inl ht
    · right
      have : adminAndU2F adminV level = true := by
        cases ha : adminAndU2F adminV level with
        | true => rfl
        | false => exfalso; apply hc; simp [ha, ht]
      unfold adminAndU2F at this
      simpa using this

theorem gateProfile_pass {actor target : Name} {adminV : Bool} {eff : Name}
    (h : gateProfile actor target adminV = .pass eff) :
    (target = [] ∧ eff = actor) ∨ (target ≠ [] ∧ eff = target ∧ adminV = true) := by
  unfold gateProfile at h
  split at h
  · rename_i ht; injection h with h; exact Or.inl ⟨ht, h.symm⟩
  · rename_i ht
    split at h
    · cases h
    · rename_i ha
      injection h with h
      exact Or.inr ⟨ht, h.symm, by simpa using ha⟩

theorem gateAdmin_pass {target : Name} {adminV : Bool} {eff : Name}
    (h : gateAdmin target adminV = .pass eff) : eff = target ∧ adminV = true := by
  unfold gateAdmin at h
  split at h
  · cases h
  · rename_i ha; injection h with h; exact ⟨h.symm, by simpa using ha⟩

theorem gateRole_pass {cfg : Cfg} {actor target : Name} {adminV : Bool} {autoV : Option Bool}
    {eff : Name} (h : gateRole cfg actor target adminV autoV = .pass eff) :
    eff = target ∧ target ≠ [] ∧ (adminV = true ∨ actor ∈ cfg.automationAdmins) ∧ autoV = some true := by
  unfold gateRole at h
  split at h
  · cases h
  · rename_i ha
    split at h
    · cases h
    · rename_i ht
      split at h
      · cases h
      · cases h
      · injection h with h
        refine ⟨h.symm, ht, ?_, rfl⟩
        cases adminV with
        | true => exact Or.inl rfl
        | false => right; simpa [automationAdmin] using ha

/-! ### the cache invariant -/

/-- what is known about a verdict handed out at `r.t` -/
def GoodRet (maxDur : Nat) (cs : List Consult) (r : Ret) : Prop :=
  match r.origin with
  | none => r.verdict = false ∧ ∃ t'', t'' ≤ r.t ∧ (⟨t'', r.user, none⟩ : Consult) ∈ cs
  | some t' =>
    t' ≤ r.t ∧ (⟨t', r.user, some r.verdict⟩ : Consult) ∈ cs ∧
      (r.t - t' < maxDur ∨
        ∃ t'', t' ≤ t'' ∧ t'' ≤ r.t ∧ r.t - t'' < maxDur ∧ (⟨t'', r.user, none⟩ : Consult) ∈ cs)

def GoodEntry (now : Nat) (cs : List Consult) (u : Name) (e : Entry) : Prop :=
  e.ts ≤ now ∧
  match e.origin with
  | none => e.isAdmin = false ∧ (⟨e.ts, u, none⟩ : Consult) ∈ cs
  | some t' =>
    t' ≤ e.ts ∧ (⟨t', u, some e.isAdmin⟩ : Consult) ∈ cs ∧
      (e.ts = t' ∨ (⟨e.ts, u, none⟩ : Consult) ∈ cs)

structure Inv (maxDur : Nat) (s : CState) : Prop where
  entries : ∀ u e, s.cache u = some e → GoodEntry s.now s.consults u e
  rets : ∀ r, r ∈ s.rets → GoodRet maxDur s.consults r

theorem GoodRet.mono {maxDur : Nat} {cs : List Consult} {r : Ret} (c : Consult)
    (h : GoodRet maxDur cs r) : GoodRet maxDur (c :: cs) r := by
  unfold GoodRet at *
  cases ho : r.origin with
  | none =>
    rw [ho] at h
    obtain ⟨h1, t'', h2, h3⟩ := h
    exact ⟨h1, t'', h2, List.mem_cons_of_mem _ h3⟩
  | some t' =>
    rw [ho] at h
    obtain ⟨h1, h2, h3⟩ := h
    refine ⟨h1, List.mem_cons_of_mem _ h2, ?_⟩
    rcases h3 with h3 | ⟨t'', a, b, c', d⟩
    · exact Or.inl h3
    · exact Or.inr ⟨t'', a, b, c', List.mem_cons_of_mem _ d⟩

theorem GoodEntry.mono {now : Nat} {cs : List Consult} {u : Name} {e : Entry} (c : Consult)
    (h : GoodEntry now cs u e) : GoodEntry now (c :: cs) u e := by
  unfold GoodEntry at *
  refine ⟨h.1, ?_⟩
  have h2 := h.2
  cases ho : e.origin with
  | none =>
    rw [ho] at h2
    exact ⟨h2.1, List.mem_cons_of_mem _ h2.2⟩
  | some t' =>
    rw [ho] at h2
    obtain ⟨a, b, c'⟩ := h2
    refine ⟨a, List.mem_cons_of_mem _ b, ?_⟩
    rcases c' with c' | c'
    · exact Or.inl c'
    · exact Or.inr (List.mem_cons_of_mem _ c')

theorem GoodEntry.later {now now' : Nat} {cs : List Consult} {u : Name} {e : Entry}
    (hle : now ≤ now') (h : GoodEntry now cs u e) : GoodEntry now' cs u e :=
  ⟨Nat.le_trans h.1 hle, h.2⟩

theorem inv_init (maxDur t0 : Nat) : Inv maxDur (CState.init t0) :=
  ⟨fun _ _ h => (by cases h), fun _ h => (by cases h)⟩

/-- a verdict served from a valid entry is good -/
theorem goodRet_of_hit {maxDur now : Nat} {cs : List Consult} {u : Name} {e : Entry}
    (he : GoodEntry now cs u e) (hv : now - e.ts < maxDur) :
    GoodRet maxDur cs ⟨now, u, e.isAdmin, e.origin⟩ := by
  unfold GoodRet
  obtain ⟨hts, h2⟩ := he
  cases ho : e.origin with
  | none =>
    rw [ho] at h2
    exact ⟨h2.1, e.ts, hts, h2.2⟩
  | some t' =>
    rw [ho] at h2
    obtain ⟨a, b, c⟩ := h2
    refine ⟨Nat.le_trans a hts, b, ?_⟩
    rcases c with c | c
    · left; show now - t' < maxDur; omega
    · right; exact ⟨e.ts, a, hts, hv, c⟩

theorem inv_call {maxDur : Nat} (hmax : 0 < maxDur) {s : CState} (hs : Inv maxDur s) (u : Name)
    (dir : Option Bool) : Inv maxDur (isAdminUserStep maxDur s u dir) := by
  unfold isAdminUserStep
  split
  · -- valid entry
    rename_i hvalid
    refine ⟨hs.entries, ?_⟩
    intro r hr
    simp only [List.mem_cons] at hr
    rcases hr with hr | hr
    · subst hr
      unfold Cache.get Cache.cachedOrigin at *
      cases hc : s.cache u with
      | none => rw [hc] at hvalid; cases hvalid
      | some e =>
        rw [hc] at hvalid
        have hv : s.now - e.ts < maxDur := by simpa using hvalid
        simp only []
        exact goodRet_of_hit (hs.entries u e hc) hv
    · exact hs.rets r hr
  · rename_i hinvalid
    cases dir with
    | some v =>
      refine ⟨?_, ?_⟩
      · intro x e hx
        simp only [Cache.upd] at hx
        split at hx
        · rename_i hxu
          injection hx with hx
          subst hx; subst hxu
          exact ⟨Nat.le_refl _, Nat.le_refl _, List.mem_cons_self, Or.inl rfl⟩
        · exact (hs.entries x e hx).mono _
      · intro r hr
        simp only [List.mem_cons] at hr
        rcases hr with hr | hr
        · subst hr
          unfold GoodRet
          refine ⟨Nat.le_refl _, List.mem_cons_self, Or.inl ?_⟩
          show s.now - s.now < maxDur
          omega
        · exact (hs.rets r hr).mono _
    | none =>
      -- the previously cached value (possibly the zero entry) is re-stamped and returned
      have key : GoodEntry s.now (⟨s.now, u, none⟩ :: s.consults) u
          ⟨(Cache.get maxDur s.cache s.now u).1, s.now, s.cache.cachedOrigin u⟩ := by
        unfold Cache.get Cache.cachedOrigin
        cases hc : s.cache u with
        | none => exact ⟨Nat.le_refl _, rfl, List.mem_cons_self⟩
        | some e =>
          have he := hs.entries u e hc
          refine ⟨Nat.le_refl _, ?_⟩
          simp only []
          cases ho : e.origin with
          | none =>
            have h2 := he.2
            rw [ho] at h2
            exact ⟨h2.1, List.mem_cons_self⟩
          | some t' =>
            have h2 := he.2
            rw [ho] at h2
            exact ⟨Nat.le_trans h2.1 he.1, List.mem_cons_of_mem _ h2.2.1, Or.inr List.mem_cons_self⟩
      refine ⟨?_, ?_⟩
      · intro x e hx
        simp only [Cache.upd] at hx
        split at hx
        · rename_i hxu
          injection hx with hx
          subst hx; subst hxu
          exact key
        · exact (hs.entries x e hx).mono _
      · intro r hr
        simp only [List.mem_cons] at hr
        rcases hr with hr | hr
        · subst hr
          have := goodRet_of_hit (maxDur := maxDur) key (by show s.now - s.now < maxDur; omega)
          exact this
        · exact (hs.rets r hr).mono _

theorem inv_step {maxDur : Nat} (hmax : 0 < maxDur) {s : CState} (hs : Inv maxDur s) (ev : Ev) :
    Inv maxDur (cstep maxDur s ev) := by
  cases ev with
  | advance d =>
    exact ⟨fun u e h => (hs.entries u e h).later (Nat.le_add_right _ _), hs.rets⟩
  | call u dir =>
    have h := inv_call hmax hs u dir
    exact ⟨h.entries, h.rets⟩

theorem inv_run {maxDur : Nat} (hmax : 0 < maxDur) (evs : List Ev) {s : CState}
    (hs : Inv maxDur s) : Inv maxDur (crun maxDur s evs) := by
  induction evs generalizing s with
  | nil => exact hs
  | cons ev rest ih => exact ih (inv_step hmax hs ev)

/-- no failed consultation is logged when the directory answers every call -/
def NoFail (s : CState) : Prop := ∀ c, c ∈ s.consults → c.ans ≠ none

theorem nofail_step {maxDur : Nat} {s : CState} (hs : NoFail s) (ev : Ev)
    (hev : ∀ u, ev ≠ .call u none) : NoFail (cstep maxDur s ev) := by
  cases ev with
  | advance d => exact hs
  | call u dir =>
    show ∀ c, c ∈ (isAdminUserStep maxDur s u dir).consults → c.ans ≠ none
    unfold isAdminUserStep
    split
    · exact hs
    · cases dir with
      | none => exact absurd rfl (hev u)
      | some v =>
        intro c hc
        simp only [List.mem_cons] at hc
        rcases hc with hc | hc
        · subst hc; simp
        · exact hs c hc

theorem nofail_run {maxDur : Nat} (evs : List Ev) {s : CState} (hs : NoFail s)
    (hev : ∀ u, Ev.call u none ∉ evs) : NoFail (crun maxDur s evs) := by
  induction evs generalizing s with
  | nil => exact hs
  | cons ev rest ih =>
    apply ih (nofail_step hs ev ?_)
    · intro u hu; exact hev u (List.mem_cons_of_mem _ hu)
    · intro u he; exact hev u (by rw [he]; exact List.mem_cons_self)

/-! ### what an outside observer can check -/

/-- every consultation is one of the answers offered at a call -/
def SubOffered (s : CState) : Prop := ∀ c, c ∈ s.consults → c ∈ s.offered

theorem sub_step {maxDur : Nat} {s : CState} (hs : SubOffered s) (ev : Ev) :
    SubOffered (cstep maxDur s ev) := by
  cases ev with
  | advance d => exact hs
  | call u dir =>
    show ∀ c, c ∈ (isAdminUserStep maxDur s u dir).consults → c ∈ (⟨s.now, u, dir⟩ :: s.offered)
    unfold isAdminUserStep
    split
    · intro c hc; exact List.mem_cons_of_mem _ (hs c hc)
    · cases dir with
      | some v =>
        intro c hc
        simp only [List.mem_cons] at hc
        rcases hc with hc | hc
        · subst hc; exact List.mem_cons_self
        · exact List.mem_cons_of_mem _ (hs c hc)
      | none =>
        intro c hc
        simp only [List.mem_cons] at hc
        rcases hc with hc | hc
        · subst hc; exact List.mem_cons_self
        · exact List.mem_cons_of_mem _ (hs c hc)

theorem sub_run {maxDur : Nat} (evs : List Ev) {s : CState} (hs : SubOffered s) :
    SubOffered (crun maxDur s evs) := by
  induction evs generalizing s with
  | nil => exact hs
  | cons ev rest ih => exact ih (sub_step hs ev)

theorem blackbox_of_goodRet {maxDur : Nat} {cs offered : List Consult} {r : Ret}
    (hsub : ∀ c, c ∈ cs → c ∈ offered) (h : GoodRet maxDur cs r) :
    blackboxOK maxDur offered r.t r.user r.verdict = true := by
  unfold GoodRet at h
  unfold blackboxOK
  cases ho : r.origin with
  | none =>
    rw [ho] at h
    obtain ⟨hv, t'', ht, hm⟩ := h
    apply Bool.or_eq_true_iff.mpr
    left
    rw [hv]
    simp only [beq_self_eq_true, Bool.true_and, List.any_eq_true]
    exact ⟨_, hsub _ hm, by simp [ht]⟩
  | some t' =>
    rw [ho] at h
    obtain ⟨h1, h2, h3⟩ := h
    apply Bool.or_eq_true_iff.mpr
    right
    simp only [List.any_eq_true]
    refine ⟨_, hsub _ h2, ?_⟩
    rcases h3 with h3 | ⟨t'', a, b, c, d⟩
    · simp [h1, h3]
    · simp only [h1, decide_true, Bool.and_true, beq_self_eq_true, Bool.true_and, Bool.or_eq_true,
        decide_eq_true_eq, List.any_eq_true, Bool.and_eq_true, beq_iff_eq]
      right
      exact ⟨_, hsub _ d, ⟨⟨⟨rfl, rfl⟩, a⟩, b⟩, c⟩


/-! ### sequences of requests on one shared cache -/

theorem rets_call (maxDur : Nat) (s : CState) (u : Name) (dir : Option Bool) :
    ∃ o, (isAdminUserStep maxDur s u dir).rets =
      ⟨s.now, u, isAdminUserRes maxDur s u dir, o⟩ :: s.rets := by
  by_cases h : (Cache.get maxDur s.cache s.now u).2 = true
  · exact ⟨s.cache.cachedOrigin u, by simp [isAdminUserStep, isAdminUserRes, h]⟩
  · cases dir with
    | some v => exact ⟨some s.now, by simp [isAdminUserStep, isAdminUserRes, h]⟩
    | none => exact ⟨s.cache.cachedOrigin u, by simp [isAdminUserStep, isAdminUserRes, h]⟩

theorem now_call (maxDur : Nat) (s : CState) (u : Name) (dir : Option Bool) :
    (isAdminUserStep maxDur s u dir).now = s.now := by
  unfold isAdminUserStep
  split
  · rfl
  · cases dir <;> rfl

structure HInv (maxDur : Nat) (cfg : Cfg) (s : HState) : Prop where
  inv : Inv maxDur s.c
  sub : SubOffered s.c
  off : ∀ o, o ∈ s.c.offered → ∃ h, h ∈ s.handled ∧ h.t = o.t ∧ h.r.actor = o.user ∧
    o.ans = adminVerdict cfg h.r.groups o.user
  ret : ∀ h, h ∈ s.handled → h.adminV = true →
    ∃ r, r ∈ s.c.rets ∧ r.t = h.t ∧ r.user = h.r.actor ∧ r.verdict = true
  dec : ∀ h, h ∈ s.handled → h.dec = decide' cfg h.r h.adminV

theorem hinv_init (maxDur : Nat) (cfg : Cfg) (t0 : Nat) : HInv maxDur cfg (HState.init t0) :=
  ⟨inv_init maxDur t0, fun _ h => (by cases h), fun _ h => (by cases h), fun _ h => (by cases h),
   fun _ h => (by cases h)⟩

theorem hinv_step {maxDur : Nat} (hmax : 0 < maxDur) {cfg : Cfg} {s : HState}
    (hs : HInv maxDur cfg s) (ev : HEv) : HInv maxDur cfg (hstep maxDur cfg s ev) := by
  cases ev with
  | advance d =>
    exact ⟨(inv_step hmax hs.inv (.advance d) : Inv maxDur (cstep maxDur s.c (.advance d))),
      (sub_step hs.sub (.advance d) : SubOffered (cstep maxDur s.c (.advance d))), hs.off, hs.ret, hs.dec⟩
  | req r =>
    show HInv maxDur cfg (hreq maxDur cfg s r)
    unfold hreq
    split
    · -- the handler calls IsAdminUser(actor)
      refine ⟨(inv_step hmax hs.inv (.call r.actor (adminVerdict cfg r.groups r.actor)) :
          Inv maxDur (cstep maxDur s.c (.call r.actor (adminVerdict cfg r.groups r.actor)))),
        (sub_step hs.sub (.call r.actor (adminVerdict cfg r.groups r.actor)) :
          SubOffered (cstep maxDur s.c (.call r.actor (adminVerdict cfg r.groups r.actor)))), ?_, ?_, ?_⟩
      · intro o ho
        have ho' : o ∈ (⟨s.c.now, r.actor, adminVerdict cfg r.groups r.actor⟩ : Consult) :: s.c.offered := ho
        simp only [List.mem_cons] at ho'
        rcases ho' with ho' | ho'
        · subst ho'
          exact ⟨_, List.mem_cons_self, rfl, rfl, rfl⟩
        · obtain ⟨h, hh, a, b, c⟩ := hs.off o ho'
          exact ⟨h, List.mem_cons_of_mem _ hh, a, b, c⟩
      · intro h hh hv
        obtain ⟨o, ho⟩ := rets_call maxDur s.c r.actor (adminVerdict cfg r.groups r.actor)
        have hr : (cstep maxDur s.c (.call r.actor (adminVerdict cfg r.groups r.actor))).rets =
            ⟨s.c.now, r.actor, isAdminUserRes maxDur s.c r.actor (adminVerdict cfg r.groups r.actor), o⟩ ::
              s.c.rets := ho
        simp only [List.mem_cons] at hh
        rcases hh with hh | hh
        · subst hh
          refine ⟨⟨s.c.now, r.actor, isAdminUserRes maxDur s.c r.actor (adminVerdict cfg r.groups r.actor), o⟩,
            ?_, rfl, rfl, hv⟩
          show _ ∈ (cstep maxDur s.c (.call r.actor (adminVerdict cfg r.groups r.actor))).rets
          rw [hr]; exact List.mem_cons_self
        · obtain ⟨x, hx, a, b, c⟩ := hs.ret h hh hv
          refine ⟨x, ?_, a, b, c⟩
          show x ∈ (cstep maxDur s.c (.call r.actor (adminVerdict cfg r.groups r.actor))).rets
          rw [hr]; exact List.mem_cons_of_mem _ hx
      · intro h hh
        simp only [List.mem_cons] at hh
        rcases hh with hh | hh
        · subst hh; rfl
        · exact hs.dec h hh
    · refine ⟨hs.inv, hs.sub, ?_, ?_, ?_⟩
      · intro o ho
        obtain ⟨h, hh, a, b, c⟩ := hs.off o ho
        exact ⟨h, List.mem_cons_of_mem _ hh, a, b, c⟩
      · intro h hh hv
        simp only [List.mem_cons] at hh
        rcases hh with hh | hh
        · subst hh; cases hv
        · exact hs.ret h hh hv
      · intro h hh
        simp only [List.mem_cons] at hh
        rcases hh with hh | hh
        · subst hh; rfl
        · exact hs.dec h hh

theorem hinv_run {maxDur : Nat} (hmax : 0 < maxDur) {cfg : Cfg} (evs : List HEv) {s : HState}
    (hs : HInv maxDur cfg s) : HInv maxDur cfg (hrun maxDur cfg s evs) := by
  induction evs generalizing s with
  | nil => exact hs
  | cons ev rest ih => exact ih (hinv_step hmax hs ev)

/-- a `true` handed out by `IsAdminUser` is backed by configuration + directory at a handled request -/
theorem backed_of_ret {maxDur : Nat} {cfg : Cfg} {s : HState} (hs : HInv maxDur cfg s)
    {r : Ret} (hr : r ∈ s.c.rets) (hv : r.verdict = true) :
    backedB maxDur cfg s.handled r.t r.user = true := by
  have hg := hs.inv.rets r hr
  unfold GoodRet at hg
  cases ho : r.origin with
  | none => rw [ho] at hg; rw [hg.1] at hv; cases hv
  | some t' =>
    rw [ho] at hg
    obtain ⟨h1, h2, h3⟩ := hg
    rw [hv] at h2
    obtain ⟨h', hh', a, b, c⟩ := hs.off _ (hs.sub _ h2)
    have hadm : isAdmin cfg h'.r.groups r.user = true := by
      unfold isAdmin
      have : adminVerdict cfg h'.r.groups r.user = some true := c.symm
      rw [this]; rfl
    unfold backedB
    simp only [List.any_eq_true]
    refine ⟨h', hh', ?_⟩
    have a' : h'.t = t' := a
    have b' : h'.r.actor = r.user := b
    rcases h3 with h3 | ⟨t'', p, q, w, m⟩
    · simp [a', b', h1, hadm, h3]
    · obtain ⟨h'', hh'', a2, b2, c2⟩ := hs.off _ (hs.sub _ m)
      have a2' : h''.t = t'' := a2
      have b2' : h''.r.actor = r.user := b2
      have c2' : adminVerdict cfg h''.r.groups r.user = none := c2.symm
      simp only [a', b', beq_self_eq_true, h1, decide_true, Bool.and_self, hadm, Bool.true_and,
        Bool.or_eq_true, decide_eq_true_eq, List.any_eq_true, Bool.and_eq_true, beq_iff_eq]
      right
      exact ⟨h'', hh'', ⟨⟨⟨⟨b2', by omega⟩, by omega⟩, by omega⟩, c2'⟩⟩

theorem effectAllowed_eq (cfg : Cfg) (groups : Groups) (op : Op) (actor : Name) (level : Nat)
    (target : Name) (e : Effect) :
    effectAllowed cfg groups op actor level target e =
      effectAllowedB (isAdmin cfg groups actor) cfg groups op actor level target e := by
  cases e <;> rfl

theorem effectAllowedB_mono {a b : Bool} (hab : a = true → b = true) (cfg : Cfg) (groups : Groups)
    (op : Op) (actor : Name) (level : Nat) (target : Name) (e : Effect)
    (h : effectAllowedB a cfg groups op actor level target e = true) :
    effectAllowedB b cfg groups op actor level target e = true := by
  cases a with
  | true => rw [hab rfl]; exact h
  | false =>
    cases b with
    | false => exact h
    | true =>
      cases e with
      | changed u =>
        unfold effectAllowedB at h ⊢
        by_cases hu : (u == actor) = true
        · simp [hu]
        · simp only [hu] at h ⊢
          simp at h
      | read u =>
        unfold effectAllowedB at h ⊢
        simp only [Bool.and_false, Bool.or_false] at h
        simp [h]
      | listed => unfold effectAllowedB at h; simp at h
      | cert cn =>
        unfold effectAllowedB at h ⊢
        simp at h ⊢
        exact ⟨h.1.1, h.2⟩
      | copied o r => exact h

theorem statusAllowedB_mono {a b : Bool} (hab : a = true → b = true) (op : Op)
    (h : statusAllowedB a op = true) : statusAllowedB b op = true := by
  unfold statusAllowedB at *
  cases a with
  | true => rw [hab rfl]; exact h
  | false => cases hu : op.userAdmin <;> simp [hu] at h ⊢

/-! ### overlapping calls: the invariant of the two-phase model `kstep` -/

/-- what a pending call knows about the value its `Get` returned -/
def StaleGood (now : Nat) (cs : List Consult) (u : Name) (stale : Bool) (origin : Option Nat) : Prop :=
  match origin with
  | none => stale = false
  | some t' => t' ≤ now ∧ (⟨t', u, some stale⟩ : Consult) ∈ cs

theorem StaleGood.mono {now : Nat} {cs : List Consult} {u : Name} {b : Bool} {o : Option Nat} (c : Consult)
    (h : StaleGood now cs u b o) : StaleGood now (c :: cs) u b o := by
  unfold StaleGood at *
  cases o with
  | none => exact h
  | some t' => exact ⟨h.1, List.mem_cons_of_mem _ h.2⟩

theorem StaleGood.later {now now' : Nat} {cs : List Consult} {u : Name} {b : Bool} {o : Option Nat}
    (hle : now ≤ now') (h : StaleGood now cs u b o) : StaleGood now' cs u b o := by
  unfold StaleGood at *
  cases o with
  | none => exact h
  | some t' => exact ⟨Nat.le_trans h.1 hle, h.2⟩

theorem staleGood_of_get {maxDur : Nat} {s : CState} (hs : Inv maxDur s) (u : Name) :
    StaleGood s.now s.consults u (Cache.get maxDur s.cache s.now u).1 (s.cache.cachedOrigin u) := by
  unfold Cache.get Cache.cachedOrigin StaleGood
  cases hc : s.cache u with
  | none => rfl
  | some e =>
    have he := hs.entries u e hc
    simp only []
    cases ho : e.origin with
    | none =>
      have h2 := he.2
      rw [ho] at h2
      exact h2.1
    | some t' =>
      have h2 := he.2
      rw [ho] at h2
      exact ⟨Nat.le_trans h2.1 he.1, h2.2.1⟩

theorem inv_finish {maxDur : Nat} (hmax : 0 < maxDur) {s : CState} (hs : Inv maxDur s) (u : Name)
    (stale : Bool) (origin : Option Nat) (hst : StaleGood s.now s.consults u stale origin)
    (dir : Option Bool) : Inv maxDur (finishStep s u stale origin dir) := by
  unfold finishStep
  cases dir with
  | some v =>
    refine ⟨?_, ?_⟩
    · intro x e hx
      simp only [Cache.upd] at hx
      split at hx
      · rename_i hxu
        injection hx with hx
        subst hx; subst hxu
        exact ⟨Nat.le_refl _, Nat.le_refl _, List.mem_cons_self, Or.inl rfl⟩
      · exact (hs.entries x e hx).mono _
    · intro r hr
      simp only [List.mem_cons] at hr
      rcases hr with hr | hr
      · subst hr
        unfold GoodRet
        refine ⟨Nat.le_refl _, List.mem_cons_self, Or.inl ?_⟩
        show s.now - s.now < maxDur
        omega
      · exact (hs.rets r hr).mono _
  | none =>
    have key : GoodEntry s.now (⟨s.now, u, none⟩ :: s.consults) u ⟨stale, s.now, origin⟩ := by
      refine ⟨Nat.le_refl _, ?_⟩
      simp only []
      unfold StaleGood at hst
      cases origin with
      | none => exact ⟨hst, List.mem_cons_self⟩
      | some t' => exact ⟨hst.1, List.mem_cons_of_mem _ hst.2, Or.inr List.mem_cons_self⟩
    refine ⟨?_, ?_⟩
    · intro x e hx
      simp only [Cache.upd] at hx
      split at hx
      · rename_i hxu
        injection hx with hx
        subst hx; subst hxu
        exact key
      · exact (hs.entries x e hx).mono _
    · intro r hr
      simp only [List.mem_cons] at hr
      rcases hr with hr | hr
      · subst hr
        exact goodRet_of_hit (maxDur := maxDur) key (by show s.now - s.now < maxDur; omega)
      · exact (hs.rets r hr).mono _

theorem consults_finish (s : CState) (u : Name) (stale : Bool) (origin : Option Nat) (dir : Option Bool) :
    (finishStep s u stale origin dir).consults = ⟨s.now, u, dir⟩ :: s.consults ∧
    (finishStep s u stale origin dir).now = s.now ∧
    (finishStep s u stale origin dir).offered = s.offered := by
  unfold finishStep
  cases dir <;> exact ⟨rfl, rfl, rfl⟩

structure KInv (maxDur : Nat) (s : KState) : Prop where
  inv : Inv maxDur s.c
  pend : ∀ p, p ∈ s.pend → StaleGood s.c.now s.c.consults p.user p.stale p.staleOrigin
  sub : SubOffered s.c

theorem kinv_init (maxDur t0 : Nat) : KInv maxDur (KState.init t0) :=
  ⟨inv_init maxDur t0, fun _ h => (by cases h), fun _ h => (by cases h)⟩

theorem inv_offer {maxDur : Nat} {s : CState} (hs : Inv maxDur s) (u : Name) (dir : Option Bool) :
    Inv maxDur (offer s u dir) := ⟨hs.entries, hs.rets⟩

theorem sub_finish_offer {s : CState} (hs : SubOffered s) (u : Name) (stale : Bool) (origin : Option Nat)
    (dir : Option Bool) : SubOffered (finishStep (offer s u dir) u stale origin dir) := by
  obtain ⟨h1, _, h3⟩ := consults_finish (offer s u dir) u stale origin dir
  intro c hc
  rw [h1] at hc
  rw [h3]
  simp only [List.mem_cons] at hc
  rcases hc with hc | hc
  · subst hc; exact List.mem_cons_self
  · exact List.mem_cons_of_mem _ (hs c hc)

theorem kstep_begin (maxDur : Nat) (s : KState) (u : Name) (dir : Option Bool) (hold : Bool) :
    kstep maxDur s (.begin u dir hold) =
    if (Cache.get maxDur s.c.cache s.c.now u).2 then
      { s with c := { offer s.c u dir with
                      rets := ⟨s.c.now, u, (Cache.get maxDur s.c.cache s.c.now u).1, s.c.cache.cachedOrigin u⟩ :: s.c.rets },
               next := s.next + 1 }
    else if hold then
      { s with c := offer s.c u dir,
               pend := ⟨s.next, u, (Cache.get maxDur s.c.cache s.c.now u).1, s.c.cache.cachedOrigin u⟩ :: s.pend,
               next := s.next + 1 }
    else
      { s with c := finishStep (offer s.c u dir) u (Cache.get maxDur s.c.cache s.c.now u).1 (s.c.cache.cachedOrigin u) dir,
               next := s.next + 1 } := rfl

theorem kstep_release (maxDur : Nat) (s : KState) (k : Nat) (dir : Option Bool) :
    kstep maxDur s (.release k dir) =
    match s.pend.find? (fun p => p.id == k) with
    | none => s
    | some p =>
      { s with c := finishStep (offer s.c p.user dir) p.user p.stale p.staleOrigin dir,
               pend := s.pend.filter (fun q => q.id != k) } := rfl

theorem kinv_step {maxDur : Nat} (hmax : 0 < maxDur) {s : KState} (hs : KInv maxDur s) (ev : KEv) :
    KInv maxDur (kstep maxDur s ev) := by
  cases ev with
  | advance d =>
    exact ⟨⟨fun u e h => (hs.inv.entries u e h).later (Nat.le_add_right _ _), hs.inv.rets⟩,
      fun p hp => (hs.pend p hp).later (Nat.le_add_right _ _), hs.sub⟩
  | «begin» u dir hold =>
    rw [kstep_begin]
    split
    · -- served from a valid entry
      rename_i hvalid
      refine ⟨⟨hs.inv.entries, ?_⟩, hs.pend, fun c hc => List.mem_cons_of_mem _ (hs.sub c hc)⟩
      intro r hr
      simp only [List.mem_cons] at hr
      rcases hr with hr | hr
      · subst hr
        unfold Cache.get Cache.cachedOrigin at *
        cases hc : s.c.cache u with
        | none => rw [hc] at hvalid; cases hvalid
        | some e =>
          rw [hc] at hvalid
          have hv : s.c.now - e.ts < maxDur := by simpa using hvalid
          simp only []
          exact goodRet_of_hit (hs.inv.entries u e hc) hv
      · exact hs.inv.rets r hr
    · split
      · -- parked: nothing but the pending record and the offer
        refine ⟨inv_offer hs.inv u dir, ?_, fun c hc => List.mem_cons_of_mem _ (hs.sub c hc)⟩
        intro p hp
        simp only [List.mem_cons] at hp
        rcases hp with hp | hp
        · subst hp; exact staleGood_of_get hs.inv u
        · exact hs.pend p hp
      · obtain ⟨h1, h2, _⟩ := consults_finish (offer s.c u dir) u (Cache.get maxDur s.c.cache s.c.now u).1
          (s.c.cache.cachedOrigin u) dir
        refine ⟨inv_finish hmax (inv_offer hs.inv u dir) u _ _ (staleGood_of_get hs.inv u) dir, ?_,
          sub_finish_offer hs.sub u _ _ dir⟩
        intro p hp
        show StaleGood (finishStep (offer s.c u dir) u _ _ dir).now (finishStep (offer s.c u dir) u _ _ dir).consults _ _ _
        rw [h1, h2]
        exact (hs.pend p hp).mono _
  | release k dir =>
    rw [kstep_release]
    split
    · exact hs
    · rename_i p hfind
      have hp : p ∈ s.pend := List.mem_of_find?_eq_some hfind
      obtain ⟨h1, h2, _⟩ := consults_finish (offer s.c p.user dir) p.user p.stale p.staleOrigin dir
      refine ⟨inv_finish hmax (inv_offer hs.inv p.user dir) p.user _ _ (hs.pend p hp) dir, ?_,
        sub_finish_offer hs.sub p.user _ _ dir⟩
      intro q hq
      have hq' : q ∈ s.pend := (List.mem_filter.mp hq).1
      show StaleGood (finishStep (offer s.c p.user dir) p.user _ _ dir).now
        (finishStep (offer s.c p.user dir) p.user _ _ dir).consults _ _ _
      rw [h1, h2]
      exact (hs.pend q hq').mono _

theorem kinv_run {maxDur : Nat} (hmax : 0 < maxDur) (evs : List KEv) {s : KState}
    (hs : KInv maxDur s) : KInv maxDur (krun maxDur s evs) := by
  induction evs generalizing s with
  | nil => exact hs
  | cons ev rest ih => exact ih (kinv_step hmax hs ev)

theorem kstep_sequential (maxDur : Nat) (s : KState) (u : Name) (dir : Option Bool) :
    (kstep maxDur s (.begin u dir false)).c = cstep maxDur s.c (.call u dir) := by
  rw [kstep_begin]
  show _ = { isAdminUserStep maxDur s.c u dir with offered := ⟨s.c.now, u, dir⟩ :: s.c.offered }
  unfold isAdminUserStep finishStep offer
  by_cases h : (Cache.get maxDur s.c.cache s.c.now u).2 = true
  · simp only [h, if_true]
  · simp only [h, if_false, Bool.false_eq_true]
    cases dir <;> rfl


end KM.Admin
