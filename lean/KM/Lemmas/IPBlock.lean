import KM.Model.IPBlock
/-! Helper lemmas for C11 / C10 (bytes, masks, the copy loop, the DER layer). Nothing here is
counted as an obligation. -/
namespace KM.IPBlock

/-! ### bytes -/

theorem and_zero_eq {x m : UInt8} (hm : m = 0) (h : x &&& m = x) : x = 0 := by
  subst hm; simpa using h.symm

theorem and_not_of_and_eq_zero (x l : UInt8) (h : x &&& l = 0) : x &&& ~~~l = x := by
  apply UInt8.toBitVec_inj.mp
  have h' := congrArg UInt8.toBitVec h
  simp only [UInt8.toBitVec_and, UInt8.toBitVec_not] at h' ⊢
  ext i hi
  have := congrArg (fun v => v.getLsbD i) h'
  simp at this ⊢
  intro hx
  have := this (by simpa [BitVec.getLsbD_eq_getElem hi] using hx)
  simpa [BitVec.getLsbD_eq_getElem hi] using this

theorem and_ff (x : UInt8) : x &&& 255 = x := by
  have h : (255 : UInt8) = ~~~0 := by decide
  rw [h]; exact and_not_of_and_eq_zero x 0 (by simp)

/-- bits kept by `m` and bits tested by `l` are disjoint ⇒ a byte unchanged by `m` has no `l` bit -/
theorem and_low_of_masked {x m l : UInt8} (hml : m &&& l = 0) (h : x &&& m = x) : x &&& l = 0 := by
  rw [← h, UInt8.and_assoc, hml]; simp

/-! ### 32-bit reading of the four bytes -/

/-- big-endian concatenation (`BitVec (8+8+8+8)` is `BitVec 32` by `rfl`) -/
def toBV (a : IP4) : BitVec (8 + 8 + 8 + 8) :=
  a.b0.toBitVec ++ a.b1.toBitVec ++ a.b2.toBitVec ++ a.b3.toBitVec

def ofBV (v : BitVec (8 + 8 + 8 + 8)) : IP4 :=
  ⟨⟨v.extractLsb' 24 8⟩, ⟨v.extractLsb' 16 8⟩, ⟨v.extractLsb' 8 8⟩, ⟨v.extractLsb' 0 8⟩⟩

theorem ofBV_toBV (a : IP4) : ofBV (toBV a) = a := by
  obtain ⟨⟨b0⟩, ⟨b1⟩, ⟨b2⟩, ⟨b3⟩⟩ := a
  unfold ofBV toBV
  simp only [IP4.mk.injEq, UInt8.ofBitVec.injEq]
  refine ⟨?_, ?_, ?_, ?_⟩
  · rw [BitVec.extractLsb'_append_eq_of_le (by omega), BitVec.extractLsb'_append_eq_of_le (by omega),
      BitVec.extractLsb'_append_eq_of_le (by omega)]
    simp
  · rw [BitVec.extractLsb'_append_eq_of_le (by omega), BitVec.extractLsb'_append_eq_of_le (by omega),
      BitVec.extractLsb'_append_eq_of_add_le (by omega)]
    simp
  · rw [BitVec.extractLsb'_append_eq_of_le (by omega), BitVec.extractLsb'_append_eq_of_add_le (by omega)]
    simp
  · rw [BitVec.extractLsb'_append_eq_of_add_le (by omega)]
    simp

theorem toBV_inj {a b : IP4} (h : toBV a = toBV b) : a = b := by
  rw [← ofBV_toBV a, ← ofBV_toBV b, h]

theorem and_bv (a m : IP4) : toBV (a.and m) = toBV a &&& toBV m := by
  simp only [toBV, IP4.and, UInt8.toBitVec_and, BitVec.and_append]

/-- `net.CIDRMask(n, 32)` is the 32-bit all-ones word shifted left by `32 - n`, for all 33 lengths -/
theorem mask_bv : ∀ n : Fin 33, toBV (mask n.val) = BitVec.allOnes (8 + 8 + 8 + 8) <<< (32 - n.val) := by
  decide

/-! ### shape of the mask bytes, all 33 prefix lengths (finite table, `decide`) -/

def padOf (ones : Nat) : Nat := (8 - ones % 8) % 8

theorem mask_shape : ∀ n : Fin 33,
    (n.val = 0 → mask n.val = ⟨0, 0, 0, 0⟩) ∧
    (1 ≤ n.val ∧ n.val ≤ 8 → mask n.val = ⟨~~~lowBitsMask (padOf n.val), 0, 0, 0⟩) ∧
    (9 ≤ n.val ∧ n.val ≤ 16 → mask n.val = ⟨255, ~~~lowBitsMask (padOf n.val), 0, 0⟩) ∧
    (17 ≤ n.val ∧ n.val ≤ 24 → mask n.val = ⟨255, 255, ~~~lowBitsMask (padOf n.val), 0⟩) ∧
    (25 ≤ n.val ∧ n.val ≤ 32 → mask n.val = ⟨255, 255, 255, ~~~lowBitsMask (padOf n.val)⟩) := by
  decide

theorem not_low_and_low : ∀ p : Fin 8, ~~~lowBitsMask p.val &&& lowBitsMask p.val = 0 := by decide

theorem padOf_lt (n : Nat) : padOf n < 8 := by unfold padOf; omega

theorem not_low_and_low' (n : Nat) : ~~~lowBitsMask (padOf n) &&& lowBitsMask (padOf n) = 0 :=
  not_low_and_low ⟨padOf n, padOf_lt n⟩

/-! ### the DER layer on encoder output -/

/-- the last byte `encode b` emits carries set bits below the prefix length -/
def dirty (b : Block) : Prop :=
  ((encode b).bytes.getLast?.getD 0) &&& lowBitsMask (padOf b.ones) ≠ 0

instance (b : Block) : Decidable (dirty b) := by unfold dirty; exact inferInstance

/-- `asn1.Unmarshal ∘ asn1.Marshal` on what the encoder produced: identity, or an error when
padding bits are set -/
theorem parse_marshal_encode (b : Block) (h : b.ones ≤ 32) :
    parseBits (marshalBits (encode b)) = if dirty b then none else some (encode b) := by
  obtain ⟨⟨b0, b1, b2, b3⟩, ones⟩ := b
  simp only at h
  have hp : (8 - ones % 8) % 8 ≤ 7 := by omega
  have hcase : ones = 0 ∨ (1 ≤ ones ∧ ones ≤ 8) ∨ (9 ≤ ones ∧ ones ≤ 16) ∨ (17 ≤ ones ∧ ones ≤ 24) ∨
      (25 ≤ ones ∧ ones ≤ 32) := by omega
  rcases hcase with h0 | h1 | h2 | h3 | h4
  · subst h0
    simp [parseBits, marshalBits, encode, dirty, IP4.toList, padOf, lowBitsMask]
  · have hn : (ones + 7) / 8 = 1 := by omega
    have hl : 1 * 8 - (8 - ones % 8) % 8 = ones := by omega
    simp [parseBits, marshalBits, encode, dirty, IP4.toList, padOf, hn, Nat.not_lt.mpr hp, hl]
  · have hn : (ones + 7) / 8 = 2 := by omega
    have hl : 2 * 8 - (8 - ones % 8) % 8 = ones := by omega
    simp [parseBits, marshalBits, encode, dirty, IP4.toList, padOf, hn, Nat.not_lt.mpr hp, hl]
  · have hn : (ones + 7) / 8 = 3 := by omega
    have hl : 3 * 8 - (8 - ones % 8) % 8 = ones := by omega
    simp [parseBits, marshalBits, encode, dirty, IP4.toList, padOf, hn, Nat.not_lt.mpr hp, hl]
  · have hn : (ones + 7) / 8 = 4 := by omega
    have hl : 4 * 8 - (8 - ones % 8) % 8 = ones := by omega
    simp [parseBits, marshalBits, encode, dirty, IP4.toList, padOf, hn, Nat.not_lt.mpr hp, hl]

theorem canonical_not_dirty (b : Block) (h : b.ones ≤ 32) (hc : b.canonical) : ¬ dirty b := by
  obtain ⟨⟨b0, b1, b2, b3⟩, ones⟩ := b
  simp only at h
  have hm := mask_shape ⟨ones, by omega⟩
  simp only at hm
  unfold Block.canonical at hc
  simp only at hc
  have hcase : ones = 0 ∨ (1 ≤ ones ∧ ones ≤ 8) ∨ (9 ≤ ones ∧ ones ≤ 16) ∨ (17 ≤ ones ∧ ones ≤ 24) ∨
      (25 ≤ ones ∧ ones ≤ 32) := by omega
  rcases hcase with h0 | h1 | h2 | h3 | h4
  · subst h0; simp [dirty, encode, IP4.toList]
  · have hn : (ones + 7) / 8 = 1 := by omega
    rw [hm.2.1 h1] at hc
    have e := congrArg IP4.b0 hc
    simp only [IP4.and] at e
    simp [dirty, encode, IP4.toList, hn, and_low_of_masked (not_low_and_low' ones) e]
  · have hn : (ones + 7) / 8 = 2 := by omega
    rw [hm.2.2.1 h2] at hc
    have e := congrArg IP4.b1 hc
    simp only [IP4.and] at e
    simp [dirty, encode, IP4.toList, hn, and_low_of_masked (not_low_and_low' ones) e]
  · have hn : (ones + 7) / 8 = 3 := by omega
    rw [hm.2.2.2.1 h3] at hc
    have e := congrArg IP4.b2 hc
    simp only [IP4.and] at e
    simp [dirty, encode, IP4.toList, hn, and_low_of_masked (not_low_and_low' ones) e]
  · have hn : (ones + 7) / 8 = 4 := by omega
    rw [hm.2.2.2.2 h4] at hc
    have e := congrArg IP4.b3 hc
    simp only [IP4.and] at e
    simp [dirty, encode, IP4.toList, hn, and_low_of_masked (not_low_and_low' ones) e]

/-- whenever the DER layer accepts what the encoder wrote, the decoder returns the block with its
host bits cleared (`net.ParseCIDR`'s canonical form) -/
theorem decode_encode_of_clean (b : Block) (h : b.ones ≤ 32) (hd : ¬ dirty b) :
    decode (encode b) = .ok b.canon := by
  obtain ⟨⟨b0, b1, b2, b3⟩, ones⟩ := b
  simp only at h
  have hm := mask_shape ⟨ones, by omega⟩
  simp only at hm
  have hcase : ones = 0 ∨ (1 ≤ ones ∧ ones ≤ 8) ∨ (9 ≤ ones ∧ ones ≤ 16) ∨ (17 ≤ ones ∧ ones ≤ 24) ∨
      (25 ≤ ones ∧ ones ≤ 32) := by omega
  have k4 : ¬ 32 < ones := by omega
  rcases hcase with h0 | h1 | h2 | h3 | h4
  · subst h0
    simp [decode, encode, guardRejects, KM.Gen.C11.decodeGuardMaxBits, KM.Gen.C11.decodeGuardBytes,
      IP4.toList, decodeOld, copyLoop, IP4.zero, Block.canon, hm.1, IP4.and]
  · have hn : (ones + 7) / 8 = 1 := by omega
    have k0 : 0 < ones := by omega
    have k1 : ¬ 8 < ones := by omega
    have e : b0 &&& lowBitsMask (padOf ones) = 0 := by
      simpa [dirty, encode, IP4.toList, hn] using hd
    simp [decode, encode, guardRejects, KM.Gen.C11.decodeGuardMaxBits, KM.Gen.C11.decodeGuardBytes,
      IP4.toList, hn, decodeOld, copyLoop, KM.Gen.C11.decodeArrayLen, IP4.set, IP4.zero, k0, k1, k4,
      Block.canon, hm.2.1 h1, IP4.and, and_not_of_and_eq_zero _ _ e]
  · have hn : (ones + 7) / 8 = 2 := by omega
    have k0 : 0 < ones := by omega
    have k1 : 8 < ones := by omega
    have k2 : ¬ 16 < ones := by omega
    have e : b1 &&& lowBitsMask (padOf ones) = 0 := by
      simpa [dirty, encode, IP4.toList, hn] using hd
    simp [decode, encode, guardRejects, KM.Gen.C11.decodeGuardMaxBits, KM.Gen.C11.decodeGuardBytes,
      IP4.toList, hn, decodeOld, copyLoop, KM.Gen.C11.decodeArrayLen, IP4.set, IP4.zero, k0, k1, k2, k4,
      Block.canon, hm.2.2.1 h2, IP4.and, and_not_of_and_eq_zero _ _ e, and_ff]
  · have hn : (ones + 7) / 8 = 3 := by omega
    have k0 : 0 < ones := by omega
    have k1 : 8 < ones := by omega
    have k2 : 16 < ones := by omega
    have k3 : ¬ 24 < ones := by omega
    have e : b2 &&& lowBitsMask (padOf ones) = 0 := by
      simpa [dirty, encode, IP4.toList, hn] using hd
    simp [decode, encode, guardRejects, KM.Gen.C11.decodeGuardMaxBits, KM.Gen.C11.decodeGuardBytes,
      IP4.toList, hn, decodeOld, copyLoop, KM.Gen.C11.decodeArrayLen, IP4.set, IP4.zero, k0, k1, k2, k3, k4,
      Block.canon, hm.2.2.2.1 h3, IP4.and, and_not_of_and_eq_zero _ _ e, and_ff]
  · have hn : (ones + 7) / 8 = 4 := by omega
    have k0 : 0 < ones := by omega
    have k1 : 8 < ones := by omega
    have k2 : 16 < ones := by omega
    have k3 : 24 < ones := by omega
    have e : b3 &&& lowBitsMask (padOf ones) = 0 := by
      simpa [dirty, encode, IP4.toList, hn] using hd
    simp [decode, encode, guardRejects, KM.Gen.C11.decodeGuardMaxBits, KM.Gen.C11.decodeGuardBytes,
      IP4.toList, hn, decodeOld, copyLoop, KM.Gen.C11.decodeArrayLen, IP4.set, IP4.zero, k0, k1, k2, k3, k4,
      Block.canon, hm.2.2.2.2 h4, IP4.and, and_not_of_and_eq_zero _ _ e, and_ff]

theorem canon_of_canonical {b : Block} (hc : b.canonical) : b.canon = b := by
  unfold Block.canon; unfold Block.canonical at hc; rw [hc]

/-! ### the copy loop under the guard -/

theorem copyLoop_safe (s : BitStr) (h32 : s.bitLen ≤ 32) (hlen : (s.bitLen + 7) / 8 ≤ s.bytes.length) :
    ∀ fuel i acc, ∃ ip, copyLoop s fuel i acc = .ok ip := by
  intro fuel
  induction fuel with
  | zero => intro i acc; exact ⟨acc, rfl⟩
  | succ n ih =>
    intro i acc
    unfold copyLoop
    split
    · rename_i hlt
      have hi : i < s.bytes.length := by omega
      have h4 : i < KM.Gen.C11.decodeArrayLen := by unfold KM.Gen.C11.decodeArrayLen; omega
      rw [List.getElem?_eq_getElem hi]
      simp only [h4, if_true]
      exact ih _ _
    · exact ⟨acc, rfl⟩

theorem guard_false {s : BitStr} (h : guardRejects s = false) :
    s.bitLen ≤ 32 ∧ (s.bitLen + 7) / 8 ≤ s.bytes.length := by
  simp [guardRejects, KM.Gen.C11.decodeGuardMaxBits, KM.Gen.C11.decodeGuardBytes] at h
  omega

theorem guard_true {s : BitStr} (h : 32 < s.bitLen ∨ s.bytes.length < (s.bitLen + 7) / 8) :
    guardRejects s = true := by
  simp [guardRejects, KM.Gen.C11.decodeGuardMaxBits, KM.Gen.C11.decodeGuardBytes]
  omega

/-- the decoder of the tree being checked returns a block or an error -/
theorem decode_total (s : BitStr) : decode s = .err ∨ ∃ ip, decode s = .ok ⟨ip, s.bitLen⟩ := by
  unfold decode
  cases hg : guardRejects s with
  | true => simp
  | false =>
    obtain ⟨h32, hlen⟩ := guard_false hg
    obtain ⟨ip, hip⟩ := copyLoop_safe s h32 hlen 6 0 IP4.zero
    right; exact ⟨ip, by simp [decodeOld, hip]⟩

theorem decode_ne_panic (s : BitStr) : decode s ≠ .panic := by
  rcases decode_total s with h | ⟨ip, h⟩ <;> rw [h] <;> simp

theorem decode_ok_bounds {s : BitStr} {b : Block} (h : decode s = .ok b) :
    s.bitLen ≤ 32 ∧ (s.bitLen + 7) / 8 ≤ s.bytes.length ∧ b.ones = s.bitLen := by
  unfold decode at h
  cases hg : guardRejects s with
  | true => simp [hg] at h
  | false =>
    obtain ⟨h32, hlen⟩ := guard_false hg
    obtain ⟨ip, hip⟩ := copyLoop_safe s h32 hlen 6 0 IP4.zero
    simp [hg, decodeOld, hip] at h
    exact ⟨h32, hlen, by rw [← h]⟩

/-! ### the readers, for any decoder that does not panic -/

section readers
variable {dec : BitStr → Res Block}

theorem verifyAddrs_ne_panic (hd : ∀ s, dec s ≠ .panic) (ss : List BitStr) (p : Peer) :
    verifyAddrsWith dec ss p ≠ .panic := by
  induction ss with
  | nil => simp [verifyAddrsWith]
  | cons s ss ih =>
    unfold verifyAddrsWith
    split
    · split
      · simp
      · exact ih
    · simp
    · rename_i h; exact absurd h (hd s)

theorem verifyFams_ne_panic (hd : ∀ s, dec s ≠ .panic) (fs : List Family) (p : Peer) :
    verifyFamsWith dec fs p ≠ .panic := by
  induction fs with
  | nil => simp [verifyFamsWith]
  | cons f fs ih =>
    unfold verifyFamsWith
    split
    · exact ih
    · split
      · exact ih
      · exact verifyAddrs_ne_panic hd _ _

theorem verify_ne_panic (hd : ∀ s, dec s ≠ .panic) (e : Ext) (p : Peer) :
    verifyWith dec e p ≠ .panic := by
  unfold verifyWith
  split <;> first | exact verifyFams_ne_panic hd _ _ | simp

theorem verifyAddrs_true {ss : List BitStr} {p : Peer} (h : verifyAddrsWith dec ss p = .ok true) :
    ∃ s ∈ ss, ∃ b, dec s = .ok b ∧ contains b p = true := by
  induction ss with
  | nil => simp [verifyAddrsWith] at h
  | cons s ss ih =>
    unfold verifyAddrsWith at h
    split at h
    · rename_i b hb
      split at h
      · rename_i hc; exact ⟨s, List.mem_cons_self, b, hb, hc⟩
      · obtain ⟨s', hs', r⟩ := ih h
        exact ⟨s', List.mem_cons_of_mem _ hs', r⟩
    · cases h
    · cases h

theorem verifyFams_true {fs : List Family} {p : Peer} (h : verifyFamsWith dec fs p = .ok true) :
    ∃ f ∈ fs, f.afi = v4afi ∧ ∃ s ∈ f.addrs, ∃ b, dec s = .ok b ∧ contains b p = true := by
  induction fs with
  | nil => simp [verifyFamsWith] at h
  | cons f fs ih =>
    unfold verifyFamsWith at h
    split at h
    · obtain ⟨f', hf', r⟩ := ih h
      exact ⟨f', List.mem_cons_of_mem _ hf', r⟩
    · rename_i hafi
      split at h
      · obtain ⟨f', hf', r⟩ := ih h
        exact ⟨f', List.mem_cons_of_mem _ hf', r⟩
      · exact ⟨f, List.mem_cons_self, by simpa using hafi, verifyAddrs_true h⟩

theorem extractAddrs_ne_panic (hd : ∀ s, dec s ≠ .panic) (ss : List BitStr) :
    extractAddrsWith dec ss ≠ .panic := by
  induction ss with
  | nil => simp [extractAddrsWith]
  | cons s ss ih =>
    unfold extractAddrsWith
    split
    · split
      · simp
      · rename_i r hne
        intro hp
        exact ih hp
    · simp
    · rename_i h; exact absurd h (hd s)

theorem extractFams_ne_panic (hd : ∀ s, dec s ≠ .panic) (fs : List Family) :
    extractFamsWith dec fs ≠ .panic := by
  induction fs with
  | nil => simp [extractFamsWith]
  | cons f fs ih =>
    unfold extractFamsWith
    split
    · simp
    · split
      · split
        · simp
        · intro hp; exact ih hp
      · intro hp; exact extractAddrs_ne_panic hd _ hp

theorem extract_ne_panic (hd : ∀ s, dec s ≠ .panic) (e : Ext) : extractWith dec e ≠ .panic := by
  unfold extractWith
  split <;> first | exact extractFams_ne_panic hd _ | simp

/-- every address of every family decodes when extraction succeeds; all families are IPv4 -/
theorem extractAddrs_ok {ss : List BitStr} {bs : List Block} (h : extractAddrsWith dec ss = .ok bs) :
    ∀ s ∈ ss, ∃ b, dec s = .ok b := by
  induction ss generalizing bs with
  | nil => intro s hs; cases hs
  | cons s ss ih =>
    unfold extractAddrsWith at h
    split at h
    · rename_i b hb
      split at h
      · rename_i bs' hbs
        intro s' hs'
        cases hs' with
        | head => exact ⟨b, hb⟩
        | tail _ h' => exact ih hbs s' h'
      · rename_i r hne
        exact absurd h (hne _)
    · cases h
    · cases h

theorem extractFams_ok {fs : List Family} {bs : List Block} (h : extractFamsWith dec fs = .ok bs) :
    ∀ f ∈ fs, f.afi = v4afi ∧ ∀ s ∈ f.addrs, ∃ b, dec s = .ok b := by
  induction fs generalizing bs with
  | nil => intro f hf; cases hf
  | cons f fs ih =>
    unfold extractFamsWith at h
    split at h
    · cases h
    · rename_i hafi
      split at h
      · rename_i bs' hbs
        split at h
        · rename_i r hr
          intro f' hf'
          cases hf' with
          | head => exact ⟨by simpa using hafi, extractAddrs_ok hbs⟩
          | tail _ h' => exact ih hr f' h'
        · rename_i r hne
          exact absurd h (hne _)
      · rename_i r hne
        exact absurd h (hne _)

theorem extractAddrs_mem {ss : List BitStr} {bs : List Block} (h : extractAddrsWith dec ss = .ok bs)
    {s : BitStr} (hs : s ∈ ss) {b : Block} (hb : dec s = .ok b) : b ∈ bs := by
  induction ss generalizing bs with
  | nil => cases hs
  | cons s' ss ih =>
    unfold extractAddrsWith at h
    split at h
    · rename_i b' hb'
      split at h
      · rename_i bs' hbs
        injection h with h
        subst h
        cases hs with
        | head =>
          rw [hb] at hb'
          injection hb' with e
          subst e
          exact List.mem_cons_self
        | tail _ h' => exact List.mem_cons_of_mem _ (ih hbs h')
      · rename_i r hne
        exact absurd h (hne _)
    · cases h
    · cases h

theorem extractFams_mem {fs : List Family} {bs : List Block} (h : extractFamsWith dec fs = .ok bs)
    {f : Family} (hf : f ∈ fs) {s : BitStr} (hs : s ∈ f.addrs) {b : Block} (hb : dec s = .ok b) :
    b ∈ bs := by
  induction fs generalizing bs with
  | nil => cases hf
  | cons f' fs ih =>
    unfold extractFamsWith at h
    split at h
    · cases h
    · split at h
      · rename_i bs' hbs
        split at h
        · rename_i r hr
          injection h with h
          subst h
          cases hf with
          | head => exact List.mem_append_left _ (extractAddrs_mem hbs hs hb)
          | tail _ h' => exact List.mem_append_right _ (ih hr h')
        · rename_i r hne
          exact absurd h (hne _)
      · rename_i r hne
        exact absurd h (hne _)

end readers

/-! ### minted extensions -/

theorem parseAddrs_mint (bs : List Block) (hb : ∀ b ∈ bs, b.ones ≤ 32 ∧ b.canonical) :
    parseAddrs ((bs.map encode).map marshalBits) = some (bs.map encode) := by
  induction bs with
  | nil => simp [parseAddrs]
  | cons b bs ih =>
    have h1 := hb b List.mem_cons_self
    have h2 := ih (fun b' hb' => hb b' (List.mem_cons_of_mem _ hb'))
    simp only [List.map_cons, parseAddrs]
    rw [parse_marshal_encode b h1.1, if_neg (canonical_not_dirty b h1.1 h1.2), h2]

theorem encodeNets_v4 (bs : List Block) : encodeNets (bs.map Net.v4) = some (bs.map encode) := by
  induction bs with
  | nil => simp [encodeNets]
  | cons b bs ih => simp [encodeNets, ih]

theorem mintExt_canonical (bs : List Block) (hb : ∀ b ∈ bs, b.ones ≤ 32 ∧ b.canonical) :
    mintExt (bs.map Net.v4) = some (.parsed [⟨v4afi, bs.map encode⟩]) := by
  have hp := parseAddrs_mint bs hb
  simp only [List.map_map] at hp
  simp [mintExt, mintFams, encodeNets_v4, Ext.ofWire, marshalFams, parseFams, hp]

theorem decode_encode_canonical (b : Block) (h : b.ones ≤ 32) (hc : b.canonical) :
    decode (encode b) = .ok b := by
  rw [decode_encode_of_clean b h (canonical_not_dirty b h hc), canon_of_canonical hc]

theorem verifyAddrs_mint (bs : List Block) (hb : ∀ b ∈ bs, b.ones ≤ 32 ∧ b.canonical) (p : Peer) :
    verifyAddrsWith decode (bs.map encode) p = .ok (bs.any (contains · p)) := by
  induction bs with
  | nil => simp [verifyAddrsWith]
  | cons b bs ih =>
    have h1 := hb b List.mem_cons_self
    have h2 := ih (fun b' hb' => hb b' (List.mem_cons_of_mem _ hb'))
    simp only [List.map_cons, verifyAddrsWith, decode_encode_canonical b h1.1 h1.2, List.any_cons]
    cases hc : contains b p <;> simp [h2]

theorem extractAddrs_mint (bs : List Block) (hb : ∀ b ∈ bs, b.ones ≤ 32 ∧ b.canonical) :
    extractAddrsWith decode (bs.map encode) = .ok bs := by
  induction bs with
  | nil => simp [extractAddrsWith]
  | cons b bs ih =>
    have h1 := hb b List.mem_cons_self
    have h2 := ih (fun b' hb' => hb b' (List.mem_cons_of_mem _ hb'))
    simp only [List.map_cons, extractAddrsWith, decode_encode_canonical b h1.1 h1.2, h2]

theorem contains_canonical {b : Block} (hc : b.canonical) (p : Peer) :
    contains b p = true ↔ ∃ a, p.ip4 = some a ∧ a.and (mask b.ones) = b.ip := by
  unfold contains
  unfold Block.canonical at hc
  cases hp : p.ip4 with
  | none => simp
  | some a =>
    simp only [hc, beq_iff_eq, Option.some.injEq, exists_eq_left']
    exact ⟨fun h => h.symm, fun h => h.symm⟩

theorem contains_canon (b : Block) (p : Peer) : contains b.canon p = contains b p := by
  have idem : (b.ip.and (mask b.ones)).and (mask b.ones) = b.ip.and (mask b.ones) := by
    simp only [IP4.and, UInt8.and_assoc, UInt8.and_self]
  unfold contains Block.canon
  simp only [idem]

end KM.IPBlock
