import KM.Model.CertFields
/-! Helper lemmas for C02 (kept apart from the property statements). -/
namespace KM.CertFields

/-- `expandSSHExtensions` as a fold: afterwards key `k` holds the value of the last configured
entry that expands to `k`, otherwise what it held before -/
theorem expandAll_lookup (expand : Str → Option Str) (cfg : List (Str × Str)) (m m' : SMap)
    (h : expandAll expand cfg m = some m') (k : Str) :
    m' k = match lastConfigured expand k cfg with
      | some v => some v
      | none => m k := by
  induction cfg generalizing m with
  | nil =>
    simp only [expandAll, Option.some.injEq] at h
    subst h
    simp [lastConfigured]
  | cons e rest ih =>
    obtain ⟨ck, cv⟩ := e
    unfold expandAll at h
    split at h
    · rename_i k' v' hk hv
      have := ih (m.upd k' v') h
      rw [this]
      have e : lastConfigured expand k ((ck, cv) :: rest) =
          match lastConfigured expand k rest with
          | some v => some v
          | none => if expand ck = some k then expand cv else none := rfl
      rw [e]
      cases hl : lastConfigured expand k rest with
      | some v => rfl
      | none =>
        simp only [hk, hv, Option.some.injEq]
        unfold SMap.upd
        by_cases hkk : k' = k
        · subst hkk; simp
        · have : ¬ k = k' := fun h => hkk h.symm
          simp [hkk, this]
    · cases h

/-- an expansion error in any entry makes the whole expansion fail, and conversely -/
theorem expandAll_isSome (expand : Str → Option Str) (cfg : List (Str × Str)) (m : SMap) :
    (expandAll expand cfg m).isSome = cfg.all (fun e => (expand e.1).isSome && (expand e.2).isSome) := by
  induction cfg generalizing m with
  | nil => simp [expandAll]
  | cons e rest ih =>
    obtain ⟨ck, cv⟩ := e
    unfold expandAll
    split
    · rename_i k' v' hk hv
      simp [List.all_cons, hk, hv, ih]
    · rename_i hnot
      cases hk : expand ck with
      | none => simp [List.all_cons, hk]
      | some k' =>
        cases hv : expand cv with
        | none => simp [List.all_cons, hk, hv]
        | some v' => exact absurd hv (hnot k' v' hk)

theorem mem_addKey_self {K} [DecidableEq K] (known : List K) (k : K) : k ∈ addKey known k := by
  unfold addKey; split <;> simp_all

theorem mem_addKey_of_mem {K} [DecidableEq K] {known : List K} {x : K} (k : K) (h : x ∈ known) :
    x ∈ addKey known k := by
  unfold addKey; split <;> simp_all

end KM.CertFields
