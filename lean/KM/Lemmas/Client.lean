import KM.Model.Client
/-! Helper lemmas for C19 (kept apart from the property statements). -/
namespace KM.Client
open KM.ClientSite

theorem splitSpace_append (ty rest : List Char) (h : ∀ c ∈ ty, c ≠ ' ') :
    splitSpace (ty ++ ' ' :: rest) = some (ty, rest) := by
  induction ty with
  | nil => simp [splitSpace]
  | cons a t ih =>
    have ha : a ≠ ' ' := h a List.mem_cons_self
    have := ih (fun c hc => h c (List.mem_cons_of_mem _ hc))
    simp [splitSpace, ha, this]

theorem dropB64_append (body rest : List Char) (hb : ∀ c ∈ body, isB64 c = true)
    (hr : ∀ c, rest.head? = some c → isB64 c = false) :
    dropB64 (body ++ rest) = rest ∧ countB64 (body ++ rest) = body.length := by
  induction body with
  | nil =>
    cases rest with
    | nil => simp [dropB64, countB64]
    | cons c r => have := hr c rfl; simp [dropB64, countB64, this]
  | cons a t ih =>
    have ha := hb a List.mem_cons_self
    have := ih (fun c hc => hb c (List.mem_cons_of_mem _ hc))
    simp [dropB64, countB64, ha, this]

def isPad (p : List Char) : Prop := p = [] ∨ p = ['='] ∨ p = ['=', '=']

theorem lineOK_clientLine (alts : List (List Char)) (ty body pad : List Char)
    (hty : alts.contains ty = true) (hsp : ∀ c ∈ ty, c ≠ ' ')
    (hb : ∀ c ∈ body, isB64 c = true) (hne : body ≠ []) (hp : isPad pad) :
    lineOK alts (ty ++ ' ' :: (body ++ pad ++ ['\n'])) = true := by
  unfold lineOK
  rw [splitSpace_append ty _ hsp]
  have hr : ∀ c, (pad ++ ['\n']).head? = some c → isB64 c = false := by
    intro c hc
    rcases hp with h | h | h <;> subst h <;> simp at hc <;> subst hc <;> decide
  have := dropB64_append body (pad ++ ['\n']) hb hr
  simp only [List.append_assoc] at this ⊢
  rw [this.1, this.2]
  have hl : 0 < body.length := by cases body with | nil => exact absurd rfl hne | cons a t => simp
  have hmem : ty ∈ alts := by simpa using hty
  rcases hp with h | h | h <;> subst h <;> simp [hmem, hl, dropUpTo2Eq, dropOptSpace, tailOK, countNonNl, dropNonNl]
theorem agentUpsert_eq (a : List Entry) (new : Entry) (hnd : (a.map Entry.blob).Nodup) :
    agentUpsert a new = a.filter (fun e => !isDup new e) ++ [new] := by
  unfold agentUpsert
  congr 1
  apply List.filter_congr
  intro e he
  congr 1
  -- some duplicate has e's blob ↔ e itself is a duplicate
  by_cases hd : isDup new e = true
  · simp only [hd]
    apply List.any_eq_true.mpr
    exact ⟨e, List.mem_filter.mpr ⟨he, hd⟩, by simp⟩
  · have hd' : isDup new e = false := by simpa using hd
    rw [hd']
    apply List.any_eq_false.mpr
    intro d hdm
    have hdm' := List.mem_filter.mp hdm
    intro hbe
    have hbe' : d.blob = e.blob := by simpa using hbe
    -- equal blobs within a Nodup blob list ⇒ same entry
    have : d = e := by
      clear hdm hbe hd hd'
      induction a with
      | nil => cases he
      | cons x xs ih =>
        simp only [List.map_cons, List.nodup_cons] at hnd
        have hx := hnd.1
        rcases List.mem_cons.mp hdm'.1 with h1 | h1 <;> rcases List.mem_cons.mp he with h2 | h2
        · rw [h1, h2]
        · exfalso; apply hx; rw [← h1, hbe']; exact List.mem_map_of_mem h2
        · exfalso; apply hx; rw [← h2, ← hbe']; exact List.mem_map_of_mem h1
        · exact ih hnd.2 h2 ⟨h1, hdm'.2⟩
    rw [this] at hdm'
    rw [hdm'.2] at hd'
    cases hd'

end KM.Client
