import KM.Model.Client
/-! Helper lemmas for C19 (kept apart from the property statements). -/
namespace KM.Client
open KM.ClientSite

theorem splitSpace_append (ty rest : List Char) (h : ∀ c ∈ ty, c ≠ ' ') :
    splitSpace (ty ++ ' ' :: rest) = some (ty, rest) := by
  induction ty with
  | nil => simp [splitSpace]
  | cons a t ih =>
    have ha : a ≠ ' ' := h a List.mem_cons_self
    have := ih (fun c hc => h c (List.mem_cons_of_mem _ hc))
    simp [splitSpace, ha, this]

theorem dropB64_append (body rest : List Char) (hb : ∀ c ∈ body, isB64 c = true)
    (hr : ∀ c, rest.head? = some c → isB64 c = false) :
    dropB64 (body ++ rest) = rest ∧ countB64 (body ++ rest) = body.length := by
  induction body with
  | nil =>
    cases rest with
    | nil => simp [dropB64, countB64]
    | cons c r => have := hr c rfl; simp [dropB64, countB64, this]
  | cons a t ih =>
    have ha := hb a List.mem_cons_self
    have := ih (fun c hc => hb c (List.mem_cons_of_mem _ hc))
    simp [dropB64, countB64, ha, this]

def isPad (p : List Char) : Prop := p = [] ∨ p = ['='] ∨ p = ['=', '=']

theorem lineOK_clientLine (alts : List (List Char)) (ty body pad : List Char)
    (hty : alts.contains ty = true) (hsp : ∀ c ∈ ty, c ≠ ' ')
    (hb : ∀ c ∈ body, isB64 c = true) (hne : body ≠ []) (hp : isPad pad) :
    lineOK alts (ty ++ ' ' :: (body ++ pad ++ ['\n'])) = true := by
  unfold lineOK
  rw [splitSpace_append ty _ hsp]
  have hr : ∀ c, (pad ++ ['\n']).head? = some c → isB64 c = false := by
    intro c hc
    rcases hp with h | h | h <;> subst h <;> simp at hc <;> subst hc <;> decide
  have := dropB64_append body (pad ++ ['\n']) hb hr
  simp only [List.append_assoc] at this ⊢
  rw [this.1, this.2]
  have hl : 0 < body.length := by cases body with | nil => exact absurd rfl hne | cons a t => simp
  have hmem : ty ∈ alts := by simpa using hty
  rcases hp with h | h | h <;> subst h <;> simp [hmem, hl, dropUpTo2Eq, dropOptSpace, tailOK, countNonNl, dropNonNl]
theorem agentUpsert_eq (a : List Entry) (new : Entry) (hnd : (a.map Entry.blob).Nodup) :
    agentUpsert a new = a.filter (fun e => !isDup new e) ++ [new] := by
  unfold agentUpsert
  congr 1
  apply List.filter_congr
  intro e he
  congr 1
  -- some duplicate has e's blob ↔ e itself is a duplicate
  by_cases hd : isDup new e = true
  · simp only [hd]
    apply List.any_eq_true.mpr
    exact ⟨e, List.mem_filter.mpr ⟨he, hd⟩, by simp⟩
  · have hd' : isDup new e = false := by simpa using hd
    rw [hd']
    apply List.any_eq_false.mpr
    intro d hdm
    have hdm' := List.mem_filter.mp hdm
    intro hbe
    have hbe' : d.blob = e.blob := by simpa using hbe
    -- equal blobs within a Nodup blob list ⇒ same entry
    have : d = e := by
      clear hdm hbe hd hd'
      induction a with
      | nil => cases he
      | cons x xs ih =>
        simp only [List.map_cons, List.nodup_cons] at hnd
        have hx := hnd.1
        rcases List.mem_cons.mp hdm'.1 with h1 | h1 <;> rcases List.mem_cons.mp he with h2 | h2
        · rw [h1, h2]
        · exfalso; apply hx; rw [← h1, hbe']; exact List.mem_map_of_mem h2
        · exfalso; apply hx; rw [← h2, ← hbe']; exact List.mem_map_of_mem h1
        · exact ih hnd.2 h2 ⟨h1, hdm'.2⟩
    rw [this] at hdm'
    rw [hdm'.2] at hd'
    cases hd'

/-- equal blobs within a list whose blobs are pairwise distinct: the same entry -/
theorem eq_of_blob_eq {a : List Entry} (hnd : (a.map Entry.blob).Nodup) {d e : Entry}
    (hd : d ∈ a) (he : e ∈ a) (hb : d.blob = e.blob) : d = e := by
  induction a with
  | nil => cases he
  | cons x xs ih =>
    simp only [List.map_cons, List.nodup_cons] at hnd
    have hx := hnd.1
    rcases List.mem_cons.mp hd with h1 | h1 <;> rcases List.mem_cons.mp he with h2 | h2
    · rw [h1, h2]
    · exfalso; apply hx; rw [← h1, hb]; exact List.mem_map_of_mem h2
    · exfalso; apply hx; rw [← h2, ← hb]; exact List.mem_map_of_mem h1
    · exact ih hnd.2 h1 h2

/-- removing (by blob) some of the certificates that carry the comment: the other entries stay,
nothing appears, blobs stay distinct -/
theorem removeBlobs_spec (a ds : List Entry) (new : Entry) (hnd : (a.map Entry.blob).Nodup)
    (hds : ∀ d ∈ ds, d ∈ a ∧ isDup new d = true) :
    (removeBlobs a ds).filter (fun e => !isDup new e) = a.filter (fun e => !isDup new e) ∧
    ((removeBlobs a ds).map Entry.blob).Nodup ∧ ∀ e ∈ removeBlobs a ds, e ∈ a := by
  unfold removeBlobs
  refine ⟨?_, ?_, ?_⟩
  · rw [List.filter_filter]
    apply List.filter_congr
    intro e he
    by_cases hd : isDup new e = true
    · simp [hd]
    · have hd' : isDup new e = false := by simpa using hd
      have : (ds.any fun d => d.blob == e.blob) = false := by
        apply List.any_eq_false.mpr
        intro d hdm hbe
        have hbe' : d.blob = e.blob := by simpa using hbe
        have := eq_of_blob_eq hnd (hds d hdm).1 he hbe'
        rw [this] at hdm
        rw [(hds e hdm).2] at hd'
        cases hd'
      simp [hd', this]
  · exact List.Nodup.sublist (List.Sublist.map _ List.filter_sublist) hnd
  · intro e he
    exact (List.mem_filter.mp he).1

/-- the invariant the retry relies on: an installation that succeeds — after whatever failed
attempts — leaves the old non-duplicates plus the new entry; one that fails leaves the
non-duplicates untouched and adds nothing -/
theorem install_spec (fs : List Fault) (new : Entry) :
    ∀ a : List Entry, (a.map Entry.blob).Nodup →
      ((install a new fs).2 = true → (install a new fs).1 = a.filter (fun e => !isDup new e) ++ [new]) ∧
      ((install a new fs).2 = false →
        (install a new fs).1.filter (fun e => !isDup new e) = a.filter (fun e => !isDup new e) ∧
        ∀ e ∈ (install a new fs).1, e ∈ a) := by
  induction fs with
  | nil => intro a _; simp [install]
  | cons f fs ih =>
    intro a hnd
    -- what one attempt does
    have hatt : ((attempt a new f).2 = true → (attempt a new f).1 = a.filter (fun e => !isDup new e) ++ [new]) ∧
        ((attempt a new f).2 = false →
          (attempt a new f).1.filter (fun e => !isDup new e) = a.filter (fun e => !isDup new e) ∧
          ((attempt a new f).1.map Entry.blob).Nodup ∧ ∀ e ∈ (attempt a new f).1, e ∈ a) := by
      have hall : ∀ d ∈ a.filter (isDup new), d ∈ a ∧ isDup new d = true := fun d hd => List.mem_filter.mp hd
      cases f with
      | none => simp [attempt, agentUpsert_eq a new hnd]
      | list => simp [attempt, hnd]
      | add =>
        simp only [attempt]
        exact ⟨by simp, fun _ => removeBlobs_spec a _ new hnd hall⟩
      | remove k =>
        simp only [attempt]
        split
        · exact ⟨by simp, fun _ => removeBlobs_spec a _ new hnd
            (fun d hd => hall d (List.mem_of_mem_take hd))⟩
        · simp [agentUpsert_eq a new hnd]
    simp only [install]
    split
    · rename_i hok
      exact ⟨fun _ => hatt.1 hok, fun h => by rw [hok] at h; cases h⟩
    · rename_i hok
      have hok' : (attempt a new f).2 = false := by simpa using hok
      have h1 := hatt.2 hok'
      have h2 := ih (attempt a new f).1 h1.2.1
      refine ⟨fun h => ?_, fun h => ?_⟩
      · rw [h2.1 h, h1.1]
      · have h3 := h2.2 h
        exact ⟨by rw [h3.1, h1.1], fun e he => h1.2.2 e (h3.2 e he)⟩

end KM.Client
