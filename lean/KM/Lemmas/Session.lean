import KM.Model.Session
/-! Helper lemmas for C05 (nothing here is counted as an obligation). Core-only. -/
namespace KM.Session
open KM.Gen

/-! ## level bits -/

theorem levelOK_mono {log log' : List (User × Factor)} {u : User} {l : Nat}
    (h : LevelOK log u l) (hsub : ∀ x ∈ log, x ∈ log') : LevelOK log' u l := by
  intro i hi
  obtain ⟨f, hf, hm⟩ := h i hi
  exact ⟨f, hf, hsub _ hm⟩

theorem levelOK_or {log : List (User × Factor)} {u : User} {a b : Nat}
    (ha : LevelOK log u a) (hb : LevelOK log u b) : LevelOK log u (a ||| b) := by
  intro i hi
  rw [Nat.testBit_or, Bool.or_eq_true] at hi
  rcases hi with hi | hi
  · exact ha i hi
  · exact hb i hi

theorem levelOK_pow {log : List (User × Factor)} {u : User} {n : Nat} {f : Factor}
    (hf : bitFactor n = some f) (hm : (u, f) ∈ log) : LevelOK log u (2 ^ n) := by
  intro i hi
  rw [Nat.testBit_two_pow] at hi
  have : n = i := by simpa using hi
  subst this
  exact ⟨f, hf, hm⟩

theorem levelOK_password {log : List (User × Factor)} {u : User} (h : (u, Factor.password) ∈ log) :
    LevelOK log u authTypePassword := levelOK_pow (n := 1) rfl h
theorem levelOK_vip {log : List (User × Factor)} {u : User} (h : (u, Factor.vip) ∈ log) :
    LevelOK log u authTypeSymantecVIP := levelOK_pow (n := 4) rfl h
theorem levelOK_totp {log : List (User × Factor)} {u : User} (h : (u, Factor.totp) ∈ log) :
    LevelOK log u authTypeTOTP := levelOK_pow (n := 6) rfl h
theorem levelOK_okta {log : List (User × Factor)} {u : User} (h : (u, Factor.okta) ∈ log) :
    LevelOK log u authTypeOkta2FA := levelOK_pow (n := 7) rfl h
theorem levelOK_boot {log : List (User × Factor)} {u : User} (h : (u, Factor.bootstrap) ∈ log) :
    LevelOK log u authTypeBootstrapOTP := levelOK_pow (n := 8) rfl h
theorem levelOK_cli {log : List (User × Factor)} {u : User} (h : (u, Factor.cli) ∈ log) :
    LevelOK log u authTypeWebauthForCLI := levelOK_pow (n := 10) rfl h
theorem levelOK_u2f {log : List (User × Factor)} {u : User} (h : (u, Factor.hwToken) ∈ log) :
    LevelOK log u authTypeU2F := levelOK_pow (n := 3) rfl h
theorem levelOK_fido2 {log : List (User × Factor)} {u : User} (h : (u, Factor.hwToken) ∈ log) :
    LevelOK log u authTypeFIDO2 := levelOK_pow (n := 11) rfl h

theorem levelOK_bump {log : List (User × Factor)} {ck : Cookie} {bits : Nat}
    (h : LevelOK log ck.sub ck.level) (hb : LevelOK log ck.sub bits) :
    LevelOK log (bump ck bits).sub (bump ck bits).level := levelOK_or h hb

/-- the executable check is exactly `LevelOK` -/
theorem levelOKb_iff (log : List (User × Factor)) (u : User) (l : Nat) :
    levelOKb log u l = true ↔ LevelOK log u l := by
  unfold levelOKb LevelOK
  simp only [Bool.and_eq_true, decide_eq_true_eq, List.all_eq_true, List.mem_range, Bool.or_eq_true,
    Bool.not_eq_true']
  constructor
  · rintro ⟨hlt, hall⟩ i hi
    have hi12 : i < 12 := by
      apply Classical.byContradiction
      intro hge
      have : l.testBit i = false :=
        Nat.testBit_lt_two_pow (Nat.lt_of_lt_of_le hlt (Nat.pow_le_pow_right (by decide) (Nat.le_of_not_lt hge)))
      rw [this] at hi
      cases hi
    rcases hall i hi12 with h | h
    · rw [hi] at h; cases h
    · cases hf : bitFactor i with
      | none => rw [hf] at h; cases h
      | some f => rw [hf] at h; exact ⟨f, rfl, by simpa using h⟩
  · intro h
    refine ⟨?_, ?_⟩
    · apply Nat.lt_pow_two_of_testBit
      intro i hi
      cases hb : l.testBit i with
      | false => rfl
      | true =>
        obtain ⟨f, hf, _⟩ := h i hb
        have : bitFactor i = none := by
          unfold bitFactor
          split <;> first | omega | rfl
        rw [this] at hf
        cases hf
    · intro i _
      cases hb : l.testBit i with
      | false => exact Or.inl rfl
      | true =>
        obtain ⟨f, hf, hm⟩ := h i hb
        right
        rw [hf]
        simpa using hm

/-! ## authentication -/

theorem auth_some {s : State} {c : Option Cookie} {ck : Cookie} (h : auth s c = some ck) :
    ck ∈ s.cookies ∧ c = some ck := by
  unfold auth at h
  split at h
  · split at h
    · rename_i hm; injection h with h; subst h; exact ⟨hm, rfl⟩
    · cases h
  · cases h

theorem upd_same {α : Type} (m : Nat → α) (k : Nat) (v : α) : upd m k v k = v := by simp [upd]
theorem upd_other {α : Type} (m : Nat → α) {k k' : Nat} (v : α) (h : k' ≠ k) : upd m k v k' = m k' := by
  simp [upd, h]

/-! ## the invariant -/

/-- what holds in every reachable state (repaired handlers) -/
structure Inv (s : State) : Prop where
  /-- every issued cookie carries only factor bits that were verified for its own subject -/
  cookies : ∀ c ∈ s.cookies, LevelOK s.log c.sub c.level
  /-- keymaster's record of whom a push was sent to agrees with the VIP service -/
  pushSvc : ∀ V tx, s.push V = some tx → ∃ b, s.svcTx tx.txid = some (tx.user, b)
  /-- an approved transaction was approved on the device of the user it was sent to -/
  svcLog : ∀ k u, s.svcTx k = some (u, true) → (u, Factor.vip) ∈ s.log
  svcBound : ∀ k p, s.svcTx k = some p → k < s.nextTx
  oktaLog : ∀ u, s.oktaApproved u = true → (u, Factor.okta) ∈ s.log
  /-- a stored bootstrap OTP hash is the hash of the OTP that was handed to that user -/
  bootWorld : ∀ u e, (s.prof u).boot = some e → s.bootIssued u = some e

/-- the state after an op: handler result + ghost bookkeeping -/
def assemble (evs : List (User × Factor)) (r : Res) : State :=
  { r.1 with cookies := r.2.2 ++ r.1.cookies, log := evs ++ r.1.log }

theorem step_fst (v : Variant) (s : State) (op : Op) :
    (step v s op).1 = assemble (events s op) (handle v s op) := rfl

theorem inv_assemble {s : State} {r : Res} {evs : List (User × Factor)} (hs : Inv s)
    (hck : r.1.cookies = s.cookies) (hlog : r.1.log = s.log)
    (hnew : ∀ c ∈ r.2.2, LevelOK (evs ++ s.log) c.sub c.level)
    (hpush : ∀ V tx, r.1.push V = some tx → ∃ b, r.1.svcTx tx.txid = some (tx.user, b))
    (hsvc : ∀ k u, r.1.svcTx k = some (u, true) → (u, Factor.vip) ∈ evs ++ s.log)
    (hbound : ∀ k p, r.1.svcTx k = some p → k < r.1.nextTx)
    (hokta : ∀ u, r.1.oktaApproved u = true → (u, Factor.okta) ∈ evs ++ s.log)
    (hboot : ∀ u e, (r.1.prof u).boot = some e → r.1.bootIssued u = some e) :
    Inv (assemble evs r) := by
  refine ⟨?_, hpush, ?_, hbound, ?_, hboot⟩
  · intro c hc
    simp only [assemble, List.mem_append] at hc ⊢
    rw [hlog]
    rcases hc with hc | hc
    · exact hnew c hc
    · rw [hck] at hc
      exact levelOK_mono (hs.cookies c hc) (fun x hx => List.mem_append_right _ hx)
  · intro k u h; simp only [assemble]; rw [hlog]; exact hsvc k u h
  · intro u h; simp only [assemble]; rw [hlog]; exact hokta u h

/-- the handler left everything the invariant talks about alone -/
structure SameAux (s s' : State) : Prop where
  cookies : s'.cookies = s.cookies
  log : s'.log = s.log
  push : s'.push = s.push
  svcTx : s'.svcTx = s.svcTx
  nextTx : s'.nextTx = s.nextTx
  oktaApproved : s'.oktaApproved = s.oktaApproved
  boot : ∀ u, (s'.prof u).boot = (s.prof u).boot
  bootIssued : s'.bootIssued = s.bootIssued

theorem SameAux.rfl' (s : State) : SameAux s s := ⟨rfl, rfl, rfl, rfl, rfl, rfl, fun _ => rfl, rfl⟩

theorem inv_sameAux {s : State} {r : Res} {evs : List (User × Factor)} (hs : Inv s) (h : SameAux s r.1)
    (hnew : ∀ c ∈ r.2.2, LevelOK (evs ++ s.log) c.sub c.level) : Inv (assemble evs r) := by
  apply inv_assemble hs h.cookies h.log hnew
  · intro V tx hp; rw [h.push] at hp; rw [h.svcTx]; exact hs.pushSvc V tx hp
  · intro k u hk; rw [h.svcTx] at hk; exact List.mem_append_right _ (hs.svcLog k u hk)
  · intro k p hk; rw [h.svcTx] at hk; rw [h.nextTx]; exact hs.svcBound k p hk
  · intro u hu; rw [h.oktaApproved] at hu; exact List.mem_append_right _ (hs.oktaLog u hu)
  · intro u e hb; rw [h.boot] at hb; rw [h.bootIssued]; exact hs.bootWorld u e hb

theorem inv_reject {s : State} (hs : Inv s) (evs : List (User × Factor)) (code : Nat) :
    Inv (assemble evs (s, code, [])) :=
  inv_sameAux hs (SameAux.rfl' s) (by intro c hc; cases hc)

/-- accepted: the presented cookie, upgraded by bits that are justified by the log -/
theorem inv_upgrade {s s' : State} {evs : List (User × Factor)} {ck : Cookie} {bits code : Nat}
    (hs : Inv s) (hsame : SameAux s s') (hck : ck ∈ s.cookies) (hb : LevelOK (evs ++ s.log) ck.sub bits) :
    Inv (assemble evs (s', code, [bump ck bits])) := by
  apply inv_sameAux hs hsame
  intro c hc
  simp only [List.mem_singleton] at hc
  subst hc
  exact levelOK_bump (levelOK_mono (hs.cookies ck hck) (fun x hx => List.mem_append_right _ hx)) hb

/-! ## every handler preserves the invariant (repaired variant) -/

theorem sameAux_setLastTotp (s : State) (u : User) (k : Nat) : SameAux s (setLastTotp s u k) := by
  refine ⟨rfl, rfl, rfl, rfl, rfl, rfl, ?_, rfl⟩
  intro u'
  simp only [setLastTotp, upd]
  split
  · rename_i h; subst h; rfl
  · rfl

theorem sameAux_newChal (s : State) (u : User) (wa : Bool) : SameAux s (newChal s u wa) :=
  ⟨rfl, rfl, rfl, rfl, rfl, rfl, fun _ => rfl, rfl⟩

theorem sameAux_delChal (s : State) (u : User) : SameAux s (delChal s u) :=
  ⟨rfl, rfl, rfl, rfl, rfl, rfl, fun _ => rfl, rfl⟩

theorem inv_login {s : State} (hs : Inv s) (u : User) (pw : Bool) :
    Inv (assemble (events s (.login u pw)) (hLogin s u pw)) := by
  unfold hLogin
  split
  · rename_i h
    subst h
    split
    · exact inv_sameAux hs ⟨rfl, rfl, rfl, rfl, rfl, rfl, fun _ => rfl, rfl⟩ (by intro c hc; cases hc)
    · apply inv_sameAux hs ⟨rfl, rfl, rfl, rfl, rfl, rfl, fun _ => rfl, rfl⟩
      intro c hc
      simp only [List.mem_singleton] at hc
      subst hc
      exact levelOK_password (by simp [events])
  · exact inv_reject hs _ _

theorem inv_vipOtp {s : State} (hs : Inv s) (c : Cookies) (o : Option User) :
    Inv (assemble (events s (.vipOtp c o)) (hVipOtp s (caller c) o)) := by
  unfold hVipOtp
  split
  · exact inv_reject hs _ _
  · rename_i ck hauth
    split
    · rename_i ho
      subst ho
      refine inv_upgrade hs (SameAux.rfl' s) (auth_some hauth).1 (levelOK_vip ?_)
      simp [events, hauth]
    · exact inv_reject hs _ _

theorem inv_pushStart {s : State} (hs : Inv s) (c : Cookies) (v : Option Nat) :
    Inv (assemble (events s (.pushStart c v)) (hPushStart s (caller c) v)) := by
  unfold hPushStart
  split
  · exact inv_reject hs _ _
  · rename_i ck hauth
    split
    · exact inv_reject hs _ _
    · rename_i V
      split
      · exact inv_reject hs _ _
      · rename_i hnone
        apply inv_assemble hs rfl rfl
        · intro c hc; cases hc
        · intro V' tx hp
          simp only [upd] at hp ⊢
          split at hp
          · injection hp with hp; subst hp; simp
          · obtain ⟨b, hb⟩ := hs.pushSvc V' tx hp
            have hlt := hs.svcBound _ _ hb
            refine ⟨b, ?_⟩
            rw [if_neg (Nat.ne_of_lt hlt)]
            exact hb
        · intro k u hk
          simp only [upd] at hk
          split at hk
          · injection hk with hk; injection hk with _ hk; cases hk
          · exact List.mem_append_right _ (hs.svcLog k u hk)
        · intro k p hk
          simp only [upd] at hk ⊢
          split at hk
          · rename_i h; subst h; exact Nat.lt_succ_self _
          · exact Nat.lt_succ_of_lt (hs.svcBound k p hk)
        · intro u hu; exact List.mem_append_right _ (hs.oktaLog u hu)
        · exact hs.bootWorld

theorem inv_approve {s : State} (hs : Inv s) (k : Nat) :
    Inv (assemble (events s (.approve k)) (hApprove s k)) := by
  unfold hApprove
  split
  · rename_i u b hk
    apply inv_assemble hs rfl rfl
    · intro c hc; cases hc
    · intro V tx hp
      obtain ⟨b', hb'⟩ := hs.pushSvc V tx hp
      simp only [upd]
      split
      · rename_i h
        rw [h, hk] at hb'
        injection hb' with hb'
        injection hb' with hu _
        exact ⟨true, by rw [hu]⟩
      · exact ⟨b', hb'⟩
    · intro k' u' hk'
      simp only [upd] at hk'
      split at hk'
      · injection hk' with hk'
        injection hk' with hu _
        subst hu
        simp [events, hk]
      · exact List.mem_append_right _ (hs.svcLog k' u' hk')
    · intro k' p hk'
      simp only [upd] at hk'
      split at hk'
      · rename_i h; subst h; exact hs.svcBound _ _ hk
      · exact hs.svcBound k' p hk'
    · intro u hu; exact List.mem_append_right _ (hs.oktaLog u hu)
    · exact hs.bootWorld
  · exact inv_reject hs _ _

theorem inv_poll {s : State} (hs : Inv s) (c : Cookies) (v : Option Nat) :
    Inv (assemble (events s (.poll c v)) (hPoll fixed s (caller c) v)) := by
  unfold hPoll
  split
  · exact inv_reject hs _ _
  · rename_i ck hauth
    split
    · exact inv_reject hs _ _
    · rename_i V
      split
      · exact inv_reject hs _ _
      · rename_i tx htx
        split
        · exact inv_reject hs _ _
        · rename_i huser
          split
          · exact inv_reject hs _ _
          · split
            · exact inv_reject hs _ _
            · exact inv_reject hs _ _
            · rename_i u hsvc
              refine inv_upgrade hs (SameAux.rfl' s) (auth_some hauth).1 (levelOK_vip ?_)
              have hu : tx.user = ck.sub := by
                apply Classical.byContradiction
                intro hne
                exact huser ⟨rfl, hne⟩
              obtain ⟨b, hb⟩ := hs.pushSvc V tx htx
              rw [hsvc] at hb
              injection hb with hb
              injection hb with h1 h2
              subst h1
              rw [← hu]
              exact List.mem_append_right _ (hs.svcLog _ _ hsvc)

theorem inv_totp {s : State} (hs : Inv s) (c : Cookies) (code : Option (User × Nat)) :
    Inv (assemble (events s (.totp c code)) (hTotp fixed s (caller c) code)) := by
  unfold hTotp
  split
  · exact inv_reject hs _ _
  · rename_i ck hauth
    split
    · exact inv_reject hs _ _
    · split
      · exact inv_reject hs _ _
      · rename_i o k
        split
        · rename_i hv
          simp only [fixed, if_true]
          split
          · obtain ⟨h1, h2, h3⟩ := hv
            subst h2
            split
            · exact inv_reject hs _ _
            · refine inv_upgrade hs (sameAux_setLastTotp s _ k) (auth_some hauth).1 (levelOK_totp ?_)
              simp [events, h1, h3]
          · exact inv_reject hs _ _
        · exact inv_reject hs _ _

theorem sameAux_clearBoot_fails : True := trivial

theorem inv_bootstrap {s : State} (hs : Inv s) (c : Cookies) (o : Option User) :
    Inv (assemble (events s (.bootstrap c o)) (hBootstrap s (caller c) o)) := by
  unfold hBootstrap
  split
  · exact inv_reject hs _ _
  · rename_i ck hauth
    split
    · exact inv_reject hs _ _
    · rename_i e hboot
      split
      · exact inv_reject hs _ _
      · rename_i hnot
        split
        · rename_i ho
          subst ho
          have hissued := hs.bootWorld _ _ hboot
          have hlt : s.now < e := by
            apply Nat.lt_of_not_le
            intro hle
            exact hnot (Or.inr (Or.inr hle))
          split
          · exact inv_reject hs _ _
          · apply inv_assemble hs rfl rfl
            · intro c' hc'
              simp only [List.mem_singleton] at hc'
              subst hc'
              refine levelOK_bump (levelOK_mono (hs.cookies ck (auth_some hauth).1)
                (fun x hx => List.mem_append_right _ hx)) (levelOK_boot ?_)
              simp [events, hissued, hlt]
            · exact hs.pushSvc
            · intro k u hk; exact List.mem_append_right _ (hs.svcLog k u hk)
            · exact hs.svcBound
            · intro u hu; exact List.mem_append_right _ (hs.oktaLog u hu)
            · intro u e' hb
              simp only [clearBoot, upd] at hb
              split at hb
              · cases hb
              · exact hs.bootWorld u e' hb
        · exact inv_reject hs _ _

theorem inv_u2fBegin {s : State} (hs : Inv s) (c : Cookies) :
    Inv (assemble (events s (.u2fBegin c)) (hU2fBegin s (caller c))) := by
  unfold hU2fBegin
  split
  · exact inv_reject hs _ _
  · split
    · exact inv_sameAux hs (sameAux_newChal s _ _) (by intro c hc; cases hc)
    · exact inv_reject hs _ _

theorem inv_waBegin {s : State} (hs : Inv s) (c : Cookies) :
    Inv (assemble (events s (.waBegin c)) (hWaBegin s (caller c))) := by
  unfold hWaBegin
  split
  · exact inv_reject hs _ _
  · split
    · exact inv_sameAux hs (sameAux_newChal s _ _) (by intro c hc; cases hc)
    · exact inv_reject hs _ _

theorem inv_u2fFinish {s : State} (hs : Inv s) (c : Cookies) (a : Option Assertion) :
    Inv (assemble (events s (.u2fFinish c a)) (hU2fFinish fixed s (caller c) a)) := by
  unfold hU2fFinish
  split
  · exact inv_reject hs _ _
  · rename_i ck hauth
    split
    · exact inv_reject hs _ _
    · rename_i hu2f
      split
      · exact inv_reject hs _ _
      · rename_i ch hch
        split
        · exact inv_reject hs _ _
        · split
          · exact inv_reject hs _ _
          · rename_i a
            split
            · rename_i hok
              obtain ⟨ho, _, _⟩ := hok
              split
              · rename_i hk
                split
                · rename_i hreg
                  refine inv_upgrade hs (sameAux_delChal s _) (auth_some hauth).1 (levelOK_u2f ?_)
                  simp [events, tokenRegistered, hk, ho, hreg]
                · exact inv_reject hs _ _
              · rename_i hk
                split
                · rename_i hwa
                  simp only [fixed, if_true]
                  refine inv_upgrade hs (sameAux_delChal s _) (auth_some hauth).1 (levelOK_u2f ?_)
                  simp [events, tokenRegistered, hk, ho, hwa]
                · exact inv_reject hs _ _
            · exact inv_reject hs _ _

theorem inv_waFinish {s : State} (hs : Inv s) (c : Cookies) (a : Option Assertion) :
    Inv (assemble (events s (.waFinish c a)) (hWaFinish fixed s (caller c) a)) := by
  unfold hWaFinish
  split
  · exact inv_reject hs _ _
  · rename_i ck hauth
    split
    · exact inv_reject hs _ _
    · rename_i ch hch
      split
      · exact inv_reject hs _ _
      · split
        · exact inv_reject hs _ _
        · rename_i a
          split
          · exact inv_reject hs _ _
          · split
            · rename_i hfound
              obtain ⟨ho, hk, hreg⟩ := hfound
              split
              · refine inv_upgrade hs (sameAux_delChal s _) (auth_some hauth).1 (levelOK_u2f ?_)
                simp [events, tokenRegistered, hk, ho, hreg]
              · exact inv_reject hs _ _
            · split
              · rename_i hwa
                obtain ⟨ho, hk, hreg, _⟩ := hwa
                refine inv_upgrade hs (sameAux_delChal s _) (auth_some hauth).1 ?_
                have hm : (ck.sub, Factor.hwToken) ∈ events s (.waFinish c (some a)) ++ s.log := by
                  simp [events, tokenRegistered, hk, ho, hreg]
                exact levelOK_or (levelOK_fido2 hm) (levelOK_u2f hm)
              · exact inv_reject hs _ _

theorem inv_showToken {s : State} (hs : Inv s) (c : Cookies) (l : Nat) :
    Inv (assemble (events s (.showToken c l)) (hShowToken s (caller c) l)) := by
  unfold hShowToken
  split
  · exact inv_reject hs _ _
  · split
    · exact inv_reject hs _ _
    · exact inv_sameAux hs ⟨rfl, rfl, rfl, rfl, rfl, rfl, fun _ => rfl, rfl⟩ (by intro c hc; cases hc)

theorem inv_sendDoc {s : State} (hs : Inv s) (c : Cookies) (t : Option CliTok) :
    Inv (assemble (events s (.sendDoc c t)) (hSendDoc s (caller c) t)) := by
  unfold hSendDoc
  split
  · exact inv_reject hs _ _
  · split
    · exact inv_reject hs _ _
    · split
      · exact inv_reject hs _ _
      · rename_i t
        split
        · rename_i hok
          apply inv_sameAux hs (SameAux.rfl' s)
          intro c' hc'
          simp only [List.mem_singleton] at hc'
          subst hc'
          exact levelOK_cli (by simp [events, hok.1, hok.2.2])
        · exact inv_reject hs _ _

theorem inv_oktaOtp {s : State} (hs : Inv s) (c : Cookies) (o : Option User) :
    Inv (assemble (events s (.oktaOtp c o)) (hOktaOtp s (caller c) o)) := by
  unfold hOktaOtp
  split
  · exact inv_reject hs _ _
  · rename_i ck hauth
    split
    · exact inv_reject hs _ _
    · rename_i hokta
      split
      · rename_i h
        obtain ⟨hsess, ho⟩ := h
        subst ho
        refine inv_upgrade hs (SameAux.rfl' s) (auth_some hauth).1 (levelOK_okta ?_)
        have : s.okta = true := by
          cases h : s.okta with
          | true => rfl
          | false => exact absurd h hokta
        simp [events, hauth, this, hsess]
      · exact inv_reject hs _ _

theorem inv_oktaPushStart {s : State} (hs : Inv s) (c : Cookies) :
    Inv (assemble (events s (.oktaPushStart c)) (hOktaPushStart s (caller c))) := by
  unfold hOktaPushStart
  split
  · exact inv_reject hs _ _
  · split
    · exact inv_reject hs _ _
    · split
      · exact inv_reject hs _ _
      · exact inv_sameAux hs ⟨rfl, rfl, rfl, rfl, rfl, rfl, fun _ => rfl, rfl⟩ (by intro c hc; cases hc)

theorem inv_oktaPoll {s : State} (hs : Inv s) (c : Cookies) :
    Inv (assemble (events s (.oktaPoll c)) (hOktaPoll s (caller c))) := by
  unfold hOktaPoll
  split
  · exact inv_reject hs _ _
  · rename_i ck hauth
    split
    · exact inv_reject hs _ _
    · split
      · exact inv_reject hs _ _
      · split
        · rename_i happ
          refine inv_upgrade hs ⟨rfl, rfl, rfl, rfl, rfl, rfl, fun _ => rfl, rfl⟩ (auth_some hauth).1 (levelOK_okta ?_)
          exact List.mem_append_right _ (hs.oktaLog _ happ)
        · exact inv_sameAux hs ⟨rfl, rfl, rfl, rfl, rfl, rfl, fun _ => rfl, rfl⟩ (by intro c hc; cases hc)

theorem inv_oktaApprove {s : State} (hs : Inv s) (u : User) :
    Inv (assemble (events s (.oktaApprove u)) (hOktaApprove s u)) := by
  unfold hOktaApprove
  split
  · rename_i hp
    apply inv_assemble hs rfl rfl
    · intro c hc; cases hc
    · exact hs.pushSvc
    · intro k u' hk; exact List.mem_append_right _ (hs.svcLog k u' hk)
    · exact hs.svcBound
    · intro u' hu'
      simp only [upd] at hu'
      split at hu'
      · rename_i h; subst h; simp [events, hp]
      · exact List.mem_append_right _ (hs.oktaLog u' hu')
    · exact hs.bootWorld
  · exact inv_reject hs _ _

theorem inv_tick {s : State} (hs : Inv s) :
    Inv (assemble (events s .tick) ({ s with now := s.now + 1 }, 1, [])) :=
  inv_sameAux hs ⟨rfl, rfl, rfl, rfl, rfl, rfl, fun _ => rfl, rfl⟩ (by intro c hc; cases hc)

theorem inv_sweep {s : State} (hs : Inv s) :
    Inv (assemble (events s .sweep) ({ s with push := sweepPush s, chal := sweepChal s }, 1, [])) := by
  apply inv_assemble hs rfl rfl
  · intro c hc; cases hc
  · intro V tx hp
    simp only [sweepPush] at hp
    split at hp
    · rename_i tx' htx'
      split at hp
      · cases hp
      · injection hp with hp; subst hp; exact hs.pushSvc V _ htx'
    · cases hp
  · intro k u hk; exact List.mem_append_right _ (hs.svcLog k u hk)
  · exact hs.svcBound
  · intro u hu; exact List.mem_append_right _ (hs.oktaLog u hu)
  · exact hs.bootWorld

theorem sameAux_setExtraTotp (s : State) (u : User) : SameAux s (setExtraTotp s u) := by
  refine ⟨rfl, rfl, rfl, rfl, rfl, rfl, ?_, rfl⟩
  intro u'
  simp only [setExtraTotp, upd]
  split
  · rename_i h; subst h; rfl
  · rfl

theorem inv_totpEnrol {s : State} (hs : Inv s) (evs : List (User × Factor)) (c : Option Cookie) :
    Inv (assemble evs (hTotpEnrol s c)) := by
  unfold hTotpEnrol
  (repeat' split) <;> first
    | exact inv_reject hs _ _
    | exact inv_sameAux hs (sameAux_setExtraTotp s _) (by intro c hc; cases hc)

theorem inv_rename {s : State} (hs : Inv s) (evs : List (User × Factor)) (c : Option Cookie) (u : User) (p : Bool) :
    Inv (assemble evs (hRename s c u p)) := by
  unfold hRename
  (repeat' split) <;> exact inv_reject hs _ _

/-- **one step** of the repaired system preserves the invariant -/
theorem handle0_inv {s : State} (hs : Inv s) (op : Op) :
    Inv (assemble (events s op) (handle0 fixed s op)) := by
  cases op with
  | login u pw => exact inv_login hs u pw
  | vipOtp c o => exact inv_vipOtp hs c o
  | pushStart c v => exact inv_pushStart hs c v
  | approve k => exact inv_approve hs k
  | poll c v => exact inv_poll hs c v
  | totp c code => exact inv_totp hs c code
  | bootstrap c o => exact inv_bootstrap hs c o
  | u2fBegin c => exact inv_u2fBegin hs c
  | u2fFinish c a => exact inv_u2fFinish hs c a
  | waBegin c => exact inv_waBegin hs c
  | waFinish c a => exact inv_waFinish hs c a
  | showToken c l => exact inv_showToken hs c l
  | sendDoc c t => exact inv_sendDoc hs c t
  | logout c => exact inv_reject hs _ _
  | oktaOtp c o => exact inv_oktaOtp hs c o
  | oktaPushStart c => exact inv_oktaPushStart hs c
  | oktaApprove u => exact inv_oktaApprove hs u
  | oktaPoll c => exact inv_oktaPoll hs c
  | tick => exact inv_tick hs
  | sweep => exact inv_sweep hs
  | totpEnrol c => exact inv_totpEnrol hs _ _
  | totpRename c u => exact inv_rename hs _ _ _ _
  | hwRename c u => exact inv_rename hs _ _ _ _
  | fault sv ld => exact inv_sameAux hs ⟨rfl, rfl, rfl, rfl, rfl, rfl, fun _ => rfl, rfl⟩ (by intro c hc; cases hc)

theorem step_inv {s : State} (hs : Inv s) (op : Op) : Inv (step fixed s op).1 := by
  rw [step_fst]
  unfold handle
  split
  · exact inv_reject hs _ _
  · exact handle0_inv hs op

theorem init_inv (t0 : Nat) (okta : Bool) (cfg : User → UserCfg) : Inv (init t0 okta cfg) := by
  refine ⟨?_, ?_, ?_, ?_, ?_, ?_⟩
  · intro c hc; cases hc
  · intro V tx h; cases h
  · intro k u h; cases h
  · intro k p h; cases h
  · intro u h; cases h
  · intro u e h; exact h

theorem runFrom_inv {s : State} (hs : Inv s) (ops : List Op) : Inv (runFrom fixed s ops) := by
  unfold runFrom
  induction ops generalizing s with
  | nil => exact hs
  | cons op ops ih => exact ih (step_inv hs op)

/-! ## monotone shape of a step (for the one-time theorems) -/

/-- how one step may change a profile -/
def ProfStep (p p' : Profile) : Prop :=
  p'.hasTotp = p.hasTotp ∧ p'.hasU2F = p.hasU2F ∧ p'.hasWA = p.hasWA ∧ p.lastTotp ≤ p'.lastTotp ∧
  (p'.boot = p.boot ∨ p'.boot = none)

theorem ProfStep.refl (p : Profile) : ProfStep p p := ⟨rfl, rfl, rfl, Nat.le_refl _, Or.inl rfl⟩

/-- how one step may change the pending challenges -/
def ChalStep (s s' : State) : Prop :=
  (s'.nextChal = s.nextChal ∧ ∀ u, s'.chal u = s.chal u ∨ s'.chal u = none) ∨
  (s'.nextChal = s.nextChal + 1 ∧ ∃ u0 wa,
      s'.chal u0 = some ⟨s.nextChal, wa, s.now⟩ ∧ ∀ u, u ≠ u0 → s'.chal u = s.chal u)

theorem ChalStep.same {s s' : State} (h1 : s'.nextChal = s.nextChal) (h2 : s'.chal = s.chal) : ChalStep s s' :=
  Or.inl ⟨h1, fun u => Or.inl (by rw [h2])⟩

/-- what a step leaves alone / changes monotonically -/
structure Shape (s s' : State) : Prop where
  now : s.now ≤ s'.now
  prof : ∀ u, ProfStep (s.prof u) (s'.prof u)
  chal : ChalStep s s'

theorem shape_same {s s' : State} (h0 : s'.now = s.now) (h1 : s'.prof = s.prof) (h2 : s'.nextChal = s.nextChal)
    (h3 : s'.chal = s.chal) : Shape s s' :=
  ⟨by rw [h0]; exact Nat.le_refl _, fun u => by rw [h1]; exact ProfStep.refl _, ChalStep.same h2 h3⟩

macro "same_tac" : tactic =>
  `(tactic| ((repeat' split) <;> exact shape_same rfl rfl rfl rfl))

theorem shape_login (s : State) (u : User) (pw : Bool) : Shape s (hLogin s u pw).1 := by
  unfold hLogin; same_tac
theorem shape_vipOtp (s : State) (c o) : Shape s (hVipOtp s (caller c) o).1 := by
  unfold hVipOtp; same_tac
theorem shape_pushStart (s : State) (c v) : Shape s (hPushStart s (caller c) v).1 := by
  unfold hPushStart; same_tac
theorem shape_approve (s : State) (k) : Shape s (hApprove s k).1 := by
  unfold hApprove; same_tac
theorem shape_poll (s : State) (c v) : Shape s (hPoll fixed s (caller c) v).1 := by
  unfold hPoll; same_tac
theorem shape_showToken (s : State) (c l) : Shape s (hShowToken s (caller c) l).1 := by
  unfold hShowToken; same_tac
theorem shape_sendDoc (s : State) (c t) : Shape s (hSendDoc s (caller c) t).1 := by
  unfold hSendDoc; same_tac
theorem shape_oktaOtp (s : State) (c o) : Shape s (hOktaOtp s (caller c) o).1 := by
  unfold hOktaOtp; same_tac
theorem shape_oktaPushStart (s : State) (c) : Shape s (hOktaPushStart s (caller c)).1 := by
  unfold hOktaPushStart; same_tac
theorem shape_oktaPoll (s : State) (c) : Shape s (hOktaPoll s (caller c)).1 := by
  unfold hOktaPoll; same_tac
theorem shape_oktaApprove (s : State) (u) : Shape s (hOktaApprove s u).1 := by
  unfold hOktaApprove; same_tac


theorem profStep_setLastTotp {s : State} {u : User} {k : Nat} (h : (s.prof u).lastTotp ≤ k) (u' : User) :
    ProfStep (s.prof u') ((setLastTotp s u k).prof u') := by
  simp only [setLastTotp, upd]
  split
  · rename_i he; subst he; exact ⟨rfl, rfl, rfl, h, Or.inl rfl⟩
  · exact ProfStep.refl _

theorem profStep_clearBoot (s : State) (u u' : User) :
    ProfStep (s.prof u') ((clearBoot s u).prof u') := by
  simp only [clearBoot, upd]
  split
  · rename_i he; subst he; exact ⟨rfl, rfl, rfl, Nat.le_refl _, Or.inr rfl⟩
  · exact ProfStep.refl _

theorem shape_totp (s : State) (c code) : Shape s (hTotp fixed s (caller c) code).1 := by
  unfold hTotp
  split
  · exact shape_same rfl rfl rfl rfl
  · split
    · exact shape_same rfl rfl rfl rfl
    · split
      · exact shape_same rfl rfl rfl rfl
      · split
        · simp only [fixed, if_true]
          split
          · rename_i hlt
            split
            · exact shape_same rfl rfl rfl rfl
            · exact ⟨Nat.le_refl _, profStep_setLastTotp (Nat.le_of_lt hlt), ChalStep.same rfl rfl⟩
          · exact shape_same rfl rfl rfl rfl
        · exact shape_same rfl rfl rfl rfl

theorem shape_bootstrap (s : State) (c o) : Shape s (hBootstrap s (caller c) o).1 := by
  unfold hBootstrap
  split
  · exact shape_same rfl rfl rfl rfl
  · split
    · exact shape_same rfl rfl rfl rfl
    · split
      · exact shape_same rfl rfl rfl rfl
      · split
        · split
          · exact shape_same rfl rfl rfl rfl
          · exact ⟨Nat.le_refl _, profStep_clearBoot s _, ChalStep.same rfl rfl⟩
        · exact shape_same rfl rfl rfl rfl

theorem shape_newChal (s : State) (u : User) (wa : Bool) : Shape s (newChal s u wa) := by
  refine ⟨Nat.le_refl _, fun _ => ProfStep.refl _, Or.inr ⟨rfl, u, wa, ?_, ?_⟩⟩
  · simp [newChal, upd]
  · intro u' hne; simp [newChal, upd, hne]

theorem shape_delChal (s : State) (u : User) : Shape s (delChal s u) := by
  refine ⟨Nat.le_refl _, fun _ => ProfStep.refl _, Or.inl ⟨rfl, fun u' => ?_⟩⟩
  simp only [delChal, upd]
  split
  · exact Or.inr rfl
  · exact Or.inl rfl

theorem shape_u2fBegin (s : State) (c) : Shape s (hU2fBegin s (caller c)).1 := by
  unfold hU2fBegin
  split
  · exact shape_same rfl rfl rfl rfl
  · split
    · exact shape_newChal s _ _
    · exact shape_same rfl rfl rfl rfl

theorem shape_waBegin (s : State) (c) : Shape s (hWaBegin s (caller c)).1 := by
  unfold hWaBegin
  split
  · exact shape_same rfl rfl rfl rfl
  · split
    · exact shape_newChal s _ _
    · exact shape_same rfl rfl rfl rfl

theorem shape_u2fFinish (s : State) (c a) : Shape s (hU2fFinish fixed s (caller c) a).1 := by
  unfold hU2fFinish
  simp only [fixed, if_true]
  (repeat' split) <;> first | exact shape_same rfl rfl rfl rfl | exact shape_delChal s _

theorem shape_waFinish (s : State) (c a) : Shape s (hWaFinish fixed s (caller c) a).1 := by
  unfold hWaFinish
  (repeat' split) <;> first | exact shape_same rfl rfl rfl rfl | exact shape_delChal s _

theorem shape_sweep (s : State) : Shape s { s with push := sweepPush s, chal := sweepChal s } := by
  refine ⟨Nat.le_refl _, fun _ => ProfStep.refl _, Or.inl ⟨rfl, fun u => ?_⟩⟩
  simp only [sweepChal]
  split
  · rename_i ch hch
    split
    · exact Or.inr rfl
    · exact Or.inl hch.symm
  · rename_i hch; exact Or.inl hch.symm

theorem shape_assemble {s : State} {r : Res} (evs : List (User × Factor)) (h : Shape s r.1) :
    Shape s (assemble evs r) := ⟨h.now, h.prof, h.chal⟩

/-- every step of the repaired system has the monotone shape -/
theorem shape_setExtraTotp (s : State) (u : User) : Shape s (setExtraTotp s u) := by
  refine ⟨Nat.le_refl _, fun u' => ?_, ChalStep.same rfl rfl⟩
  simp only [setExtraTotp, upd]
  split
  · rename_i h; subst h; exact ⟨rfl, rfl, rfl, Nat.le_refl _, Or.inl rfl⟩
  · exact ProfStep.refl _

theorem shape_totpEnrol (s : State) (c : Option Cookie) : Shape s (hTotpEnrol s c).1 := by
  unfold hTotpEnrol
  (repeat' split) <;> first | exact shape_same rfl rfl rfl rfl | exact shape_setExtraTotp s _

theorem shape_rename (s : State) (c : Option Cookie) (u : User) (p : Bool) : Shape s (hRename s c u p).1 := by
  unfold hRename; same_tac

theorem handle0_shape (s : State) (op : Op) : Shape s (handle0 fixed s op).1 := by
  cases op with
  | login u pw => exact shape_login s u pw
  | vipOtp c o => exact shape_vipOtp s c o
  | pushStart c v => exact shape_pushStart s c v
  | approve k => exact shape_approve s k
  | poll c v => exact shape_poll s c v
  | totp c code => exact shape_totp s c code
  | bootstrap c o => exact shape_bootstrap s c o
  | u2fBegin c => exact shape_u2fBegin s c
  | u2fFinish c a => exact shape_u2fFinish s c a
  | waBegin c => exact shape_waBegin s c
  | waFinish c a => exact shape_waFinish s c a
  | showToken c l => exact shape_showToken s c l
  | sendDoc c t => exact shape_sendDoc s c t
  | logout c => exact shape_same rfl rfl rfl rfl
  | oktaOtp c o => exact shape_oktaOtp s c o
  | oktaPushStart c => exact shape_oktaPushStart s c
  | oktaApprove u => exact shape_oktaApprove s u
  | oktaPoll c => exact shape_oktaPoll s c
  | tick => exact ⟨Nat.le_succ _, fun _ => ProfStep.refl _, ChalStep.same rfl rfl⟩
  | sweep => exact shape_sweep s
  | totpEnrol c => exact shape_totpEnrol s _
  | totpRename c u => exact shape_rename s _ _ _
  | hwRename c u => exact shape_rename s _ _ _
  | fault sv ld => exact shape_same rfl rfl rfl rfl

theorem step_shape (s : State) (op : Op) : Shape s (step fixed s op).1 := by
  rw [step_fst]
  apply shape_assemble
  unfold handle
  split
  · exact shape_same rfl rfl rfl rfl
  · exact handle0_shape s op

/-! ## what can never be accepted again -/

/-- TOTP code of step `k` for user `o` is spent -/
def TotpDead (o : User) (k : Nat) (s : State) : Prop := k ≤ (s.prof o).lastTotp
/-- `u`'s bootstrap OTP is spent -/
def BootDead (u : User) (s : State) : Prop := (s.prof u).boot = none
/-- challenge number `k` is spent: handed out earlier, pending for nobody -/
def ChalDead (k : Nat) (s : State) : Prop := k < s.nextChal ∧ ∀ u ch, s.chal u = some ch → ch.id ≠ k

/-- pending challenges are distinct and older than the next number -/
structure ChalWF (s : State) : Prop where
  bound : ∀ u ch, s.chal u = some ch → ch.id < s.nextChal
  uniq : ∀ u u' ch ch', s.chal u = some ch → s.chal u' = some ch' → ch.id = ch'.id → u = u'

theorem totpDead_shape {s s' : State} {o : User} {k : Nat} (h : Shape s s') (hd : TotpDead o k s) : TotpDead o k s' :=
  Nat.le_trans hd (h.prof o).2.2.2.1

theorem bootDead_shape {s s' : State} {u : User} (h : Shape s s') (hd : BootDead u s) : BootDead u s' := by
  unfold BootDead at *
  rcases (h.prof u).2.2.2.2 with h1 | h1
  · rw [h1, hd]
  · exact h1

theorem chalDead_shape {s s' : State} {k : Nat} (h : Shape s s') (hd : ChalDead k s) : ChalDead k s' := by
  obtain ⟨hlt, hno⟩ := hd
  rcases h.chal with ⟨hn, hc⟩ | ⟨hn, u0, wa, h0, hc⟩
  · refine ⟨by rw [hn]; exact hlt, fun u ch hch => ?_⟩
    rcases hc u with h1 | h1
    · rw [h1] at hch; exact hno u ch hch
    · rw [h1] at hch; cases hch
  · refine ⟨by rw [hn]; exact Nat.lt_succ_of_lt hlt, fun u ch hch => ?_⟩
    by_cases hu : u = u0
    · subst hu
      rw [h0] at hch
      injection hch with hch
      subst hch
      exact Nat.ne_of_gt hlt
    · rw [hc u hu] at hch; exact hno u ch hch

theorem chalWF_shape {s s' : State} (h : Shape s s') (hw : ChalWF s) : ChalWF s' := by
  rcases h.chal with ⟨hn, hc⟩ | ⟨hn, u0, wa, h0, hc⟩
  · have old : ∀ u ch, s'.chal u = some ch → s.chal u = some ch := by
      intro u ch hch
      rcases hc u with h1 | h1
      · rw [h1] at hch; exact hch
      · rw [h1] at hch; cases hch
    exact ⟨fun u ch hch => by rw [hn]; exact hw.bound u ch (old u ch hch),
           fun u u' ch ch' h1 h2 he => hw.uniq u u' ch ch' (old u ch h1) (old u' ch' h2) he⟩
  · have cases' : ∀ u ch, s'.chal u = some ch → (u = u0 ∧ ch.id = s.nextChal) ∨ (u ≠ u0 ∧ s.chal u = some ch) := by
      intro u ch hch
      by_cases hu : u = u0
      · subst hu; rw [h0] at hch; injection hch with hch; subst hch; exact Or.inl ⟨rfl, rfl⟩
      · rw [hc u hu] at hch; exact Or.inr ⟨hu, hch⟩
    refine ⟨fun u ch hch => ?_, fun u u' ch ch' h1 h2 he => ?_⟩
    · rw [hn]
      rcases cases' u ch hch with ⟨_, hid⟩ | ⟨_, hold⟩
      · rw [hid]; exact Nat.lt_succ_self _
      · exact Nat.lt_succ_of_lt (hw.bound u ch hold)
    · rcases cases' u ch h1 with ⟨hu, hid⟩ | ⟨hu, hold⟩ <;> rcases cases' u' ch' h2 with ⟨hu', hid'⟩ | ⟨hu', hold'⟩
      · rw [hu, hu']
      · have := hw.bound u' ch' hold'; omega
      · have := hw.bound u ch hold; omega
      · exact hw.uniq u u' ch ch' hold hold' he

theorem init_chalWF (t0 : Nat) (okta : Bool) (cfg : User → UserCfg) : ChalWF (init t0 okta cfg) :=
  ⟨fun _ _ h => (by cases h), fun _ _ _ _ h _ _ => (by cases h)⟩

theorem runFrom_shape_pred {P : State → Prop} (hP : ∀ s s', Shape s s' → P s → P s') {s : State} (h : P s)
    (ops : List Op) : P (runFrom fixed s ops) := by
  unfold runFrom
  induction ops generalizing s with
  | nil => exact h
  | cons op ops ih => exact ih (hP _ _ (step_shape s op) h)

end KM.Session
