import KM.Model.Redirect
import KM.Model.GoLite
import KM.Model.GoTypes
import KM.Gen.GoOidc
set_option linter.unusedSimpArgs false
/-! Tie between the functions of cmd/keymasterd/idp_oidc.go as TRANSLATED from /repo's current source by
go2lean (`KM/Gen/GoOidc.lean`) and the hand-written model `KM.Redirect`: how the model reads the
externals the translation is parameterised by (`url.Parse`, `regexp.MatchString`), and the
equivalences, for every behaviour of those externals. Core-only. -/
namespace KM.Redirect
open KM.Go KM.GoTypes

/-- how the model reads the externals the translated code is parameterised by -/
def reOf (ext : UrlExt) (s : List Char) (p : List Char) : Option Bool :=
  match ext.reMatch p s with
  | (_, some _) => none
  | (m, none) => some m

def parsedOfURL (u : Option URL) : Parsed :=
  { scheme := urlScheme u, host := urlHostname u, rawQuery := urlRawQuery u, path := urlPath u }

def parsedOf (ext : UrlExt) (s : List Char) : Option Parsed :=
  match ext.urlParse s with
  | (_, some _) => none
  | (u, none) => some (parsedOfURL u)

def clientOf (c : OpenIDConnectClientConfig) : Client :=
  { id := c.ClientID, domains := c.AllowedRedirectDomains, patterns := c.AllowedRedirectURLRE }

def verdictOf3 (r : Bool × Option URL × Option Err) : Verdict :=
  if r.2.2.isSome then .error else Verdict.ofBool r.1

def verdictOf2 (r : Bool × Option Err) : Verdict :=
  if r.2.isSome then .error else Verdict.ofBool r.1

theorem go_hostMatches_eq (h d : List Char) :
    KM.Gen.GoOidc.hostMatchesDomain h d = hostMatches h d := by
  unfold KM.Gen.GoOidc.hostMatchesDomain hostMatches dotted strings_HasPrefix strings_HasSuffix
  have e : ".".toList = ['.'] := by decide
  rw [e]
  cases d with
  | nil => simp
  | cons c rest =>
    cases h with
    | nil => simp
    | cons a as =>
      by_cases hc : c = '.'
      · subst hc; simp [List.isPrefixOf]
      · have hc' : ¬ '.' = c := fun e => hc e.symm
        simp [List.isPrefixOf, hc, hc']

theorem go_contains_dotdot (p : List Char) : strings_Contains p ['.', '.'] = hasDotDot p := by
  induction p with
  | nil => simp [strings_Contains, hasDotDot]
  | cons c rest ih =>
    rw [strings_Contains, hasDotDot, ih]
    congr 1
    cases rest with
    | nil => simp [List.isPrefixOf]
    | cons c2 r2 => simp [List.isPrefixOf]; rw [Bool.beq_comm (a := '.') (b := c), Bool.beq_comm (a := '.') (b := c2)]


theorem reLoop_scan (re : List Char → Option Bool) (pats : List (List Char)) :
    reLoop re pats = match scan re pats with | .inl _ => none | .inr b => some b := by
  induction pats with
  | nil => simp [reLoop, scan]
  | cons p rest ih =>
    simp only [reLoop, scan]
    cases hx : re p with
    | none => simp
    | some b => cases b <;> simp [ih]


/-- **the translated `CanRedirectToURL` is the model's `decide`** for every behaviour of
`url.Parse` and `regexp.MatchString`, every client and every string; and on acceptance the URL
handed back is the one `url.Parse` produced. -/
theorem go_canRedirect_eq (ext : UrlExt) (c : OpenIDConnectClientConfig) (s : List Char) :
    verdictOf3 (KM.Gen.GoOidc.CanRedirectToURL ext c s) = decide (reOf ext s) (clientOf c) (parsedOf ext s) := by
  unfold KM.Gen.GoOidc.CanRedirectToURL decide parsedOf
  dsimp -proj -iota only
  rw [forRange_scan (reOf ext s) (fun x => (false, none, (ext.reMatch x s).2)) _ (by
    intro x st; unfold reOf
    generalize ext.reMatch x s = r
    rcases r with ⟨m, _ | e⟩ <;> cases m <;> rfl)]
  rw [reLoop_scan]
  generalize ext.urlParse s = pr
  rcases pr with ⟨u, e⟩
  dsimp only
  rw [forRange_anyBrk (fun d => KM.Gen.GoOidc.hostMatchesDomain (urlHostname u) d) _ (by intro x st; rfl)]
  have e1 : "https".toList = https := rfl
  have e2 : "..".toList = ['.', '.'] := by decide
  rw [e1, e2, go_contains_dotdot]
  simp only [clientOf, len, go_hostMatches_eq, parsedOfURL]
  by_cases hd : c.AllowedRedirectDomains.length < 1 <;> by_cases hp : c.AllowedRedirectURLRE.length < 1
  all_goals
    have hd' : ((c.AllowedRedirectDomains.length : Int) < 1) ↔ c.AllowedRedirectDomains.length < 1 := by omega
    have hp' : ((c.AllowedRedirectURLRE.length : Int) < 1) ↔ c.AllowedRedirectURLRE.length < 1 := by omega
    simp only [hd', hp', hd, hp, decide_true, decide_false, Bool.and_true, Bool.and_false,
      and_self, and_true, and_false, if_true, if_false, Bool.or_false, Bool.false_eq_true, reduceIte]
  · simp [verdictOf3, Verdict.ofBool]
  all_goals
    cases hsc : scan (reOf ext s) c.AllowedRedirectURLRE with
    | inl x =>
      have hx := scan_inl hsc
      unfold reOf at hx
      rcases hr : ext.reMatch x s with ⟨m, _ | er⟩
      · rw [hr] at hx; simp at hx
      · simp [verdictOf3, hr]
    | inr m =>
      cases e with
      | some er => cases m <;> simp [verdictOf3, Verdict.ofBool]
      | none =>
        have hq : ((List.length (urlRawQuery u) : Int) > 0) ↔ (urlRawQuery u).length > 0 := by omega
        cases m <;> simp only [hq, domainStep, hd, hp] <;>
        by_cases h1 : urlScheme u = https <;> by_cases h2 : (urlRawQuery u).length > 0 <;>
        by_cases h3 : hasDotDot (urlPath u) = true <;> by_cases h4 : urlHostname u = [] <;>
        simp [verdictOf3, Verdict.ofBool, h1, h2, h3, h4]

/-- on acceptance the URL handed back to the handler is the one `url.Parse` produced -/
theorem go_canRedirect_url (ext : UrlExt) (c : OpenIDConnectClientConfig) (s : List Char)
    (h : (KM.Gen.GoOidc.CanRedirectToURL ext c s).1 = true) :
    (KM.Gen.GoOidc.CanRedirectToURL ext c s).2.1 = (ext.urlParse s).1 := by
  revert h
  unfold KM.Gen.GoOidc.CanRedirectToURL
  dsimp -proj -iota only
  rw [forRange_scan (reOf ext s) (fun x => (false, none, (ext.reMatch x s).2)) _ (by
    intro x st; unfold reOf
    generalize ext.reMatch x s = r
    rcases r with ⟨m, _ | e⟩ <;> cases m <;> rfl)]
  generalize ext.urlParse s = pr
  rcases pr with ⟨u, e⟩
  dsimp only
  rw [forRange_anyBrk (fun d => KM.Gen.GoOidc.hostMatchesDomain (urlHostname u) d) _ (by intro x st; rfl)]
  cases hsc : scan (reOf ext s) c.AllowedRedirectURLRE with
  | inl x => dsimp only; split <;> simp
  | inr m =>
    cases e with
    | some er => cases m <;> simp
    | none =>
      cases m <;>
      by_cases h0 : (Decidable.decide (len c.AllowedRedirectDomains < 1) && Decidable.decide (len c.AllowedRedirectURLRE < 1)) = true <;>
      by_cases h1 : (urlScheme u != "https".toList) = true <;>
      by_cases h2 : Decidable.decide (len (urlRawQuery u) > 0) = true <;>
      by_cases h3 : strings_Contains (urlPath u) "..".toList = true <;>
      by_cases h4 : (urlHostname u == []) = true <;>
      by_cases h5 : Decidable.decide (len c.AllowedRedirectDomains < 1) = true <;>
      simp only [h0, h1, h2, h3, h4, h5, if_true, if_false, Option.isSome_none, Bool.false_eq_true, reduceCtorEq] <;> first | (simp; done) | (simp; split <;> simp)

theorem go_cors_eq (ext : UrlExt) (c : OpenIDConnectClientConfig) (s : List Char) :
    KM.Gen.GoOidc.CorsOriginAllowed ext c s = (corsAllowed c.AllowedRedirectDomains (parsedOf ext s), none) := by
  unfold KM.Gen.GoOidc.CorsOriginAllowed corsAllowed corsAllowedWith parsedOf
  dsimp -proj -iota only
  generalize ext.urlParse s = pr
  rcases pr with ⟨u, e⟩
  dsimp only
  rw [forRange_any (fun d => KM.Gen.GoOidc.hostMatchesDomain (urlHostname u) d) (true, none) _ (by
    intro x st; cases st; rfl)]
  have e1 : "https".toList = https := rfl
  rw [e1]
  cases e with
  | some er => simp
  | none =>
    by_cases h1 : urlScheme u = https
    · simp only [h1, parsedOfURL, go_hostMatches_eq, bne_self_eq_false, Bool.false_eq_true, if_false, Option.isSome_none, ne_eq, not_true_eq_false]
      cases c.AllowedRedirectDomains.any (fun d => hostMatches (urlHostname u) d) <;> simp
    · simp [h1, parsedOfURL]

theorem go_generic_cors_eq (ext : UrlExt) (cs : List OpenIDConnectClientConfig) (s : List Char) :
    KM.Gen.GoOidc.idpOpenIDCGenericIsCorsOriginAllowed ext cs s =
      (genericCorsAllowed (cs.map clientOf) (parsedOf ext s), none) := by
  unfold KM.Gen.GoOidc.idpOpenIDCGenericIsCorsOriginAllowed genericCorsAllowed genericCorsAllowedWith parsedOf
  dsimp -proj -iota only
  generalize ext.urlParse s = pr
  rcases pr with ⟨u, e⟩
  dsimp only
  rw [forRange_any (fun c : OpenIDConnectClientConfig => c.AllowedRedirectDomains.any (fun d => hostMatches (urlHostname u) d)) (true, none) _ (by
    intro x st; cases st
    rw [forRange_any (fun d => KM.Gen.GoOidc.hostMatchesDomain (urlHostname u) d) (true, none) _ (by
      intro y st; cases st; rfl)]
    simp only [go_hostMatches_eq]
    cases x.AllowedRedirectDomains.any (fun d => hostMatches (urlHostname u) d) <;> rfl)]
  have e1 : "https".toList = https := rfl
  rw [e1]
  cases e with
  | some er => simp
  | none =>
    by_cases h1 : urlScheme u = https
    · simp only [h1, parsedOfURL, bne_self_eq_false, Bool.false_eq_true, if_false, Option.isSome_none, ne_eq, not_true_eq_false, List.any_map]
      have : ((fun c : Client => c.domains.any fun d => hostMatches (urlHostname u) d) ∘ clientOf) =
          (fun c : OpenIDConnectClientConfig => c.AllowedRedirectDomains.any fun d => hostMatches (urlHostname u) d) := by
        funext c; rfl
      rw [this]
      cases cs.any (fun c : OpenIDConnectClientConfig => c.AllowedRedirectDomains.any fun d => hostMatches (urlHostname u) d) <;> simp
    · simp [h1, parsedOfURL]

end KM.Redirect
