import KM.Model.Redirect
set_option linter.unusedSimpArgs false
/-! Helper lemmas for C13 (kept apart from the property statements). Core-only. -/
namespace KM.Redirect

/-! ### characters as numbers -/

theorem cle (a b : Char) : a ≤ b ↔ a.toNat ≤ b.toNat := by
  rw [Char.le_def]; exact UInt32.le_iff_toNat_le

theorem ceq (a b : Char) : a = b ↔ a.toNat = b.toNat := by
  constructor
  · intro h; rw [h]
  · intro h; apply Char.ext; exact UInt32.toNat_inj.mp h

/-- a character that survives the browser's preprocessing (not C0/space) and is not a backslash -/
def safeC (c : Char) : Prop := 0x20 < c.toNat ∧ c ≠ '\\'

theorem safeC_of_hostCharOK {c : Char} (h : hostCharOK c = true) : safeC c ∧ c ≠ '%' := by
  simp only [safeC, hostCharOK, shouldEscapeHost, isAlpha, isDigit, Bool.or_eq_true, Bool.and_eq_true,
    decide_eq_true_eq, cle, ne_eq, ceq, beq_iff_eq, Bool.not_not] at h ⊢
  simp at h ⊢
  omega

theorem safeC_of_isHex {c : Char} (h : isHex c = true) : safeC c := by
  simp only [safeC, isHex, isDigit, Bool.or_eq_true, Bool.and_eq_true, decide_eq_true_eq, cle, ne_eq, ceq] at h ⊢
  simp at h ⊢
  omega

theorem safeC_of_userinfoChar {c : Char} (h : userinfoChar c = true) : safeC c := by
  simp only [safeC, userinfoChar, isAlpha, isDigit, Bool.or_eq_true, Bool.and_eq_true, decide_eq_true_eq, cle,
    ne_eq, ceq, beq_iff_eq] at h ⊢
  simp at h ⊢
  omega

theorem safeC_of_schemeChar {c : Char} (h : schemeChar c = true) : safeC c ∧ c ≠ ':' := by
  simp only [safeC, schemeChar, isAlpha, isDigit, Bool.or_eq_true, Bool.and_eq_true, decide_eq_true_eq, cle,
    ne_eq, ceq, beq_iff_eq] at h ⊢
  simp at h ⊢
  omega

theorem schemeChar_of_isAlpha {c : Char} (h : isAlpha c = true) : schemeChar c = true := by
  simp [schemeChar, h]

theorem safeC_pct : safeC '%' := ⟨by decide, by decide⟩
theorem safeC_at : safeC '@' := ⟨by decide, by decide⟩
theorem safeC_colon : safeC ':' := ⟨by decide, by decide⟩
theorem safeC_slash : safeC '/' := ⟨by decide, by decide⟩
theorem safeC_rbr : safeC ']' := ⟨by decide, by decide⟩

theorem not_c0space_of_safeC {c : Char} (h : safeC c) : c0space c = false := by
  simp only [safeC] at h
  simp only [c0space, decide_eq_false_iff_not]
  omega

theorem not_tabnl_of_safeC {c : Char} (h : safeC c) : (!(c == '\t' || c == '\n' || c == '\r')) = true := by
  simp only [safeC, ne_eq, ceq] at h
  simp only [Bool.not_eq_true', Bool.or_eq_false_iff, beq_eq_false_iff_ne, ne_eq, ceq]
  simp at h ⊢
  omega

theorem digit_facts {c : Char} (h : isDigit c = true) : c ≠ ':' ∧ c ≠ ']' ∧ c ≠ '%' := by
  simp only [isDigit, Bool.and_eq_true, decide_eq_true_eq, cle, ne_eq, ceq] at h ⊢
  simp at h ⊢
  omega

theorem ipv6Char_facts {c : Char} (h : ipv6Char c = true) : c ≠ '%' ∧ c ≠ ']' ∧ c ≠ '[' := by
  simp only [ipv6Char, isHex, isDigit, Bool.or_eq_true, Bool.and_eq_true, decide_eq_true_eq, cle, ne_eq, ceq,
    beq_iff_eq] at h ⊢
  simp at h ⊢
  omega

theorem not_isHex_colon : isHex ':' = false := by decide

/-! ### cutting lists -/

theorem before_append_fromFirst (d : Char) (l : List Char) : before d l ++ fromFirst d l = l :=
  List.takeWhile_append_dropWhile

theorem fromFirst_nil_or_cons (d : Char) (l : List Char) :
    fromFirst d l = [] ∨ ∃ t, fromFirst d l = d :: t := by
  induction l with
  | nil => left; rfl
  | cons a as ih =>
    by_cases h : a = d
    · right; refine ⟨as, ?_⟩; simp [fromFirst, List.dropWhile_cons, h]
    · have : fromFirst d (a :: as) = fromFirst d as := by simp [fromFirst, List.dropWhile_cons, h]
      rw [this]; exact ih

theorem mem_before {d c : Char} {l : List Char} (h : c ∈ before d l) : c ∈ l ∧ c ≠ d := by
  induction l with
  | nil => simp [before] at h
  | cons a as ih =>
    by_cases had : a = d
    · simp [before, List.takeWhile_cons, had] at h
    · have hb : before d (a :: as) = a :: before d as := by simp [before, List.takeWhile_cons, had]
      rw [hb] at h
      cases h with
      | head => exact ⟨List.mem_cons_self, had⟩
      | tail _ h' => exact ⟨List.mem_cons_of_mem _ (ih h').1, (ih h').2⟩

theorem after_eq (d : Char) (l : List Char) : fromFirst d l = [] ∧ after d l = [] ∨ fromFirst d l = d :: after d l := by
  rcases fromFirst_nil_or_cons d l with h | ⟨t, h⟩
  · left; simp [after, h]
  · right; simp [after, h]

theorem afterLast_of_not_mem {c : Char} {l : List Char} (h : c ∉ l) : afterLast c l = l := by
  cases l with
  | nil => rfl
  | cons x xs =>
    have h1 : c ∉ xs := fun hm => h (List.mem_cons_of_mem _ hm)
    have h2 : x ≠ c := fun e => h (e ▸ List.mem_cons_self)
    simp [afterLast, h1, h2]

theorem afterLast_append {c : Char} (a b : List Char) (h : c ∉ b) : afterLast c (a ++ c :: b) = b := by
  induction a with
  | nil => simp [afterLast, h]
  | cons x xs ih => simp [afterLast, ih]

theorem beforeLast_append {c : Char} (a b : List Char) (h : c ∉ b) : beforeLast c (a ++ c :: b) = a := by
  induction a with
  | nil => simp [beforeLast, h]
  | cons x xs ih => simp [beforeLast, ih]

theorem not_mem_afterLast (c : Char) (l : List Char) : c ∉ afterLast c l := by
  induction l with
  | nil => simp [afterLast]
  | cons x xs ih =>
    unfold afterLast
    split
    · exact ih
    · rename_i hn
      split
      · exact hn
      · rename_i hx
        intro hm
        cases hm with
        | head => exact hx rfl
        | tail _ h' => exact hn h'

theorem split_last {c : Char} {l : List Char} (h : c ∈ l) : l = beforeLast c l ++ c :: afterLast c l := by
  induction l with
  | nil => cases h
  | cons x xs ih =>
    unfold afterLast beforeLast
    by_cases hm : c ∈ xs
    · simp only [hm, if_true, List.cons_append]; rw [← ih hm]
    · have hx : x = c := by
        cases h with
        | head => rfl
        | tail _ h' => exact absurd h' hm
      simp [hm, hx]

theorem mem_afterLast {c x : Char} {l : List Char} (h : x ∈ afterLast c l) : x ∈ l := by
  by_cases hc : c ∈ l
  · rw [split_last hc]; simp [h]
  · rw [afterLast_of_not_mem hc] at h; exact h

theorem afterLast_snoc {c x : Char} (l : List Char) (h : c ≠ x) : afterLast c (l ++ [x]) = afterLast c l ++ [x] := by
  induction l with
  | nil => simp [afterLast, h.symm]
  | cons y ys ih =>
    simp only [List.cons_append, afterLast, List.mem_append, List.mem_singleton, h, or_false]
    split
    · exact ih
    · split <;> simp

/-! ### percent-decoding and host validation -/

theorem hostOK_safe {l : List Char} (h : hostOK l = true) : ∀ c ∈ l, safeC c := by
  fun_induction hostOK l with
  | case1 a b r ih =>
    simp only [Bool.and_eq_true] at h
    intro c hm
    simp only [List.mem_cons] at hm
    rcases hm with rfl | rfl | rfl | hm
    · exact safeC_pct
    · exact safeC_of_isHex h.1.1.1
    · exact safeC_of_isHex h.1.1.2
    · exact ih h.2 c hm
  | case2 c a b r hc ih =>
    simp only [Bool.and_eq_true] at h
    intro x hm
    cases hm with
    | head => exact (safeC_of_hostCharOK h.1).1
    | tail _ hm => exact ih h.2 x hm
  | case3 c d =>
    simp only [Bool.and_eq_true] at h
    intro x hm
    simp only [List.mem_cons, List.not_mem_nil, or_false] at hm
    rcases hm with rfl | rfl
    · exact (safeC_of_hostCharOK h.1).1
    · exact (safeC_of_hostCharOK h.2).1
  | case4 c =>
    intro x hm
    simp only [List.mem_cons, List.not_mem_nil, or_false] at hm
    subst hm
    exact (safeC_of_hostCharOK h).1
  | case5 => intro x hm; cases hm

theorem zoneOK_safe {l : List Char} (h : zoneOK l = true) : ∀ c ∈ l, safeC c := by
  fun_induction zoneOK l with
  | case1 a b r ih =>
    simp only [Bool.and_eq_true] at h
    intro c hm
    simp only [List.mem_cons] at hm
    rcases hm with rfl | rfl | rfl | hm
    · exact safeC_pct
    · exact safeC_of_isHex h.1.1.1
    · exact safeC_of_isHex h.1.1.2
    · exact ih h.2 c hm
  | case2 c a b r hc ih =>
    simp only [Bool.and_eq_true] at h
    intro x hm
    cases hm with
    | head => exact (safeC_of_hostCharOK h.1).1
    | tail _ hm => exact ih h.2 x hm
  | case3 c d =>
    simp only [Bool.and_eq_true] at h
    intro x hm
    simp only [List.mem_cons, List.not_mem_nil, or_false] at hm
    rcases hm with rfl | rfl
    · exact (safeC_of_hostCharOK h.1).1
    · exact (safeC_of_hostCharOK h.2).1
  | case4 c =>
    intro x hm
    simp only [List.mem_cons, List.not_mem_nil, or_false] at hm
    subst hm
    exact (safeC_of_hostCharOK h).1
  | case5 => intro x hm; cases hm

theorem pctDecode_eq_goDecode {l : List Char} (h : hostOK l = true) : pctDecode l = goDecode l := by
  fun_induction hostOK l with
  | case1 a b r ih =>
    simp only [Bool.and_eq_true] at h
    simp [pctDecode, goDecode, h.1.1.1, h.1.1.2, ih h.2]
  | case2 c a b r hc ih =>
    simp only [Bool.and_eq_true] at h
    simp [pctDecode, goDecode, hc, ih h.2]
  | case3 c d => simp [pctDecode, goDecode]
  | case4 c => simp [pctDecode, goDecode]
  | case5 => simp [pctDecode, goDecode]

theorem mem_pctDecode {c : Char} {l : List Char} (hm : c ∈ l) (h1 : c ≠ '%') (h2 : isHex c = false) :
    c ∈ pctDecode l := by
  fun_induction pctDecode l with
  | case1 x a b r hc ih =>
    simp only [List.mem_cons] at hm
    rcases hm with rfl | rfl | rfl | hm
    · exact absurd hc.1 h1
    · rw [hc.2.1] at h2; cases h2
    · rw [hc.2.2] at h2; cases h2
    · exact List.mem_cons_of_mem _ (ih hm)
  | case2 x a b r hc ih =>
    cases hm with
    | head => exact List.mem_cons_self
    | tail _ hm => exact List.mem_cons_of_mem _ (ih hm)
  | case3 l hl => exact hm

theorem goDecode_of_no_pct {l : List Char} (h : '%' ∉ l) : goDecode l = l := by
  fun_induction goDecode l with
  | case1 a b r ih => exact absurd List.mem_cons_self h
  | case2 c a b r hc ih =>
    rw [ih (fun hm => h (List.mem_cons_of_mem _ hm))]
  | case3 l hl => rfl

theorem hostOK_split_colon {a b : List Char} (h : hostOK (a ++ ':' :: b) = true) :
    hostOK a = true ∧ hostOK (':' :: b) = true ∧ goDecode (a ++ ':' :: b) = goDecode a ++ goDecode (':' :: b) := by
  fun_induction hostOK a with
  | case1 x y r ih =>
    simp only [List.cons_append, hostOK, if_true, Bool.and_eq_true] at h
    obtain ⟨h1, h2, h3⟩ := ih h.2
    refine ⟨?_, h2, ?_⟩
    · simp only [Bool.and_eq_true]; exact ⟨h.1, h1⟩
    · simp [goDecode, h3]
  | case2 c x y r hc ih =>
    simp only [List.cons_append, hostOK, hc, if_false, Bool.and_eq_true] at h
    obtain ⟨h1, h2, h3⟩ := ih h.2
    refine ⟨?_, h2, ?_⟩
    · simp only [Bool.and_eq_true]; exact ⟨h.1, h1⟩
    · simp only [List.cons_append, goDecode, hc, if_false]
      rw [← h3]; rfl
  | case3 c d =>
    have hd : hostCharOK c = true ∧ hostCharOK d = true ∧ hostOK (':' :: b) = true := by
      cases b with
      | nil =>
        simp only [List.cons_append, List.nil_append, hostOK, Bool.and_eq_true] at h
        split at h
        · simp [not_isHex_colon] at h
        · simp only [Bool.and_eq_true] at h
          exact ⟨h.1, h.2.1, by simp [hostOK, h.2.2]⟩
      | cons b0 r =>
        simp only [List.cons_append, List.nil_append, hostOK, Bool.and_eq_true] at h
        split at h
        · simp [not_isHex_colon] at h
        · simp only [Bool.and_eq_true] at h
          split at h
          · simp [not_isHex_colon] at h
          · simp only [Bool.and_eq_true] at h
            exact ⟨h.1, h.2.1, by simp [hostOK, h.2.2]⟩
    have hc : c ≠ '%' := (safeC_of_hostCharOK hd.1).2
    have hd' : d ≠ '%' := (safeC_of_hostCharOK hd.2.1).2
    refine ⟨by simp [hostOK, hd.1, hd.2.1], hd.2.2, ?_⟩
    cases b with
    | nil => simp [goDecode, hc]
    | cons b0 r => simp [goDecode, hc, hd']
  | case4 c =>
    have hd : hostCharOK c = true ∧ hostOK (':' :: b) = true := by
      cases b with
      | nil =>
        simp only [List.cons_append, List.nil_append, hostOK, Bool.and_eq_true] at h
        exact ⟨h.1, by simp [hostOK, h.2]⟩
      | cons b0 r =>
        simp only [List.cons_append, List.nil_append, hostOK, Bool.and_eq_true] at h
        split at h
        · simp [not_isHex_colon] at h
        · simp only [Bool.and_eq_true] at h
          exact ⟨h.1, by simp [hostOK, h.2]⟩
    have hc : c ≠ '%' := (safeC_of_hostCharOK hd.1).2
    refine ⟨by simp [hostOK, hd.1], hd.2, ?_⟩
    cases b with
    | nil => simp [goDecode]
    | cons b0 r => simp [goDecode, hc]
  | case5 => exact ⟨rfl, h, rfl⟩


/-! ### what `parseHost` / `parseAuthority` accept -/

theorem splitAtPct25_append {l h1 z : List Char} (h : splitAtPct25 l = some (h1, z)) : l = h1 ++ z := by
  induction l generalizing h1 z with
  | nil => simp [splitAtPct25] at h
  | cons c rest ih =>
    unfold splitAtPct25 at h
    split at h
    · simp at h; obtain ⟨rfl, rfl⟩ := h; rfl
    · split at h
      · rename_i a b heq
        simp at h; obtain ⟨rfl, rfl⟩ := h
        simp [ih heq]
      · cases h

theorem splitAtPct25_none {l : List Char} (h : '%' ∉ l) : splitAtPct25 l = none := by
  induction l with
  | nil => rfl
  | cons c rest ih =>
    have hc : c ≠ '%' := fun e => h (e ▸ List.mem_cons_self)
    have hr : '%' ∉ rest := fun hm => h (List.mem_cons_of_mem _ hm)
    simp [splitAtPct25, hc, ih hr]

theorem unescapeHost_some {l d : List Char} (h : unescapeHost l = some d) : hostOK l = true ∧ d = goDecode l := by
  unfold unescapeHost at h
  split at h
  · rename_i hk; simp at h; exact ⟨hk, h.symm⟩
  · cases h

theorem unescapeZone_some {l d : List Char} (h : unescapeZone l = some d) : zoneOK l = true := by
  unfold unescapeZone at h
  split at h
  · rename_i hk; exact hk
  · cases h

/-- every byte of a host that `parseHost` accepts survives browser preprocessing and is no backslash -/
theorem parseHost_safe {hp hs : List Char} (h : parseHost hp = some hs) : ∀ c ∈ hp, safeC c := by
  unfold parseHost at h
  split at h
  · -- bracket
    unfold parseBracketHost at h
    split at h
    · rename_i hbr
      split at h
      · cases h
      · split at h
        · exact hostOK_safe (unescapeHost_some h).1
        · rename_i h1 z hsplit
          split at h
          · rename_i a b c ha hb hc
            have e1 := splitAtPct25_append hsplit
            have e2 := split_last hbr
            intro x hx
            rw [e2, e1] at hx
            simp only [List.mem_append, List.mem_cons] at hx
            rcases hx with (hx | hx) | hx
            · exact hostOK_safe (unescapeHost_some ha).1 x hx
            · exact zoneOK_safe (unescapeZone_some hb) x hx
            · exact hostOK_safe (unescapeHost_some hc).1 x (by simpa using hx)
          · cases h
    · cases h
  · split at h
    · cases h
    · exact hostOK_safe (unescapeHost_some h).1

/-- `parseAuthority` only accepts authorities made of such bytes, and its host is `parseHost` of the part
behind the last `@` -/
theorem parseAuthority_some {auth hs : List Char} (h : parseAuthority auth = some hs) :
    (∀ c ∈ auth, safeC c) ∧ parseHost (afterLast '@' auth) = some hs := by
  unfold parseAuthority at h
  split at h
  · rename_i hat
    split at h
    · cases h
    · rename_i h0 hph
      split at h
      · rename_i hui
        simp at h; subst h
        refine ⟨?_, hph⟩
        intro c hc
        rw [split_last hat] at hc
        simp only [List.mem_append, List.mem_cons] at hc
        simp only [Bool.and_eq_true, List.all_eq_true] at hui
        rcases hc with hc | rfl | hc
        · exact safeC_of_userinfoChar (hui.1 c hc)
        · exact safeC_at
        · exact parseHost_safe hph c hc
      · cases h
  · rename_i hat
    rw [afterLast_of_not_mem hat]
    exact ⟨parseHost_safe h, h⟩

/-! ### browser host state vs. Go `Hostname()` -/

theorem hostScan_append (b : Bool) (l : List Char) : (hostScan b l).1 ++ (hostScan b l).2 = l := by
  induction l generalizing b with
  | nil => rfl
  | cons c cs ih =>
    unfold hostScan
    split
    · rfl
    · simp [ih]

theorem hostScan_snd (b : Bool) (l : List Char) :
    (hostScan b l).2 = [] ∨ ∃ t, (hostScan b l).2 = ':' :: t := by
  induction l generalizing b with
  | nil => left; rfl
  | cons c cs ih =>
    unfold hostScan
    split
    · rename_i h; right; exact ⟨cs, by rw [h.1]⟩
    · exact ih _

theorem bPortOK_cases {bp : List Char} (h : bPortOK bp = true) (h2 : bp = [] ∨ ∃ t, bp = ':' :: t) :
    bp = [] ∨ ∃ ds, bp = ':' :: ds ∧ allDigits ds = true := by
  rcases h2 with rfl | ⟨t, rfl⟩
  · left; rfl
  · right
    simp only [bPortOK, Bool.and_eq_true] at h
    exact ⟨t, rfl, h.1.2⟩

theorem mem_lower_of_fixed {c : Char} {l : List Char} (hc : lowerC c = c) (h : c ∈ l) : c ∈ lower l := by
  unfold lower
  rw [List.mem_map]
  exact ⟨c, h, hc⟩

theorem no_forbidden {l : List Char} (h : (lower l).any forbiddenDomain = false) :
    ':' ∉ l ∧ '[' ∉ l := by
  rw [List.any_eq_false] at h
  constructor
  · intro hm
    exact h ':' (mem_lower_of_fixed (by decide) hm) (by decide)
  · intro hm
    exact h '[' (mem_lower_of_fixed (by decide) hm) (by decide)

theorem allDigits_no {ds : List Char} (h : allDigits ds = true) : ':' ∉ ds ∧ ']' ∉ ds ∧ '%' ∉ ds := by
  simp only [allDigits, List.all_eq_true] at h
  refine ⟨fun hm => (digit_facts (h _ hm)).1 rfl, fun hm => (digit_facts (h _ hm)).2.1 rfl,
    fun hm => (digit_facts (h _ hm)).2.2 rfl⟩

theorem stripBrackets_id {l : List Char} (h : '[' ∉ l) : stripBrackets l = l := by
  unfold stripBrackets
  split
  · rename_i hh
    cases l with
    | nil => simp at hh
    | cons a as =>
      simp at hh
      exact absurd (hh.1 ▸ List.mem_cons_self) h
  · rfl

theorem getLast_wrap (inner : List Char) : ('[' :: inner ++ [']']).getLast? = some ']' := by
  have : '[' :: inner ++ [']'] = ('[' :: inner) ++ [']'] := rfl
  rw [this, List.getLast?_concat]

theorem stripBrackets_wrap (inner : List Char) : stripBrackets ('[' :: inner ++ [']']) = inner := by
  unfold stripBrackets
  rw [if_pos ⟨rfl, getLast_wrap inner⟩]
  have : '[' :: inner ++ [']'] = ('[' :: inner) ++ [']'] := rfl
  simp

/-- shape of a list with known, different first and last element -/
theorem wrap_shape {l : List Char} {a b : Char} (h1 : l.head? = some a) (h2 : l.getLast? = some b) (hab : a ≠ b) :
    l = a :: (l.drop 1).dropLast ++ [b] := by
  obtain ⟨ys, rfl⟩ := List.getLast?_eq_some_iff.mp h2
  cases ys with
  | nil => simp at h1; exact absurd h1.symm hab
  | cons y ys' =>
    simp at h1; subst h1
    simp

theorem hostname_plain {d : List Char} (h1 : ':' ∉ d) (h2 : '[' ∉ d) : hostname d = d := by
  unfold hostname
  rw [if_neg (fun h => h1 h.1)]
  exact stripBrackets_id h2

theorem hostname_port {d ds : List Char} (h2 : '[' ∉ d) (hd : allDigits ds = true) :
    hostname (d ++ ':' :: ds) = d := by
  have hn := (allDigits_no hd).1
  unfold hostname
  rw [afterLast_append d ds hn, beforeLast_append d ds hn]
  rw [if_pos ⟨by simp, by simp [validOptionalPort, hd]⟩]
  exact stripBrackets_id h2

theorem host_agree_domain {bh bp hs : List Char} (h : parseHost (bh ++ bp) = some hs) (hne : bh ≠ [])
    (hhead : bh.head? ≠ some '[') (hbp : bp = [] ∨ ∃ ds, bp = ':' :: ds ∧ allDigits ds = true)
    (hforb : (lower (pctDecode bh)).any forbiddenDomain = false) :
    lower (pctDecode bh) = lower (hostname hs) := by
  have hh : (bh ++ bp).head? ≠ some '[' := by
    cases bh with
    | nil => exact absurd rfl hne
    | cons a as => simpa using hhead
  unfold parseHost at h
  rw [if_neg hh] at h
  split at h
  · cases h
  · obtain ⟨hok, rfl⟩ := unescapeHost_some h
    rcases hbp with rfl | ⟨ds, rfl, hds⟩
    · simp only [List.append_nil] at hok ⊢
      rw [pctDecode_eq_goDecode hok] at hforb ⊢
      obtain ⟨n1, n2⟩ := no_forbidden hforb
      rw [hostname_plain n1 n2]
    · obtain ⟨hok1, _, hdec⟩ := hostOK_split_colon hok
      rw [pctDecode_eq_goDecode hok1] at hforb ⊢
      obtain ⟨n1, n2⟩ := no_forbidden hforb
      have hnp : '%' ∉ (':' :: ds) := by
        intro hm
        cases hm with
        | tail _ hm => exact (allDigits_no hds).2.2 hm
      rw [hdec, goDecode_of_no_pct hnp, hostname_port n2 hds]


theorem host_agree_bracket {inner bp hs : List Char}
    (h : parseHost ('[' :: inner ++ [']'] ++ bp) = some hs)
    (hbp : bp = [] ∨ ∃ ds, bp = ':' :: ds ∧ allDigits ds = true)
    (hall : inner.all ipv6Char = true) :
    hostname hs = inner := by
  simp only [List.all_eq_true] at hall
  have hnp : '%' ∉ inner := fun hm => (ipv6Char_facts (hall _ hm)).1 rfl
  have hnr : ']' ∉ inner := fun hm => (ipv6Char_facts (hall _ hm)).2.1 rfl
  have hbpr : ']' ∉ bp ∧ '%' ∉ bp := by
    rcases hbp with rfl | ⟨ds, rfl, hds⟩
    · simp
    · have := allDigits_no hds
      constructor
      · intro hm; cases hm with | tail _ hm => exact this.2.1 hm
      · intro hm; cases hm with | tail _ hm => exact this.2.2 hm
  have hshape : '[' :: inner ++ [']'] ++ bp = ('[' :: inner) ++ ']' :: bp := by simp
  have hpct : '%' ∉ ('[' :: inner ++ [']'] ++ bp) := by
    simp only [List.cons_append, List.mem_cons, List.mem_append, List.not_mem_nil, or_false, not_or]
    refine ⟨by decide, ⟨hnp, by decide⟩, hbpr.2⟩
  unfold parseHost at h
  rw [if_pos (by simp)] at h
  unfold parseBracketHost at h
  rw [if_pos (by simp)] at h
  rw [hshape, afterLast_append _ _ hbpr.1, beforeLast_append _ _ hbpr.1] at h
  split at h
  · cases h
  · have hsp : splitAtPct25 ('[' :: inner) = none := by
      apply splitAtPct25_none
      intro hm
      cases hm with | tail _ hm => exact hnp hm
    rw [hsp] at h
    simp only at h
    obtain ⟨_, rfl⟩ := unescapeHost_some h
    rw [← hshape, goDecode_of_no_pct hpct]
    rcases hbp with rfl | ⟨ds, rfl, hds⟩
    · simp only [List.append_nil]
      unfold hostname
      have hinv : ¬ (':' ∈ '[' :: inner ++ [']'] ∧
          validOptionalPort (':' :: afterLast ':' ('[' :: inner ++ [']'])) = true) := by
        intro hc
        have e : '[' :: inner ++ [']'] = ('[' :: inner) ++ [']'] := rfl
        rw [e, afterLast_snoc _ (by decide)] at hc
        have := hc.2
        simp [validOptionalPort, allDigits, isDigit] at this
      rw [if_neg hinv]
      exact stripBrackets_wrap inner
    · have hn := (allDigits_no hds).1
      unfold hostname
      rw [afterLast_append _ ds hn, beforeLast_append _ ds hn]
      rw [if_pos ⟨by simp, by simp [validOptionalPort, hds]⟩]
      exact stripBrackets_wrap inner


/-- **Host agreement**: on a `host[:port]` that Go's `parseHost` accepts, the browser's host state
either fails or ends at the host name Go reports (lower-cased) -/
theorem host_agree {hp hs : List Char} (h : parseHost hp = some hs) :
    bHostPort hp = .fail ∨ bHostPort hp = .domain (lower (hostname hs)) ∨
      bHostPort hp = .ipv6 (lower (hostname hs)) := by
  unfold bHostPort
  have happ := hostScan_append false hp
  have hsnd := hostScan_snd false hp
  generalize hostScan false hp = sc at happ hsnd
  obtain ⟨bh, bp⟩ := sc
  simp only at happ hsnd ⊢
  subst happ
  split
  · left; rfl
  · rename_i hport
    have hport' : bPortOK bp = true := by simpa using hport
    have hbp := bPortOK_cases hport' hsnd
    unfold bHost
    split
    · left; rfl
    · rename_i hne
      split
      · rename_i hhead
        split
        · left; rfl
        · rename_i hlast
          have hlast' : bh.getLast? = some ']' := by simpa using hlast
          split
          · rename_i hall
            right; right
            have hsh := wrap_shape hhead hlast' (by decide)
            rw [hsh] at h
            rw [host_agree_bracket h hbp hall]
          · left; rfl
      · rename_i hhead
        split
        · left; rfl
        · rename_i hforb
          right; left
          have hforb' : (lower (pctDecode bh)).any forbiddenDomain = false := by simpa using hforb
          rw [host_agree_domain h hne hhead hbp hforb']

/-! ### the browser on a string of the shape Go accepts -/

theorem stripTrail_append {p t : List Char} (hp : ∀ c ∈ p, c0space c = false) :
    stripTrail (p ++ t) = p ++ stripTrail t := by
  induction p with
  | nil => rfl
  | cons c cs ih =>
    have hc := hp c List.mem_cons_self
    have ih' := ih (fun x hx => hp x (List.mem_cons_of_mem _ hx))
    simp only [List.cons_append, stripTrail, ih', hc]
    split
    · rename_i heq; simp [heq]
    · rfl

theorem stripTrail_cons {d : Char} (t : List Char) (hd : c0space d = false) :
    ∃ t', stripTrail (d :: t) = d :: t' := by
  simp only [stripTrail, hd]
  split
  · exact ⟨[], by simp⟩
  · exact ⟨_, rfl⟩

theorem dropTabNl_append_safe {p t : List Char} (hp : ∀ c ∈ p, safeC c) :
    dropTabNl (p ++ t) = p ++ dropTabNl t := by
  unfold dropTabNl
  rw [List.filter_append]
  congr 1
  apply List.filter_eq_self.mpr
  intro c hc
  exact not_tabnl_of_safeC (hp c hc)

theorem bSchemeRest_append {s rest : List Char} (hs : ∀ c ∈ s, schemeChar c = true) :
    bSchemeRest (s ++ ':' :: rest) = some (lower s, rest) := by
  induction s with
  | nil => simp [bSchemeRest, lower]
  | cons c cs ih =>
    have hc := hs c List.mem_cons_self
    have hne : c ≠ ':' := (safeC_of_schemeChar hc).2
    have ih' := ih (fun x hx => hs x (List.mem_cons_of_mem _ hx))
    simp [bSchemeRest, hne, hc, ih', lower]

theorem takeWhile_append_stop {p : Char → Bool} {a t : List Char} (ha : ∀ c ∈ a, p c = true)
    (ht : t = [] ∨ ∃ d t', t = d :: t' ∧ p d = false) : (a ++ t).takeWhile p = a := by
  induction a with
  | nil =>
    rcases ht with rfl | ⟨d, t', rfl, hd⟩
    · rfl
    · simp [List.takeWhile_cons, hd]
  | cons c cs ih =>
    simp [List.takeWhile_cons, ha c List.mem_cons_self, ih (fun x hx => ha x (List.mem_cons_of_mem _ hx))]

/-- the characters of an authority that Go accepted: safe, and none of the Go-side delimiters -/
def authC (c : Char) : Prop := safeC c ∧ c ≠ '/' ∧ c ≠ '?' ∧ c ≠ '#'

theorem authC_not_end {c : Char} (h : authC c) : (!authEnd c) = true ∧ isSlash c = false := by
  obtain ⟨⟨_, h1⟩, h2, h3, h4⟩ := h
  simp [authEnd, isSlash, h1, h2, h3, h4]

/-- **Browser on a Go-shaped string**: scheme, `://`, an authority of safe characters, then nothing or a
`/ ? #` delimiter: the browser's authority is exactly Go's authority -/
theorem browser_on_shape {a : Char} {sch' auth tail : List Char}
    (ha : isAlpha a = true) (hs : ∀ c ∈ sch', schemeChar c = true) (hl : lower (a :: sch') = https)
    (hauth : ∀ c ∈ auth, authC c) (hne : auth ≠ [])
    (htail : tail = [] ∨ ∃ d t, tail = d :: t ∧ (d = '/' ∨ d = '?' ∨ d = '#')) :
    browserHost ((a :: sch') ++ ':' :: '/' :: '/' :: auth ++ tail) = bAuthority auth := by
  have hsall : ∀ c ∈ a :: sch', schemeChar c = true := by
    intro c hc
    cases hc with
    | head => exact schemeChar_of_isAlpha ha
    | tail _ h => exact hs c h
  -- every character in front of the tail is safe
  have hpre : ∀ c ∈ (a :: sch') ++ ':' :: '/' :: '/' :: auth, safeC c := by
    intro c hc
    simp only [List.mem_append, List.mem_cons] at hc
    rcases hc with hc | rfl | rfl | rfl | hc
    · exact (safeC_of_schemeChar (hsall c (by simpa using hc))).1
    · exact safeC_colon
    · exact safeC_slash
    · exact safeC_slash
    · exact (hauth c hc).1
  have hassoc : (a :: sch') ++ ':' :: '/' :: '/' :: auth ++ tail =
      ((a :: sch') ++ ':' :: '/' :: '/' :: auth) ++ tail := by simp
  -- the tail after preprocessing is still empty or starts with its delimiter
  obtain ⟨tail2, hpp, htail2⟩ : ∃ tail2, dropTabNl (stripTrail (stripLead
      ((a :: sch') ++ ':' :: '/' :: '/' :: auth ++ tail))) = ((a :: sch') ++ ':' :: '/' :: '/' :: auth) ++ tail2 ∧
      (tail2 = [] ∨ ∃ d t', tail2 = d :: t' ∧ (!authEnd d) = false) := by
    have h1 : stripLead ((a :: sch') ++ ':' :: '/' :: '/' :: auth ++ tail) =
        (a :: sch') ++ ':' :: '/' :: '/' :: auth ++ tail := by
      have := not_c0space_of_safeC (safeC_of_schemeChar (schemeChar_of_isAlpha ha)).1
      simp [stripLead, this]
    rw [h1, hassoc, stripTrail_append (fun c hc => not_c0space_of_safeC (hpre c hc))]
    rw [dropTabNl_append_safe hpre]
    rcases htail with rfl | ⟨d, t, rfl, hd⟩
    · exact ⟨[], by simp [stripTrail, dropTabNl], Or.inl rfl⟩
    · have hsafe : safeC d := by rcases hd with rfl | rfl | rfl <;> exact ⟨by decide, by decide⟩
      obtain ⟨t', ht'⟩ := stripTrail_cons t (not_c0space_of_safeC hsafe)
      rw [ht']
      have : dropTabNl (d :: t') = d :: dropTabNl t' := by
        unfold dropTabNl
        exact List.filter_cons_of_pos (not_tabnl_of_safeC hsafe)
      rw [this]
      refine ⟨_, rfl, Or.inr ⟨d, _, rfl, ?_⟩⟩
      rcases hd with rfl | rfl | rfl <;> decide
  unfold browserHost
  rw [hpp]
  unfold bAfterScheme
  have hsplit : ((a :: sch') ++ ':' :: '/' :: '/' :: auth) ++ tail2 =
      (a :: sch') ++ ':' :: ('/' :: '/' :: (auth ++ tail2)) := by simp
  have hsch : bScheme ((a :: sch') ++ ':' :: ('/' :: '/' :: (auth ++ tail2))) =
      some (lower (a :: sch'), '/' :: '/' :: (auth ++ tail2)) := by
    have := bSchemeRest_append (rest := '/' :: '/' :: (auth ++ tail2)) hsall
    simp only [List.cons_append] at this ⊢
    simp only [bScheme, ha, if_true]
    exact this
  rw [hsplit, hsch]
  simp only [hl, ne_eq, not_true_eq_false, if_false]
  congr 1
  obtain ⟨a0, auth', rfl⟩ := List.exists_cons_of_ne_nil hne
  have h0 := authC_not_end (hauth a0 List.mem_cons_self)
  have hdw : List.dropWhile isSlash ('/' :: '/' :: (a0 :: auth' ++ tail2)) = a0 :: auth' ++ tail2 := by
    have e1 : isSlash '/' = true := by decide
    rw [List.dropWhile_cons, if_pos e1, List.dropWhile_cons, if_pos e1]
    show List.dropWhile isSlash (a0 :: (auth' ++ tail2)) = _
    rw [List.dropWhile_cons, if_neg (by simp [h0.2])]
    rfl
  rw [hdw]
  exact takeWhile_append_stop (fun c hc => (authC_not_end (hauth c hc)).1) htail2

/-! ### shape of a string that Go parses as https with a host -/

theorem mem_takeWhile_sat {p : Char → Bool} {l : List Char} {x : Char} (h : x ∈ l.takeWhile p) : p x = true := by
  induction l with
  | nil => simp at h
  | cons a as ih =>
    rw [List.takeWhile_cons] at h
    split at h
    · rename_i ha
      cases h with
      | head => exact ha
      | tail _ h' => exact ih h'
    · cases h

theorem getScheme_shape {u sch rest : List Char} (h : getScheme u = some (sch, rest)) (hne : sch ≠ []) :
    ∃ a sch', sch = a :: sch' ∧ isAlpha a = true ∧ (∀ c ∈ sch', schemeChar c = true) ∧ u = sch ++ ':' :: rest := by
  unfold getScheme at h
  split at h
  · simp at h; exact absurd h.1 hne
  · rename_i c cs
    split at h
    · cases h
    · split at h
      · simp at h; exact absurd h.1 hne
      · rename_i hc1 hal
        have hal' : isAlpha c = true := by simpa using hal
        split at h
        · simp at h; exact absurd h.1 hne
        · rename_i d rest' hdw
          split at h
          · rename_i hd
            simp at h
            obtain ⟨rfl, rfl⟩ := h
            subst hd
            have hsc : schemeChar c = true := schemeChar_of_isAlpha hal'
            refine ⟨c, cs.takeWhile schemeChar, ?_, hal', ?_, ?_⟩
            · simp [List.takeWhile_cons, hsc]
            · intro x hx; exact mem_takeWhile_sat hx
            · rw [← hdw]; exact (List.takeWhile_append_dropWhile).symm
          · simp at h; exact absurd h.1 hne

theorem lower_ne_nil {l : List Char} (h : lower l = https) : l ≠ [] := by
  intro e; subst e; simp [lower, https] at h

/-- nothing, or a list that starts with one of Go's three delimiters -/
def tailOK (t : List Char) : Prop := t = [] ∨ ∃ d t', t = d :: t' ∧ (d = '/' ∨ d = '?' ∨ d = '#')

theorem tailOK_three (a b c : List Char)
    (ha : a = [] ∨ ∃ t, a = '/' :: t) (hb : b = [] ∨ ∃ t, b = '?' :: t) (hc : c = [] ∨ ∃ t, c = '#' :: t) :
    tailOK (a ++ b ++ c) := by
  rcases ha with rfl | ⟨t, rfl⟩
  · rcases hb with rfl | ⟨t, rfl⟩
    · rcases hc with rfl | ⟨t, rfl⟩
      · left; rfl
      · right; exact ⟨'#', t, rfl, Or.inr (Or.inr rfl)⟩
    · right; exact ⟨'?', t ++ c, rfl, Or.inr (Or.inl rfl)⟩
  · right; exact ⟨'/', t ++ b ++ c, by simp, Or.inl rfl⟩

theorem finishPath_some {sc ho rq re : List Char} {p : Parsed} (h : finishPath sc ho rq re = some p) :
    p.scheme = sc ∧ p.host = ho ∧ p.rawQuery = rq := by
  unfold finishPath at h
  split at h
  · simp at h; subst h; exact ⟨rfl, rfl, rfl⟩
  · cases h

theorem startsSlashSlash_shape {r : List Char} (h : startsSlashSlash r = true) : r = '/' :: '/' :: r.drop 2 := by
  match r with
  | [] => simp [startsSlashSlash] at h
  | [a] => simp [startsSlashSlash] at h
  | a :: b :: t =>
    simp [startsSlashSlash] at h
    obtain ⟨rfl, rfl⟩ := h
    rfl

/-- **Shape of an accepted string**: if Go parses `s` with scheme https and a non-empty host, then `s` is
a scheme, `://`, an authority without `/ ? #`, and then nothing or one of those delimiters -/
theorem goParse_shape {s : List Char} {p : Parsed} (h : goParse s = some p) (hsch : p.scheme = https)
    (hh : p.host ≠ []) :
    ∃ a sch' auth tail hs, s = (a :: sch') ++ ':' :: '/' :: '/' :: auth ++ tail ∧ isAlpha a = true ∧
      (∀ c ∈ sch', schemeChar c = true) ∧ lower (a :: sch') = https ∧
      (∀ c ∈ auth, c ≠ '/' ∧ c ≠ '?' ∧ c ≠ '#') ∧ tailOK tail ∧
      parseAuthority auth = some hs ∧ p.host = hostname hs := by
  unfold goParse at h
  split at h
  · cases h
  · rename_i p0 hp0
    have hpp : p0 = p := by
      split at h
      · simpa using h
      · cases h
    subst hpp
    clear h
    unfold parseNoFrag at hp0
    split at hp0
    · cases hp0
    · split at hp0
      · simp at hp0; subst hp0; simp [https] at hsch
      · split at hp0
        · cases hp0
        · rename_i sch rest hgs
          unfold parseRest at hp0
          split at hp0
          · simp at hp0; subst hp0; exact absurd rfl hh
          · split at hp0
            · cases hp0
            · split at hp0
              · rename_i hcond
                split at hp0
                · cases hp0
                · rename_i h0 hpa
                  obtain ⟨e1, e2, _⟩ := finishPath_some hp0
                  have hlow : lower sch = https := by rw [← e1]; exact hsch
                  obtain ⟨a, sch', rfl, hal, hsc, hu⟩ := getScheme_shape hgs (lower_ne_nil hlow)
                  have hr := startsSlashSlash_shape hcond.2
                  refine ⟨a, sch', before '/' ((before '?' rest).drop 2),
                    fromFirst '/' ((before '?' rest).drop 2) ++ fromFirst '?' rest ++ fromFirst '#' s, h0,
                    ?_, hal, hsc, hlow, ?_, ?_, hpa, e2⟩
                  · -- reassemble s
                    have s1 := (before_append_fromFirst '#' s).symm
                    have s2 := (before_append_fromFirst '?' rest).symm
                    have s3 := (before_append_fromFirst '/' ((before '?' rest).drop 2)).symm
                    calc s = before '#' s ++ fromFirst '#' s := s1
                      _ = (a :: sch' ++ ':' :: rest) ++ fromFirst '#' s := by rw [← hu]
                      _ = (a :: sch' ++ ':' :: (before '?' rest ++ fromFirst '?' rest)) ++ fromFirst '#' s := by rw [← s2]
                      _ = (a :: sch' ++ ':' :: (('/' :: '/' :: (before '?' rest).drop 2) ++ fromFirst '?' rest)) ++
                            fromFirst '#' s := by rw [← hr]
                      _ = (a :: sch' ++ ':' :: (('/' :: '/' :: (before '/' ((before '?' rest).drop 2) ++
                            fromFirst '/' ((before '?' rest).drop 2))) ++ fromFirst '?' rest)) ++
                            fromFirst '#' s := by rw [← s3]
                      _ = _ := by simp
                  · intro c hc
                    have m1 := mem_before hc
                    have m2 : c ∈ before '?' rest := List.mem_of_mem_drop m1.1
                    have m3 := mem_before m2
                    have m4 : c ∈ before '#' s := by rw [hu]; simp [m3.1]
                    exact ⟨m1.2, m3.2, (mem_before m4).2⟩
                  · exact tailOK_three _ _ _ (fromFirst_nil_or_cons _ _) (fromFirst_nil_or_cons _ _)
                      (fromFirst_nil_or_cons _ _)
              · obtain ⟨_, e2, _⟩ := finishPath_some hp0
                exact absurd e2 hh

/-! ### the host comparison -/

theorem toNat_ofNat_small (n : Nat) (h : n < 0xD800) : (Char.ofNat n).toNat = n := by
  have hv : n.isValidChar := Or.inl h
  unfold Char.ofNat
  rw [dif_pos hv]
  simp [Char.ofNatAux, Char.toNat]

theorem lowerC_toNat (c : Char) :
    (lowerC c).toNat = if 65 ≤ c.toNat ∧ c.toNat ≤ 90 then c.toNat + 32 else c.toNat := by
  unfold lowerC
  simp only [cle]
  have e1 : 'A'.toNat = 65 := rfl
  have e2 : 'Z'.toNat = 90 := rfl
  rw [e1, e2]
  split
  · rename_i h; rw [toNat_ofNat_small _ (by omega)]
  · rfl

/-- lower-casing never produces or removes a dot -/
theorem lowerC_eq_dot (c : Char) : lowerC c = '.' ↔ c = '.' := by
  rw [ceq, ceq, lowerC_toNat]
  have : '.'.toNat = 46 := rfl
  rw [this]
  split <;> omega

theorem lower_dotted (d : List Char) : lower (dotted d) = dotted (lower d) := by
  cases d with
  | nil => simp [dotted, lower]; decide
  | cons c cs =>
    unfold dotted
    by_cases hc : c = '.'
    · subst hc
      have : lowerC '.' = '.' := by decide
      simp [lower, this]
    · have hl : lowerC c ≠ '.' := fun e => hc ((lowerC_eq_dot c).mp e)
      have : lowerC '.' = '.' := by decide
      simp [lower, hc, hl, this]

theorem hostMatches_iff (h d : List Char) :
    hostMatches h d = true ↔ d ≠ [] ∧ h ≠ [] ∧ (h = d ∨ dotted d <:+ h) := by
  unfold hostMatches
  split
  · rename_i hc
    constructor
    · intro hf; cases hf
    · intro ⟨h1, h2, _⟩; rcases hc with hc | hc <;> contradiction
  · rename_i hc
    have hd : d ≠ [] := fun e => hc (Or.inl e)
    have hh : h ≠ [] := fun e => hc (Or.inr e)
    split
    · rename_i he; simp [hd, hh, he]
    · rename_i he
      rw [List.isSuffixOf_iff_suffix]
      simp [hd, hh, he]

/-- matching survives the browser's lower-casing of the host -/
theorem hostMatches_lower {h d : List Char} (hm : hostMatches h d = true) : hostMatches (lower h) (lower d) = true := by
  rw [hostMatches_iff] at hm ⊢
  obtain ⟨h1, h2, h3⟩ := hm
  refine ⟨by simpa [lower] using h1, by simpa [lower] using h2, ?_⟩
  rcases h3 with rfl | ⟨t, rfl⟩
  · left; rfl
  · right
    refine ⟨lower t, ?_⟩
    rw [← lower_dotted]
    simp [lower]

/-- `hasDotDot` is `strings.Contains(·, "..")` -/
theorem hasDotDot_iff (l : List Char) : hasDotDot l = true ↔ ['.', '.'] <:+: l := by
  induction l with
  | nil => simp [hasDotDot]
  | cons c rest ih =>
    simp only [hasDotDot, Bool.or_eq_true, Bool.and_eq_true, beq_iff_eq, ih]
    constructor
    · rintro (⟨rfl, h2⟩ | h)
      · cases rest with
        | nil => simp at h2
        | cons d r =>
          simp at h2; subst h2
          exact ⟨[], r, rfl⟩
      · obtain ⟨s, t, e⟩ := h
        exact ⟨c :: s, t, by simp [← e]⟩
    · rintro ⟨s, t, e⟩
      cases s with
      | nil =>
        simp at e
        left
        obtain ⟨rfl, rfl⟩ := e
        simp
      | cons x s' =>
        simp at e
        right
        exact ⟨s', t, by simp [e.2]⟩

end KM.Redirect
