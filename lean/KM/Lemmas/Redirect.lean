import KM.Model.Redirect
/-! Helper lemmas for C13 (kept apart from the property statements). Core-only. -/
namespace KM.Redirect

/-! ### characters as numbers -/

theorem cle (a b : Char) : a ≤ b ↔ a.toNat ≤ b.toNat := by
  rw [Char.le_def]; exact UInt32.le_iff_toNat_le

theorem ceq (a b : Char) : a = b ↔ a.toNat = b.toNat := by
  constructor
  · intro h; rw [h]
  · intro h; apply Char.ext; exact UInt32.toNat_inj.mp h

/-- a character that survives the browser's preprocessing (not C0/space) and is not a backslash -/
def safeC (c : Char) : Prop := 0x20 < c.toNat ∧ c ≠ '\\'

theorem safeC_of_hostCharOK {c : Char} (h : hostCharOK c = true) : safeC c ∧ c ≠ '%' := by
  simp only [safeC, hostCharOK, shouldEscapeHost, isAlpha, isDigit, Bool.or_eq_true, Bool.and_eq_true,
    decide_eq_true_eq, cle, ne_eq, ceq, beq_iff_eq, Bool.not_not] at h ⊢
  simp at h ⊢
  omega

theorem safeC_of_isHex {c : Char} (h : isHex c = true) : safeC c := by
  simp only [safeC, isHex, isDigit, Bool.or_eq_true, Bool.and_eq_true, decide_eq_true_eq, cle, ne_eq, ceq] at h ⊢
  simp at h ⊢
  omega

theorem safeC_of_userinfoChar {c : Char} (h : userinfoChar c = true) : safeC c := by
  simp only [safeC, userinfoChar, isAlpha, isDigit, Bool.or_eq_true, Bool.and_eq_true, decide_eq_true_eq, cle,
    ne_eq, ceq, beq_iff_eq] at h ⊢
  simp at h ⊢
  omega

theorem safeC_of_schemeChar {c : Char} (h : schemeChar c = true) : safeC c ∧ c ≠ ':' := by
  simp only [safeC, schemeChar, isAlpha, isDigit, Bool.or_eq_true, Bool.and_eq_true, decide_eq_true_eq, cle,
    ne_eq, ceq, beq_iff_eq] at h ⊢
  simp at h ⊢
  omega

theorem schemeChar_of_isAlpha {c : Char} (h : isAlpha c = true) : schemeChar c = true := by
  simp [schemeChar, h]

theorem safeC_pct : safeC '%' := by decide
theorem safeC_at : safeC '@' := by decide
theorem safeC_colon : safeC ':' := by decide
theorem safeC_slash : safeC '/' := by decide
theorem safeC_rbr : safeC ']' := by decide

theorem not_c0space_of_safeC {c : Char} (h : safeC c) : c0space c = false := by
  simp only [safeC] at h
  simp only [c0space, decide_eq_false_iff_not]
  omega

theorem not_tabnl_of_safeC {c : Char} (h : safeC c) : (!(c == '\t' || c == '\n' || c == '\r')) = true := by
  simp only [safeC, ne_eq, ceq] at h
  simp only [Bool.not_eq_true', Bool.or_eq_false_iff, beq_eq_false_iff_ne, ne_eq, ceq]
  simp at h ⊢
  omega

theorem digit_facts {c : Char} (h : isDigit c = true) : c ≠ ':' ∧ c ≠ ']' ∧ c ≠ '%' := by
  simp only [isDigit, Bool.and_eq_true, decide_eq_true_eq, cle, ne_eq, ceq] at h ⊢
  simp at h ⊢
  omega

theorem ipv6Char_facts {c : Char} (h : ipv6Char c = true) : c ≠ '%' ∧ c ≠ ']' ∧ c ≠ '[' := by
  simp only [ipv6Char, isHex, isDigit, Bool.or_eq_true, Bool.and_eq_true, decide_eq_true_eq, cle, ne_eq, ceq,
    beq_iff_eq] at h ⊢
  simp at h ⊢
  omega

theorem not_isHex_colon : isHex ':' = false := by decide

/-! ### cutting lists -/

theorem before_append_fromFirst (d : Char) (l : List Char) : before d l ++ fromFirst d l = l :=
  List.takeWhile_append_dropWhile

theorem fromFirst_nil_or_cons (d : Char) (l : List Char) :
    fromFirst d l = [] ∨ ∃ t, fromFirst d l = d :: t := by
  induction l with
  | nil => left; rfl
  | cons a as ih =>
    by_cases h : a = d
    · right; refine ⟨as, ?_⟩; simp [fromFirst, List.dropWhile, h]
    · have : fromFirst d (a :: as) = fromFirst d as := by simp [fromFirst, List.dropWhile, h]
      rw [this]; exact ih

theorem mem_before {d c : Char} {l : List Char} (h : c ∈ before d l) : c ∈ l ∧ c ≠ d := by
  induction l with
  | nil => simp [before] at h
  | cons a as ih =>
    by_cases had : a = d
    · simp [before, List.takeWhile, had] at h
    · have hb : before d (a :: as) = a :: before d as := by simp [before, List.takeWhile, had]
      rw [hb] at h
      cases h with
      | head => exact ⟨List.mem_cons_self, had⟩
      | tail _ h' => exact ⟨List.mem_cons_of_mem _ (ih h').1, (ih h').2⟩

theorem after_eq (d : Char) (l : List Char) : fromFirst d l = [] ∧ after d l = [] ∨ fromFirst d l = d :: after d l := by
  rcases fromFirst_nil_or_cons d l with h | ⟨t, h⟩
  · left; simp [after, h]
  · right; simp [after, h]

theorem afterLast_of_not_mem {c : Char} {l : List Char} (h : c ∉ l) : afterLast c l = l := by
  cases l with
  | nil => rfl
  | cons x xs =>
    have h1 : c ∉ xs := fun hm => h (List.mem_cons_of_mem _ hm)
    have h2 : x ≠ c := fun e => h (e ▸ List.mem_cons_self)
    simp [afterLast, h1, h2]

theorem afterLast_append {c : Char} (a b : List Char) (h : c ∉ b) : afterLast c (a ++ c :: b) = b := by
  induction a with
  | nil => simp [afterLast, h]
  | cons x xs ih => simp [afterLast, ih]

theorem beforeLast_append {c : Char} (a b : List Char) (h : c ∉ b) : beforeLast c (a ++ c :: b) = a := by
  induction a with
  | nil => simp [beforeLast, h]
  | cons x xs ih => simp [beforeLast, ih]

theorem not_mem_afterLast (c : Char) (l : List Char) : c ∉ afterLast c l := by
  induction l with
  | nil => simp [afterLast]
  | cons x xs ih =>
    unfold afterLast
    split
    · exact ih
    · rename_i hn
      split
      · exact hn
      · rename_i hx
        intro hm
        cases hm with
        | head => exact hx rfl
        | tail _ h' => exact hn h'

theorem split_last {c : Char} {l : List Char} (h : c ∈ l) : l = beforeLast c l ++ c :: afterLast c l := by
  induction l with
  | nil => cases h
  | cons x xs ih =>
    unfold afterLast beforeLast
    by_cases hm : c ∈ xs
    · simp only [hm, if_true, List.cons_append]; rw [← ih hm]
    · have hx : x = c := by
        cases h with
        | head => rfl
        | tail _ h' => exact absurd h' hm
      simp [hm, hx]

theorem mem_afterLast {c x : Char} {l : List Char} (h : x ∈ afterLast c l) : x ∈ l := by
  by_cases hc : c ∈ l
  · rw [split_last hc]; simp [h]
  · rw [afterLast_of_not_mem hc] at h; exact h

theorem afterLast_snoc {c x : Char} (l : List Char) (h : c ≠ x) : afterLast c (l ++ [x]) = afterLast c l ++ [x] := by
  induction l with
  | nil => simp [afterLast, h.symm]
  | cons y ys ih =>
    simp only [List.cons_append, afterLast, List.mem_append, List.mem_singleton, h, or_false]
    split
    · exact ih
    · split <;> simp

end KM.Redirect
