import KM.Model.Redirect
set_option linter.unusedSimpArgs false
/-! Helper lemmas for C13 (kept apart from the property statements). Core-only. -/
namespace KM.Redirect

/-! ### characters as numbers -/

theorem cle (a b : Char) : a ≤ b ↔ a.toNat ≤ b.toNat := by
  rw [Char.le_def]; exact UInt32.le_iff_toNat_le

theorem ceq (a b : Char) : a = b ↔ a.toNat = b.toNat := by
  constructor
  · intro h; rw [h]
  · intro h; apply Char.ext; exact UInt32.toNat_inj.mp h

/-- a character that survives the browser's preprocessing (not C0/space) and is not a backslash -/
def safeC (c : Char) : Prop := 0x20 < c.toNat ∧ c ≠ '\\'

theorem safeC_of_hostCharOK {c : Char} (h : hostCharOK c = true) : safeC c ∧ c ≠ '%' := by
  simp only [safeC, hostCharOK, shouldEscapeHost, isAlpha, isDigit, Bool.or_eq_true, Bool.and_eq_true,
    decide_eq_true_eq, cle, ne_eq, ceq, beq_iff_eq, Bool.not_not] at h ⊢
  simp at h ⊢
  omega

theorem safeC_of_isHex {c : Char} (h : isHex c = true) : safeC c := by
  simp only [safeC, isHex, isDigit, Bool.or_eq_true, Bool.and_eq_true, decide_eq_true_eq, cle, ne_eq, ceq] at h ⊢
  simp at h ⊢
  omega

theorem safeC_of_userinfoChar {c : Char} (h : userinfoChar c = true) : safeC c := by
  simp only [safeC, userinfoChar, isAlpha, isDigit, Bool.or_eq_true, Bool.and_eq_true, decide_eq_true_eq, cle,
    ne_eq, ceq, beq_iff_eq] at h ⊢
  simp at h ⊢
  omega

theorem safeC_of_schemeChar {c : Char} (h : schemeChar c = true) : safeC c ∧ c ≠ ':' := by
  simp only [safeC, schemeChar, isAlpha, isDigit, Bool.or_eq_true, Bool.and_eq_true, decide_eq_true_eq, cle,
    ne_eq, ceq, beq_iff_eq] at h ⊢
  simp at h ⊢
  omega

theorem schemeChar_of_isAlpha {c : Char} (h : isAlpha c = true) : schemeChar c = true := by
  simp [schemeChar, h]

theorem safeC_pct : safeC '%' := ⟨by decide, by decide⟩
theorem safeC_at : safeC '@' := ⟨by decide, by decide⟩
theorem safeC_colon : safeC ':' := ⟨by decide, by decide⟩
theorem safeC_slash : safeC '/' := ⟨by decide, by decide⟩
theorem safeC_rbr : safeC ']' := ⟨by decide, by decide⟩

theorem not_c0space_of_safeC {c : Char} (h : safeC c) : c0space c = false := by
  simp only [safeC] at h
  simp only [c0space, decide_eq_false_iff_not]
  omega

theorem not_tabnl_of_safeC {c : Char} (h : safeC c) : (!(c == '\t' || c == '\n' || c == '\r')) = true := by
  simp only [safeC, ne_eq, ceq] at h
  simp only [Bool.not_eq_true', Bool.or_eq_false_iff, beq_eq_false_iff_ne, ne_eq, ceq]
  simp at h ⊢
  omega

theorem digit_facts {c : Char} (h : isDigit c = true) : c ≠ ':' ∧ c ≠ ']' ∧ c ≠ '%' := by
  simp only [isDigit, Bool.and_eq_true, decide_eq_true_eq, cle, ne_eq, ceq] at h ⊢
  simp at h ⊢
  omega

theorem ipv6Char_facts {c : Char} (h : ipv6Char c = true) : c ≠ '%' ∧ c ≠ ']' ∧ c ≠ '[' := by
  simp only [ipv6Char, isHex, isDigit, Bool.or_eq_true, Bool.and_eq_true, decide_eq_true_eq, cle, ne_eq, ceq,
    beq_iff_eq] at h ⊢
  simp at h ⊢
  omega

theorem not_isHex_colon : isHex ':' = false := by decide

/-! ### cutting lists -/

theorem before_append_fromFirst (d : Char) (l : List Char) : before d l ++ fromFirst d l = l :=
  List.takeWhile_append_dropWhile

theorem fromFirst_nil_or_cons (d : Char) (l : List Char) :
    fromFirst d l = [] ∨ ∃ t, fromFirst d l = d :: t := by
  induction l with
  | nil => left; rfl
  | cons a as ih =>
    by_cases h : a = d
    · right; refine ⟨as, ?_⟩; simp [fromFirst, List.dropWhile_cons, h]
    · have : fromFirst d (a :: as) = fromFirst d as := by simp [fromFirst, List.dropWhile_cons, h]
      rw [this]; exact ih

theorem mem_before {d c : Char} {l : List Char} (h : c ∈ before d l) : c ∈ l ∧ c ≠ d := by
  induction l with
  | nil => simp [before] at h
  | cons a as ih =>
    by_cases had : a = d
    · simp [before, List.takeWhile_cons, had] at h
    · have hb : before d (a :: as) = a :: before d as := by simp [before, List.takeWhile_cons, had]
      rw [hb] at h
      cases h with
      | head => exact ⟨List.mem_cons_self, had⟩
      | tail _ h' => exact ⟨List.mem_cons_of_mem _ (ih h').1, (ih h').2⟩

theorem after_eq (d : Char) (l : List Char) : fromFirst d l = [] ∧ after d l = [] ∨ fromFirst d l = d :: after d l := by
  rcases fromFirst_nil_or_cons d l with h | ⟨t, h⟩
  · left; simp [after, h]
  · right; simp [after, h]

theorem afterLast_of_not_mem {c : Char} {l : List Char} (h : c ∉ l) : afterLast c l = l := by
  cases l with
  | nil => rfl
  | cons x xs =>
    have h1 : c ∉ xs := fun hm => h (List.mem_cons_of_mem _ hm)
    have h2 : x ≠ c := fun e => h (e ▸ List.mem_cons_self)
    simp [afterLast, h1, h2]

theorem afterLast_append {c : Char} (a b : List Char) (h : c ∉ b) : afterLast c (a ++ c :: b) = b := by
  induction a with
  | nil => simp [afterLast, h]
  | cons x xs ih => simp [afterLast, ih]

theorem beforeLast_append {c : Char} (a b : List Char) (h : c ∉ b) : beforeLast c (a ++ c :: b) = a := by
  induction a with
  | nil => simp [beforeLast, h]
  | cons x xs ih => simp [beforeLast, ih]

theorem not_mem_afterLast (c : Char) (l : List Char) : c ∉ afterLast c l := by
  induction l with
  | nil => simp [afterLast]
  | cons x xs ih =>
    unfold afterLast
    split
    · exact ih
    · rename_i hn
      split
      · exact hn
      · rename_i hx
        intro hm
        cases hm with
        | head => exact hx rfl
        | tail _ h' => exact hn h'

theorem split_last {c : Char} {l : List Char} (h : c ∈ l) : l = beforeLast c l ++ c :: afterLast c l := by
  induction l with
  | nil => cases h
  | cons x xs ih =>
    unfold afterLast beforeLast
    by_cases hm : c ∈ xs
    · simp only [hm, if_true, List.cons_append]; rw [← ih hm]
    · have hx : x = c := by
        cases h with
        | head => rfl
        | tail _ h' => exact absurd h' hm
      simp [hm, hx]

theorem mem_afterLast {c x : Char} {l : List Char} (h : x ∈ afterLast c l) : x ∈ l := by
  by_cases hc : c ∈ l
  · rw [split_last hc]; simp [h]
  · rw [afterLast_of_not_mem hc] at h; exact h

theorem afterLast_snoc {c x : Char} (l : List Char) (h : c ≠ x) : afterLast c (l ++ [x]) = afterLast c l ++ [x] := by
  induction l with
  | nil => simp [afterLast, h.symm]
  | cons y ys ih =>
    simp only [List.cons_append, afterLast, List.mem_append, List.mem_singleton, h, or_false]
    split
    · exact ih
    · split <;> simp

/-! ### percent-decoding and host validation -/

theorem hostOK_safe {l : List Char} (h : hostOK l = true) : ∀ c ∈ l, safeC c := by
  fun_induction hostOK l with
  | case1 a b r ih =>
    simp only [Bool.and_eq_true] at h
    intro c hm
    simp only [List.mem_cons] at hm
    rcases hm with rfl | rfl | rfl | hm
    · exact safeC_pct
    · exact safeC_of_isHex h.1.1.1
    · exact safeC_of_isHex h.1.1.2
    · exact ih h.2 c hm
  | case2 c a b r hc ih =>
    simp only [Bool.and_eq_true] at h
    intro x hm
    cases hm with
    | head => exact (safeC_of_hostCharOK h.1).1
    | tail _ hm => exact ih h.2 x hm
  | case3 c d =>
    simp only [Bool.and_eq_true] at h
    intro x hm
    simp only [List.mem_cons, List.not_mem_nil, or_false] at hm
    rcases hm with rfl | rfl
    · exact (safeC_of_hostCharOK h.1).1
    · exact (safeC_of_hostCharOK h.2).1
  | case4 c =>
    intro x hm
    simp only [List.mem_cons, List.not_mem_nil, or_false] at hm
    subst hm
    exact (safeC_of_hostCharOK h).1
  | case5 => intro x hm; cases hm

theorem zoneOK_safe {l : List Char} (h : zoneOK l = true) : ∀ c ∈ l, safeC c := by
  fun_induction zoneOK l with
  | case1 a b r ih =>
    simp only [Bool.and_eq_true] at h
    intro c hm
    simp only [List.mem_cons] at hm
    rcases hm with rfl | rfl | rfl | hm
    · exact safeC_pct
    · exact safeC_of_isHex h.1.1.1
    · exact safeC_of_isHex h.1.1.2
    · exact ih h.2 c hm
  | case2 c a b r hc ih =>
    simp only [Bool.and_eq_true] at h
    intro x hm
    cases hm with
    | head => exact (safeC_of_hostCharOK h.1).1
    | tail _ hm => exact ih h.2 x hm
  | case3 c d =>
    simp only [Bool.and_eq_true] at h
    intro x hm
    simp only [List.mem_cons, List.not_mem_nil, or_false] at hm
    rcases hm with rfl | rfl
    · exact (safeC_of_hostCharOK h.1).1
    · exact (safeC_of_hostCharOK h.2).1
  | case4 c =>
    intro x hm
    simp only [List.mem_cons, List.not_mem_nil, or_false] at hm
    subst hm
    exact (safeC_of_hostCharOK h).1
  | case5 => intro x hm; cases hm

theorem pctDecode_eq_goDecode {l : List Char} (h : hostOK l = true) : pctDecode l = goDecode l := by
  fun_induction hostOK l with
  | case1 a b r ih =>
    simp only [Bool.and_eq_true] at h
    simp [pctDecode, goDecode, h.1.1.1, h.1.1.2, ih h.2]
  | case2 c a b r hc ih =>
    simp only [Bool.and_eq_true] at h
    simp [pctDecode, goDecode, hc, ih h.2]
  | case3 c d => simp [pctDecode, goDecode]
  | case4 c => simp [pctDecode, goDecode]
  | case5 => simp [pctDecode, goDecode]

theorem mem_pctDecode {c : Char} {l : List Char} (hm : c ∈ l) (h1 : c ≠ '%') (h2 : isHex c = false) :
    c ∈ pctDecode l := by
  fun_induction pctDecode l with
  | case1 x a b r hc ih =>
    simp only [List.mem_cons] at hm
    rcases hm with rfl | rfl | rfl | hm
    · exact absurd hc.1 h1
    · rw [hc.2.1] at h2; cases h2
    · rw [hc.2.2] at h2; cases h2
    · exact List.mem_cons_of_mem _ (ih hm)
  | case2 x a b r hc ih =>
    cases hm with
    | head => exact List.mem_cons_self
    | tail _ hm => exact List.mem_cons_of_mem _ (ih hm)
  | case3 l hl => exact hm

theorem goDecode_of_no_pct {l : List Char} (h : '%' ∉ l) : goDecode l = l := by
  fun_induction goDecode l with
  | case1 a b r ih => exact absurd List.mem_cons_self h
  | case2 c a b r hc ih =>
    rw [ih (fun hm => h (List.mem_cons_of_mem _ hm))]
  | case3 l hl => rfl

theorem hostOK_split_colon {a b : List Char} (h : hostOK (a ++ ':' :: b) = true) :
    hostOK a = true ∧ hostOK (':' :: b) = true ∧ goDecode (a ++ ':' :: b) = goDecode a ++ goDecode (':' :: b) := by
  fun_induction hostOK a with
  | case1 x y r ih =>
    simp only [List.cons_append, hostOK, if_true, Bool.and_eq_true] at h
    obtain ⟨h1, h2, h3⟩ := ih h.2
    refine ⟨?_, h2, ?_⟩
    · simp only [Bool.and_eq_true]; exact ⟨h.1, h1⟩
    · simp [goDecode, h3]
  | case2 c x y r hc ih =>
    simp only [List.cons_append, hostOK, hc, if_false, Bool.and_eq_true] at h
    obtain ⟨h1, h2, h3⟩ := ih h.2
    refine ⟨?_, h2, ?_⟩
    · simp only [Bool.and_eq_true]; exact ⟨h.1, h1⟩
    · simp only [List.cons_append, goDecode, hc, if_false]
      rw [← h3]; rfl
  | case3 c d =>
    have hd : hostCharOK c = true ∧ hostCharOK d = true ∧ hostOK (':' :: b) = true := by
      cases b with
      | nil =>
        simp only [List.cons_append, List.nil_append, hostOK, Bool.and_eq_true] at h
        split at h
        · simp [not_isHex_colon] at h
        · simp only [Bool.and_eq_true] at h
          exact ⟨h.1, h.2.1, by simp [hostOK, h.2.2]⟩
      | cons b0 r =>
        simp only [List.cons_append, List.nil_append, hostOK, Bool.and_eq_true] at h
        split at h
        · simp [not_isHex_colon] at h
        · simp only [Bool.and_eq_true] at h
          split at h
          · simp [not_isHex_colon] at h
          · simp only [Bool.and_eq_true] at h
            exact ⟨h.1, h.2.1, by simp [hostOK, h.2.2]⟩
    have hc : c ≠ '%' := (safeC_of_hostCharOK hd.1).2
    have hd' : d ≠ '%' := (safeC_of_hostCharOK hd.2.1).2
    refine ⟨by simp [hostOK, hd.1, hd.2.1], hd.2.2, ?_⟩
    cases b with
    | nil => simp [goDecode, hc]
    | cons b0 r => simp [goDecode, hc, hd']
  | case4 c =>
    have hd : hostCharOK c = true ∧ hostOK (':' :: b) = true := by
      cases b with
      | nil =>
        simp only [List.cons_append, List.nil_append, hostOK, Bool.and_eq_true] at h
        exact ⟨h.1, by simp [hostOK, h.2]⟩
      | cons b0 r =>
        simp only [List.cons_append, List.nil_append, hostOK, Bool.and_eq_true] at h
        split at h
        · simp [not_isHex_colon] at h
        · simp only [Bool.and_eq_true] at h
          exact ⟨h.1, by simp [hostOK, h.2]⟩
    have hc : c ≠ '%' := (safeC_of_hostCharOK hd.1).2
    refine ⟨by simp [hostOK, hd.1], hd.2, ?_⟩
    cases b with
    | nil => simp [goDecode]
    | cons b0 r => simp [goDecode, hc]
  | case5 => exact ⟨rfl, h, rfl⟩


end KM.Redirect
