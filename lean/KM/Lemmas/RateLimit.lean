import KM.Model.RateLimit
/-! Helper lemmas for C14 (kept apart from the property statements). -/
namespace KM.RateLimit

/-! ## token bucket -/

theorem tokenUnit_pos : 0 < tokenUnit := by unfold tokenUnit; omega

/-- an admitted request leaves a deficit worth less than 1 ns of refill -/
theorem allowed_tokens {p : Limit} {b : Bucket} {t : Int} (h : allowed p b t = true) :
    0 ≤ afterTake p b t ∨ -(p.rateMilli : Int) < afterTake p b t := by
  unfold allowed waitIsZero at h
  simp only [Bool.and_eq_true, Bool.or_eq_true, decide_eq_true_eq] at h
  rcases h.2 with h0 | ⟨hr, hd⟩
  · exact Or.inl h0
  · right
    have hr' : (0 : Int) < (p.rateMilli : Int) := by omega
    have := Int.lt_mul_ediv_self_add (x := -(afterTake p b t)) hr'
    rw [hd] at this
    omega

theorem advance_le_burst (p : Limit) (b : Bucket) (t : Int) :
    advance p b t ≤ p.burst * tokenUnit := by
  unfold advance; exact Int.min_le_right _ _

theorem advance_le_gain (p : Limit) (b : Bucket) (t : Int) :
    advance p b t ≤ b.tokens + (t - lastEff b t) * p.rateMilli := by
  unfold advance; exact Int.min_le_left _ _

/-- the token invariant of a limiter: never above the burst, never a deficit of a full ns of refill -/
def TokOK (p : Limit) (b : Bucket) : Prop :=
  b.tokens ≤ p.burst * tokenUnit ∧ (0 ≤ b.tokens ∨ -(p.rateMilli : Int) < b.tokens)

theorem tokOK_new (p : Limit) (t0 : Int) : TokOK p (Bucket.new p t0) := by
  refine ⟨Int.le_refl _, Or.inl ?_⟩
  unfold Bucket.new
  exact Int.mul_nonneg (Int.natCast_nonneg _) (Int.le_of_lt tokenUnit_pos)

theorem tokOK_step {p : Limit} {b : Bucket} (t : Int) (h : TokOK p b) :
    TokOK p (allowStep p b t).1 := by
  unfold allowStep
  split
  · rename_i ha
    refine ⟨?_, allowed_tokens ha⟩
    have := advance_le_burst p b t
    have := tokenUnit_pos
    show afterTake p b t ≤ _
    unfold afterTake
    omega
  · exact h

theorem tokOK_run {p : Limit} (ts : List Int) : ∀ {b : Bucket}, TokOK p b →
    TokOK p (runBucket p b ts).1 := by
  induction ts with
  | nil => intro b h; exact h
  | cons t ts ih => intro b h; exact ih (tokOK_step t h)

theorem lastOr_ge : ∀ (ts : List Int) (d : Int), NonDecr d ts → d ≤ lastOr d ts := by
  intro ts
  induction ts with
  | nil => intro d _; exact Int.le_refl _
  | cons t ts ih =>
    intro d h
    exact Int.le_trans h.1 (ih t h.2)

/-- **potential**: once `last` is the time of an admitted request, every further admission costs a
whole token against what the elapsed time refills -/
theorem run_potential (p : Limit) (ts : List Int) : ∀ (b : Bucket), NonDecr b.last ts →
    ((runBucket p b ts).2 : Int) * tokenUnit + (runBucket p b ts).1.tokens
        ≤ b.tokens + ((runBucket p b ts).1.last - b.last) * p.rateMilli ∧
    b.last ≤ (runBucket p b ts).1.last ∧ (runBucket p b ts).1.last ≤ lastOr b.last ts := by
  induction ts with
  | nil =>
    intro b _
    simp only [runBucket, lastOr]
    refine ⟨?_, Int.le_refl _, Int.le_refl _⟩
    simp
  | cons t ts ih =>
    intro b h
    obtain ⟨hbt, hts⟩ := h
    simp only [runBucket, lastOr]
    unfold allowStep
    split
    · -- admitted: state (afterTake, t)
      have hi := ih ⟨afterTake p b t, t⟩ hts
      simp only at hi
      obtain ⟨h1, h2, h3⟩ := hi
      have hle : lastEff b t = b.last := by unfold lastEff; split <;> omega
      have hg := advance_le_gain p b t
      rw [hle] at hg
      generalize hF : runBucket p ⟨afterTake p b t, t⟩ ts = F at h1 h2 h3 ⊢
      have hsplit : (F.1.last - b.last) * (p.rateMilli : Int)
          = (F.1.last - t) * p.rateMilli + (t - b.last) * p.rateMilli := by
        rw [← Int.add_mul]; congr 1; omega
      refine ⟨?_, by omega, h3⟩
      simp only [if_true]
      unfold afterTake at h1
      rw [hsplit]
      push_cast
      unfold tokenUnit at *
      omega
    · -- refused: state unchanged
      have hnd : NonDecr b.last ts := by
        cases ts with
        | nil => trivial
        | cons u us => exact ⟨Int.le_trans hbt hts.1, hts.2⟩
      obtain ⟨h1, h2, h3⟩ := ih b hnd
      refine ⟨?_, h2, ?_⟩
      · simp only [Bool.false_eq_true, if_false]
        unfold tokenUnit at *
        omega
      · -- lastOr b.last ts ≤ lastOr t ts  (or both are the same last element)
        cases ts with
        | nil => simp only [runBucket, lastOr] at h3 ⊢; omega
        | cons u us => simpa [lastOr] using h3

/-- from an arbitrary state within the invariant (in particular a new limiter, whose `last` is the
zero time): admitted·unit + tokens ≤ burst·unit + rate·(t_last − t_first) -/
theorem run_bound (p : Limit) (ts : List Int) : ∀ (b : Bucket) (t1 : Int),
    b.tokens ≤ p.burst * tokenUnit → NonDecr t1 ts →
    ((runBucket p b ts).2 : Int) * tokenUnit + (runBucket p b ts).1.tokens
        ≤ p.burst * tokenUnit + (lastOr t1 ts - t1) * p.rateMilli := by
  induction ts with
  | nil =>
    intro b t1 hb _
    simp only [runBucket, lastOr]
    simp
    omega
  | cons t ts ih =>
    intro b t1 hb h
    obtain ⟨h1t, hts⟩ := h
    simp only [runBucket, lastOr]
    unfold allowStep
    split
    · -- first admitted request: from here on `run_potential`
      obtain ⟨hp1, hp2, hp3⟩ := run_potential p ts ⟨afterTake p b t, t⟩ hts
      simp only at hp1 hp2 hp3
      generalize runBucket p ⟨afterTake p b t, t⟩ ts = F at hp1 hp2 hp3 ⊢
      have hcap := advance_le_burst p b t
      have hmono : (F.1.last - t) * (p.rateMilli : Int) ≤ (lastOr t ts - t1) * p.rateMilli :=
        Int.mul_le_mul_of_nonneg_right (by omega) (Int.natCast_nonneg _)
      simp only [if_true]
      unfold afterTake at hp1
      push_cast
      unfold tokenUnit at *
      omega
    · have hnd : NonDecr t1 ts := by
        cases ts with
        | nil => trivial
        | cons u us => exact ⟨Int.le_trans h1t hts.1, hts.2⟩
      have hi := ih b t1 hb hnd
      have hl : lastOr t1 ts ≤ lastOr t ts := by
        cases ts with
        | nil => simpa [lastOr] using h1t
        | cons u us => simp [lastOr]
      have hmono : (lastOr t1 ts - t1) * (p.rateMilli : Int) ≤ (lastOr t ts - t1) * p.rateMilli :=
        Int.mul_le_mul_of_nonneg_right (by omega) (Int.natCast_nonneg _)
      simp only [Bool.false_eq_true, if_false]
      unfold tokenUnit at *
      omega

theorem runBucket_append (p : Limit) (pre : List Int) : ∀ (b : Bucket) (ts : List Int),
    (runBucket p b (pre ++ ts)).2 = (runBucket p b pre).2 + (runBucket p (runBucket p b pre).1 ts).2 ∧
    (runBucket p b (pre ++ ts)).1 = (runBucket p (runBucket p b pre).1 ts).1 := by
  induction pre with
  | nil => intro b ts; simp [runBucket]
  | cons t pre ih =>
    intro b ts
    obtain ⟨h1, h2⟩ := ih (allowStep p b t).1 ts
    simp only [List.cons_append, runBucket, h1, h2]
    exact ⟨by omega, trivial⟩

end KM.RateLimit

namespace KM.RateLimit

theorem pwRun_backend_count (p : Limit) (ts : List Int) : ∀ (b : Bucket),
    ((pwRun p b ts).filter (· = PwResp.backend)).length = (runBucket p b ts).2 := by
  induction ts with
  | nil => intro b; rfl
  | cons t ts ih =>
    intro b
    simp only [pwRun, runBucket, passwordAttempt]
    cases h : (allowStep p b t).2
    · simp [ih]
    · simp [ih]; omega

/-! ## per-user TOTP limiter -/

theorem spacingNs_nonneg : 0 ≤ spacingNs :=
  Int.mul_nonneg (Int.natCast_nonneg _) (by decide)

theorem lockStepNs_nonneg : 0 ≤ lockStepNs :=
  Int.mul_nonneg (Int.natCast_nonneg _) (by decide)

/-- passing the 2-second gate means the previous check is at least `spacingNs` back -/
theorem step_gate {f : Totp → Int → Int} {s : Totp} {a : Attempt}
    (h : (stepWith f s a).2 ≠ .spaced) : s.lastCheck + spacingNs ≤ a.now := by
  unfold stepWith at h
  split at h
  · exact absurd rfl h
  · omega

/-- … and the check time is then set to `now` -/
theorem step_lastCheck_of_pass {f : Totp → Int → Int} {s : Totp} {a : Attempt}
    (h : (stepWith f s a).2 ≠ .spaced) : (stepWith f s a).1.lastCheck = a.now := by
  unfold stepWith at h ⊢
  split
  · rename_i h1; simp [h1] at h
  · split
    · rfl
    · split
      · rfl
      · split <;> rfl

theorem step_lastCheck_mono (f : Totp → Int → Int) (s : Totp) (a : Attempt) :
    s.lastCheck ≤ (stepWith f s a).1.lastCheck := by
  by_cases h : (stepWith f s a).2 = .spaced
  · unfold stepWith at h ⊢
    split
    · exact Int.le_refl _
    · rename_i h1
      split at h
      · rename_i h2; exact absurd h2 h1
      · split at h
        · cases h
        · split at h
          · cases h
          · split at h <;> cases h
  · rw [step_lastCheck_of_pass h]
    have := step_gate h
    have := spacingNs_nonneg
    omega

theorem evaluated_ne_spaced {o : Outcome} (h : o.evaluated = true) : o ≠ .spaced := by
  cases o <;> simp [Outcome.evaluated] at h ⊢

/-- every later gate-passing event of a user is at least `spacingNs` after that user's current
`lastCheckTime` -/
theorem trace_gate {U : Type} [DecidableEq U] (f : Totp → Int → Int)
    (ops : List (U × Attempt)) : ∀ (m : U → Totp) (e : Event U),
    e ∈ traceM (stepWith f) m ops → e.out ≠ .spaced → (m e.user).lastCheck + spacingNs ≤ e.now := by
  induction ops with
  | nil => intro m e h; cases h
  | cons op ops ih =>
    intro m e h hne
    simp only [traceM, List.mem_cons] at h
    rcases h with h | h
    · subst h
      exact step_gate hne
    · have := ih _ e h hne
      simp only [stepM, upd] at this
      split at this
      · rename_i hu
        have hm := step_lastCheck_mono f (m op.1) op.2
        rw [hu]
        omega
      · exact this

/-! ### the model refines the monitor -/

/-- what the monitor knows is a lower bound of what the limiter state enforces -/
def Rel (s : Totp) (m : Mon) : Prop :=
  s.failCount = m.n ∧ (0 < m.n → s.lastFail = m.lastFail) ∧
  (∀ u, m.lockedUntil = some u → u ≤ s.lockoutExp) ∧ (∀ l, m.lastEval = some l → l ≤ s.lastCheck)

theorem rel_init : Rel Totp.init Mon.init := by
  refine ⟨rfl, ?_, ?_, ?_⟩
  · intro h; cases h
  · intro u h; cases h
  · intro l h; cases h

theorem monCheck_ok {s : Totp} {m : Mon} {now : Int} (hr : Rel s m)
    (hg : s.lastCheck + spacingNs ≤ now) (hl : s.lockoutExp ≤ now) : monCheck m now = .ok := by
  obtain ⟨_, _, hu, hle⟩ := hr
  unfold monCheck
  have h1 : tooSoon m now = false := by
    unfold tooSoon
    cases he : m.lastEval with
    | none => rfl
    | some l =>
      have := hle l he
      simp only [decide_eq_false_iff_not]
      omega
  have h2 : inLockout m now = false := by
    unfold inLockout
    cases he : m.lockedUntil with
    | none => rfl
    | some u =>
      have := hu u he
      simp only [decide_eq_false_iff_not]
      omega
  rw [h1, h2]
  rfl

theorem rel_step {s : Totp} {m : Mon} (a : Attempt) (hr : Rel s m) (hn : m.n + 1 < 4294967296) :
    (monStep m a.now (step s a).2).2 = .ok ∧ Rel (step s a).1 (monStep m a.now (step s a).2).1 ∧
    (monStep m a.now (step s a).2).1.n ≤ m.n + 1 := by
  have hsp := spacingNs_nonneg
  obtain ⟨hfc, hlf, hu, hle⟩ := hr
  unfold step stepWith
  split
  · -- spaced
    exact ⟨rfl, ⟨hfc, hlf, hu, hle⟩, Nat.le_succ _⟩
  · rename_i hgate
    split
    · -- locked
      refine ⟨rfl, ⟨hfc, hlf, hu, ?_⟩, Nat.le_succ _⟩
      intro l he
      have := hle l he
      show l ≤ a.now
      omega
    · rename_i hlock
      split
      · -- replay
        refine ⟨rfl, ⟨hfc, hlf, hu, ?_⟩, Nat.le_succ _⟩
        intro l he
        have := hle l he
        show l ≤ a.now
        omega
      · have hok : monCheck m a.now = .ok :=
          monCheck_ok ⟨hfc, hlf, hu, hle⟩ (by omega) (by omega)
        split
        · -- accepted
          refine ⟨hok, ⟨rfl, ?_, ?_, ?_⟩, Nat.zero_le _⟩
          · intro h; cases h
          · intro u h; cases h
          · intro l h
            simp only [monStep] at h
            cases h
            exact Int.le_refl _
        · -- rejected
          have hN : fcNext s a.now = monN m a.now := by
            unfold fcNext fcBase monN
            by_cases hz : m.n = 0
            · have : s.failCount = 0 := by omega
              simp only [hz, this, true_or, if_true]
              split <;> rfl
            · have hlf' := hlf (by omega)
              rw [hlf']
              simp only [hz, false_or]
              split
              · rfl
              · rw [hfc]; omega
          have hle1 : monN m a.now ≤ m.n + 1 := by
            unfold monN; split <;> omega
          refine ⟨hok, ⟨?_, ?_, ?_, ?_⟩, hle1⟩
          · exact hN
          · intro _; rfl
          · intro u h
            simp only [monStep] at h
            show u ≤ lockNext s a.now
            unfold lockNext
            rw [hN]
            split at h
            · rename_i hmod
              simp only [hmod, if_true]
              cases h
              exact Int.le_refl _
            · rename_i hmod
              simp only [hmod, if_false]
              have := hu u h
              unfold lockBase
              split <;> omega
          · intro l h
            simp only [monStep] at h
            cases h
            exact Int.le_refl _

theorem monAll_of_rel {U : Type} [DecidableEq U] (ops : List (U × Attempt)) :
    ∀ (sm : U → Totp) (mm : U → Mon), (∀ u, Rel (sm u) (mm u)) →
    (∀ u, (mm u).n + ops.length < 4294967296) → monAll mm (traceM step sm ops) = true := by
  induction ops with
  | nil => intro _ _ _ _; rfl
  | cons op ops ih =>
    intro sm mm hr hb
    have hb1 := hb op.1
    simp only [List.length_cons] at hb1
    obtain ⟨hok, hrel, hn⟩ := rel_step op.2 (hr op.1) (by omega)
    simp only [traceM, monAll, stepM, Bool.and_eq_true, decide_eq_true_eq]
    refine ⟨hok, ih _ _ ?_ ?_⟩
    · intro u
      simp only [upd]
      split
      · exact hrel
      · exact hr u
    · intro u
      simp only [upd]
      have := hb u
      simp only [List.length_cons] at this
      split
      · omega
      · omega

end KM.RateLimit

namespace KM.RateLimit

/-- the five ways through `validateUserTOTP` -/
theorem stepWith_cases (f : Totp → Int → Int) (s : Totp) (a : Attempt) :
    (a.now < s.lastCheck + spacingNs ∧ stepWith f s a = (s, .spaced)) ∨
    (s.lastCheck + spacingNs ≤ a.now ∧ a.now < s.lockoutExp ∧
      stepWith f s a = ({ s with lastCheck := a.now }, .locked)) ∨
    (s.lastCheck + spacingNs ≤ a.now ∧ s.lockoutExp ≤ a.now ∧ s.lastSuccCounter = a.counter ∧
      stepWith f s a = ({ s with lastCheck := a.now }, .replay)) ∨
    (s.lastCheck + spacingNs ≤ a.now ∧ s.lockoutExp ≤ a.now ∧ s.lastSuccCounter ≠ a.counter ∧
      fresh s a = true ∧
      stepWith f s a = (⟨a.now, 0, s.lastFail, a.now, matchedOr a⟩, .accepted)) ∨
    (s.lastCheck + spacingNs ≤ a.now ∧ s.lockoutExp ≤ a.now ∧ s.lastSuccCounter ≠ a.counter ∧
      fresh s a = false ∧
      stepWith f s a = (⟨a.now, fcNext s a.now, a.now, f s a.now, s.lastSuccCounter⟩, .rejected)) := by
  unfold stepWith
  by_cases h1 : s.lastCheck + spacingNs > a.now
  · left; exact ⟨by omega, by simp only [h1, if_true]⟩
  · right
    by_cases h2 : s.lockoutExp > a.now
    · left; exact ⟨by omega, by omega, by simp only [h1, h2, if_true, if_false]⟩
    · right
      by_cases h3 : s.lastSuccCounter = a.counter
      · left; exact ⟨by omega, by omega, h3, by simp only [h1, h2, h3, if_true, if_false]⟩
      · right
        by_cases h4 : fresh s a = true
        · left; exact ⟨by omega, by omega, h3, h4, by simp only [h1, h2, h3, h4, if_true, if_false]⟩
        · right
          refine ⟨by omega, by omega, h3, by simpa using h4, ?_⟩
          simp only [h1, h2, h3, h4, if_false]
          rfl

end KM.RateLimit

namespace KM.RateLimit

/-- `fresh`: the code belongs to a step later than the last accepted one -/
theorem fresh_iff {s : Totp} {a : Attempt} :
    fresh s a = true ↔ ∃ m, a.matched = some m ∧ s.lastSuccCounter < m := by
  unfold fresh
  cases h : a.matched with
  | none => simp
  | some m => simp

theorem matchedOr_of_some {a : Attempt} {m : Int} (h : a.matched = some m) : matchedOr a = m := by
  unfold matchedOr; rw [h]; rfl

/-- the stored step never goes back -/
theorem lastSucc_mono (f : Totp → Int → Int) (s : Totp) (a : Attempt) :
    s.lastSuccCounter ≤ (stepWith f s a).1.lastSuccCounter := by
  rcases stepWith_cases f s a with ⟨_, e⟩ | ⟨_, _, e⟩ | ⟨_, _, _, e⟩ | ⟨_, _, _, h4, e⟩ |
      ⟨_, _, _, _, e⟩ <;> rw [e]
  · exact Int.le_refl _
  · exact Int.le_refl _
  · exact Int.le_refl _
  · obtain ⟨m, hm, hlt⟩ := fresh_iff.mp h4
    show s.lastSuccCounter ≤ matchedOr a
    rw [matchedOr_of_some hm]; omega
  · exact Int.le_refl _

/-- an accepted step stores the matched step, which is later than the one stored before -/
theorem accepted_step {f : Totp → Int → Int} {s : Totp} {a : Attempt}
    (h : (stepWith f s a).2 = .accepted) :
    ∃ m, a.matched = some m ∧ s.lastSuccCounter < m ∧ (stepWith f s a).1.lastSuccCounter = m := by
  rcases stepWith_cases f s a with ⟨_, e⟩ | ⟨_, _, e⟩ | ⟨_, _, _, e⟩ | ⟨_, _, _, h4, e⟩ |
      ⟨_, _, _, _, e⟩ <;> rw [e] at h ⊢ <;> try (cases h; done)
  obtain ⟨m, hm, hlt⟩ := fresh_iff.mp h4
  exact ⟨m, hm, hlt, matchedOr_of_some hm⟩

/-- every later acceptance of a user carries a step later than that user's stored one -/
theorem trace_accept {U : Type} [DecidableEq U] (f : Totp → Int → Int)
    (ops : List (U × Attempt)) : ∀ (m : U → Totp) (e : Event U),
    e ∈ traceM (stepWith f) m ops → e.out = .accepted →
    ∃ k, e.matched = some k ∧ (m e.user).lastSuccCounter < k := by
  induction ops with
  | nil => intro m e h; cases h
  | cons op ops ih =>
    intro m e h hacc
    simp only [traceM, List.mem_cons] at h
    rcases h with h | h
    · subst h
      obtain ⟨k, hk, hlt, _⟩ := accepted_step hacc
      exact ⟨k, hk, hlt⟩
    · obtain ⟨k, hk, hlt⟩ := ih _ e h hacc
      refine ⟨k, hk, ?_⟩
      simp only [stepM, upd] at hlt
      split at hlt
      · rename_i hu
        have := lastSucc_mono f (m op.1) op.2
        rw [hu]
        omega
      · exact hlt

end KM.RateLimit

namespace KM.RateLimit

/-! ### pruning an entry nobody can tell apart from the zero value -/

/-- two limiter states that behave alike from time `t` on -/
def Sim (t : Int) (s1 s2 : Totp) : Prop :=
  s1.lastSuccCounter = s2.lastSuccCounter ∧ s1.failCount = s2.failCount ∧
  (s1.lastCheck = s2.lastCheck ∨ (s1.lastCheck + spacingNs ≤ t ∧ s2.lastCheck + spacingNs ≤ t)) ∧
  (s1.lockoutExp = s2.lockoutExp ∨ (s1.lockoutExp ≤ t ∧ s2.lockoutExp ≤ t)) ∧
  (s1.lastFail = s2.lastFail ∨ s1.failCount = 0)

theorem sim_step {t : Int} {s1 s2 : Totp} (a : Attempt) (h : Sim t s1 s2) (ht : t ≤ a.now) :
    (step s1 a).2 = (step s2 a).2 ∧ Sim a.now (step s1 a).1 (step s2 a).1 := by
  obtain ⟨hs, hfc, hlc, hle, hlf⟩ := h
  have hfresh : fresh s1 a = fresh s2 a := by unfold fresh; rw [hs]
  have hfcn : fcNext s1 a.now = fcNext s2 a.now := by
    unfold fcNext fcBase
    rcases hlf with hlf | hlf
    · rw [hlf, hfc]
    · have : s2.failCount = 0 := by omega
      rw [hlf, this]
      split <;> split <;> rfl
  have hln : lockNext s1 a.now = lockNext s2 a.now ∨ (s1.lockoutExp ≤ a.now → s2.lockoutExp ≤ a.now →
      lockNext s1 a.now ≤ a.now ∧ lockNext s2 a.now ≤ a.now) := by
    unfold lockNext
    rw [hfcn]
    split
    · left; rfl
    · right
      intro _ _
      unfold lockBase
      constructor <;> split <;> omega
  unfold step
  rcases stepWith_cases lockNext s1 a with ⟨c1, e1⟩ | ⟨c1, c2, e1⟩ | ⟨c1, c2, c3, e1⟩ |
      ⟨c1, c2, c3, c4, e1⟩ | ⟨c1, c2, c3, c4, e1⟩ <;>
    rcases stepWith_cases lockNext s2 a with ⟨d1, e2⟩ | ⟨d1, d2, e2⟩ | ⟨d1, d2, d3, e2⟩ |
      ⟨d1, d2, d3, d4, e2⟩ | ⟨d1, d2, d3, d4, e2⟩ <;>
    rw [e1, e2] <;>
    first
      | (exfalso; omega; done)
      | (exfalso; rw [hfresh] at c4; rw [c4] at d4; cases d4; done)
      | (refine ⟨rfl, ?_, ?_, ?_, ?_, ?_⟩
         · first | exact hs | rfl
         · first | exact hfc | rfl | exact hfcn
         · first | (left; rfl; done) | (dsimp only; omega)
         · first | (left; rfl; done) | (dsimp only; omega)
         · first | (left; rfl; done) | (right; rfl; done) | (dsimp only; omega))

theorem sim_outs (as : List Attempt) : ∀ {t : Int} {s1 s2 : Totp}, Sim t s1 s2 → NonDecrA t as →
    outs step s1 as = outs step s2 as := by
  induction as with
  | nil => intro _ _ _ _ _; rfl
  | cons a as ih =>
    intro t s1 s2 h hnd
    obtain ⟨ho, hs⟩ := sim_step a h hnd.1
    simp only [outs, ho]
    rw [ih hs hnd.2]

end KM.RateLimit
