import KM.Model.LoginDest
/-! Helper lemmas for C17 (kept apart from the property statements). -/
namespace KM.LoginDest

theorem mem_splitSlash {l : List Char} {seg : List Char} (h : seg ∈ splitSlash l) :
    ∀ c ∈ seg, c ∈ l ∧ c ≠ '/' := by
  induction l generalizing seg with
  | nil => simp [splitSlash] at h; subst h; intro c hc; cases hc
  | cons a as ih =>
    unfold splitSlash at h
    split at h
    · rename_i ha
      cases h with
      | head => intro c hc; cases hc
      | tail _ h' =>
        intro c hc
        have := ih h' c hc
        exact ⟨List.mem_cons_of_mem _ this.1, this.2⟩
    · rename_i ha
      split at h
      · rename_i s ss heq
        cases h with
        | head =>
          intro c hc
          cases hc with
          | head => exact ⟨List.mem_cons_self, ha⟩
          | tail _ hc' =>
            have hs : s ∈ splitSlash as := by rw [heq]; exact List.mem_cons_self
            have := ih hs c hc'
            exact ⟨List.mem_cons_of_mem _ this.1, this.2⟩
        | tail _ h' =>
          have hs : seg ∈ splitSlash as := by rw [heq]; exact List.mem_cons_of_mem _ h'
          intro c hc
          have := ih hs c hc
          exact ⟨List.mem_cons_of_mem _ this.1, this.2⟩
      · simp at h; subst h
        intro c hc
        simp at hc; subst hc
        exact ⟨List.mem_cons_self, ha⟩

theorem mem_cleanSegs {acc segs : List (List Char)} {seg : List Char}
    (h : seg ∈ cleanSegs acc segs) : seg ∈ acc ∨ (seg ∈ segs ∧ seg ≠ []) := by
  induction segs generalizing acc with
  | nil => simp [cleanSegs] at h; exact Or.inl h
  | cons s rest ih =>
    unfold cleanSegs at h
    split at h
    · rcases ih h with h1 | h1
      · exact Or.inl h1
      · exact Or.inr ⟨List.mem_cons_of_mem _ h1.1, h1.2⟩
    · split at h
      · rcases ih h with h1 | h1
        · exact Or.inl (List.mem_of_mem_tail h1)
        · exact Or.inr ⟨List.mem_cons_of_mem _ h1.1, h1.2⟩
      · rename_i hne _
        rcases ih h with h1 | h1
        · cases h1 with
          | head => exact Or.inr ⟨List.mem_cons_self, fun e => hne (Or.inl e)⟩
          | tail _ h2 => exact Or.inl h2
        · exact Or.inr ⟨List.mem_cons_of_mem _ h1.1, h1.2⟩

theorem mem_joinSlash {segs : List (List Char)} {c : Char} (h : c ∈ joinSlash segs) :
    c = '/' ∨ ∃ s ∈ segs, c ∈ s := by
  induction segs with
  | nil => simp [joinSlash] at h
  | cons s ss ih =>
    cases ss with
    | nil => simp [joinSlash] at h; exact Or.inr ⟨s, List.mem_cons_self, h⟩
    | cons t ts =>
      simp only [joinSlash, List.mem_append, List.mem_cons] at h
      rcases h with h | h | h
      · exact Or.inr ⟨s, List.mem_cons_self, h⟩
      · exact Or.inl h
      · rcases ih h with h1 | ⟨u, hu, hc⟩
        · exact Or.inl h1
        · exact Or.inr ⟨u, List.mem_cons_of_mem _ hu, hc⟩

theorem head_joinSlash {s : List Char} {ss : List (List Char)} (hs : s ≠ []) :
    (joinSlash (s :: ss)).head? = s.head? := by
  cases ss with
  | nil => simp [joinSlash]
  | cons t ts =>
    cases s with
    | nil => exact absurd rfl hs
    | cons a as => simp [joinSlash]

theorem mem_splitQuery_fst {l : List Char} {c : Char} (h : c ∈ (splitQuery l).1) : c ∈ l := by
  induction l with
  | nil => simp [splitQuery] at h
  | cons a as ih =>
    unfold splitQuery at h
    split at h
    · simp at h
    · simp only [List.mem_cons] at h
      rcases h with h | h
      · exact h ▸ List.mem_cons_self
      · exact List.mem_cons_of_mem _ (ih h)

theorem mem_splitQuery_snd {l : List Char} {c : Char} (h : c ∈ (splitQuery l).2) : c ∈ l := by
  induction l with
  | nil => simp [splitQuery] at h
  | cons a as ih =>
    unfold splitQuery at h
    split at h
    · exact h
    · exact List.mem_cons_of_mem _ (ih h)

theorem head_splitQuery_snd (l : List Char) :
    (splitQuery l).2 = [] ∨ (splitQuery l).2.head? = some '?' := by
  induction l with
  | nil => simp [splitQuery]
  | cons a as ih =>
    unfold splitQuery
    split
    · rename_i h; right; simp [h]
    · exact ih

theorem splitQuery_fst_cons {a : Char} {as : List Char} (h : a ≠ '?') :
    (splitQuery (a :: as)).1 = a :: (splitQuery as).1 := by
  simp [splitQuery, h]

theorem hexUp_not_ctl (n : Nat) (h : n < 16) : isCtl (hexUp n) = false ∧ hexUp n ≠ '/' ∧ hexUp n ≠ '\\' := by
  have : n = 0 ∨ n = 1 ∨ n = 2 ∨ n = 3 ∨ n = 4 ∨ n = 5 ∨ n = 6 ∨ n = 7 ∨ n = 8 ∨ n = 9 ∨
      n = 10 ∨ n = 11 ∨ n = 12 ∨ n = 13 ∨ n = 14 ∨ n = 15 := by omega
  rcases this with h|h|h|h|h|h|h|h|h|h|h|h|h|h|h|h <;> subst h <;> decide

theorem utf8Bytes_ne_nil (c : Char) : utf8Bytes c ≠ [] := by
  unfold utf8Bytes; repeat' split
  all_goals simp

/-- every character of the escaped string is an original ASCII character, '%' or a hex digit -/
theorem mem_escNonASCII {l : List Char} {c : Char} (h : c ∈ escNonASCII l) :
    (c ∈ l) ∨ (isCtl c = false ∧ c ≠ '/' ∧ c ≠ '\\') := by
  unfold escNonASCII at h
  rw [List.mem_flatMap] at h
  obtain ⟨a, ha, hc⟩ := h
  split at hc
  · simp at hc; subst hc; exact Or.inl ha
  · rw [List.mem_flatMap] at hc
    obtain ⟨b, _, hb⟩ := hc
    right
    simp only [escByte, List.mem_cons, List.not_mem_nil, or_false] at hb
    rcases hb with hb | hb | hb
    · subst hb; decide
    · subst hb; exact hexUp_not_ctl _ (Nat.mod_lt _ (by decide))
    · subst hb; exact hexUp_not_ctl _ (Nat.mod_lt _ (by decide))

theorem escNonASCII_cons_ascii {a : Char} {as : List Char} (h : a.val < 0x80) :
    escNonASCII (a :: as) = a :: escNonASCII as := by
  simp [escNonASCII, h]

theorem escNonASCII_append (l m : List Char) :
    escNonASCII (l ++ m) = escNonASCII l ++ escNonASCII m := by
  simp [escNonASCII]

/-- the first character of the escaped string is the original first character when
that is ASCII, and '%' otherwise -/
theorem head_escNonASCII (a : Char) (as : List Char) :
    (escNonASCII (a :: as)).head? = some a ∨ (escNonASCII (a :: as)).head? = some '%' := by
  by_cases h : a.val < 0x80
  · left; rw [escNonASCII_cons_ascii h]; rfl
  · right
    unfold escNonASCII
    simp only [List.flatMap_cons, h, if_false]
    cases hb : utf8Bytes a with
    | nil => exact absurd hb (utf8Bytes_ne_nil a)
    | cons b bs => simp [escByte]
