import KM.Model.Validity
/-! Helper lemmas for C03 (kept apart from the property statements). -/
set_option linter.unusedVariables false
namespace KM.Validity
open KM.Dur

/-- `if d > M { d = M }` -/
def clampTo (d M : Int) : Int := if d > M then M else d

/-- closed form of the repaired duration block -/
theorem certgenDuration_repaired (L : Int) (req : Req) (t1 iat : Int) :
    certgenDuration shapeRepaired L req t1 iat =
      match req with
      | .absent => .issue (clampTo L (sat64 (iat + L - t1)))
      | .malformed => .reject 400
      | .parsed nd =>
        if nd < 0 then .reject 400 else if nd > L then .reject 400
        else .issue (clampTo nd (sat64 (iat + L - t1))) := by
  cases req with
  | absent =>
    simp only [certgenDuration, shapeRepaired, initEnv, Env.get, afterForm, afterClamp, run, step,
      test, cmpHolds, assignTo, Env.set, clampTo]
    by_cases h : L > sat64 (iat + L - t1) <;> simp [h]
  | malformed =>
    simp [certgenDuration, shapeRepaired, initEnv, Env.get, afterForm]
  | parsed nd =>
    simp only [certgenDuration, shapeRepaired, initEnv, Env.get, afterForm, afterClamp, run, step,
      test, cmpHolds, assignTo, Env.set, clampTo]
    by_cases h0 : nd < 0
    · simp [h0]
    · by_cases h1 : nd > L
      · simp [h0, h1]
      · by_cases h2 : nd > sat64 (iat + L - t1) <;> simp [h0, h1, h2]

/-- closed form of the block as found -/
theorem certgenDuration_asFound (L : Int) (req : Req) (t1 iat : Int) :
    certgenDuration shapeAsFound L req t1 iat =
      match req with
      | .absent => .issue (clampTo L (sat64 (iat + L - t1)))
      | .malformed => .reject 400
      | .parsed nd =>
        if nd > L then .reject 400 else .issue (clampTo nd (sat64 (iat + L - t1))) := by
  cases req with
  | absent =>
    simp only [certgenDuration, shapeAsFound, initEnv, Env.get, afterForm, afterClamp, run, step,
      test, cmpHolds, assignTo, Env.set, clampTo]
    by_cases h : L > sat64 (iat + L - t1) <;> simp [h]
  | malformed =>
    simp [certgenDuration, shapeAsFound, initEnv, Env.get, afterForm]
  | parsed nd =>
    simp only [certgenDuration, shapeAsFound, initEnv, Env.get, afterForm, afterClamp, run, step,
      test, cmpHolds, assignTo, Env.set, clampTo]
    by_cases h1 : nd > L
    · simp [h1]
    · by_cases h2 : nd > sat64 (iat + L - t1) <;> simp [h1, h2]

/-- clocks and credentials considered: 0 ≤ t < 2^40 s (year 36812) -/
def horizon : Int := 1099511627776000000000

/-- contract of the float step `uint64(d.Seconds())` before the unsigned reinterpretation:
exact truncation for 0 ≤ d ≤ 24 h; for negative d a non-positive integer within one of the
truncated quotient (float64 rounding of `sec + nsec/1e9` can carry into the next integer once
|d| exceeds ~2^22 s). -/
structure FloatSecs (fsec : Int → Int) : Prop where
  exact : ∀ d, 0 ≤ d → d ≤ userCap → fsec d = d / ns
  neg : ∀ d, d < 0 → -((-d) / ns) - 1 ≤ fsec d ∧ fsec d ≤ 0

/-- the pointwise form evaluated by the driver's `judge secs` implies the contract -/
theorem floatSecs_of_at {fsec : Int → Int} (h : ∀ d, floatSecsAt d (fsec d) = true) : FloatSecs fsec := by
  constructor
  · intro d h0 h1
    have := h d
    simp only [floatSecsAt, Bool.and_eq_true] at this
    have := this.1
    simp only [h0, h1, and_self, if_true, decide_eq_true_eq] at this
    exact this
  · intro d hd
    have := h d
    simp only [floatSecsAt, Bool.and_eq_true] at this
    have := this.2
    simp only [hd, if_true, Bool.and_eq_true, decide_eq_true_eq] at this
    exact this

theorem truncSecs_floatSecs : FloatSecs truncSecs := by
  constructor
  · intro d h0 _
    exact Int.tdiv_eq_ediv_of_nonneg h0
  · intro d hd
    have h : truncSecs d = -((-d) / ns) := by
      unfold truncSecs
      have : d = -(-d) := by omega
      rw [this, Int.neg_tdiv, Int.tdiv_eq_ediv_of_nonneg (by omega)]
      simp
    rw [h]
    have : 0 ≤ (-d) / ns := Int.ediv_nonneg (by omega) (by decide)
    omega

theorem ssh_core (fsec : Int → Int) (hf : FloatSecs fsec) (r iat tb t1 t2 ta : Int)
    (hr0 : 0 ≤ r) (hr1 : r ≤ userCap) (hiat0 : 0 ≤ iat) (hiat1 : iat < horizon)
    (h0 : 0 ≤ tb) (h1 : tb ≤ t1) (h2 : t1 ≤ t2) (h3 : t2 ≤ ta) (h4 : ta < horizon) :
    (sshWindow fsec t2 (clampTo r (sat64 (iat + userCap - t1)))).1 = t2 / ns ∧
    0 ≤ (sshWindow fsec t2 (clampTo r (sat64 (iat + userCap - t1)))).2 ∧
    (sshWindow fsec t2 (clampTo r (sat64 (iat + userCap - t1)))).2 < two63 ∧
    (0 ≤ clampTo r (sat64 (iat + userCap - t1)) →
      t2 / ns ≤ (sshWindow fsec t2 (clampTo r (sat64 (iat + userCap - t1)))).2 ∧
      (sshWindow fsec t2 (clampTo r (sat64 (iat + userCap - t1)))).2 * ns ≤ t2 + r ∧
      (sshWindow fsec t2 (clampTo r (sat64 (iat + userCap - t1)))).2 * ns ≤ iat + userCap + (t2 - t1)) ∧
    (clampTo r (sat64 (iat + userCap - t1)) < 0 →
      (sshWindow fsec t2 (clampTo r (sat64 (iat + userCap - t1)))).2 ≤ t2 / ns) := by
  generalize hd : clampTo r (sat64 (iat + userCap - t1)) = d
  have hex := hf.exact d
  have hneg := hf.neg d
  simp only [sshWindow]
  generalize fsec d = f at hex hneg ⊢
  unfold clampTo sat64 at hd
  unfold userCap horizon two63 two64 ns at *
  refine ⟨?_, ?_, ?_, ?_, ?_⟩
  · omega
  · omega
  · by_cases hdn : 0 ≤ d
    · have := hex hdn (by omega)
      omega
    · have := hneg (by omega)
      omega
  · intro hdn
    have := hex hdn (by omega)
    omega
  · intro hdn
    have := hneg hdn
    omega

theorem x509_core (r iat tb t1 t2 ta : Int)
    (hr0 : 0 ≤ r) (hr1 : r ≤ userCap) (hiat0 : 0 ≤ iat) (hiat1 : iat < horizon)
    (h0 : 0 ≤ tb) (h1 : tb ≤ t1) (h2 : t1 ≤ t2) (h3 : t2 ≤ ta) (h4 : ta < horizon) :
    (x509Window t2 (clampTo r (sat64 (iat + userCap - t1)))).1 = t2 / ns ∧
    (0 ≤ clampTo r (sat64 (iat + userCap - t1)) →
      t2 / ns ≤ (x509Window t2 (clampTo r (sat64 (iat + userCap - t1)))).2 ∧
      (x509Window t2 (clampTo r (sat64 (iat + userCap - t1)))).2 * ns ≤ t2 + r ∧
      (x509Window t2 (clampTo r (sat64 (iat + userCap - t1)))).2 * ns ≤ iat + userCap + (t2 - t1)) ∧
    (clampTo r (sat64 (iat + userCap - t1)) < 0 →
      (x509Window t2 (clampTo r (sat64 (iat + userCap - t1)))).2 ≤ t2 / ns) := by
  generalize hd : clampTo r (sat64 (iat + userCap - t1)) = d
  simp only [x509Window]
  unfold clampTo sat64 at hd
  unfold userCap horizon two63 ns at *
  refine ⟨trivial, ?_, ?_⟩
  · intro hdn; omega
  · intro hdn; omega

/-- sign of the clamped duration: non-negative exactly when the credential is at most 24 h old -/
theorem clamp_sign (r iat t1 : Int) (hr0 : 0 ≤ r) :
    (t1 - iat ≤ userCap → 0 ≤ clampTo r (sat64 (iat + userCap - t1))) ∧
    (t1 - iat > userCap → clampTo r (sat64 (iat + userCap - t1)) < 0) := by
  unfold clampTo sat64 userCap two63 at *
  constructor <;> intro h <;> omega

end KM.Validity
