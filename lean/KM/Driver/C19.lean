import KM.Driver.Core
import KM.Model.Client
/-! Driver for C19.

model ops
* `offer <pref>`                                  keys the client generates for a preference
* `line <hex key file> <parsed>`                  verdict of getValidSSHPublicKey (`parsed` = what
                                                  ssh.ParseAuthorizedKey made of the file: `kind:bits:e` or `none`)
* `certgen <type> <ed25519CA> <hex key file> <parsed>`   status of certGenHandler for an authenticated POST
* `a reset | a add <comment> <id> cert|plain | a upsert <comment> <id> | a list`   agent
* `a install <comment> <id> <fault>…`            the client's attempts (one fault word each: ok|list|remove<k>|add|life)
* `install <pref> agent|noagent <ca> full|ssh`    what the client leaves on disk / in the agent

judge ops: `offered …`, `agent …`, `retry …`, `wire …` — the predicates of c19_offer_accepted, c19_agent and
the runtime absence check. -/
namespace KM.Driver.C19
open KM.Util KM.Client KM.ClientSite

def parseKind : String → Option KeyKind
  | "rsa" => some .rsa | "ecdsa" => some .ecdsa | "ed25519" => some .ed25519 | "dsa" => some .dsa
  | "other" => some .other | _ => none

def kindStr : KeyKind → String
  | .rsa => "rsa" | .ecdsa => "ecdsa" | .ed25519 => "ed25519" | .dsa => "dsa" | .other => "other"

/-- `kind:bits:e`; `none` ↦ `some none` -/
def parseKey (s : String) : Option (Option Key) :=
  if s == "none" then some none else
  match s.splitOn ":" with
  | [k, b, e] => do pure (some ⟨← parseKind k, ← b.toNat?, ← e.toNat?⟩)
  | _ => none

def keyStr (k : Key) : String := s!"{kindStr k.kind}:{k.bits}:{k.exponent}"

def parsePref : String → Option Pref
  | "rsa" => some .rsa | "p256" => some .p256 | "p384" => some .p384 | _ => none

def parseCert : String → CertType
  | "ssh" => .ssh | "x509" => .x509 | "x509-kubernetes" => .x509Kubernetes | _ => .unknown

def verdictStr : SshVerdict → String
  | .ok => "ok" | .badRe => "badRe" | .unparseable => "unparseable" | .weak => "weak"

def alts : List (List Char) := KM.Gen.sshKeyTypeAlternation

/-- status codes of certGenHandler after authentication, for a key file -/
def certgenStatus (cert : CertType) (ca : Bool) (line : List Char) (parsed : Option Key) : Nat :=
  match cert with
  | .ssh =>
    if sshVerdict alts line parsed != .ok then 400
    else match parsed with
      | some k => if k.kind == KeyKind.ed25519 && !ca then 422 else 200
      | none => 400
  | .x509 | .x509Kubernetes =>
    match parsed with
    | some k => if strong k then 200 else 400
    | none => 400
  | .unknown => 400

/-! ### agent stream -/

def entryStr (e : Entry) : String :=
  s!"{hex (String.ofList e.comment)}:{e.blob}:{if e.isCert then "c" else "p"}"

def insertStr (k : String) : List String → List String
  | [] => [k]
  | a :: r => if k < a then k :: a :: r else a :: insertStr k r

def sortStrs (l : List String) : List String := l.foldl (fun acc s => insertStr s acc) []

def listStr (a : List Entry) : String :=
  String.intercalate " " ("list" :: sortStrs (a.map entryStr))

def parseEntry (s : String) : Option Entry :=
  match s.splitOn ":" with
  | [c, id, k] => do pure ⟨(← unhex c).toList, ← id.toNat?, k == "c"⟩
  | _ => none

def parseEntries (s : String) : Option (List Entry) :=
  if s == "-" then some [] else (s.splitOn ",").mapM parseEntry

/-- `ok | list | remove<k> | add | life` (an agent refusing lifetime constraints fails the `Add`) -/
def parseFault (s : String) : Option Fault :=
  if s == "ok" then some .none
  else if s == "list" then some .list
  else if s == "add" || s == "life" then some .add
  else if s.startsWith "remove" then (s.drop 6).toNat?.map Fault.remove
  else none

def astep (a : List Entry) : List String → List Entry × String
  | ["reset"] => ([], "reset")
  | ["add", c, id, k] =>
    match unhex c, id.toNat? with
    | some c, some id =>
      if k == "cert" || k == "plain" then
        let a' := a ++ [⟨c.toList, id, k == "cert"⟩]
        (a', listStr a')
      else (a, "bad-op")
    | _, _ => (a, "bad-op")
  | ["upsert", c, id] =>
    match unhex c, id.toNat? with
    | some c, some id => let a' := agentUpsert a ⟨c.toList, id, true⟩; (a', listStr a')
    | _, _ => (a, "bad-op")
  | ["list"] => (a, listStr a)
  | "install" :: c :: id :: fs =>
    -- the client's installation sequence, one fault word per attempt (`Client.install`)
    -- only the first attempt carries a lifetime: `life` on a retry is an attempt that succeeds
    match unhex c, id.toNat?, (fs.take 1 ++ (fs.drop 1).map fun w => if w == "life" then "ok" else w).mapM parseFault with
    | some c, some id, some fs =>
      if fs.isEmpty then (a, "bad-op") else
      let r := install a ⟨c.toList, id, true⟩ fs
      (r.1, s!"{if r.2 then "ok" else "fail"} {listStr r.1}")
    | _, _, _ => (a, "bad-op")
  | _ => (a, "bad-op")

/-! ### what an installation leaves behind (setupCerts / insertSSHCertIntoAgentORWriteToFilesystem) -/

def installOut (pref : String) (useAgent ca full : Bool) : String :=
  let sshDir := if full then ".ssh/" else "ssh/"
  let sshFiles (name : String) : List String := [s!"{sshDir}keymaster-{name}-cert.pub:644", s!"{sshDir}keymaster-{name}:600"]
  let tls : List String :=
    if full then [".ssl/keymaster-kubernetes.cert:644", ".ssl/keymaster.cert:644", ".ssl/keymaster.key:600"] else []
  let names : List String := (if full && ca then ["ed25519"] else []) ++ [pref]
  let files := (if useAgent then [] else names.flatMap sshFiles) ++ tls
  let ag := if useAgent then names.map fun n => s!"{hex s!"keymaster-{n}-username"}:cert" else []
  s!"files={if files.isEmpty then "-" else ",".intercalate (sortStrs files)} agent={if ag.isEmpty then "-" else ",".intercalate (sortStrs ag)}"

def mstep (a : List Entry) : List String → List Entry × String
  | "a" :: rest => astep a rest
  | ["offer", p] =>
    match parsePref p with
    | some p =>
      match mainKey p with
      | some k => (a, s!"x509={keyStr k} sshmain={keyStr k} ed={keyStr ed25519Key}")
      | none => (a, "error")
    | none => (a, "error")
  | ["line", h, p] =>
    match unhex h, parseKey p with
    | some l, some pk => (a, verdictStr (sshVerdict alts l.toList pk))
    | _, _ => (a, "bad-op")
  | ["certgen", ty, ca, h, p] =>
    match parseBool ca, unhex h, parseKey p with
    | some ca, some l, some pk => (a, toString (certgenStatus (parseCert ty) ca l.toList pk))
    | _, _, _ => (a, "bad-op")
  | ["install", pref, mode, ca, what] =>
    match parseBool ca with
    | some ca =>
      if (mode == "agent" || mode == "noagent") && (what == "full" || what == "ssh") && (parsePref pref).isSome then
        (a, installOut pref (mode == "agent") ca (what == "full"))
      else (a, "bad-op")
    | none => (a, "bad-op")
  | _ => (a, "bad-op")

/-! ### judge -/

/-- c19_offer_accepted on what the real server answered to the real client's key -/
def judgeOffered (mandatory ca : Bool) (status : String) : String :=
  if (mandatory || ca) && status != "200" then s!"viol refused status={status}" else "ok"

/-- c19_agent: the agent afterwards holds the old entries that are not certificates with the
comment, plus the new one (as multisets, the agent's order is not significant) -/
def judgeAgent (new : Entry) (before after : List Entry) : String :=
  let expected := before.filter (fun e => !isDup new e) ++ [new]
  if sortStrs (after.map entryStr) != sortStrs (expected.map entryStr) then
    (if (after.filter (isDup new)).length != 1 then s!"viol certificates-with-comment={(after.filter (isDup new)).length}"
     else "viol other-entries-changed")
  else "ok"

/-- c19_agent_retry on what the agent holds after the client's installation sequence (attempt, retry)
against an agent failing single requests: if the new certificate is in the agent it is there as
`c19_agent` says (the only certificate under its label, the rest as before); if it is not, nothing
but certificates with that label has gone and nothing has appeared -/
def judgeRetry (new : Entry) (before after : List Entry) : String :=
  if after.contains new then judgeAgent new before after
  else if sortStrs ((after.filter (fun e => !isDup new e)).map entryStr) !=
      sortStrs ((before.filter (fun e => !isDup new e)).map entryStr) then "viol other-entries-changed"
  else if !(after.all fun e => before.contains e) then "viol entry-appeared"
  else "ok"

def judge : List String → String
  | ["offered", _pref, _cert, mand, ca, status] =>
    match parseBool mand, parseBool ca with
    | some m, some c => judgeOffered m c status
    | _, _ => "bad-op"
  | ["agent", c, id, before, after] =>
    match unhex c, id.toNat?, parseEntries before, parseEntries after with
    | some c, some id, some b, some af => judgeAgent ⟨c.toList, id, true⟩ b af
    | _, _, _, _ => "bad-op"
  | ["retry", c, id, before, after] =>
    match unhex c, id.toNat?, parseEntries before, parseEntries after with
    | some c, some id, some b, some af => judgeRetry ⟨c.toList, id, true⟩ b af
    | _, _, _, _ => "bad-op"
  | ["planted", captured, conns, priv600, privOther] =>
    -- c19_install_dest: with no agent configured the key ends in a 0600 file and nowhere else
    match captured.toNat?, conns.toNat?, priv600.toNat?, privOther.toNat? with
    | some c, some n, some a, some b =>
      if c != 0 || n != 0 then s!"viol private key handed to a foreign listener (connections={n}, identities stored={c})"
      else if a == 0 then "viol no 0600 key file written"
      else if b != 0 then s!"viol private-key-files-not-0600={b}"
      else "ok"
    | _, _, _, _ => "bad-op"
  | ["wire", leaks, privOther] =>
    if leaks == "0" && privOther == "0" then "ok" else s!"viol leaks={leaks} private-key-files-not-0600={privOther}"
  | _ => "bad-op"

def handler (mode : String) : Option Handler :=
  if mode == "model" then some { σ := List Entry, init := [], step := mstep }
  else if mode == "judge" then some (.pure judge)
  else none

end KM.Driver.C19
