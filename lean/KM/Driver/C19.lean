import KM.Driver.Core
/-! Driver for C19 (stub until the property's model is built). -/
namespace KM.Driver.C19

def handler (_mode : String) : Option Handler := none

end KM.Driver.C19
