import KM.Driver.Core
/-! Driver for C10 (stub until the property's model is built). -/
namespace KM.Driver.C10

def handler (_mode : String) : Option Handler := none

end KM.Driver.C10
