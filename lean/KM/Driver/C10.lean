import KM.Driver.Core
import KM.Model.KeyStrength
/-! Driver for C10.  Key descriptions: `unparsable` | `rsa:<bits>:<e>` | `ec:<curve bits>` | `ed25519` |
`other`; paths `ssh x509 x509k8s role refresh aws`. -/
namespace KM.Driver.C10
open KM.Util KM.KeyStrength

def pNat (s : String) : Option Nat := if s.isEmpty then none else s.toNat?

def pDesc (s : String) : Option Submitted :=
  if s == "unparsable" then some .unparsable
  else if s == "ed25519" then some (.key .ed25519)
  else if s == "other" then some (.key .other)
  else match s.splitOn ":" with
    | ["rsa", b, e] => do some (.key (.rsa (← pNat b) (← pNat e)))
    | ["ec", n] => do some (.key (.ecdsa (← pNat n)))
    | _ => none

def pPath (s : String) : Option Path :=
  match s with
  | "ssh" => some .ssh | "x509" => some .x509 | "x509k8s" => some .x509k8s
  | "role" => some .role | "refresh" => some .refresh | "aws" => some .aws
  | _ => none

def sOutcome : Outcome → String
  | .issue => "issue" | .refuse => "refuse"

/-- `key <path> <desc> <re 0|1>` ↦ `issue` | `refuse` -/
def model : List String → String
  | ["key", p, d, re] =>
    match pPath p, pDesc d, parseBool re with
    | some p, some d, some re => sOutcome (decide' p re d)
    | _, _, _ => "bad-op"
  | _ => "bad-op"

/-- the property's predicate on what the implementation answered.
`jkey <path> <desc> <status|PANIC> <samekey 1|0|->`: a certificate (200) only for a key the property
allows and only for the submitted key; every refusal a 4xx; never a panic or a 5xx.
`jtok <status|PANIC>`: no panic. -/
def judge : List String → String
  | ["jkey", p, d, st, same] =>
    match pPath p, pDesc d with
    | some _, some d =>
      if st == "PANIC" then "viol panic"
      else if st == "200" then
        match d with
        | .unparsable => "viol certificate-for-unparsable-key"
        | .key k =>
          if !spec k then "viol weak-key-certified"
          else if same != "1" then "viol certificate-for-a-different-key"
          else "ok"
      else if st.length == 3 && st.startsWith "4" then "ok"
      else s!"viol refusal-status-{st}"
    | _, _ => "bad-op"
  -- same, plus the description of the key the returned certificate actually carries
  | ["jkey", p, d, st, same, certd] =>
    if d == "absent" then
      -- the request carried no key: if a certificate comes back anyway, the key it carries must be an allowed one
      match pPath p with
      | some _ =>
        if st == "PANIC" then "viol panic"
        else if st == "200" then
          match pDesc certd with
          | some (.key ck) => if spec ck then "ok" else "viol weak-key-certified"
          | _ => "viol certificate-key-unreadable"
        else if st.length == 3 && st.startsWith "4" then "ok"
        else s!"viol refusal-status-{st}"
      | none => "bad-op"
    else
    match pPath p, pDesc d with
    | some _, some d =>
      if st == "PANIC" then "viol panic"
      else if st == "200" then
        match pDesc certd with
        | some (.key ck) =>
          if !spec ck then "viol weak-key-certified"
          else match d with
            | .unparsable => "viol certificate-for-unparsable-key"
            | .key k =>
              if !spec k then "viol weak-key-certified"
              else if same != "1" then "viol certificate-for-a-different-key"
              else "ok"
        | _ => "viol certificate-key-unreadable"
      else if st.length == 3 && st.startsWith "4" then "ok"
      else s!"viol refusal-status-{st}"
    | _, _ => "bad-op"
  | ["jtok", st] => if st == "PANIC" then "viol panic" else if st.length == 3 then "ok" else "bad-op"
  | _ => "bad-op"

def handler (mode : String) : Option Handler :=
  if mode == "model" then some (.pure model)
  else if mode == "judge" then some (.pure judge)
  else none

end KM.Driver.C10
