import KM.Driver.AuthOps
/-! Driver for C01: `cg <allowed csv|-> <sealed> <target> <certtype> <key ok|bad> <request shape>`
↦ outcome of the `certGenHandler` decision model; `cfgcg <allowed> <webui> <target> …` the same on a
config-file-loaded state. -/
namespace KM.Driver.C01
open KM.Util KM.Auth KM.CertGen KM.Driver.AuthOps

def outcomeStr : Outcome → String
  | .issued u => s!"issued {hex u}"
  | .refused s => s!"refused {s}"
  | .noResponse => "noresponse"

def parseAllowed (s : String) : List (List Char) :=
  if s == "-" then [] else (s.splitOn ",").map String.toList

def knownType (t : String) : Bool := t == "ssh" || t == "x509" || t == "x509-kubernetes"

def run (v : Variant) : List String → String
  | "cg" :: allowed :: sealed :: target :: ctype :: key :: rest =>
    match parseBool sealed, parseReq rest with
    | some sl, some p =>
      let post : Post := if !knownType ctype then .refused 400 else if key == "ok" then .ok else .refused 400
      outcomeStr (decideWith v p.cfg (parseAllowed allowed)
        { req := p.req, sealed := sl, target := target, post := post })
    | _, _ => "bad-op"
  -- the same request against a state built by the real config loader from a file in which the operator wrote
  -- `allowed` (and a web-UI list, which must not matter): what counts is what was WRITTEN
  | "cfgcg" :: allowed :: _webui :: target :: ctype :: key :: rest =>
    match parseReq rest with
    | some p =>
      let post : Post := if !knownType ctype then .refused 400 else if key == "ok" then .ok else .refused 400
      outcomeStr (decideWith v p.cfg (parseAllowed allowed)
        { req := p.req, sealed := false, target := target, post := post })
    | none => "bad-op"
  | _ => "bad-op"

/-- judge: the same ops decided by the statement's own rule (`specDecide`) -/
def runSpec : List String → String
  | "cg" :: allowed :: sealed :: target :: ctype :: key :: rest =>
    match parseBool sealed, parseReq rest with
    | some sl, some p =>
      let post : Post := if !knownType ctype then .refused 400 else if key == "ok" then .ok else .refused 400
      outcomeStr (specDecide p.cfg (parseAllowed allowed) { req := p.req, sealed := sl, target := target, post := post })
    | _, _ => "bad-op"
  | "cfgcg" :: allowed :: _webui :: target :: ctype :: key :: rest =>
    match parseReq rest with
    | some p =>
      let post : Post := if !knownType ctype then .refused 400 else if key == "ok" then .ok else .refused 400
      outcomeStr (specDecide p.cfg (parseAllowed allowed) { req := p.req, sealed := false, target := target, post := post })
    | none => "bad-op"
  | _ => "bad-op"

def outcomesStr (os : List Outcome) : String := " | ".intercalate (os.map outcomeStr)

/-- histories: `cgov … <shape A> <shape B>` two overlapping requests (B served while A is parked inside the password
backend), `cgexp … <shape>` the same request served while its cookie is valid and again after its expiry. `dec` is the
history decision: every request on what it carries, at the time it is served. -/
def runHist (dec : Cfg → List (List Char) → List CGReq → List Outcome) : List String → Option String
  | "cgov" :: allowed :: target :: ctype :: rest =>
    if rest.length != 14 then some "bad-op" else
    match parseReq (rest.take 7), parseReq (rest.drop 7) with
    | some a, some b =>
      let post : Post := if !knownType ctype then .refused 400 else .ok
      some (outcomesStr (dec a.cfg (parseAllowed allowed)
        [{ req := a.req, sealed := false, target := target, post := post },
         { req := b.req, sealed := false, target := target, post := post }]))
    | _, _ => some "bad-op"
  | "cgexp" :: allowed :: target :: ctype :: rest =>
    match parseReq rest with
    | some p =>
      let post : Post := if !knownType ctype then .refused 400 else .ok
      let r : CGReq := { req := p.req, sealed := false, target := target, post := post }
      some (outcomesStr (dec p.cfg (parseAllowed allowed) [r, r.servedAt laterNow]))
    | none => some "bad-op"
  | _ => none

def runAll (v : Variant) (fs : List String) : String :=
  match runHist (fun cfg allowed rs => rs.map (decideWith v cfg allowed)) fs with
  | some s => s
  | none => run v fs

def runSpecAll (fs : List String) : String :=
  match runHist specDecideHistory fs with
  | some s => s
  | none => runSpec fs

def handler (mode : String) : Option Handler :=
  if mode == "model" then some (.pure (runAll fixed))
  else if mode == "model-asfound" then some (.pure (runAll asFound))
  else if mode == "judge" then some (.pure runSpecAll)
  else none

end KM.Driver.C01
