import KM.Driver.Core
/-! Driver for C01 (stub until the property's model is built). -/
namespace KM.Driver.C01

def handler (_mode : String) : Option Handler := none

end KM.Driver.C01
