import KM.Driver.AuthOps
/-! Driver for C01: `cg <allowed csv|-> <sealed> <target> <certtype> <key ok|bad> <request shape>`
↦ outcome of the `certGenHandler` decision model; `cfgcg <allowed> <webui> <target> …` the same on a
config-file-loaded state. -/
namespace KM.Driver.C01
open KM.Util KM.Auth KM.CertGen KM.Driver.AuthOps

def outcomeStr : Outcome → String
  | .issued u => s!"issued {hex u}"
  | .refused s => s!"refused {s}"
  | .noResponse => "noresponse"

def parseAllowed (s : String) : List (List Char) :=
  if s == "-" then [] else (s.splitOn ",").map String.toList

def knownType (t : String) : Bool := t == "ssh" || t == "x509" || t == "x509-kubernetes"

def run (v : Variant) : List String → String
  | "cg" :: allowed :: sealed :: target :: ctype :: key :: rest =>
    match parseBool sealed, parseReq rest with
    | some sl, some p =>
      let post : Post := if !knownType ctype then .refused 400 else if key == "ok" then .ok else .refused 400
      outcomeStr (decideWith v p.cfg (parseAllowed allowed)
        { req := p.req, sealed := sl, target := target, post := post })
    | _, _ => "bad-op"
  -- the same request against a state built by the real config loader from a file in which the operator wrote
  -- `allowed` (and a web-UI list, which must not matter): what counts is what was WRITTEN
  | "cfgcg" :: allowed :: _webui :: target :: ctype :: key :: rest =>
    match parseReq rest with
    | some p =>
      let post : Post := if !knownType ctype then .refused 400 else if key == "ok" then .ok else .refused 400
      outcomeStr (decideWith v p.cfg (parseAllowed allowed)
        { req := p.req, sealed := false, target := target, post := post })
    | none => "bad-op"
  | _ => "bad-op"

/-- judge: the same ops decided by the statement's own rule (`specDecide`) -/
def runSpec : List String → String
  | "cg" :: allowed :: sealed :: target :: ctype :: key :: rest =>
    match parseBool sealed, parseReq rest with
    | some sl, some p =>
      let post : Post := if !knownType ctype then .refused 400 else if key == "ok" then .ok else .refused 400
      outcomeStr (specDecide p.cfg (parseAllowed allowed) { req := p.req, sealed := sl, target := target, post := post })
    | _, _ => "bad-op"
  | "cfgcg" :: allowed :: _webui :: target :: ctype :: key :: rest =>
    match parseReq rest with
    | some p =>
      let post : Post := if !knownType ctype then .refused 400 else if key == "ok" then .ok else .refused 400
      outcomeStr (specDecide p.cfg (parseAllowed allowed) { req := p.req, sealed := false, target := target, post := post })
    | none => "bad-op"
  | _ => "bad-op"

def handler (mode : String) : Option Handler :=
  if mode == "model" then some (.pure (run fixed))
  else if mode == "model-asfound" then some (.pure (run asFound))
  else if mode == "judge" then some (.pure runSpec)
  else none

end KM.Driver.C01
