import KM.Driver.AuthOps
import KM.Model.Routes
/-! Driver for C06: `ca <mask> <request shape>` ↦ outcome of `checkAuth`. -/
namespace KM.Driver.C06
open KM.Util KM.Auth KM.Driver.AuthOps

def model : List String → String
  | "ca" :: mask :: rest =>
    match mask.toNat?, parseReq rest with
    | some m, some p => outStr (checkAuth p.cfg p.req m)
    | _, _ => "bad-op"
  | _ => "bad-op"

def modelOld : List String → String
  | "ca" :: mask :: rest =>
    match mask.toNat?, parseReq rest with
    | some m, some p => outStr (checkAuthWith asFound p.cfg p.req m)
    | _, _ => "bad-op"
  | _ => "bad-op"

/-- `rt <path> <webui csv|-> <request shape>` ↦ `deny` (every checkAuth of the route refuses this
request, so no protected effect may happen) | `maybe` | `no-such-route` -/
def route : List String → String
  | "rt" :: path :: webui :: rest =>
    match parseReq rest with
    | some p =>
      match KM.Gen.routes.find? (fun r => r.service && r.path == path.toList) with
      | some r =>
        let lvl := KM.Routes.webuiLevel (if webui == "-" then [] else (webui.splitOn ",").map String.toList)
        if KM.Routes.deniedBy p.cfg lvl r p.req then "deny" else "maybe"
      | Option.none => "no-such-route"
    | Option.none => "bad-op"
  | _ => "bad-op"

def both : List String → String
  | "ca" :: rest => model ("ca" :: rest)
  | "rt" :: rest => route ("rt" :: rest)
  | _ => "bad-op"

def handler (mode : String) : Option Handler :=
  if mode == "model" then some (.pure both)
  else if mode == "model-asfound" then some (.pure modelOld)
  else none

end KM.Driver.C06
