import KM.Driver.AuthOps
import KM.Model.Routes
/-! Driver for C06: `ca <mask> <request shape>` ↦ outcome of `checkAuth`. -/
namespace KM.Driver.C06
open KM.Util KM.Auth KM.Driver.AuthOps

def model : List String → String
  | "ca" :: mask :: rest =>
    match mask.toNat?, parseReq rest with
    | some m, some p => outStr (checkAuth p.cfg p.req m)
    | _, _ => "bad-op"
  | _ => "bad-op"

def modelOld : List String → String
  | "ca" :: mask :: rest =>
    match mask.toNat?, parseReq rest with
    | some m, some p => outStr (checkAuthWith asFound p.cfg p.req m)
    | _, _ => "bad-op"
  | _ => "bad-op"

/-- `rt <path> <webui csv|-> <request shape>` ↦ `deny` (every checkAuth of the route refuses this
request, so no protected effect may happen) | `maybe` | `no-such-route` -/
def route : List String → String
  | "rt" :: path :: webui :: rest =>
    match parseReq rest with
    | some p =>
      match KM.Gen.routes.find? (fun r => r.service && r.path == path.toList) with
      | some r =>
        let lvl := KM.Routes.webuiLevel (if webui == "-" then [] else (webui.splitOn ",").map String.toList)
        if KM.Routes.deniedBy p.cfg lvl r p.req then "deny" else "maybe"
      | Option.none => "no-such-route"
    | Option.none => "bad-op"
  | _ => "bad-op"

/-- `cfgdeny <n>`: n keys are written into `key_deny_list_ssh_sha256` of a config FILE; keymaster-signed
and IP-restricted certificates over each of them are then presented (model: the `:denied` shapes —
`c06_denied_key`), plus two keys that are not listed. -/
def cfgDeny : List String → String
  | ["cfgdeny", _] =>
    let shape (tls : String) := ["POST", "none", "1", tls, "none", "none", "1"]
    let refused (tls : String) : Bool := match parseReq (shape tls) with
      | some p => (outStr (checkAuth p.cfg p.req 65535)).startsWith "fail"
      | Option.none => false
    let admitted (tls : String) : Bool := match parseReq (shape tls) with
      | some p => (outStr (checkAuth p.cfg p.req 65535)).startsWith "ok"
      | Option.none => false
    let a := if refused "km:2:denied" then "-" else "all"
    let b := if refused "ipin:2:denied" then "-" else "all"
    let c := if admitted "km:2" && admitted "ipin:2" then "2/2" else "?"
    s!"admitted={a} ipadmitted={b} control={c}"
  | _ => "bad-op"

/-- histories: `caov <mask> <shape A> <shape B>` (B checked while A is parked inside the password backend) and
`caexp <mask> <shape>` (the same cookie while valid and again after its expiry): every call of `checkAuth` decides on
the request it was given, at the time it runs -/
def hist : List String → String
  | "caov" :: mask :: rest =>
    if rest.length != 14 then "bad-op" else
    match mask.toNat?, parseReq (rest.take 7), parseReq (rest.drop 7) with
    | some m, some a, some b => outStr (checkAuth a.cfg a.req m) ++ " | " ++ outStr (checkAuth b.cfg b.req m)
    | _, _, _ => "bad-op"
  | "caexp" :: mask :: rest =>
    match mask.toNat?, parseReq rest with
    | some m, some p =>
      outStr (checkAuth p.cfg p.req m) ++ " | " ++ outStr (checkAuth p.cfg { p.req with now := laterNow } m)
    | _, _ => "bad-op"
  | _ => "bad-op"

def both : List String → String
  | "cfgdeny" :: rest => cfgDeny ("cfgdeny" :: rest)
  | "caov" :: rest => hist ("caov" :: rest)
  | "caexp" :: rest => hist ("caexp" :: rest)
  | "ca" :: rest => model ("ca" :: rest)
  | "rt" :: rest => route ("rt" :: rest)
  | _ => "bad-op"

def handler (mode : String) : Option Handler :=
  if mode == "model" then some (.pure both)
  else if mode == "model-asfound" then some (.pure modelOld)
  -- `judge` = the same decision functions, run from the binary built against the facts snapshot of the validated
  -- tree (route table, masks): what a route must refuse does not follow the tree under test
  else if mode == "judge" then some (.pure both)
  else none

end KM.Driver.C06
