import KM.Driver.Core
/-! Driver for C06 (stub until the property's model is built). -/
namespace KM.Driver.C06

def handler (_mode : String) : Option Handler := none

end KM.Driver.C06
