import KM.Driver.Core
/-! Driver for C12 (stub until the property's model is built). -/
namespace KM.Driver.C12

def handler (_mode : String) : Option Handler := none

end KM.Driver.C12
