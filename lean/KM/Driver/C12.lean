import KM.Driver.Core
import KM.Driver.C04
import KM.Model.Oidc
/-! Driver for C12.

`tok <nowSec> <issuerHex> <keys> <clients> <method> <grant> <redirectHex> <verifierHex> <basic> <formIdHex>
     <formSecretHex> <s256(verifier)Hex> <prot> <alg> <by> <sigAlg> <wire>`
  clients = `idhex:secrethex,…`   basic = `-` | `idhex:secrethex`   prot = `-` | `methodhex:challengehex`
`ui <nowSec> <issuerHex> <keys> <alg> <by> <sigAlg> <wire>`
judge only: `uij <nowSec> <issuerHex> <keys> <alg> <by> <sigAlg> <wire> <answered user hex | ->` -/
namespace KM.Driver.C12
open KM.Util KM.Token KM.Oidc KM.Driver.C04

def parsePair (s : String) : Option (Str × Str) :=
  match s.splitOn ":" with
  | [a, b] => do pure (← strOfHex a, ← strOfHex b)
  | _ => none

/-- `idhex:secrethex` or `idhex:secrethex:1` (1 = may choose audiences) -/
def parseClients (s : String) : Option (List Client) :=
  if s == "-" then some []
  else (s.splitOn ",").mapM (fun p =>
    match p.splitOn ":" with
    | [a, b] => do pure ({ id := ← strOfHex a, secret := ← strOfHex b } : Client)
    | [a, b, f] => do pure ({ id := ← strOfHex a, secret := ← strOfHex b, chosenAudiences := ← parseBool f } : Client)
    | _ => none)

structure Call where
  cfg : Cfg
  now : Clock
  req : TokenReq

def parseTok : List String → Option (Call × List String)
  | "tok" :: ns :: iss :: keys :: clients :: method :: grant :: redirect :: verifier :: basic :: fid :: fsec ::
      hv :: prot :: alg :: by_ :: sig :: wire :: rest => do
    let d : Deployment := { issuer := ← strOfHex iss, trusted := ← parseKeys keys }
    let verifier ← strOfHex verifier
    let hv ← strOfHex hv
    let prot ← (if prot == "-" then some none else (parsePair prot).map fun (m, c) => some ({ challenge := c, method := m } : Protected))
    let cfg : Cfg := { dep := d, clients := ← parseClients clients,
                       s256 := fun v => if v = verifier then hv else [],
                       openSealed := fun _ _ _ => prot }
    let basic ← (if basic == "-" then some none else (parsePair basic).map some)
    let signedBy ← (if by_ == "-" then some none else by_.toNat?.map some)
    let code : Artefact := { claims := ← parseWire wire, alg := ← parseAlg alg, signedBy := signedBy, sigAlg := ← parseAlg sig }
    let req : TokenReq := { method := ← strOfHex method, grantType := ← strOfHex grant, redirect := ← strOfHex redirect,
                            code := code, verifier := verifier, basic := basic, formClientID := ← strOfHex fid,
                            formSecret := ← strOfHex fsec }
    pure ({ cfg := cfg, now := { sec := ← ns.toInt?, nsec := 0 }, req := req }, rest)
  | _ => none

def showOidcRej : Oidc.Rej → String
  | .method => "method" | .grant => "grant" | .noRedirect => "noRedirect" | .badCode => "badCode"
  | .noCreds => "noCreds" | .noClientID => "noClientID" | .unknownClient => "unknownClient"
  | .pkceNotAllowed => "pkceNotAllowed" | .badCreds => "badCreds"
  | .code r => "code-" ++ showRej r

def showAzRej : AzRej → String
  | .responseType => "responseType" | .noClient => "noClient" | .scope => "scope" | .unknownClient => "unknownClient"
  | .redirect => "redirect" | .challengeMethod => "challengeMethod" | .audience => "audience" | .nonce => "nonce"

def strsOfField (s : String) : Option (List Str) :=
  if s == "-" then some [] else (s.splitOn ",").mapM strOfHex

/-- `az <issuerHex> <clients> <userHex> <respType> <clientID> <scope> <redirect> <nonce> <audience> <challenge>
      <method> <redirectOK> <audienceOriginOK> <t>` ↦ the code the authorization handler mints, or its refusal -/
def azModel : List String → Option String
  | [iss, clients, user, rt, cid, scope, redirect, nonce, aud, ch, m, rok, aok, t] => do
    let d : Deployment := { issuer := ← strOfHex iss, trusted := [] }
    let cfg : Cfg := { dep := d, clients := ← parseClients clients, s256 := fun _ => [], openSealed := fun _ _ _ => none }
    let rt ← strOfHex rt
    let cid ← strOfHex cid
    let scope ← strOfHex scope
    let redirect ← strOfHex redirect
    let nonce ← strOfHex nonce
    let aud ← strOfHex aud
    let ch ← strOfHex ch
    let m ← strOfHex m
    let rok ← parseBool rok
    let aok ← parseBool aok
    let f : AuthzForm := ⟨rt, cid, scope, redirect, nonce, aud, ch, m, rok, aok, "J".toList, "K".toList, "D".toList⟩
    pure (match authorize cfg (← strOfHex user) f (← t.toInt?) with
      | .ok c => "ok " ++ showWire c
      | .error e => "rej " ++ showAzRej e)
  | _ => none

/-- `rel <issuerHex> <clientHex> <userHex> <nonceHex> <scopeHex> <audiences> <expMax> <idwire> <accwire>`:
the property's predicates `idTokenOK` / `accessTokenOK` on tokens the implementation released -/
def relJudge : List String → Option String
  | [iss, client, user, nonce, scope, auds, expMax, idw, accw] => do
    let d : Deployment := { issuer := ← strOfHex iss, trusted := [] }
    let client ← strOfHex client
    let user ← strOfHex user
    let idt ← parseWire idw
    let acc ← parseWire accw
    let expMax ← expMax.toInt?
    let a := idTokenOK d client user (← strOfHex nonce) expMax idt
    let b := accessTokenOK d user (← strOfHex scope) (← strsOfField auds) expMax acc
    let why :=
      (if a then [] else
        ["id-token:" ++
          (if idt .aud != some (.strs [client]) then "aud-not-exactly-the-client"
           else if (match idt .exp with | some (.num e) => decide (e ≤ expMax) | _ => false) == false then
             "expires-later-than-16h-after-authorization"
           else "iss/sub/nonce")]) ++
      (if b then [] else ["access-token"])
    pure (if a && b then "ok" else "viol " ++ ",".intercalate why)
  | _ => none

def showKeyType : KeyType → String
  | .rsa => "rsa" | .p256 => "p256" | .p384 => "p384" | .p521 => "p521" | .ed25519 => "ed25519"
  | .unsupported => "unsupported"

def showKeys (l : List Key) : String :=
  if l.isEmpty then "-" else ",".intercalate (l.map fun k => s!"{k.id}:{showKeyType k.ty}")

def cfgOfKeys (keys : List Key) : Cfg :=
  { dep := { issuer := [], trusted := keys }, clients := [], s256 := fun _ => [], openSealed := fun _ _ _ => none }

def model (fs : List String) : String :=
  match fs with
  | ["jw", trusted] => ((parseKeys trusted).map fun ks => showKeys (published (cfgOfKeys ks))).getD "bad-op"
  | "az" :: rest => (azModel rest).getD "bad-op"
  | ["ui", ns, iss, keys, alg, by_, sig, wire] =>
    (do
      let d : Deployment := { issuer := ← strOfHex iss, trusted := ← parseKeys keys }
      let signedBy ← (if by_ == "-" then some none else by_.toNat?.map some)
      let a : Artefact := { claims := ← parseWire wire, alg := ← parseAlg alg, signedBy := signedBy, sigAlg := ← parseAlg sig }
      let cfg : Cfg := { dep := d, clients := [], s256 := fun _ => [], openSealed := fun _ _ _ => none }
      pure (match userinfo cfg { sec := ← ns.toInt?, nsec := 0 } a with
        | .ok u => "ok " ++ hexOfStr u
        | .error e => "rej " ++ showRej e)).getD "bad-op"
  | _ =>
    match parseTok fs with
    | some (k, []) =>
      (match token k.cfg k.now k.req with
       | .ok (idt, acc) => s!"ok {showWire idt} {showWire acc}"
       | .error e => "rej " ++ showOidcRej e)
    | _ => "bad-op"

/-- `tok … <wire> <acc|rej>`: the theorem's predicate `releasable` applied to what the implementation did -/
def judge (fs : List String) : String :=
  match fs with
  | "rel" :: rest => (relJudge rest).getD "bad-op"
  | ["uij", ns, iss, keys, alg, by_, sig, wire, ans] =>
    -- what userinfo answered (`-` = refused, else the user in hex) for a presented token: `userinfoAllowed`
    (do
      let d : Deployment := { issuer := ← strOfHex iss, trusted := ← parseKeys keys }
      let signedBy ← (if by_ == "-" then some none else by_.toNat?.map some)
      let a : Artefact := { claims := ← parseWire wire, alg := ← parseAlg alg, signedBy := signedBy, sigAlg := ← parseAlg sig }
      let cfg : Cfg := { dep := d, clients := [], s256 := fun _ => [], openSealed := fun _ _ _ => none }
      let now : Clock := { sec := ← ns.toInt?, nsec := 0 }
      if ans == "-" then pure "ok" else
      let u ← strOfHex ans
      pure (if userinfoAllowed cfg now a u then "ok" else
        "viol userinfo-answered " ++ ",".intercalate (
          (if !signedByDeployment d a then ["token-not-signed-by-deployment"] else []) ++
          (if !(gStr a.claims .typ == KM.Gen.C04.accessType) then ["not-an-access-token"] else []) ++
          (if !decide (now.sec ≤ gInt a.claims .exp) then ["access-token-expired"] else []) ++
          (if !(gStr a.claims .iss == d.issuer) then ["foreign-issuer"] else []) ++
          (if !(u == gStr a.claims .username) then ["another-user"] else [])))).getD "bad-op"
  | ["jwv", pub, alg, by_] =>
    -- a released token (header alg, signing key) against the key set the implementation published
    (do
      let keys ← parseKeys pub
      let alg ← parseAlg alg
      let signedBy ← (if by_ == "-" then some none else by_.toNat?.map some)
      let a : Artefact := { claims := Wire.empty, alg := alg, signedBy := signedBy, sigAlg := alg }
      pure (if rpVerifies keys a then "ok"
            else if keys.any (fun k => signedBy == some k.id) then "viol signing-key-published-with-another-type"
            else "viol signing-key-not-in-published-jwks")).getD "bad-op"
  | _ =>
  match parseTok fs with
  | some (k, [dec]) =>
    if dec == "acc" then
      if releasable k.cfg k.now k.req then "ok"
      else
        let r := k.req
        let why := match creds r with
          | .error _ => "no-credentials"
          | .ok (id, pass) =>
            match getClient k.cfg id with
            | none => "unknown-client"
            | some cl =>
              ",".intercalate (
                (if !signedByDeployment k.cfg.dep r.code then ["code-not-signed-by-deployment"] else []) ++
                (if !provedClient k.cfg cl pass r.verifier r.code.claims then ["client-not-proved"] else []) ++
                (if !(gStr r.code.claims .sub == id) then ["code-issued-to-other-client"] else []) ++
                (if !decide (k.now.sec ≤ gInt r.code.claims .exp) then ["code-expired"] else []) ++
                (if !(gStr r.code.claims .redirectUri == r.redirect) then ["redirect-differs"] else []) ++
                (if !(gStr r.code.claims .typ == KM.Gen.C04.codeType) then ["not-a-code"] else []))
        "viol released " ++ why
    else if dec == "rej" then "ok"
    else "bad-op"
  | _ => "bad-op"

def handler (mode : String) : Option Handler :=
  if mode == "model" then some (.pure model)
  else if mode == "judge" then some (.pure judge)
  else none

end KM.Driver.C12
