import KM.Driver.Core
import KM.Model.Storage
import KM.Gen.C15
/-! Driver for C15: a stateful interpreter of the storage model (users, blobs = profile ids and
signed data are numbers) printing the same canonical digests as the Go harness, and a judge
that applies the predicates of `c15_sync_exact` / `c15_sync_atomic` / `c15_outage_readonly`
to what the real code left in the two databases. -/
namespace KM.Driver.C15
open KM.Util KM.Storage KM.SiteC15

abbrev St := State Nat Nat Nat

structure DS where
  st : St
  seenU : List Nat
  seenS : List (Nat × Nat)

def DS.init : DS := ⟨State.init, [], []⟩

def leNat (a b : Nat) : Bool := a ≤ b
def lePair (a b : Nat × Nat) : Bool := a.1 < b.1 || (a.1 == b.1 && a.2 ≤ b.2)

def sortedU (l : List Nat) : List Nat := (l.eraseDups).mergeSort leNat
def sortedS (l : List (Nat × Nat)) : List (Nat × Nat) := (l.eraseDups).mergeSort lePair

def digestStore (tag : String) (d : DS) (s : Store Nat Nat Nat) : String :=
  let us := (sortedU d.seenU).filterMap fun u => (s.users u).map fun b => s!"{u}:{b}"
  let ss := (sortedS d.seenS).filterMap fun k =>
    (s.signed k).map fun r => s!"{k.1}/{k.2}:{r.data}@{r.exp - d.st.now}"
  s!"{tag}[{",".intercalate us}][{",".intercalate ss}]"

def digest (d : DS) : String :=
  digestStore "P" d d.st.primary ++ " " ++ digestStore "C" d d.st.cache

/-- number of rows (users + signed records) the cache holds -/
def cacheUsers (d : DS) : Nat :=
  ((sortedU d.seenU).filter fun u => (d.st.cache.users u).isSome).length +
  ((sortedS d.seenS).filter fun k => (d.st.cache.signed k).isSome).length

/-- statement list of the synchronisation in the current state -/
def stepsOf (d : DS) : List (Step Nat Nat Nat) := expand syncShape d.st.rowsU d.st.rowsS

def letter : Step Nat Nat Nat → Char
  | .srcQuery => 'q'
  | .srcNext _ _ => 'n'
  | .begin => 'B'
  | .prepare => 'P'
  | .write .stmt _ _ => 'X'
  | .write _ .exec _ => 'E'
  | .write _ .query _ => 'Q'
  | .commit => 'C'

/-- does a fault at statement k make copyDBIntoSQLite return an error? -/
def faultErr : Nat → List (Step Nat Nat Nat) → Bool
  | _, [] => false
  | 0, s :: _ => match s with
    | .srcNext false _ => false
    | _ => true
  | k+1, _ :: r => faultErr k r

def semOf (mode : String) : Option TxSem :=
  if mode == "pre" then some ⟨false, false⟩
  else if mode == "post" then some ⟨false, true⟩
  else none

def word (b : Bool) : String := if b then "err" else "ok"

def applyOp (d : DS) (o : Op Nat Nat Nat) : DS := { d with st := stepOp d.st o }

/-! routes of the outage matrix: (name printed by the harness, handler function) -/
def mutatingRoutes : List (String × String) :=
  [("u2fRegResp", "u2fRegisterResponse"), ("u2fRegReq", "u2fRegisterRequest"),
   ("valTOTP", "validateNewTOTP"), ("genTOTP", "GenerateNewTOTP"), ("mgTOTP", "totpTokenManagerHandler"),
   ("waRegBegin", "webauthnBeginRegistration"), ("waRegFinish", "webauthnFinishRegistration"),
   ("mgU2F", "u2fTokenManagerHandler"), ("bootstrapAuth", "BootstrapOtpAuthHandler"),
   ("addUser", "addUserHandler"), ("genBootstrap", "generateBootstrapOTP")]

def classOf (fn : String) : GuardClass :=
  match KM.Gen.C15.guardTable.filter (fun r => r.1 == fn.toList) with
  | [r] => r.2.2
  | _ => .unknown

def hasU2F (pid : Nat) : Bool := [1, 4, 5, 7].contains (pid % 8)
def hasTOTP (pid : Nat) : Bool := [2, 4, 6, 7].contains (pid % 8)

def effectToken (c : GuardClass) (writable : Bool) : String :=
  match handlerEffect c true writable with
  | .refused => "refused"
  | .writeFailed => "failed"
  | .wroteFresh => "ok"
  | .wroteStale => "ok"

/-- the outage matrix; `pidNew = some n`: the primary is ahead of the cache (u changed to n and
user 1000+u created after the last synchronisation) -/
def outage (d : DS) (mode : String) (u pid : Nat) (pidNew : Option Nat) : DS × String :=
  let d1 : DS := { d with seenU := u :: (1000 + u) :: d.seenU }
  let d2a := applyOp (applyOp d1 (.save u pid)) (.sync ⟨false, false⟩ none)
  let d2 := match pidNew with
    | some n => applyOp (applyOp d2a (.save u n)) (.save (1000 + u) n)
    | none => d2a
  if mode == "up" then (d2, s!"ok sanity | {digest d2}")
  else
    if mode == "rerr" then
      -- flapping primary (SELECTs answer with an error, writes work): what the routes answer is not
      -- prescribed (fail, or continue from the cache); nothing may be written except the direct delete
      let auth := ["login=any"] ++ (if hasTOTP pid then ["authTOTP=any"] else []) ++
        (if hasU2F pid then ["u2fSignReq=any", "waAuthBegin=any", "waAuthFinish=any"] else [])
      let muts := mutatingRoutes.map fun r => s!"{r.1}=nowrite"
      let d3 := applyOp d2 (.delete u)
      (d3, s!"ok unchanged=1 mails=0 {" ".intercalate (auth ++ muts)} deleteUser=ok | {digest d2} | {digest d3}")
    else
    let writable := mode != "down"
    let auth := ["login=ok"] ++ (if hasTOTP pid then ["authTOTP=ok"] else []) ++
      (if hasU2F pid then ["u2fSignReq=ok", "waAuthBegin=ok", "waAuthFinish=ok"] else [])
    -- addUserHandler answers 400 "User exists" before its fromCache test when the (cached) row exists
    let addExists := (d2.st.cache.users (1000 + u)).isSome
    let muts := mutatingRoutes.map fun r =>
      if r.1 == "addUser" && addExists then "addUser=400" else s!"{r.1}={effectToken (classOf r.2) writable}"
    -- writes hidden behind routes that keep answering: login (self-service bootstrap OTP),
    -- TOTP verification (counter), WebAuthn assertion (counter)
    let hidden := ["trySelfServiceGenerateBootstrapOTP"] ++
      (if hasTOTP pid then ["validateUserTOTP"] else []) ++ (if hasU2F pid then ["webauthnAuthFinish"] else [])
    let stale := (mutatingRoutes.any fun r => handlerEffect (classOf r.2) true writable == .wroteStale) ||
      (hidden.any fun f => handlerEffect (classOf f) true writable == .wroteStale)
    let del := effectToken (classOf "deleteUserHandler") writable
    let d3 := if del == "ok" then applyOp d2 (.delete u) else d2
    (d3, s!"ok unchanged={boolStr (!stale)} mails=0 {" ".intercalate (auth ++ muts)} deleteUser={del} | {digest d2} | {digest d3}")

def stale (d : DS) (mode : String) (u old new : Nat) : DS × String :=
  if !hasU2F old || !(mode == "t0" || mode == "slow" || mode == "down") then (d, "bad-op")
  else
    let d1 : DS := { d with seenU := u :: d.seenU }
    let d2 := applyOp (applyOp (applyOp d1 (.save u old)) (.sync ⟨false, false⟩ none)) (.save u new)
    (d2, s!"ok begin=200 finish=200 primary={new} | {digest d2}")

def model (d : DS) : List String → DS × String
  | ["reset"] => (DS.init, s!"ok {digest DS.init}")
  | ["add", u, p] =>
    match u.toNat?, p.toNat? with
    | some u, some p =>
      let d' := applyOp { d with seenU := u :: d.seenU } (.save u p)
      (d', s!"ok rt=1 {digest d'}")
    | _, _ => (d, "bad-op")
  | ["del", u] =>
    match u.toNat? with
    | some u => let d' := applyOp d (.delete u); (d', s!"ok {digest d'}")
    | _ => (d, "bad-op")
  | ["ssave", u, t, did, off] =>
    match u.toNat?, t.toNat?, did.toNat?, off.toInt? with
    | some u, some t, some did, some off =>
      let d' := applyOp { d with seenS := (u, t) :: d.seenS } (.saveSigned u t ⟨did, d.st.now + off⟩)
      (d', s!"ok {digest d'}")
    | _, _, _, _ => (d, "bad-op")
  | ["sdel", u, t] =>
    match u.toNat?, t.toNat? with
    | some u, some t => let d' := applyOp d (.deleteSigned u t); (d', s!"ok {digest d'}")
    | _, _ => (d, "bad-op")
  | ["tick", n] =>
    match n.toNat? with
    | some n => let d' := applyOp d (.tick n); (d', s!"ok {digest d'}")
    | _ => (d, "bad-op")
  | ["sync", "-"] =>
    let steps := stepsOf d
    let d' := applyOp d (.sync ⟨false, false⟩ none)
    (d', s!"ok n={steps.length} tr={String.ofList (steps.map letter)} cl={cacheUsers d'}/{cacheUsers d'} {digest d'}")
  | ["sync", k, mode] =>
    match k.toNat?, semOf mode with
    | some k, some sem =>
      let steps := stepsOf d
      let d' := applyOp d (.sync sem (some k))
      (d', s!"{word (faultErr k steps)} hit={boolStr (k < steps.length)} {digest d'}")
    | _, _ => (d, "bad-op")
  | ["fsync", mode] =>
    match semOf mode with
    | some sem =>
      let steps := stepsOf d
      let res := (List.range steps.length).map fun k =>
        let d' := applyOp d (.sync sem (some k))
        s!"{k}:{word (faultErr k steps)}:{digestStore "C" d' d'.st.cache}"
      (d, s!"ok n={steps.length} tr={String.ofList (steps.map letter)} {" ".intercalate res} | {digest d}")
    | none => (d, "bad-op")
  | ["outage", mode, u, pid] =>
    match u.toNat?, pid.toNat? with
    | some u, some pid =>
      if mode == "up" || mode == "t0" || mode == "slow" || mode == "down" || mode == "rerr" then outage d mode u pid none
      else (d, "bad-op")
    | _, _ => (d, "bad-op")
  | ["restart"] => let d' := applyOp d .restart; (d', s!"ok {digest d'}")
  | ["label", u, o, n] =>
    match u.toNat?, o.toNat?, n.toNat? with
    | some u, some o, some n =>
      if o == n then (d, "bad-op") else
      let d1 : DS := { d with seenU := u :: (1000 + u) :: d.seenU }
      let d2 := applyOp (applyOp (applyOp (applyOp d1 (.save u o)) (.sync ⟨false, false⟩ none)) (.save u n)) (.save (1000 + u) n)
      (d2, s!"ok label | {digest d2}")
    | _, _, _ => (d, "bad-op")
  | ["ostale", mode, u, o, n] =>
    match u.toNat?, o.toNat?, n.toNat? with
    | some u, some o, some n =>
      if mode == "up" || mode == "t0" || mode == "slow" || mode == "down" || mode == "rerr" then outage d mode u o (some n)
      else (d, "bad-op")
    | _, _, _ => (d, "bad-op")
  | ["flap", route, u, pid] =>
    match u.toNat?, pid.toNat? with
    | some u, some pid =>
      if !(["mgU2F", "genTOTP", "addUser", "deleteUser"].contains route) || (route == "mgU2F" && !hasU2F pid)
      then (d, "bad-op") else
      let d2 := applyOp (applyOp { d with seenU := u :: d.seenU } (.save u pid)) (.sync ⟨false, false⟩ none)
      (d2, s!"ok flap | {digest d2}")
    | _, _ => (d, "bad-op")
  | ["stale", mode, u, o, n] =>
    match u.toNat?, o.toNat?, n.toNat? with
    | some u, some o, some n => stale d mode u o n
    | _, _, _ => (d, "bad-op")
  | _ => (d, "bad-op")

/-! ## judge -/

/-- `X[a,b][c,d]` ↦ (user entries, signed entries) -/
def parseDigest (s : String) : Option (List String × List String) :=
  if s.length < 5 then none else
  let body := ((s.drop 2).dropEnd 1).toString
  match body.splitOn "][" with
  | [us, ss] =>
    some ((us.splitOn ",").filter (· ≠ ""), (ss.splitOn ",").filter (· ≠ ""))
  | _ => none

/-- signed entry `u/t:d@rel` is unexpired iff rel > 0 -/
def relOf (e : String) : Option Int :=
  match e.splitOn "@" with
  | [_, r] => r.toInt?
  | _ => none

def clean (l : List String) : Bool := l.all fun e => !(e.contains '!')

/-- the predicate of `c15_sync_exact` on observed digests: the cache holds exactly the
primary's users and its unexpired signed records, every blob intact -/
def mirrors (p c : List String × List String) : Bool :=
  clean p.1 && clean p.2 && clean c.1 && clean c.2 &&
  c.1 == p.1 &&
  c.2 == p.2.filter (fun e => match relOf e with | some r => decide (0 < r) | none => true)

def judge : List String → String
  | ["synced", p, c] =>
    match parseDigest p, parseDigest c with
    | some p, some c => if mirrors p c then "ok" else "viol cache-differs-from-primary"
    | _, _ => "bad-op"
  | ["atomic", before, p, got] =>
    -- the predicate of `c15_sync_atomic`: previous content, or the mirror of the primary
    match parseDigest before, parseDigest p, parseDigest got with
    | some b, some p, some g =>
      if g == b then "ok" else if mirrors p g then "ok" else "viol cache-is-neither-previous-nor-new"
    | _, _, _ => "bad-op"
  | ["intact", p, c] =>
    match parseDigest p, parseDigest c with
    | some p, some c =>
      if clean p.1 && clean p.2 && clean c.1 && clean c.2 then "ok" else "viol stored-row-corrupt"
    | _, _ => "bad-op"
  | ["rt", v] => if v == "1" then "ok" else if v == "0" then "viol profile-not-read-back-identical" else "bad-op"
  | ["cl", v] =>
    match v.splitOn "/" with
    | [a, b] => if a == b && a.toNat?.isSome then "ok" else "viol cached-profile-differs"
    | _ => "bad-op"
  | "outage" :: mode :: unchanged :: mails :: delsame :: toks =>
    -- Third sentence of the statement: "While the primary is unreachable, logins and second-factor
    -- checks continue from the cache but every operation that would change a profile is refused."
    --  * refused = the client is not told that it happened (any answer other than success: 503, 500,
    --    4xx — the statement does not say how a refusal is worded, nor whether it is decided before or
    --    after the write is attempted) AND nothing happened: both row sets unchanged, no mail sent;
    --  * the delete that carries no cached data (it never reads a profile) may also succeed while the
    --    primary still accepts writes (modes t0/slow/rerr: not an outage for that write); if it does
    --    not report success the rows must be unchanged after it as well (`delsame`);
    --  * logins / second factor checks must be answered from the cache when the primary is silent;
    --    for a primary that answers reads with errors (rerr) failing the request is acceptable too.
    -- A handler that crashes (PANIC) has not refused anything.
    if !(mode == "t0" || mode == "slow" || mode == "down" || mode == "rerr") then "bad-op" else
    let bad := toks.filter fun t =>
      match t.splitOn "=" with
      | [name, v] =>
        if v == "PANIC" then true
        else if name == "deleteUser" then
          (v == "ok" && mode == "down") || (v != "ok" && delsame != "delsame=1")
        else if (mutatingRoutes.map (·.1)).contains name then v == "ok"
        else if ["login", "authTOTP", "u2fSignReq", "waAuthBegin", "waAuthFinish"].contains name then
          !(v == "ok" || (mode == "rerr" && (v == "failed" || v == "-")))
        else true
      | _ => true
    if unchanged != "unchanged=1" then "viol rows-changed-during-outage"
    else if mails != "mails=0" then s!"viol side-effect-during-outage {mails}"
    else if !(delsame == "delsame=1" || delsame == "delsame=0") then "bad-op"
    else if bad.isEmpty then "ok" else s!"viol {" ".intercalate bad}"
  | ["cachesame", before, after] =>
    -- only a synchronisation may change the cache (`cache_nonsync`, `c15_restart_keeps_cache`)
    match parseDigest before, parseDigest after with
    | some b, some a => if a == b then "ok" else "viol cache-changed-without-a-synchronisation"
    | _, _ => "bad-op"
  | "label" :: toks =>
    -- is the fromCache flag truthful?  the answer was compared with what each database holds: the
    -- cache's row (C), or "no such user" when only the cache lacks the row (N), must carry fromCache = 1;
    -- the primary's row (P) fromCache = 0; identical rows (S), absent in both (Z) and errors carry no information
    let bad := toks.filter fun t =>
      match t.splitOn ":" with
      | [_, r] =>
        !(["C1", "P0", "N1", "S0", "S1", "Z0", "Z1", "err0", "err1"].contains r)
      | _ => true
    if bad.isEmpty then "ok" else s!"viol cached-data-not-labelled-fromCache {" ".intercalate bad}"
  | "flap" :: toks =>
    -- primary lost at the k-th statement of a request: the row is the old one unless the handler
    -- reported success, never undecodable, and the cache is untouched
    let bad := toks.filter fun t =>
      match t.splitOn ":" with
      | [_, code, row, cacheSame] =>
        cacheSame != "1" || row == "corrupt" || (code != "ok" && row != "old")
      | _ => true
    if bad.isEmpty then "ok" else s!"viol outage-mid-request {" ".intercalate bad}"
  | ["stale", new, primary] =>
    if primary == new then "ok" else s!"viol stale-profile-written-over-primary:{primary}"
  | _ => "bad-op"

def handler (mode : String) : Option Handler :=
  if mode == "model" then some { σ := DS, init := DS.init, step := model }
  else if mode == "judge" then some (.pure judge)
  else none

end KM.Driver.C15
