import KM.Driver.Core
/-! Driver for C15 (stub until the property's model is built). -/
namespace KM.Driver.C15

def handler (_mode : String) : Option Handler := none

end KM.Driver.C15
