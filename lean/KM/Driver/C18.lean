import KM.Driver.Core
import KM.Model.Html
/-! Driver for C18.  Strings travel hex-encoded (see `KM.Util`). -/
namespace KM.Driver.C18
open KM.Util KM.Html

def hx (l : List Char) : String := hex (String.ofList l)

def escFn (s : String) : Option EscFn :=
  if s == "html" then some .htmlEscapeString
  else if s == "template" then some .templateHTMLEscapeString
  else none

def tagStr (t : Tag) : String :=
  let attrs := t.attrs.map fun a => s!"{hx a.name}={hx (unescape a.value)}"
  s!"{hx t.name} {boolStr t.selfClosing} {attrs.length}" ++
    String.join (attrs.map fun a => " " ++ a)

/-- model mode:
* `esc <fn> <hex s>`      ↦ hex of the escaper's output
* `build <fn> <hex norm>` ↦ hex of the raw `<INPUT …>` field for the already normalised
  destination (the normalisation is a parameter of the model; the harness reports it)
* `tok <hex seg>`         ↦ `tag <hex name> <selfclosing> <n> {<hex attr>=<hex decoded value>} rest <hex>`
  or `none` — the start tag at the head of `seg` as the model tokenizer reads it
* `b64 <hex bytes>`       ↦ hex of the base64 text -/
def model : List String → String
  | ["esc", f, h] =>
    match escFn f, unhex h with
    | some fn, some s => hx (escWith fn s.toList)
    | _, _ => "bad-op"
  | ["build", f, h] =>
    match escFn f, unhex h with
    | some fn, some s => hx (loginInput fn id s.toList)
    | _, _ => "bad-op"
  | ["tok", h] =>
    match unhex h with
    | some s =>
      match tokenizeStartTag s.toList with
      | some (t, rest) => s!"tag {tagStr t} rest {hx rest}"
      | none => "none"
    | none => "bad-op"
  | ["b64", h] =>
    match unhexB h with
    | some bs => hx (b64 bs)
    | none => "bad-op"
  | _ => "bad-op"

/-- judge mode (the predicates of the theorems, applied to what the implementation emitted):
* `input <hex norm> <hex seg>` — `inputOK seg norm` (`c18_input_ok`): the segment of the
  response that starts at the hidden input is exactly that one tag, nothing follows it on its
  line, and its value decodes to the normalised destination
* `inert <hex v>` — `v` is free of `" < > '` (`c18_esc_inert`, `c18_base64_inert`)
* `resp <hex Content-Type or -> <hex first 512 body bytes> <n elements> <n attributes>` —
  `responseOK` (`c18_failure_text_inert`, `c18_labelled_text_inert`): canary-named markup in a
  body is only acceptable when the response is not a markup document (Content-Type and body
  judged together)
* `canary <n elements> <n attributes>` — number of canary-named elements / attributes the
  HTML5 tokenizer found in a response -/
def judge : List String → String
  | ["input", hn, hs] =>
    match unhex hn, unhex hs with
    | some n, some s =>
      if inputOK s.toList n.toList then "ok"
      else
        match tokenizeStartTag s.toList with
        | some (t, rest) =>
          s!"viol attrs={t.attrs.length} rest={hx rest} value={hx (unescape ((t.attrs.getLast?.map (·.value)).getD []))}"
        | none => "viol no-tag"
    | _, _ => "bad-op"
  | ["inert", h] =>
    match unhex h with
    | some s =>
      if s.toList.any (fun c => c == '"' || c == '<' || c == '>' || c == '\'') then "viol markup-char"
      else "ok"
    | none => "bad-op"
  | ["resp", hct, hbody, e, a] =>
    -- the body prefix is taken byte-wise (only ASCII matters for sniffing)
    match unhex hct, unhexB hbody, e.toNat?, a.toNat? with
    | some ct, some body, some ne, some na =>
      if responseOK (if ct.isEmpty then none else some ct.toList)
          (body.map fun b => Char.ofNat b.toNat) ne na then "ok"
      else s!"viol markup-document elements={ne} attributes={na}"
    | _, _, _, _ => "bad-op"
  | ["canary", e, a] =>
    match e.toNat?, a.toNat? with
    | some ne, some na => if ne == 0 && na == 0 then "ok" else s!"viol elements={ne} attributes={na}"
    | _, _ => "bad-op"
  | _ => "bad-op"

def handler (mode : String) : Option Handler :=
  if mode == "model" then some (.pure model)
  else if mode == "judge" then some (.pure judge)
  else none

end KM.Driver.C18
