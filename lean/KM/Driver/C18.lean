import KM.Driver.Core
/-! Driver for C18 (stub until the property's model is built). -/
namespace KM.Driver.C18

def handler (_mode : String) : Option Handler := none

end KM.Driver.C18
