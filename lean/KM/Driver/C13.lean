import KM.Driver.Core
import KM.Model.Redirect
/-! Driver for C13.  Strings travel hex-encoded as raw bytes; byte `b` is embedded as
`Char.ofNat b` (the model's alphabet, see `KM.Model.Redirect`). -/
namespace KM.Driver.C13
open KM.Util KM.Redirect

def bytesToChars (bs : List UInt8) : List Char := bs.map (fun b => Char.ofNat b.toNat)
def charsToBytes (cs : List Char) : List UInt8 := cs.map (fun c => UInt8.ofNat (c.toNat % 256))

def unhexC (s : String) : Option (List Char) := (unhexB s).map bytesToChars
def hexC (cs : List Char) : String := hexB (charsToBytes cs)

/-- list field: "." = empty list, otherwise hex items separated by ',' -/
def unhexList (s : String) : Option (List (List Char)) :=
  if s == "." then some [] else (s.splitOn ",").mapM unhexC

/-- regexp verdicts of one client: "." = no patterns, otherwise one of `1 0 e` per pattern -/
def parseRes (s : String) : Option (List (Option Bool)) :=
  if s == "." then some [] else
  s.toList.mapM fun c => if c == '1' then some (some true) else if c == '0' then some (some false)
    else if c == 'e' then some none else none

structure Cfg where
  name : String
  client : Client

abbrev St := List Cfg

/-- pattern i of a driver-side client is the token `[Char.ofNat i]`; the oracle looks it up -/
def oracle (res : List (Option Bool)) (p : List Char) : Option Bool :=
  match p with
  | [c] => (res[c.toNat]?).getD none
  | _ => none

def idxPatterns (n : Nat) : List (List Char) := (List.range n).map (fun i => [Char.ofNat i])

def mkCfg (name : String) (doms : List (List Char)) (npat : Nat) : Cfg :=
  { name := name, client := { id := name.toList, domains := doms, patterns := idxPatterns npat } }

def parseParsed : List String → Option (Option Parsed)
  | [e, a, b, c, d] =>
    if e == "1" then some none else
    match unhexC a, unhexC b, unhexC c, unhexC d with
    | some sa, some sb, some sc, some sd => some (some { scheme := sa, host := sb, rawQuery := sc, path := sd })
    | _, _, _, _ => none
  | _ => none

def verdictStr : Verdict → String
  | .accept => "A" | .reject => "R" | .error => "E"

/-- which test of `CanRedirectToURL` answered (coverage histogram only) -/
def why (re : List Char → Option Bool) (c : Client) (p : Option Parsed) : String :=
  if c.domains.length < 1 ∧ c.patterns.length < 1 then "noconfig"
  else match reLoop re c.patterns with
    | none => "re-error"
    | some m =>
      match p with
      | none => "parse-error"
      | some u =>
        if u.scheme ≠ https then "scheme"
        else if u.rawQuery.length > 0 then "query"
        else if hasDotDot u.path then "dotdot"
        else if u.host = [] then "empty-host"
        else if c.domains.length < 1 then (if m then "accept-re" else "re-nomatch")
        else if !(c.domains.any (fun d => hostMatches u.host d)) then "domain-nomatch"
        else if c.patterns.length < 1 then "accept-domain"
        else if m then "accept-both" else "re-nomatch"

def findCfg (st : St) (name : String) : Option Cfg := st.find? (fun c => c.name == name)

def cfgOp (st : St) : List String → St × String
  | [name, d, np] =>
    match unhexList d, np.toNat? with
    | some doms, some n => (st ++ [mkCfg name doms n], "ok")
    | _, _ => (st, "bad-op")
  | _ => (st, "bad-op")

def zipRes : St → List String → Option (List (Cfg × List (Option Bool)))
  | [], [] => some []
  | c :: cs, r :: rs =>
    match parseRes r, zipRes cs rs with
    | some res, some rest => if res.length = c.client.patterns.length then some ((c, res) :: rest) else none
    | _, _ => none
  | _, _ => none

/-- `dec e scheme host rawq path res₁ … resₙ` ↦ per client `<A|R|E><cors>/<why>` and `g<generic cors>` -/
def decOp (st : St) (fs : List String) : String :=
  match parseParsed (fs.take 5), zipRes st (fs.drop 5) with
  | some p, some crs =>
    let parts := crs.map fun (c, res) =>
      verdictStr (decide (oracle res) c.client p) ++ boolStr (corsAllowed c.client.domains p) ++ "/" ++
        why (oracle res) c.client p
    " ".intercalate parts ++ " g" ++ boolStr (genericCorsAllowed (st.map (·.client)) p)
  | _, _ => "bad-op"

def parseOp : List String → String
  | [h] =>
    match unhexC h with
    | some s =>
      match goParse s with
      | none => "1 - - - -"
      | some p => s!"0 {hexC p.scheme} {hexC p.host} {hexC p.rawQuery} {hexC p.path}"
    | none => "bad-op"
  | _ => "bad-op"

def modelStep (st : St) : List String → St × String
  | "cfg" :: rest => cfgOp st rest
  | "dec" :: rest => (st, decOp st rest)
  | "parse" :: rest => (st, parseOp rest)
  | _ => (st, "bad-op")

/-! ### judge: the predicates of c13_decision / c13_string / c13_cors on what the real code returned -/

def bhStr : BHost → String
  | .fail => "fail" | .domain h => "domain:" ++ hexC h | .ipv6 h => "ipv6:" ++ hexC h

/-- the browser goes nowhere, or to the host Go matched (lower-cased) -/
def agrees (s host : List Char) : Bool :=
  browserHost s == .fail || browserHost s == .domain (lower host) || browserHost s == .ipv6 (lower host)

/-- the host the browser ends at is a configured domain or a dot-subdomain of one -/
def browserInDomains (s : List Char) (doms : List (List Char)) : Bool :=
  match browserHost s with
  | .fail => true
  | .domain h => doms.any (fun d => hostMatches h (lower d))
  | .ipv6 h => doms.any (fun d => hostMatches h (lower d))

def problems (l : List (Bool × String)) : String :=
  match (l.filter (fun x => !x.1)).map (·.2) with
  | [] => "ok"
  | ps => "viol " ++ ",".intercalate ps

/-- `acc name url res scheme host rawq path`: the real `CanRedirectToURL` accepted `url` -/
def accOp (st : St) : List String → String
  | [name, hu, r, a, b, c, d] =>
    match findCfg st name, unhexC hu, parseRes r, parseParsed ["0", a, b, c, d] with
    | some cfg, some s, some res, some (some u) =>
      let doms := cfg.client.domains
      let v := problems [
        (u.scheme == https, "scheme-not-https"),
        (u.rawQuery == [], "has-query"),
        (!hasDotDot u.path, "dotdot-in-path"),
        (u.host != [], "empty-host"),
        (doms.isEmpty || doms.any (fun dm => hostMatches u.host dm), "host-not-in-domains"),
        (res.isEmpty || res.any (· == some true), "no-pattern-matched"),
        (!(doms.isEmpty && res.isEmpty), "no-config"),
        (agrees s u.host, "browser-host-differs"),
        (doms.isEmpty || browserInDomains s doms, "browser-host-not-in-domains")]
      v ++ " browser=" ++ bhStr (browserHost s)
    | _, _, _, _ => "bad-op"
  | _ => "bad-op"

/-- `cors name url scheme host` / `gcors url scheme host`: the real CORS test answered true -/
def corsJudge (doms : List (List Char)) (s scheme host : List Char) : String :=
  problems [
    (scheme == https, "scheme-not-https"),
    (doms.any (fun dm => hostMatches host dm), "host-not-in-domains"),
    (agrees s host, "browser-host-differs"),
    (browserInDomains s doms, "browser-host-not-in-domains")]

def corsOp (st : St) : List String → String
  | [name, hu, a, b] =>
    match findCfg st name, unhexC hu, unhexC a, unhexC b with
    | some cfg, some s, some sc, some h => corsJudge cfg.client.domains s sc h
    | _, _, _, _ => "bad-op"
  | _ => "bad-op"

def gcorsOp (st : St) : List String → String
  | [hu, a, b] =>
    match unhexC hu, unhexC a, unhexC b with
    | some s, some sc, some h => corsJudge (st.flatMap (·.client.domains)) s sc h
    | _, _, _ => "bad-op"
  | _ => "bad-op"

def hexLow (n : Nat) : Char := hexDigit n

/-- net/http `hexEscapeNonASCII` on bytes -/
def escNonASCII (l : List Char) : List Char :=
  l.flatMap fun c => if c.toNat < 0x80 then [c] else ['%', hexLow (c.toNat / 16 % 16), hexLow (c.toNat % 16)]

/-- `loc name url location gohost`: the authorize handler answered 302 with this `Location`;
`gohost` is the `Hostname()` Go reported for the redirect_uri -/
def locOp (st : St) : List String → String
  | [name, hu, hl, hh] =>
    match findCfg st name, unhexC hu, unhexC hl, unhexC hh with
    | some cfg, some s, some loc, some host =>
      let doms := cfg.client.domains
      let pre := escNonASCII s ++ "?code=".toList
      problems [
        (pre.isPrefixOf loc, "location-is-not-redirect-uri-plus-code"),
        (host != [], "empty-host"),
        (agrees loc host, "location-browser-host-differs"),
        (browserHost loc == browserHost s, "location-host-differs-from-redirect-uri-host"),
        (doms.isEmpty || browserInDomains loc doms, "location-host-not-in-domains")]
    | _, _, _, _ => "bad-op"
  | _ => "bad-op"

def judgeStep (st : St) : List String → St × String
  | "cfg" :: rest => cfgOp st rest
  | "acc" :: rest => (st, accOp st rest)
  | "cors" :: rest => (st, corsOp st rest)
  | "gcors" :: rest => (st, gcorsOp st rest)
  | "loc" :: rest => (st, locOp st rest)
  | _ => (st, "bad-op")

def handler (mode : String) : Option Handler :=
  if mode == "model" then some { σ := St, init := [], step := modelStep }
  else if mode == "judge" then some { σ := St, init := [], step := judgeStep }
  else none

end KM.Driver.C13
