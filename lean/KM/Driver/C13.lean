import KM.Driver.Core
/-! Driver for C13 (stub until the property's model is built). -/
namespace KM.Driver.C13

def handler (_mode : String) : Option Handler := none

end KM.Driver.C13
