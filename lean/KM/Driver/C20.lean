import KM.Driver.Core
/-! Driver for C20 (stub until the property's model is built). -/
namespace KM.Driver.C20

def handler (_mode : String) : Option Handler := none

end KM.Driver.C20
