import KM.Driver.Core
import KM.Model.Events
/-! Driver for C20.  Three op streams share one handler (first field selects the stream):

* `n …` notifier ops against `harness/eventnotifier`;
* `r …` recorder ops against `harness/eventrecorder`;
* `i …` issuing-path ops against `harness/keymasterd/zz_verif_c20_test.go`.

`judge` evaluates the predicates of the C20 theorems on what the implementation returned. -/
namespace KM.Driver.C20
open KM.Util KM.Events

/-! ### helpers -/

def joinWith (sep : String) (l : List String) : String :=
  if l.isEmpty then "-" else sep.intercalate l

def splitList (sep : String) (s : String) : List String :=
  if s == "-" then [] else s.splitOn sep

def canon (e : EventV0) : String :=
  s!"{e.type},{hexB e.certData},{hex e.authType},{hex e.serviceProviderUrl},{hex e.username},{hex e.vipAuthType}"

def parsePub : List String → Option PubCall
  | ["ssh", h] => (unhexB h).map .ssh
  | ["x509", h] => (unhexB h).map .x509
  | ["auth", a, u] => do pure (.auth (← unhex a) (← unhex u))
  | ["sp", url, u] => do pure (.spLogin (← unhex url) (← unhex u))
  | ["web", u] => do pure (.webLogin (← unhex u))
  | ["vip", v, u] => do pure (.vipAuth (← unhex v) (← unhex u))
  | _ => none

def insertSorted (k : Nat) : List Nat → List Nat
  | [] => [k]
  | a :: r => if k < a then k :: a :: r else if k = a then a :: r else a :: insertSorted k r

/-! ### notifier stream -/

/-- driver state kept as data (tables), turned into the model's function-valued `St` for each op -/
structure NS where
  keys : List Nat := []
  qt : List (Nat × List String) := []
  gt : List (Nat × List String) := []
  ids : List Nat := []               -- subscribers whose state is reported (ascending)
  kinds : List (Nat × Nat) := []     -- 1 gated, 2 free-running, 3 stalled (not modelled)
  blocked : List Nat := []           -- gated subscribers sitting in a held write

def NS.st (ns : NS) : St String :=
  { keys := ns.keys, q := fun k => (ns.qt.lookup k).getD [], got := fun k => (ns.gt.lookup k).getD [] }

def NS.kind (ns : NS) (k : Nat) : Nat := (ns.kinds.lookup k).getD 0

/-- work state of one op -/
structure NW where
  st : St String
  blocked : List Nat

def drainAll (s : St String) (k : Nat) : Nat → St String
  | 0 => s
  | n + 1 => drainAll (step chanCap s (.recv k)) k n

/-- what the connection goroutine does on its own after a state change: a free-running reader
empties its channel; a gated one takes one event and then sits in the (held) write -/
def settle1 (ns : NS) (w : NW) (k : Nat) : NW :=
  if ns.kind k == 2 then { w with st := drainAll w.st k (w.st.q k).length }
  else if ns.kind k == 1 && !w.blocked.contains k && !(w.st.q k).isEmpty then
    { st := step chanCap w.st (.recv k), blocked := k :: w.blocked }
  else w

def settle (ns : NS) (w : NW) : NW := ns.ids.foldl (settle1 ns) w

def NS.put (ns : NS) (w : NW) : NS :=
  { ns with keys := w.st.keys, qt := ns.ids.map fun k => (k, w.st.q k), gt := ns.ids.map fun k => (k, w.st.got k),
            blocked := w.blocked.filter ns.ids.contains }

def nstatus (ns : NS) : String :=
  "box=1" ++ String.join (ns.ids.map fun k => s!" {k}:{(ns.st.q k).length}:{(ns.st.got k).length}")

def npubW (ns : NS) (w : NW) (pc : PubCall) : NW :=
  settle ns { w with st := step chanCap w.st (.pub (canon (mkEvent pc))) }

def nfloodW (ns : NS) (url : String) : Nat → NW → NW
  | 0, w => w
  | n + 1, w => nfloodW ns url n (npubW ns w (.spLogin url "flood"))

def NS.work (ns : NS) : NW := { st := ns.st, blocked := ns.blocked }

def nstep (ns : NS) : List String → NS × String
  | ["sub", id, k] =>
    match id.toNat?, k with
    | some i, "stall" => ({ ns with kinds := (i, 3) :: ns.kinds.filter (·.1 != i) }, nstatus ns)
    | some i, _ =>
      if k == "gated" || k == "free" || k == "tcp" || k == "pipe" then
        -- `pipe` (ServeHTTP on an unbuffered connection read by a slow monitor) is a held writer like `gated`
        let ns1 := { ns with ids := insertSorted i ns.ids,
                             kinds := (i, if k == "gated" || k == "pipe" then 1 else 2) :: ns.kinds.filter (·.1 != i),
                             blocked := ns.blocked.filter (· != i) }
        let ns' := ns1.put { st := step chanCap ns.st (.sub i), blocked := ns1.blocked }
        (ns', nstatus ns')
      else (ns, "bad-op")
    | none, _ => (ns, "bad-op")
  | "pub" :: rest =>
    match parsePub rest with
    | some pc => let ns' := ns.put (npubW ns ns.work pc); (ns', nstatus ns')
    | none => (ns, "bad-op")
  | ["flood", n, size] =>
    match n.toNat?, size.toNat? with
    | some n, some sz =>
      let ns' := ns.put (nfloodW ns (String.ofList (List.replicate sz 'x')) n ns.work)
      (ns', nstatus ns')
    | _, _ => (ns, "bad-op")
  | ["release", id] =>
    match id.toNat? with
    | some i =>
      let ns' := ns.put (settle ns { st := ns.st, blocked := ns.blocked.filter (· != i) })
      (ns', nstatus ns')
    | none => (ns, "bad-op")
  | ["close", id] =>
    match id.toNat? with
    | some i =>
      if ns.kind i == 3 then ({ ns with kinds := ns.kinds.filter (·.1 != i) }, "closed " ++ nstatus ns)
      else if ns.kind i == 0 then (ns, "bad-op")
      else
        let out := s!"closed {i}={joinWith "|" (ns.st.got i)}"
        let ns1 := { ns with ids := ns.ids.filter (· != i), kinds := ns.kinds.filter (·.1 != i) }
        let ns' := ns1.put { st := step chanCap ns.st (.unsub i), blocked := ns.blocked }
        (ns', out ++ " " ++ nstatus ns')
    | none => (ns, "bad-op")
  | ["dump"] =>
    (ns, "dump" ++ String.join (ns.ids.map fun k => s!" {k}={joinWith "|" (ns.st.got k)}"))
  | _ => (ns, "bad-op")

/-! ### recorder stream -/

def evStr (e : Event) : String :=
  s!"{e.authType}.{e.createTime}.{e.lifetimeSeconds}.{hex (String.ofList e.serviceProviderUrl)}.{boolStr e.ssh}.{boolStr e.webLogin}.{boolStr e.x509}.{e.vipAuthType}"

def parseEv (s : String) : Option Event :=
  match s.splitOn "." with
  | [a, ct, l, url, sh, w, x, v] => do
    pure { authType := ← a.toNat?, createTime := ← ct.toNat?, lifetimeSeconds := ← l.toNat?,
           serviceProviderUrl := (← unhex url).toList, ssh := ← parseBool sh, webLogin := ← parseBool w,
           x509 := ← parseBool x, vipAuthType := ← v.toNat? }
  | _ => none

def parseEvs (s : String) : Option (List Event) := (splitList "|" s).mapM parseEv

/-- `fn/fo` -/
def parseDL (s : String) : Option DL :=
  match s.splitOn "/" with
  | [a, b] => do pure ⟨← parseEvs a, ← parseEvs b⟩
  | _ => none

def dlStr (l : DL) : String := joinWith "|" (l.fn.map evStr) ++ "/" ++ joinWith "|" (l.fo.map evStr)

def insertStr (k : String) : List String → List String
  | [] => [k]
  | a :: r => if k < a then k :: a :: r else if k = a then a :: r else a :: insertStr k r

/-- The model's maps are functions; the driver keeps them as tables (data) between ops so that
a lookup never re-runs the op history. -/
abbrev Tbl (β : Type) := List (String × Option β)

def ofTbl {β : Type} (t : Tbl β) : String → Option β := fun v => (t.lookup v).getD none

def toTbl {β : Type} (users : List String) (m : String → Option β) : Tbl β := users.map fun u => (u, m u)

structure RS where
  m : Tbl DL := []
  users : List String := []
  file : Option (Tbl (List Event)) := none
  fileUsers : List String := []

def blankEvent (ct : Nat) : Event :=
  { authType := 0, createTime := ct, lifetimeSeconds := 0, serviceProviderUrl := [], ssh := false,
    webLogin := false, x509 := false, vipAuthType := 0 }

def rrec (rs : RS) (u : String) (e : Event) : RS × String :=
  ({ rs with m := toTbl (insertStr u rs.users) (record (ofTbl rs.m) u e), users := insertStr u rs.users },
   s!"ok {e.createTime} {e.lifetimeSeconds}")

def rstep (rs : RS) : List String → RS × String
  | ["base", t] => (rs, s!"base {t}")
  | ["reset"] => ({}, "reset")
  | ["rec", u, "auth", a, v, ct] =>
    match a.toNat?, v.toNat?, ct.toNat? with
    | some a, some v, some ct => rrec rs u { blankEvent ct with authType := a, vipAuthType := v }
    | _, _, _ => (rs, "bad-op")
  | ["rec", u, "sp", url, ct] =>
    match unhex url, ct.toNat? with
    | some url, some ct => rrec rs u { blankEvent ct with serviceProviderUrl := url.toList }
    | _, _ => (rs, "bad-op")
  | ["rec", u, "web", ct] =>
    match ct.toNat? with
    | some ct => rrec rs u { blankEvent ct with webLogin := true }
    | none => (rs, "bad-op")
  | ["rec", u, "cert", k, ms, ct] =>
    match ms.toNat?, ct.toNat? with
    | some ms, some ct =>
      if k == "ssh" || k == "x509" then
        rrec rs u { blankEvent ct with lifetimeSeconds := roundLifetime ms, ssh := k == "ssh", x509 := k == "x509" }
      else (rs, "bad-op")
    | _, _ => (rs, "bad-op")
  | ["snap"] =>
    (rs, "snap" ++ String.join (rs.users.map fun u => s!" {u}={dlStr ((ofTbl rs.m u).getD DL.empty)}"))
  | ["save"] => ({ rs with file := some (toTbl rs.users (save (ofTbl rs.m))), fileUsers := rs.users }, "saved")
  | ["load", now] =>
    match now.toInt? with
    | some now =>
      match rs.file with
      | some f => ({ rs with m := toTbl rs.fileUsers (load now (ofTbl f)), users := rs.fileUsers }, "loaded")
      | none => ({ rs with m := [], users := [] }, "loaded")
    | none => (rs, "bad-op")
  | ["expire", now] =>
    match now.toInt? with
    | some now =>
      let m' := toTbl rs.users (expire now (ofTbl rs.m))
      let changed := rs.users.any fun u => decide (((ofTbl m' u).map DL.snapshot) ≠ ((ofTbl rs.m u).map DL.snapshot))
      ({ rs with m := m' }, s!"expired {boolStr changed}")
    | none => (rs, "bad-op")
  | _ => (rs, "bad-op")

/-! ### event-loop stream (`l …`): several recorders, each a `Loop`, kept as data -/

structure LD where
  m : Tbl DL := []
  users : List String := []
  file : Tbl (List Event) := []
  fileUsers : List String := []
  armed : Bool := false
  cached : Bool := true
  since : Option Int := none

def LD.toLoop (d : LD) : Loop :=
  { m := ofTbl d.m, file := ofTbl d.file, armed := d.armed, cached := d.cached, since := d.since }

/-- apply one model step and store the result as data again (`users'`, `fileUsers'`: key sets afterwards) -/
def LD.apply (d : LD) (op : LoopOp) (users' fileUsers' : List String) : LD :=
  let s := loopStep d.toLoop op
  { m := toTbl users' s.m, users := users', file := toTbl fileUsers' s.file, fileUsers := fileUsers',
    armed := s.armed, cached := s.cached, since := s.since }

def LD.tick (d : LD) : LD := d.apply .tick d.users (if d.armed then d.users else d.fileUsers)

abbrev LS := List (Nat × LD)

def lsGet (ls : LS) (i : Nat) : Option LD := ls.lookup i
def lsSet (ls : LS) (i : Nat) (d : LD) : LS := (i, d) :: ls.filter (·.1 != i)

def lrec (ls : LS) (sid : String) (u : String) (e : Event) : LS × String :=
  match sid.toNat? with
  | some i =>
    match lsGet ls i with
    | some d => (lsSet ls i (d.apply (.record u e) (insertStr u d.users) d.fileUsers), "ok")
    | none => (ls, "bad-op")
  | none => (ls, "bad-op")

def lstep (ls : LS) : List String → LS × String
  | ["base", t] => (ls, s!"base {t}")
  | ["new", sid] =>
    match sid.toNat? with
    | some i => (lsSet ls i {}, "new")
    | none => (ls, "bad-op")
  | ["rec", sid, u, "auth", a, v, ct] =>
    match a.toNat?, v.toNat?, ct.toNat? with
    | some a, some v, some ct => lrec ls sid u { blankEvent ct with authType := a, vipAuthType := v }
    | _, _, _ => (ls, "bad-op")
  | ["rec", sid, u, "sp", url, ct] =>
    match unhex url, ct.toNat? with
    | some url, some ct => lrec ls sid u { blankEvent ct with serviceProviderUrl := url.toList }
    | _, _ => (ls, "bad-op")
  | ["rec", sid, u, "web", ct] =>
    match ct.toNat? with
    | some ct => lrec ls sid u { blankEvent ct with webLogin := true }
    | none => (ls, "bad-op")
  | ["rec", sid, u, "cert", k, life, ct] =>
    match life.toNat?, ct.toNat? with
    | some life, some ct =>
      if k == "ssh" || k == "x509" then
        lrec ls sid u { blankEvent ct with lifetimeSeconds := life, ssh := k == "ssh", x509 := k == "x509" }
      else (ls, "bad-op")
    | _, _ => (ls, "bad-op")
  | ["query", sid] =>
    match sid.toNat? with
    | some i =>
      match lsGet ls i with
      | some d =>
        let d' := d.apply .query d.users d.fileUsers
        (lsSet ls i d', "q" ++ String.join (d'.users.map fun u =>
          s!" {u}={joinWith "|" (((ofTbl d'.m u).getD DL.empty).snapshot.map evStr)}"))
      | none => (ls, "bad-op")
    | none => (ls, "bad-op")
  | ["wait"] => (ls.map fun p => (p.1, p.2.tick), "waited")
  | ["restart", sid, now] =>
    match sid.toNat?, now.toInt? with
    | some i, some now =>
      match lsGet ls i with
      | some d => (lsSet ls i (d.apply (.restart now) d.fileUsers d.fileUsers), "restarted")
      | none => (ls, "bad-op")
    | _, _ => (ls, "bad-op")
  | _ => (ls, "bad-op")

/-! ### issuing-path stream -/

structure IS where
  st : St String := St.empty
  fast : List Nat := []
  seen : Nat → Nat := fun _ => 0

def certType (kind : String) : Option String :=
  if kind == "ssh" then some KM.Gen.eventmonEventTypeSSHCert
  else if kind == "x509" || kind == "x509-kubernetes" || kind == "role" || kind == "refresh" || kind == "aws" then
    some KM.Gen.eventmonEventTypeX509Cert
  else none

/-- publish the events, let every fast subscriber read, report what each received since the last op -/
def ipublish (s : IS) (evs : List String) : IS × String :=
  let st1 := evs.foldl (fun st e => s.fast.foldl (fun st k => step chanCap st (.recv k)) (step chanCap st (.pub e))) s.st
  let out := String.join (s.fast.map fun k => s!" {k}:{joinWith "+" ((st1.got k).drop (s.seen k))}")
  ({ s with st := st1, seen := fun k => (st1.got k).length }, out)

def istep (s : IS) : List String → IS × String
  | ["sub", id, k] =>
    match id.toNat? with
    | some i =>
      if k == "fast" then
        ({ s with st := step chanCap s.st (.sub i), fast := insertSorted i s.fast, seen := setAt s.seen i 0 }, "ok")
      else if k == "stall" then (s, "ok") else (s, "bad-op")
    | none => (s, "bad-op")
  | ["close", id] =>
    match id.toNat? with
    | some i => ({ s with st := step chanCap s.st (.unsub i), fast := s.fast.filter (· != i) }, "ok")
    | none => (s, "bad-op")
  | ["issue", kind, _variant, status] =>
    match certType kind with
    | some ty =>
      if status == "200" then
        let (s', out) := ipublish s [s!"{ty};1"]
        (s', s!"status=200 order=before box=1{out}")
      else
        let (s', out) := ipublish s []
        (s', s!"status={status} order=na box=1{out}")
    | none => (s, "bad-op")
  | ["login", user, ok] =>
    if ok == "1" then
      let (s', out) := ipublish s [s!"{KM.Gen.eventmonEventTypeAuth};{KM.Gen.eventmonAuthTypePassword},{user}",
                                   s!"{KM.Gen.eventmonEventTypeWebLogin};{user}"]
      (s', s!"ok=1 box=1{out}")
    else
      let (s', out) := ipublish s []
      (s', s!"ok=0 box=1{out}")
  | ["flood", n, _size] =>
    match n.toNat? with
    | some n =>
      let (s', out) := ipublish s (List.replicate n s!"{KM.Gen.eventmonEventTypeServiceProviderLogin};flood")
      (s', s!"box=1{out}")
    | none => (s, "bad-op")
  | _ => (s, "bad-op")

/-! ### handler -/

structure MS where
  n : NS := {}
  r : RS := {}
  i : IS := {}
  l : LS := []

def mstep (s : MS) : List String → MS × String
  | "n" :: rest => let (n', o) := nstep s.n rest; ({ s with n := n' }, o)
  | "r" :: rest => let (r', o) := rstep s.r rest; ({ s with r := r' }, o)
  | "i" :: rest => let (i', o) := istep s.i rest; ({ s with i := i' }, o)
  | "l" :: rest => let (l', o) := lstep s.l rest; ({ s with l := l' }, o)
  | _ => (s, "bad-op")

/-! ### judge: the predicates of the theorems, on what the implementation returned -/

/-- c20_drop_only_when_full / c20_delivery: the events handed to a subscriber are the published
ones minus exactly those published while its channel held `N` events -/
def judgeDeliv (N : Nat) (qlens : List Nat) (pubs handed : List String) : String :=
  if qlens.length != pubs.length then "bad-op"
  else
    let expected := ((pubs.zip qlens).filter fun p => p.2 < N).map (·.1)
    let full := (qlens.filter fun l => N ≤ l).length
    if handed == expected then "ok"
    else if handed.length + full != pubs.length then
      s!"viol lost={pubs.length - handed.length} full-at-publish={full}"
    else "viol order-or-content"

/-- first position at which two lists differ (or the shorter one ends) -/
def firstDiff : List String → List String → Nat
  | a :: r, b :: t => if a == b then firstDiff r t + 1 else 0
  | _, _ => 0

/-- c20_slow_subscriber_prefix / c20_delivery, on the bytes a (slow) monitor read off its connection: the events
it has decoded so far are, one for one and in order, the first ones of the published sequence minus exactly those
published while its channel held `N` events; once nothing is left in the channel or in the handler's hands
(`complete`), they are all of them.  `pubs` are the Publish* calls themselves (`ssh:<hex>`, `auth:<hex>:<hex>`, …):
what the monitor must see is `mkEvent` of each, every byte of it. -/
def judgeWire (N : Nat) (qlens : List Nat) (pubs : List PubCall) (complete : Bool) (handed : List String) : String :=
  if qlens.length != pubs.length then "bad-op"
  else
    let expected := ((pubs.zip qlens).filter fun p => p.2 < N).map fun p => canon (mkEvent p.1)
    if handed == expected then "ok"
    else if handed.isPrefixOf expected then
      (if complete then s!"viol lost={expected.length - handed.length} of {expected.length}" else "ok")
    else if handed.length > expected.length && expected.isPrefixOf handed then
      s!"viol unpublished-events={handed.length - expected.length}"
    else s!"viol content at={firstDiff handed expected}"

/-- c20_saveload -/
def judgeSaveLoad (now : Int) (before after : DL) : String :=
  if after.fn != before.fn.filter (keep now) then
    (if after.fn == (before.fn.filter (keep now)).reverse then "viol reversed"
     else if after.fn.length < (before.fn.filter (keep now)).length then
       s!"viol lost={(before.fn.filter (keep now)).length - after.fn.length} of {(before.fn.filter (keep now)).length}"
     else "viol content")
  else if !decide after.wf then "viol pointers-inconsistent"
  else "ok"

/-- c20_expire -/
def judgeExpire (now : Int) (before after : DL) : String :=
  let n := after.fn.length
  if after.fn != before.fn.take n then "viol not-a-prefix"
  else if (before.fn.drop n).any (keep now) then "viol dropped-young-entry"
  else if (match after.fn.getLast? with | some e => !keep now e | none => false) then "viol kept-expired-oldest"
  else if !decide after.wf then "viol pointers-inconsistent"
  else "ok"

/-- c20_loop_persist: what a restart brings back is the history from before it, minus expired entries -/
def judgePersist (now : Int) (before after : List Event) : String :=
  if after == before.filter (keep now) then "ok"
  else if after.length < (before.filter (keep now)).length then
    s!"viol lost={(before.filter (keep now)).length - after.length}"
  else "viol content-or-order"

/-- c20_load_expire_agree, on what the implementation produced from one and the same history under one
clock: the list left by expireOldEvents and the list brought back by save + loadEvents -/
def judgeLoadExpire (afterLoad afterExpire : List Event) : String :=
  if afterLoad == afterExpire then "ok"
  else s!"viol restart-keeps={afterLoad.length} expiry-keeps={afterExpire.length}"

def judge : List String → String
  | ["loadexpire", a, b] =>
    match parseEvs a, parseEvs b with
    | some a, some b => judgeLoadExpire a b
    | _, _ => "bad-op"
  | ["persist", now, b, a] =>
    match now.toInt?, parseEvs b, parseEvs a with
    | some now, some b, some a => judgePersist now b a
    | _, _, _ => "bad-op"
  | ["deliv", n, qlens, pubs, handed] =>
    match n.toNat?, (splitList "," qlens).mapM String.toNat? with
    | some n, some ql => judgeDeliv n ql (splitList "|" pubs) (splitList "|" handed)
    | _, _ => "bad-op"
  | ["wire", n, qlens, pubs, complete, handed] =>
    match n.toNat?, (splitList "," qlens).mapM String.toNat?,
          (splitList "|" pubs).mapM (fun t => parsePub (t.splitOn ":")), parseBool complete with
    | some n, some ql, some pcs, some c => judgeWire n ql pcs c (splitList "|" handed)
    | _, _, _, _ => "bad-op"
  | ["saveload", now, b, a] =>
    match now.toInt?, parseDL b, parseDL a with
    | some now, some b, some a => judgeSaveLoad now b a
    | _, _, _ => "bad-op"
  | ["expire", now, b, a] =>
    match now.toInt?, parseDL b, parseDL a with
    | some now, some b, some a => judgeExpire now b a
    | _, _, _ => "bad-op"
  | "issued" :: kind :: status :: order :: box :: subs =>
    match certType kind with
    | none => "bad-op"
    | some ty =>
      if box != "1" then "viol issuance-blocked"
      else if status != "200" then "ok"
      else if order != "before" then s!"viol no-event-before-response order={order}"
      else
        match subs.find? (fun t => (t.splitOn ":").getD 1 "" != s!"{ty};1") with
        | some t => s!"viol subscriber {t}"
        | none => "ok"
  | _ => "bad-op"

def handler (mode : String) : Option Handler :=
  if mode == "model" then some { σ := MS, init := {}, step := mstep }
  else if mode == "judge" then some (.pure judge)
  else none

end KM.Driver.C20
