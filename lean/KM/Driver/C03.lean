import KM.Driver.Core
/-! Driver for C03 (stub until the property's model is built). -/
namespace KM.Driver.C03

def handler (_mode : String) : Option Handler := none

end KM.Driver.C03
