import KM.Driver.Core
import KM.Model.Validity
import KM.Gen.C03
/-! Driver for C03.  `model`: what the model predicts for an op of the harness;
`judge`: the property predicates (`sshOK`, `windowOK`, `fixedOK`, `floatSecsAt`) applied to what
the implementation returned. -/
namespace KM.Driver.C03
open KM.Util KM.Validity KM.Dur

def shape : Shape := KM.Gen.C03.shape
def L : Int := KM.Gen.C03.maxCertificateLifetime

def parseReq (s : String) : Option Req :=
  if s == "absent" then some .absent
  else if s == "err" then some .malformed
  else (s.toInt?).map Req.parsed

/-- floor and ceiling of d / 1e9 -/
def floorS (d : Int) : Int := d / ns
def ceilS (d : Int) : Int := -((-d) / ns)

def sshLife (req : Req) (t iat : Int) : Option Int :=
  (sshIssue shape L truncSecs req t t iat).map fun w => w.2 - w.1

def fixedLine (d : Int) (showD : Bool) : String :=
  s!"200 {if showD then toString d else "-"} {floorS d} {ceilS d}"

/-- model mode -/
def model : List String → String
  | ["cg", ty, p, iatLo, iatHi, tb, ta] =>
    match parseReq p, iatLo.toInt?, iatHi.toInt?, tb.toInt?, ta.toInt? with
    | some req, some iLo, some iHi, some tb, some ta =>
      match certgenDuration shape L req ta iLo, certgenDuration shape L req tb iHi with
      | .reject s, .reject _ => s!"{s} - -"
      | .issue dLo, .issue dHi =>
        if ty == "ssh" then
          match sshLife req ta iLo, sshLife req tb iHi with
          | some lo, some hi => s!"200 {lo} {hi}"
          | _, _ => "stuck"
        else if ty == "x509" || ty == "k8s" then s!"200 {floorS dLo} {ceilS dHi}"
        else "bad-op"
      | _, _ => "stuck"
    | _, _, _, _, _ => "bad-op"
  | ["ca", _] => "ok"   -- the CA certificates' own validity is no input of the model
  | ["role"] => fixedLine KM.Gen.C03.maxRoleRequestingCertDuration true
  | ["role", kind, p] =>
    match p.toInt? with
    | some p =>
      let srcs := if kind == "refresh" then KM.Gen.C03.roleRefreshDur
                  else if kind == "handler" || kind == "direct" then KM.Gen.C03.roleHandlerDur
                  else [RoleAssign.unknown]
      match roleDuration srcs KM.Gen.C03.maxRoleRequestingCertDuration p with
      | .dur d =>
        -- a presented certificate with NotAfter ≤ NotBefore is expired on arrival: checkAuth's
        -- revocation test (cfssl revoke.VerifyCertificateError) refuses it with 403; the parser,
        -- called directly by the harness, still reports its Duration
        if kind == "refresh" && p ≤ 0 then s!"403 {d} - -" else fixedLine d true
      | .unset => "200 0 0 0"
      | .stuck => "stuck"
    | none => "bad-op"
  | ["aws"] => fixedLine KM.Gen.C03.awsTemplateLifetime false
  | ["secs", n] =>
    match n.toInt? with
    | some d => toString ((truncSecs d) % two64)
    | none => "bad-op"
  | _ => "bad-op"

def verdict (b : Bool) (what : String) : String := if b then "ok" else s!"viol {what}"

/-- judge mode -/
def judge : List String → String
  | ["ca", _] => "ok"
  | ["cg", ty, p, iat, tb, ta, status, va, vb] =>
    match parseReq p, iat.toInt?, tb.toInt?, ta.toInt? with
    | some req, some iat, some tb, some ta =>
      if status == "PANIC" then "viol handler-panicked"
      else if status != "200" then "ok"       -- nothing was issued
      else match va.toInt?, vb.toInt? with
        | some va, some vb =>
          if ty == "ssh" then
            verdict (sshOK req iat tb ta va vb)
              s!"ssh ValidAfter={va} ValidBefore={vb} lifetime={vb - va}s"
          else if ty == "x509" || ty == "k8s" then
            verdict (windowOK req iat tb ta va vb)
              s!"x509 NotBefore={va} NotAfter={vb} lifetime={vb - va}s"
          else "bad-op"
        | _, _ => "viol issued-but-undecodable"
    | _, _, _, _ => "bad-op"
  | [kind, _tb, ta, status, nb, na] =>
    if kind != "role" && kind != "aws" then "bad-op" else
    match ta.toInt? with
    | some ta =>
      if status == "PANIC" then "viol handler-panicked"
      else if status != "200" then "ok"
      else match nb.toInt?, na.toInt? with
        | some nb, some na =>
          verdict (fixedOK (if kind == "role" then roleCap else awsCap) ta nb na)
            s!"{kind} NotBefore={nb} NotAfter={na} lifetime={na - nb}s"
        | _, _ => "viol issued-but-undecodable"
    | none => "bad-op"
  | ["secs", n, v] =>
    match n.toInt?, v.toInt? with
    | some d, some u =>
      if u < 0 || u ≥ two64 then "bad-op"
      else verdict (floatSecsAt d (if u ≥ two63 then u - two64 else u)) s!"uint64(Duration({d}).Seconds())={u}"
    | _, _ => "bad-op"
  | _ => "bad-op"

def handler (mode : String) : Option Handler :=
  if mode == "model" then some (.pure model)
  else if mode == "judge" then some (.pure judge)
  else none

end KM.Driver.C03
