import KM.Driver.Core
import KM.Model.PwCache
/-! Driver for C07. One op language for both harnesses (real LDAP authenticator over a reference
store in `lib/pwauth/ldap`; real authenticator + real `RuntimeState` storage + `loginHandler` in
`cmd/keymasterd`). Users `0` alice, `1` bob (in the directory), `2` carol (never in it);
passwords `1…5`, `0` = empty. Times in hours relative to the virtual clock.

* `seq <id>`                        fresh state: servers `[up, up]`, bind patterns `[e]`, alice ↦ 1, bob ↦ 2, primary up, stores empty
* `pats <e|n|m>…`                   configured bind patterns in order: `e` names the user's entry, `n` a well-formed DN without
                                    entry (invalidCredentials), `m` a name the directory answers with invalidDNSyntax
* `login <u> <pw> <l|u|m|L|U|M|1|2|3>`  name in lower / upper / mixed case (normalised away by the application): form fields
                                    or (capitals) basic auth at `loginHandler`, or (digits) basic auth without cookie through `checkAuth`
* `acct <u> <ok|530|531|532|533|701|773|775>`  the account becomes usable / unusable in the directory (the number is the Active
                                    Directory sub-code the refusal then carries: logon not permitted, password expired, disabled,
                                    expired, must reset, locked out); the model only knows usable or not
* `diag <plain|ad|noisy>`           what the directory writes into the diagnostic message of its invalidCredentials refusals
                                    (nothing / `… AcceptSecurityContext error, data NNN, v3839` / misleading prose): no effect in the model
* `ht <u> <pw> <variant>`           the same request with the htpasswd backend configured instead (file entries `alice` ↦ 1,
                                    legacy mixed-case `Alice` ↦ 2, `bob` ↦ 2); cmd/keymasterd harness only
* `srv <i> <up|down|hang|err<code>>` · `chpw <u> <pw|->` · `anon <0|1>` · `adv <hours>` · `prim <up|slow|down>` · `sync`
* `tamper <p|c> <u> del` | `colexp <h>` | `foreign <pw> <h>` | `other <pw> <h>` | `save <slot>` | `restore <slot>`

Output of every op: `<A|R|-> <bind trace> <P0> <C0> <P1> <C1>`; a row is `-` or
`s<subject>:p<pw>:t<type>:v<verifies>:e<signed expiry − now>:c<column expiry − now>` (hours).
The bind trace lists the servers that answered a bind: `<i>+` success, `<i>-` invalid credentials,
`<i>e` other result code; `-` when none did.

Modes: `model`; `judge` (input `<op…> => <implementation output…>`: the property predicates of
`KM.Props.C07` evaluated on what the real code did, with the directory's own record of which
logins it confirmed and when). -/
namespace KM.Driver.C07
open KM.Util KM.PwCache

def hour : Nat := 3600
def epoch0 : Nat := 1000000 * hour

structure St where
  s : State := init
  vault : Nat → Option Rec := fun _ => none

def parseSrv (t : String) : Option Srv :=
  if t == "up" then some .up
  else if t == "down" || t == "hang" then some .down
  else if t.startsWith "err" then some .err
  else none

def parsePat (t : String) : Option Pat :=
  if t == "e" then some .entry else if t == "n" then some .noEntry else if t == "m" then some .malformed else none

def parsePats : List String → Option (List Pat)
  | [] => some []
  | t :: rest => do
    let p ← parsePat t
    let r ← parsePats rest
    pure (p :: r)

/-- `ok` = usable; an Active Directory account-state sub-code = not usable -/
def parseAcct (t : String) : Option Bool :=
  if t == "ok" then some true
  else if ["530", "531", "532", "533", "701", "773", "775"].contains t then some false
  else none

def parsePrim (t : String) : Option Prim :=
  if t == "up" then some .up else if t == "slow" then some .slow else if t == "down" then some .down else none

def parseStore (t : String) : Option Store :=
  if t == "p" then some .primary else if t == "c" then some .cache else none

def relH (now x : Nat) : Int := ((x : Int) - (now : Int)) / (hour : Int)

def rowStr (now : Nat) : Option Rec → String
  | none => "-"
  | some r =>
    s!"s{r.signed.subject}:p{r.signed.pwId}:t{r.signed.type}:v{boolStr r.sigOK}:e{relH now r.signed.exp}:c{relH now r.columnExp}"

def rowsStr (s : State) : String :=
  s!"{rowStr s.now (s.primary 0)} {rowStr s.now (s.cache 0)} {rowStr s.now (s.primary 1)} {rowStr s.now (s.cache 1)}"

/-- binds one reachable server answers, pattern by pattern, up to and including the first verdict;
the flag says whether a verdict was reached -/
def tracePats (s : State) (u : User) (pw : Pw) (i : Nat) : List Pat → String × Bool
  | [] => ("", false)
  | .malformed :: rest => let r := tracePats s u pw i rest; (s!"{i}e" ++ r.1, r.2)
  | .noEntry :: _ => (s!"{i}-", true)
  | .entry :: _ => (if holds s u pw then s!"{i}+" else s!"{i}-", true)

/-- binds the servers answer, in loop order (servers outside, patterns inside) -/
def traceFrom (s : State) (u : User) (pw : Pw) (i : Nat) : List Srv → String
  | [] => ""
  | .down :: rest => traceFrom s u pw (i + 1) rest
  | .err :: rest => String.join (s.pats.map fun _ => s!"{i}e") ++ traceFrom s u pw (i + 1) rest
  | .up :: rest =>
    let r := tracePats s u pw i s.pats
    if r.2 then r.1 else r.1 ++ traceFrom s u pw (i + 1) rest

def trace (s : State) (u : User) (pw : Pw) : String :=
  if pw = 0 then "-" else
  let t := traceFrom s u pw 0 s.srv
  if t.isEmpty then "-" else t

def seqInit : State :=
  { init with srv := [.up, .up], pats := [.entry], now := epoch0,
              dir := fun u => if u = 0 then some 1 else if u = 1 then some 2 else none }

def absH (now : Nat) (h : Int) : Nat := ((now : Int) + h * (hour : Int)).toNat

def getStore (s : State) : Store → User → Option Rec
  | .primary => s.primary
  | .cache => s.cache

def applyOps (st : St) (ops : List Op) : St × String :=
  let s' := KM.PwCache.run st.s ops
  ({ st with s := s' }, s!"- - {rowsStr s'}")

/-! ### htpasswd backend behind the application -/

def baseName (u : Nat) : List Char :=
  if u = 0 then "alice".toList else if u = 1 then "bob".toList else "carol".toList

def capitalise : List Char → List Char
  | [] => []
  | c :: rest => c.toUpper :: rest

/-- the name as the client types it -/
def typedName (u : Nat) (v : String) : Option (List Char) :=
  if v == "l" || v == "L" || v == "1" then some (baseName u)
  else if v == "u" || v == "U" || v == "2" then some ((baseName u).map Char.toUpper)
  else if v == "m" || v == "M" || v == "3" then some (capitalise (baseName u))
  else none

def asciiLower (l : List Char) : List Char := l.map Char.toLower

/-- the htpasswd file of the harness -/
def htFile : List Char → Option HtEntry := fun n =>
  if n = "alice".toList then some { bcrypt2y := true, matchesPw := 1 }
  else if n = "Alice".toList then some { bcrypt2y := true, matchesPw := 2 }
  else if n = "bob".toList then some { bcrypt2y := true, matchesPw := 2 }
  else none

/-- `checkUserPassword` behind `loginHandler` / `checkAuth` with the htpasswd backend -/
def htModel (name : List Char) (pw : Pw) : Res :=
  appCheck (reprocess false asciiLower none) (htpasswdAuth (some htFile)) name pw

def resStr : Res → String
  | .accept => "A" | .reject => "R" | .error => "E"

def modelStep (st : St) : List String → St × String
  | ["seq", _] => ({ s := seqInit }, s!"- - {rowsStr seqInit}")
  | ["login", u, pw, _] =>
    match u.toNat?, pw.toNat? with
    | some u, some pw =>
      let r := login st.s u pw
      ({ st with s := r.1 }, s!"{if r.2 then "A" else "R"} {trace st.s u pw} {rowsStr r.1}")
    | _, _ => (st, "bad-op")
  | ["ht", u, pw, v] =>
    match u.toNat?, pw.toNat?, (u.toNat?.bind fun u => typedName u v) with
    | some _, some pw, some name => (st, s!"{resStr (htModel name pw)} - {rowsStr st.s}")
    | _, _, _ => (st, "bad-op")
  | ["srv", i, t] =>
    match i.toNat?, parseSrv t with
    | some i, some t => applyOps st [.setServer i t]
    | _, _ => (st, "bad-op")
  | ["chpw", u, pw] =>
    match u.toNat?, (if pw == "-" then some none else pw.toNat?.map some) with
    | some u, some pw => applyOps st [.changePw u pw]
    | _, _ => (st, "bad-op")
  | ["acct", u, code] =>
    match u.toNat?, parseAcct code with
    | some u, some ok => applyOps st [.setAccount u ok]
    | _, _ => (st, "bad-op")
  | ["diag", style] =>
    if style == "plain" || style == "ad" || style == "noisy" then applyOps st [] else (st, "bad-op")
  | "pats" :: ks =>
    match parsePats ks with
    | some l => applyOps st [.setPats l]
    | none => (st, "bad-op")
  | ["anon", b] =>
    match parseBool b with
    | some b => applyOps st [.setAnon b]
    | none => (st, "bad-op")
  | ["adv", h] =>
    match h.toNat? with
    | some h => applyOps st [.advance (h * hour)]
    | none => (st, "bad-op")
  | ["prim", p] =>
    match parsePrim p with
    | some p => applyOps st [.setPrim p]
    | none => (st, "bad-op")
  | ["sync"] => applyOps st [.sync]
  | ["tamper", sto, u, "del"] =>
    match parseStore sto, u.toNat? with
    | some sto, some u => applyOps st [.tamper sto u none]
    | _, _ => (st, "bad-op")
  | ["tamper", sto, u, "colexp", h] =>
    match parseStore sto, u.toNat?, h.toInt? with
    | some sto, some u, some h =>
      match getStore st.s sto u with
      | some r => applyOps st [.tamper sto u (some { r with columnExp := absH st.s.now h })]
      | none => applyOps st []
    | _, _, _ => (st, "bad-op")
  | ["tamper", sto, u, "foreign", pw, h] =>
    match parseStore sto, u.toNat?, pw.toNat?, h.toInt? with
    | some sto, some u, some pw, some h =>
      applyOps st [.tamper sto u (some { signed := { subject := u, pwId := pw, exp := absH st.s.now h, type := pwType },
                                         sigOK := false, columnExp := absH st.s.now h })]
    | _, _, _, _ => (st, "bad-op")
  | ["tamper", sto, u, "other", pw, h] =>
    match parseStore sto, u.toNat?, pw.toNat?, h.toInt? with
    | some sto, some u, some pw, some h =>
      let sg : Signed := { subject := u, pwId := pw, exp := absH st.s.now h, type := pwType + 1 }
      applyOps st [.signOther sg, .tamper sto u (some { signed := sg, sigOK := true, columnExp := absH st.s.now h })]
    | _, _, _, _ => (st, "bad-op")
  | ["tamper", sto, u, "save", slot] =>
    match parseStore sto, u.toNat?, slot.toNat? with
    | some sto, some u, some slot =>
      let st' := { st with vault := fun k => if k = slot then getStore st.s sto u else st.vault k }
      applyOps st' []
    | _, _, _ => (st, "bad-op")
  | ["tamper", sto, u, "restore", slot] =>
    match parseStore sto, u.toNat?, slot.toNat? with
    | some sto, some u, some slot =>
      match st.vault slot with
      | some r => applyOps st [.tamper sto u (some r)]
      | none => applyOps st []
    | _, _, _ => (st, "bad-op")
  | _ => (st, "bad-op")

/-! ### judge: the property predicates on what the implementation did -/

/-- a row as the harness observed it -/
structure ORow where
  subj : Nat
  pw : Nat
  type : Nat
  ok : Bool
  e : Int
  c : Int

def dropFirst (s : String) : String := (s.drop 1).toString

def parseRow (t : String) : Option (Option ORow) :=
  if t == "-" then some none else
  match t.splitOn ":" with
  | [s, p, ty, v, e, c] =>
    match (dropFirst s).toNat?, (dropFirst p).toNat?, (dropFirst ty).toNat?, parseBool (dropFirst v),
          (dropFirst e).toInt?, (dropFirst c).toInt? with
    | some s, some p, some ty, some v, some e, some c => some (some { subj := s, pw := p, type := ty, ok := v, e := e, c := c })
    | _, _, _, _, _, _ => none
  | _ => none

structure Rows where
  p0 : Option ORow := none
  c0 : Option ORow := none
  p1 : Option ORow := none
  c1 : Option ORow := none

def Rows.get (r : Rows) (primary : Bool) (u : Nat) : Option ORow :=
  if u = 0 then (if primary then r.p0 else r.c0) else if u = 1 then (if primary then r.p1 else r.c1) else none

def parseRows : List String → Option Rows
  | [a, b, c, d] =>
    match parseRow a, parseRow b, parseRow c, parseRow d with
    | some a, some b, some c, some d => some { p0 := a, c0 := b, p1 := c, c1 := d }
    | _, _, _, _ => none
  | _ => none

structure JSt where
  nowH : Int := 0                              -- virtual clock, hours
  dir : Nat → Option Nat := fun _ => none     -- the directory's ground truth
  /-- ground truth: accounts the directory refuses whatever the password -/
  disabled : Nat → Bool := fun _ => false
  prim : Prim := .up
  /-- ground truth: what each server does (a hanging server is a server that is down) -/
  srv : List Srv := [.up, .up]
  /-- ground truth: what the directory does with the DN of each configured bind pattern -/
  pats : List Pat := [.entry]
  rows : Rows := {}
  confirmed : List (Nat × Nat × Int) := []    -- (user, pw, hour) the directory really confirmed
  /-- (user, pw) whose stored hash the directory's rejection evicted from the primary -/
  evicted : List (Nat × Nat) := []
  /-- … and a synchronisation has completed since -/
  evictedSynced : List (Nat × Nat) := []
  /-- (user, pw) the directory rejected while the primary held its valid hash and could not be made
  to drop it (primary unreachable, or the consulted cache copy was stale): known finding -/
  lostEvict : List (Nat × Nat) := []

/-- the statement's own parameters (proved equal to the source's in `c07_judge_spec`) -/
def Spec.cacheHours : Int := 96
def Spec.pwType : Nat := 1

def cacheH : Int := Spec.cacheHours

/-- the property's "valid record of `u` for `pw`" on an observed row -/
def validFor (u pw : Nat) (r : ORow) : Bool :=
  r.ok && r.subj == u && r.type == Spec.pwType && r.pw == pw && r.e ≥ 0 && r.c > 0

/-- the first verdict in the directory's bind record (`<server><mark>` pairs) -/
def firstMark : List Char → Option Bool
  | _ :: '+' :: _ => some true
  | _ :: '-' :: _ => some false
  | _ :: _ :: rest => firstMark rest
  | _ => none

def traceVerdict (t : String) : Option Bool := firstMark t.toList

/-- ground truth: does some (server, pattern) pair give verdicts, and what the directory says then -/
def JSt.answers (j : JSt) : Bool := j.srv.any (· == Srv.up) && j.pats.any (· != Pat.malformed)

def JSt.dirOK (j : JSt) (u pw : Nat) : Bool :=
  pw != 0 && (j.pats.find? (· != Pat.malformed) == some Pat.entry) && j.dir u == some pw && !j.disabled u

def splitArrow (fs : List String) : List String × List String :=
  (fs.takeWhile (· ≠ "=>"), (fs.dropWhile (· ≠ "=>")).drop 1)

/-! The judge implements the statement of C07 clause by clause and nothing else. The statement
constrains ACCEPTANCES and what a DIRECTORY VERDICT does to the cached hash; it says nothing about how
a refusal is delivered. So every result other than `A` (401, 500, any other status, an error return, a
panic) is a refusal, and a refusal never needs justification:

* (S1) "accepted only if the configured backend accepts it for that (normalised) user": an `A` while a
  (server, pattern) pair gives verdicts needs the directory's verdict to be accept — ground truth of
  the harness, whether or not the code asked; an `A` must be granted to the normalised user (`W`); the
  empty password is never accepted.
* (S2) "acceptance refreshes": an `A` on a directory acceptance leaves the fresh record (primary writable).
* (S3) "rejection of the cached password evicts": when the directory actually answered this login with a
  rejection (its own bind record) and the consulted store held a valid record of that password, the
  primary's row is gone afterwards (primary writable) — however the refusal is reported to the client.
* (S4) "only when no server answers may a cached hash decide, and then only …": an `A` while nothing
  gives verdicts needs the consulted row to verify, for this user, type, password, unexpired, and a
  directory-confirmed login ≤ 96 h ago.

Not demanded (a maintainer may change it): that a login the directory accepts is accepted by keymaster,
which status a refusal has, whether an unusable store is reported as 401 or 500. Those differences show
as a model/implementation disagreement (broken tie, no failing input), not as a violation. -/
def judgeLogin (j : JSt) (u pw : Nat) (res tr : String) (after : Rows) : String :=
  let before := j.rows
  let consulted := before.get (j.prim == .up) u
  let accepted := res == "A"
  let dirOK := j.dirOK u pw
  if res == "W" then "viol granted-other-identity the login was granted to a name other than the normalised user"
  else if pw == 0 && accepted then "viol empty-password-accepted the empty password was accepted"
  else if (traceVerdict tr).isSome && traceVerdict tr != some dirOK then
    s!"viol harness-directory-inconsistent bind trace {tr} but the directory holds {repr (j.dir u)}"
  else match (if j.answers then some dirOK else none) with
  | some v =>
    -- some (server, bind pattern) pair gives verdicts (ground truth of the harness, whether or not the
    -- code asked it): the first verdict in loop order is final
    if accepted && !v then
      s!"viol dir-verdict-overridden a server was answering (directory verdict reject, binds seen: {tr}) but the login was {res}"
    else if accepted && v && j.prim != .down &&
        !(match after.get true u with
          | some r => r.ok && r.subj == u && r.pw == pw && r.type == Spec.pwType && r.e == cacheH && r.c == cacheH
          | none => false) then
      "viol accept-not-refreshed directory accepted but the primary holds no fresh record (now + cache duration) for this user and password"
    else if traceVerdict tr == some false && j.prim != .down && (consulted.map (validFor u pw) == some true) &&
        (after.get true u).isSome then
      "viol rejected-cached-not-evicted directory rejected the cached password but the record is still in the primary"
    else "ok"
  | none =>
    if !accepted then "ok"
    else match consulted with
    | none => "viol offline-no-record accepted offline although the consulted store holds no row"
    | some r =>
      if !r.ok then "viol offline-bad-signature accepted offline on a record that does not verify"
      else if r.subj != u then "viol offline-wrong-subject accepted offline on a record signed for another user"
      else if r.type != Spec.pwType then "viol offline-wrong-type accepted offline on a record signed for another data type"
      else if r.pw != pw then "viol offline-wrong-password accepted offline a password the record does not hold"
      else if r.e < 0 then "viol offline-expired accepted offline on a record whose signed expiry has passed"
      else if !(j.confirmed.any (fun (cu, cp, ct) => cu == u && cp == pw && ct ≤ j.nowH && j.nowH + r.e ≤ ct + cacheH)) then
        "viol offline-unconfirmed accepted offline without a directory-confirmed login of this user and password within the cache duration"
      else if j.evictedSynced.contains (u, pw) then
        "viol evicted-hash-survives-sync accepted offline a password the directory rejected (hash evicted from the primary, caches synchronised since)"
      else if j.lostEvict.contains (u, pw) then
        "viol eviction-lost-during-primary-outage accepted offline a password the directory rejected while the primary could not be made to drop its hash"
      else "ok"

def judgeStep (j : JSt) (fs : List String) : JSt × String :=
  let (op, out) := splitArrow fs
  match out with
  | res :: tr :: rowFields =>
    match parseRows rowFields with
    | none => (j, "bad-op")
    | some after =>
      let j' := { j with rows := after }
      match op with
      | ["seq", _] => ({ rows := after, dir := fun u => if u = 0 then some 1 else if u = 1 then some 2 else none }, "ok")
      | ["login", u, pw, _] =>
        match u.toNat?, pw.toNat? with
        | some u, some pw =>
          let verdict := judgeLogin j u pw res tr after
          let conf := traceVerdict tr == some true && j.dirOK u pw
          let rejected := traceVerdict tr == some false
          let evict := rejected && j.prim == .up &&
                       ((j.rows.get true u).map (validFor u pw) == some true) && (after.get true u).isNone
          let lost := rejected && j.prim != .up &&
                      ((j.rows.get true u).map (validFor u pw) == some true) && (after.get true u).isSome
          let j2 := if conf then
                      { j' with confirmed := (u, pw, j.nowH) :: j.confirmed,
                                evicted := j.evicted.filter (· != (u, pw)),
                                evictedSynced := j.evictedSynced.filter (· != (u, pw)),
                                lostEvict := j.lostEvict.filter (· != (u, pw)) }
                    else if evict then { j' with evicted := (u, pw) :: j.evicted }
                    else if lost then { j' with lostEvict := (u, pw) :: j.lostEvict }
                    else j'
          (j2, verdict)
        | _, _ => (j, "bad-op")
      | ["ht", u, pw, v] =>
        -- the property's own predicate: accepted only if the backend accepts this password for the
        -- NORMALISED user (the file entry under the lower-cased name)
        match u.toNat?, pw.toNat?, (u.toNat?.bind fun u => typedName u v) with
        | some _, some pw, some name =>
          if res == "W" then (j', "viol granted-other-identity the login was granted to a name other than the normalised user")
          else if res == "A" && !((htFile (asciiLower name)).map (fun e => e.bcrypt2y && e.matchesPw == pw) == some true) then
            (j', s!"viol backend-rejects-normalised-user accepted although the htpasswd file has no matching entry for the normalised name (typed {String.ofList name})")
          else (j', "ok")
        | _, _, _ => (j, "bad-op")
      | ["acct", u, code] =>
        match u.toNat?, parseAcct code with
        | some u, some ok => ({ j' with disabled := fun x => if x = u then !ok else j.disabled x }, "ok")
        | _, _ => (j, "bad-op")
      | ["diag", _] => (j', "ok")
      | ["chpw", u, pw] =>
        match u.toNat?, (if pw == "-" then some none else pw.toNat?.map some) with
        | some u, some pw => ({ j' with dir := fun x => if x = u then pw else j.dir x }, "ok")
        | _, _ => (j, "bad-op")
      | ["adv", h] =>
        match h.toNat? with
        | some h => ({ j' with nowH := j.nowH + h }, "ok")
        | none => (j, "bad-op")
      | ["prim", p] =>
        match parsePrim p with
        | some p => ({ j' with prim := p }, "ok")
        | none => (j, "bad-op")
      | "pats" :: ks =>
        match parsePats ks with
        | some l => ({ j' with pats := l }, "ok")
        | none => (j, "bad-op")
      | ["sync"] =>
        if j.prim != .down then ({ j' with evictedSynced := j.evicted ++ j.evictedSynced }, "ok") else (j', "ok")
      | "tamper" :: _ :: u :: _ =>
        -- whoever writes the databases can put an evicted (still validly signed) record back: outside
        -- the eviction claim, which is about the synchronisation
        match u.toNat? with
        | some u =>
          ({ j' with evicted := j.evicted.filter (·.1 != u),
                     evictedSynced := j.evictedSynced.filter (·.1 != u),
                     lostEvict := j.lostEvict.filter (·.1 != u) }, "ok")
        | none => (j, "bad-op")
      | ["srv", i, t] =>
        match i.toNat?, parseSrv t with
        | some i, some t => ({ j' with srv := j.srv.set i t }, "ok")
        | _, _ => (j, "bad-op")
      | ["anon", _] => (j', "ok")
      | _ => (j, "bad-op")
  | _ => (j, "bad-op")

def handler (mode : String) : Option Handler :=
  if mode == "model" then some { σ := St, init := {}, step := modelStep }
  else if mode == "judge" then some { σ := JSt, init := {}, step := judgeStep }
  else none

end KM.Driver.C07
