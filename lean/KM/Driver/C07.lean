import KM.Driver.Core
/-! Driver for C07 (stub until the property's model is built). -/
namespace KM.Driver.C07

def handler (_mode : String) : Option Handler := none

end KM.Driver.C07
