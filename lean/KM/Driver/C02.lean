import KM.Driver.Core
import KM.Model.CertFields
import KM.Gen.C02
/-! Driver for C02 (stateful: `cfg` lines set the configuration the following lines run under).
`model`: the canonical line the model predicts for a `cert` / `expand` op; `judge`: the property's
conditions applied to what the implementation returned. -/
namespace KM.Driver.C02
open KM.Util KM.CertFields

structure DS where
  cfg : Cfg
  hasEd : Bool
  realm : Bool

def DS.init : DS := { cfg := { disableNorm := false, hostIdentity := [], exts := [] }, hasEd := false, realm := false }

/-- keys as numbers: 1 = primary signer, 2 = Ed25519 signer, 7 = the submitted key -/
def DS.st (s : DS) : St Nat :=
  { signer := 1, ed := if s.hasEd then some 2 else none, preKnown := [1], preCAs := [] }

def src : Src := KM.Gen.C02.src
/-- the harness's password backend accepts every non-empty name -/
def accepts (n : Str) : Bool := !n.isEmpty
def expandFor (u t : Str) : Option Str := expandStr u t

def unhexL (s : String) : Option Str := (unhex s).map String.toList
def hexL (l : Str) : String := hex (String.ofList l)

def parsePairs : List String → Option (List (Str × Str))
  | [] => some []
  | k :: v :: rest => do
    let k' ← unhexL k
    let v' ← unhexL v
    let r ← parsePairs rest
    pure ((k', v') :: r)
  | _ => none

def parseCfg : List String → Option DS
  | dn :: host :: realm :: ed :: n :: pairs => do
    let dn' ← parseBool dn
    let host' ← unhexL host
    let ed' ← parseBool ed
    let n' ← n.toNat?
    let ps ← parsePairs pairs
    if ps.length ≠ n' then none
    else pure { cfg := { disableNorm := dn', hostIdentity := host', exts := ps }, hasEd := ed', realm := realm != "~" }
  | _ => none

def parseKind (s : String) : Option KeyKind :=
  if s == "rsa2048" then some .rsa2048 else if s == "rsa3072" then some .rsa3072
  else if s == "p256" then some .p256 else if s == "p384" then some .p384
  else if s == "ed25519" then some .ed25519 else none

def parseCT (s : String) : Option CType :=
  if s == "ssh" then some .ssh else if s == "x509" then some .x509 else if s == "k8s" then some .k8s else none

def mkCred (s : DS) (mode : String) (login : Str) (pw : Bool) : Option Cred :=
  if mode == "basic" then some (.basic login pw)
  else if mode == "login" then some (loginCookie s.cfg.disableNorm accepts login pw)
  else if mode == "cookie" then some (.cookie login)
  else none

def sortStrs (l : List String) : List String := (l.toArray.qsort (· < ·)).toList

/-- candidate keys of the extension map: standard names and every configured key as expanded -/
def candidates (s : DS) (u : Str) : List Str :=
  (src.stdExt ++ s.cfg.exts.filterMap (fun e => expandFor u e.1)).eraseDups

def extLine (keys : List Str) (m : SMap) : String :=
  let items := keys.filterMap fun k => (m k).map fun v => s!"{hexL k}:{hexL v}"
  if items.isEmpty then "-" else ",".intercalate (sortStrs items)

def modelCert (s : DS) (ct : CType) (cred : Cred) (url : Str) (kind : KeyKind) : String :=
  match handle src s.cfg s.st accepts expandFor cred url ct kind 7 with
  | .status n => toString n
  | .ssh c =>
    let u := c.principals.headD []
    s!"200 ssh principals={if c.principals.isEmpty then "-" else ",".intercalate (c.principals.map hexL)} key={boolStr (c.key == 7)} type={if c.userCert then "1" else "2"} keyid={hexL c.keyId} sigkey_published={boolStr ((publish s.st.preKnown s.st.ed s.st.signer).contains c.signatureKey)} verifies=1 crit=0 ext={extLine (candidates s u) c.exts}"
  | .x509 c =>
    s!"200 x509 cn={hexL c.cn} key={boolStr (c.key == 7)} ca={boolStr c.isCA} bc={boolStr c.bcValid} eku={if c.clientAuth then "2" else "-"} verifies={boolStr ((caList s.st.preCAs s.st.ed s.st.signer).contains c.issuer)}"

def modelStep (s : DS) : List String → DS × String
  | "cfgfile" :: rest =>   -- the same settings, written into a configuration file: what the operator wrote decides
    match parseCfg rest with
    | some s' => (s', "ok")
    | none => (s, "bad-op")
  | "cfg" :: rest =>
    match parseCfg rest with
    | some s' => (s', "ok")
    | none => (s, "bad-op")
  | ["expand", u, t] =>
    match unhexL u, unhexL t with
    | some u, some t =>
      match expandFor u t with
      | some r => (s, s!"ok {hexL r}")
      | none => (s, "err")
    | _, _ => (s, "bad-op")
  | ["cert", ct, mode, login, pw, url, kind, _groups] =>
    match parseCT ct, unhexL login, parseBool pw, unhexL url, parseKind kind with
    | some ct, some login, some pw, some url, some kind =>
      match mkCred s mode login pw with
      | some cred => (s, modelCert s ct cred url kind)
      | none => (s, "bad-op")
    | _, _, _, _, _ => (s, "bad-op")
  | _ => (s, "bad-op")

/-! ### judge -/

/-- the user the request authenticated as, by the property's wording: the typed name, normalised
unless normalisation is disabled, for password credentials; the cookie's subject for a cookie -/
def expectedUser (s : DS) (mode : String) (login : Str) (pw : Bool) : Option Str :=
  if mode == "cookie" then some login
  else if pw && accepts (normalise s.cfg.disableNorm login) then some (normalise s.cfg.disableNorm login)
  else none

def field (name : String) (fs : List String) : Option String :=
  (fs.find? (·.startsWith (name ++ "="))).map fun f => (f.drop (name.length + 1)).toString

def parseExtItems (s : String) : Option (List (Str × Str)) :=
  if s == "-" then some [] else
  (s.splitOn ",").mapM fun it =>
    match it.splitOn ":" with
    | [k, v] => do
      let k' ← unhexL k
      let v' ← unhexL v
      pure (k', v')
    | _ => none

/-- the returned extension list is exactly the map the property describes -/
def extsOK (s : DS) (u : Str) (items : List (Str × Str)) : Bool :=
  items.all (fun kv => specExt fiveStandard (expandFor u) s.cfg.exts kv.1 == some kv.2) &&
  (candidates' u).all (fun k =>
    match specExt fiveStandard (expandFor u) s.cfg.exts k with
    | some v => items.contains (k, v)
    | none => true)
where
  candidates' (u : Str) : List Str :=
    fiveStandard ++ s.cfg.exts.filterMap (fun e => expandFor u e.1)

def judgeCert (s : DS) (mode : String) (login : Str) (pw : Bool) (url : Str) (impl : List String) : String :=
  match impl with
  | [] => "bad-op"
  | status :: rest =>
    if status == "PANIC" then "viol handler-panicked"
    else if status != "200" then "ok"        -- refused: nothing was issued
    else match expectedUser s mode login pw with
      | none => "viol issued-without-authentication"
      | some u =>
        if u ≠ url then s!"viol issued-for-other-user auth={hexL u} url={hexL url}"
        else match rest with
          | "ssh" :: fs =>
            if field "principals" fs != some (hexL u) then "viol principals"
            else if field "key" fs != some "1" then "viol key-not-the-submitted-one"
            else if field "type" fs != some "1" then "viol not-a-user-certificate"
            else if field "sigkey_published" fs != some "1" then "viol signing-key-not-published"
            else if field "verifies" fs != some "1" then "viol signature-does-not-verify"
            else match (field "ext" fs).bind parseExtItems with
              | some items => if extsOK s u items then "ok" else "viol extensions"
              | none => "viol extensions-undecodable"
          | "x509" :: fs =>
            if field "cn" fs != some (hexL u) then "viol common-name"
            else if field "key" fs != some "1" then "viol key-not-the-submitted-one"
            else if field "ca" fs != some "0" then "viol is-a-CA"
            else if !(((field "eku" fs).getD "").splitOn ",").contains "2" then "viol no-client-auth-usage"
            else if field "verifies" fs != some "1" then "viol does-not-verify-under-published-CA"
            else "ok"
          | _ => "viol issued-but-undecodable"

def judgeStep (s : DS) : List String → DS × String
  | "cfgfile" :: rest =>
    match parseCfg rest with
    | some s' => (s', "ok")
    | none => (s, "bad-op")
  | "cfg" :: rest =>
    match parseCfg rest with
    | some s' => (s', "ok")
    | none => (s, "bad-op")
  | "cert" :: _ct :: mode :: login :: pw :: url :: _kind :: _groups :: "|" :: impl =>
    match unhexL login, parseBool pw, unhexL url with
    | some login, some pw, some url => (s, judgeCert s mode login pw url impl)
    | _, _, _ => (s, "bad-op")
  | _ => (s, "bad-op")

def handler (mode : String) : Option Handler :=
  if mode == "model" then some { σ := DS, init := DS.init, step := modelStep }
  else if mode == "judge" then some { σ := DS, init := DS.init, step := judgeStep }
  else none

end KM.Driver.C02
