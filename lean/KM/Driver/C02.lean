import KM.Driver.Core
/-! Driver for C02 (stub until the property's model is built). -/
namespace KM.Driver.C02

def handler (_mode : String) : Option Handler := none

end KM.Driver.C02
