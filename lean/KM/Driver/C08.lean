import KM.Driver.Core
/-! Driver for C08 (stub until the property's model is built). -/
namespace KM.Driver.C08

def handler (_mode : String) : Option Handler := none

end KM.Driver.C08
