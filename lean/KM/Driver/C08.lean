import KM.Driver.Core
import KM.Model.Admin
/-! Driver for C08: `model` predicts class + effects of one request / the verdicts of one cache
trace; `judge` applies the property predicate (`effectAllowed`, `statusAllowed`) to what the real
handlers did. The configuration travels in the op stream (`cfg`, `grp`, `usr`, `endcfg` lines). -/
namespace KM.Driver.C08
open KM.Util KM.Admin

structure DState where
  cfg : Cfg
  groups : List (Name × List Name)
  users : List (Name × Bool)
  /-- a running sequence on one shared cache: lifetime (ms) and handler-level state -/
  seq : Option (Nat × HState) := none

def DState.init : DState :=
  { cfg := { adminUsers := [], adminGroups := [], automationUsers := [], automationUserGroups := [],
             automationAdmins := [], webUIRequired := 0 },
    groups := [], users := [] }

def unhexName (s : String) : Option Name := (unhex s).map String.toList

def hexName (n : Name) : String := hex (String.ofList n)

def parseList (s : String) : Option (List Name) :=
  if s == "-" then some [] else (s.splitOn ",").mapM unhexName

/-- `getRequiredWebUIAuthLevel` -/
def backendBit (n : Name) : Nat :=
  let s := String.ofList n
  if s == KM.Gen.protoAuthTypePassword then KM.Gen.authTypePassword
  else if s == KM.Gen.protoAuthTypeFederated then KM.Gen.authTypeFederated
  else if s == KM.Gen.protoAuthTypeU2F then KM.Gen.authTypeU2F
  else if s == KM.Gen.protoAuthTypeSymantecVIP then KM.Gen.authTypeSymantecVIP
  else if s == KM.Gen.protoAuthTypeTOTP then KM.Gen.authTypeTOTP
  else if s == KM.Gen.protoAuthTypeOkta2FA then KM.Gen.authTypeOkta2FA
  else if s == KM.Gen.protoAuthTypeBootstrapOTP then KM.Gen.authTypeBootstrapOTP
  else 0

def groupsOf (st : DState) (dirdown : Bool) : Groups := fun u =>
  if dirdown then none
  else some (((st.groups.find? (fun p => p.1 == u)).map (·.2)).getD [])

def parseAction (s : String) : TokAction :=
  if s == "Update" then .update else if s == "Disable" then .disable
  else if s == "Enable" then .enable else if s == "Delete" then .delete else .other

def parseOp (op action : String) : Option Op :=
  match op with
  | "view" => some .viewProfile
  | "mu2f" => some (.manageU2F (parseAction action))
  | "mtotp" => some (.manageTOTP (parseAction action))
  | "totpgen" => some .totpGenerate
  | "totpval" => some .totpValidateNew
  | "u2fbeg" => some .u2fRegBegin
  | "u2ffin" => some .u2fRegFinish
  | "wabeg" => some .waRegBegin
  | "wafin" => some .waRegFinish
  | "list" => some .listUsers
  | "add" => some .addUser
  | "del" => some .deleteUser
  | "botp" => some .bootstrapOTP
  | "role" => some .roleCert
  | _ => none

/-- `^[A-Za-z0-9-_.]+$` -/
def nameValid (n : Name) : Bool :=
  !n.isEmpty && n.all (fun c => c.isAlphanum || c == '-' || c == '_' || c == '.')

/-- fixture: users with tokens hold U2F 1,2, WebAuthn 11,12 and TOTP 21,22 -/
def indexPresent (op : Op) (hasTok : Bool) (index : String) : Bool :=
  match index.toNat? with
  | none => false
  | some i =>
    hasTok && (match op with
      | .manageU2F _ => i == 1 || i == 2 || i == 11 || i == 12
      | .manageTOTP _ => i == 21 || i == 22
      | _ => false)

def envFor (st : DState) (op : Op) (eff : Name) (index : String) (pending proof : Bool) : Env :=
  let u := st.users.find? (fun p => p.1 == eff)
  let hasTok := (u.map (·.2)).getD false
  { targetExists := u.isSome, indexPresent := indexPresent op hasTok index, nameValid := nameValid eff,
    hasTokens := hasTok, pending := pending, proofValid := proof }

def effStr : Effect → String
  | .changed u => "chg:" ++ hexName u
  | .read u => "read:" ++ hexName u
  | .listed => "list"
  | .cert cn => "cert:" ++ hexName cn
  | .copied o r => "copy:" ++ hexName o ++ ":" ++ hexName r

def denyClass : Deny → String
  | .session | .notAdmin | .notSelf => "deny:401"
  | .notAutoAdmin => "deny:403"
  | .badIdentity | .notAutoUser | .lookupError => "reject"

def outcomeStr : Outcome → String
  | .denied w => denyClass w ++ " -"
  | .rejected => "reject -"
  | .done [] => "ok -"
  | .done effs => "ok " ++ " ".intercalate (effs.map effStr)

def parseEffect (s : String) : Option Effect :=
  if s == "list" then some .listed
  else match s.splitOn ":" with
    | ["chg", h] => (unhexName h).map .changed
    | ["read", h] => (unhexName h).map .read
    | ["cert", h] => (unhexName h).map .cert
    | ["copy", o, r] => do
      let o ← unhexName o; let r ← unhexName r
      pure (.copied o r)
    | _ => none

def cfgStep (st : DState) : List String → Option DState
  | ["cfg", a, b, c, d, e, f] => do
    let a ← parseList a; let b ← parseList b; let c ← parseList c
    let d ← parseList d; let e ← parseList e; let f ← parseList f
    let req := f.foldl (fun acc n => acc ||| backendBit n) 0
    let cfg : Cfg := ⟨a, b, c, d, e, req⟩
    pure { st with cfg := cfg }
  | ["grp", u, gs] => do
    let u ← unhexName u; let gs ← parseList gs
    pure { st with groups := st.groups ++ [(u, gs)] }
  | ["usr", u, t] => do
    let u ← unhexName u; let t ← parseBool t
    pure { st with users := st.users ++ [(u, t)] }
  | ["endcfg"] => some st
  | _ => none

/-! ### cache traces -/

def cacheEvent (maxDur : Nat) (s : CState) (ev : String) : Option (CState × Option String) :=
  match ev.toList with
  | 'a' :: rest => (String.ofList rest).toNat?.map (fun d => (cstep maxDur s (.advance d), none))
  | 'c' :: rest =>
    match (String.ofList rest).splitOn ":" with
    | [h, k] => do
      let u ← unhexName h
      let dir ← (if k == "T" || k == "G" then some (some true) else if k == "F" then some (some false)
                 else if k == "E" then some none else none)
      let s' := cstep maxDur s (.call u dir)
      let v := (s'.rets.head?.map (·.verdict)).getD false
      pure (s', some ("c" ++ boolStr v))
    | _ => none
  | 'g' :: rest => do
    let u ← unhexName (String.ofList rest)
    let r := Cache.get maxDur s.cache s.now u
    pure (s, some ("g" ++ boolStr r.1 ++ boolStr r.2))
  | 'p' :: rest =>
    match (String.ofList rest).splitOn ":" with
    | [h, v] => do
      let u ← unhexName h
      let b ← parseBool v
      pure ({ s with cache := s.cache.upd u ⟨b, s.now, none⟩ }, some "p")
    | _ => none
  | _ => none

def cacheTrace (maxDur : Nat) (evs : List String) : Option (List String) :=
  let rec go (s : CState) (acc : List String) : List String → Option (List String)
    | [] => some acc.reverse
    | ev :: rest =>
      match cacheEvent maxDur s ev with
      | none => none
      | some (s', none) => go s' acc rest
      | some (s', some o) => go s' (o :: acc) rest
  -- the harness clock starts at a non-zero instant
  go (CState.init 1700000000000) [] evs


/-! ### overlapping calls on a slow directory (`cconc`) -/

def memberOf (content : List (Name × Bool)) (u : Name) : Bool :=
  ((content.find? (fun p => p.1 == u)).map (·.2)).getD false

/-- one event of a `cconc` history on the two-phase model `kstep`; `content` = the directory -/
def concEvent (maxDur : Nat) (s : KState) (content : List (Name × Bool)) (ev : String) :
    Option (KState × List (Name × Bool) × Option String) :=
  match ev.toList with
  | 'a' :: rest =>
    if s.pend.isEmpty then (String.ofList rest).toNat?.map (fun d => (kstep maxDur s (.advance d), content, none))
    else none
  | 'd' :: rest =>
    match (String.ofList rest).splitOn ":" with
    | [h, v] => do
      let u ← unhexName h
      let b ← parseBool v
      pure (s, (u, b) :: content.filter (fun p => p.1 != u), none)
    | _ => none
  | 'b' :: rest =>
    match (String.ofList rest).splitOn ":" with
    | [h, hold, kind] => do
      let u ← unhexName h
      let hold ← (if hold == "H" then some true else if hold == "N" then some false else none)
      if kind != "i" && kind != "l" then none
      let s' := kstep maxDur s (.begin u (some (memberOf content u)) hold)
      let tok := if s'.c.rets.length == s.c.rets.length then "bp"
                 else "b" ++ boolStr ((s'.c.rets.head?.map (·.verdict)).getD false)
      pure (s', content, some tok)
    | _ => none
  | 'r' :: rest => do
    let k ← (String.ofList rest).toNat?
    if k ≥ s.next then none
    match s.pend.find? (fun p => p.id == k) with
    | none => pure (s, content, some "r-")
    | some p =>
      let s' := kstep maxDur s (.release k (some (memberOf content p.user)))
      pure (s', content, some ("r" ++ boolStr ((s'.c.rets.head?.map (·.verdict)).getD false)))
  | _ => none

def concTrace (maxDur : Nat) (evs : List String) : Option (List String) :=
  let rec go (s : KState) (content : List (Name × Bool)) (acc : List String) : List String → Option (List String)
    | [] => some acc.reverse
    | ev :: rest =>
      match concEvent maxDur s content ev with
      | none => none
      | some (s', content', none) => go s' content' acc rest
      | some (s', content', some o) => go s' content' (o :: acc) rest
  go (KState.init 1700000000000) [] [] evs

def modelStep (st : DState) (fs : List String) : DState × String :=
  match fs with
  | ["req", actor, dd, level, op, action, target, index, pending, proof] =>
    match unhexName actor, parseBool dd, level.toNat?, parseOp op action, unhexName target,
          parseBool pending, parseBool proof with
    | some actor, some dd, some level, some op, some target, some pending, some proof =>
      let d := authorize op actor level target st.cfg (groupsOf st dd)
      let eff := match d with | .pass e => e | .deny _ => target
      (st, outcomeStr (outcome op d (envFor st op eff index pending proof)))
    | _, _, _, _, _, _, _ => (st, "bad-op")
  | ["sbegin", ms] =>
    match ms.toNat? with
    | some ms => ({ st with seq := some (ms, HState.init 1700000000000) }, "ok")
    | none => (st, "bad-op")
  | ["send"] => ({ st with seq := none }, "ok")
  | ["sadv", d] =>
    match st.seq, d.toNat? with
    | some (ms, hs), some d => ({ st with seq := some (ms, hstep ms st.cfg hs (.advance d)) }, "ok")
    | _, _ => (st, "bad-op")
  | ["sreq", actor, dd, level, op, action, target, index, pending, proof] =>
    match st.seq, unhexName actor, parseBool dd, level.toNat?, parseOp op action, unhexName target,
          parseBool pending, parseBool proof with
    | some (ms, hs), some actor, some dd, some level, some op, some target, some pending, some proof =>
      let hs' := hreq ms st.cfg hs ⟨op, actor, level, target, groupsOf st dd⟩
      let d := (hs'.handled.head?.map (·.dec)).getD (.deny .session)
      let eff := match d with | .pass e => e | .deny _ => target
      ({ st with seq := some (ms, hs') }, outcomeStr (outcome op d (envFor st op eff index pending proof)))
    | _, _, _, _, _, _, _, _ => (st, "bad-op")
  | ["cseq", ms, evs] =>
    match ms.toNat? with
    | some ms =>
      match cacheTrace ms ((evs.splitOn ",").filter (· ≠ "")) with
      | some [] => (st, "-")
      | some out => (st, " ".intercalate out)
      | none => (st, "bad-op")
    | none => (st, "bad-op")
  | ["cconc", ms, evs] =>
    match ms.toNat? with
    | some ms =>
      match concTrace ms ((evs.splitOn ",").filter (· ≠ "")) with
      | some [] => (st, "-")
      | some out => (st, " ".intercalate out)
      | none => (st, "bad-op")
    | none => (st, "bad-op")
  | _ =>
    match cfgStep st fs with
    | some st' => (st', "ok")
    | none => (st, "bad-op")

/-! ### judging an observed cache history -/

/-- walk the events with the verdicts the real `IsAdminUser` returned (`c0`/`c1` tokens, `g..`/`p`
tokens of the raw probes are skipped); every verdict must satisfy `blackboxOK` with respect to what
the directory offered at the calls so far (theorem `c08_cache_observable` at that prefix) -/
def judgeTrace (maxDur : Nat) : Nat → List Consult → Nat → List String → List String → String
  | _, _, _, [], _ => "ok"
  | now, offered, k, ev :: evs, toks =>
    match ev.toList with
    | 'a' :: rest =>
      match (String.ofList rest).toNat? with
      | some d => judgeTrace maxDur (now + d) offered k evs toks
      | none => "bad-op"
    | 'c' :: rest =>
      match (String.ofList rest).splitOn ":", toks with
      | [h, kd], tok :: toks' =>
        match unhexName h, (if kd == "T" || kd == "G" then some (some true) else if kd == "F" then some (some false)
                            else if kd == "E" then some none else none),
              (if tok == "c1" then some true else if tok == "c0" then some false else none) with
        | some u, some dir, some v =>
          let offered' := (⟨now, u, dir⟩ : Consult) :: offered
          if blackboxOK maxDur offered' now u v then judgeTrace maxDur now offered' (k + 1) evs toks'
          else s!"viol unexplained-verdict call={k} user={hexName u} verdict={boolStr v} t={now - 1700000000000}ms"
        | _, _, _ => "bad-op"
      | _, _ => "bad-op"
    | 'g' :: _ => judgeTrace maxDur now offered k evs (toks.drop 1)
    | 'p' :: _ => "ok"  -- a raw Put injects a verdict that never came from the directory: not judged further
    | _ => "bad-op"

def judgeCache : List String → String
  | ["jc", ms, evs, toks] =>
    match ms.toNat? with
    | some ms => judgeTrace ms 1700000000000 [] 0 ((evs.splitOn ",").filter (· ≠ ""))
                   ((toks.splitOn ",").filter (fun t => t ≠ "" && t ≠ "-"))
    | none => "bad-op"
  | _ => "bad-op"


/-- judge state of an observed `cconc` history: clock, directory content, what the directory offered
so far, the users of the calls begun so far (in order), index of the verdict -/
structure JK where
  now : Nat
  content : List (Name × Bool)
  offered : List Consult
  users : List Name
  parked : List Nat

/-- every verdict the real code handed out — at once (`b0`/`b1`) or after its question was released
(`r0`/`r1`) — must satisfy `blackboxOK` with respect to what the directory offered at the calls and
releases so far. Whether a call asked the directory at all is not the judge's business. -/
def judgeConc (maxDur : Nat) : JK → List String → List String → String
  | _, [], _ => "ok"
  | j, ev :: evs, toks =>
    match ev.toList with
    | 'a' :: rest =>
      match (String.ofList rest).toNat? with
      | some d => judgeConc maxDur { j with now := j.now + d } evs toks
      | none => "bad-op"
    | 'd' :: rest =>
      match (String.ofList rest).splitOn ":" with
      | [h, v] =>
        match unhexName h, parseBool v with
        | some u, some b => judgeConc maxDur { j with content := (u, b) :: j.content.filter (fun p => p.1 != u) } evs toks
        | _, _ => "bad-op"
      | _ => "bad-op"
    | 'b' :: rest =>
      match (String.ofList rest).splitOn ":", toks with
      | h :: _, tok :: toks' =>
        match unhexName h with
        | some u =>
          let k := j.users.length
          let j' := { j with offered := (⟨j.now, u, some (memberOf j.content u)⟩ : Consult) :: j.offered, users := j.users ++ [u] }
          if tok == "bp" then judgeConc maxDur { j' with parked := k :: j'.parked } evs toks'
          else
            match (if tok == "b1" then some true else if tok == "b0" then some false else none) with
            | some v =>
              -- a "no" handed out while a question about the same user is still parked in the directory is a
              -- refusal during a refresh (fail closed): never counted against the implementation
              if blackboxOK maxDur j'.offered j.now u v || (!v && j.parked.any (fun p => j.users[p]? == some u)) then
                judgeConc maxDur j' evs toks'
              else s!"viol unexplained-verdict call={k} user={hexName u} verdict={boolStr v} t={j.now - 1700000000000}ms overlapping={j.parked.length}"
            | none => "bad-op"
        | none => "bad-op"
      | _, _ => "bad-op"
    | 'r' :: rest =>
      match (String.ofList rest).toNat?, toks with
      | some k, tok :: toks' =>
        match j.users[k]? with
        | some u =>
          if tok == "r-" then judgeConc maxDur j evs toks'
          else
            let j' := { j with offered := (⟨j.now, u, some (memberOf j.content u)⟩ : Consult) :: j.offered,
                               parked := j.parked.filter (· != k) }
            match (if tok == "r1" then some true else if tok == "r0" then some false else none) with
            | some v =>
              if blackboxOK maxDur j'.offered j.now u v then judgeConc maxDur j' evs toks'
              else s!"viol unexplained-verdict call={k} user={hexName u} verdict={boolStr v} t={j.now - 1700000000000}ms released=1"
            | none => "bad-op"
        | none => "bad-op"
      | _, _ => "bad-op"
    | _ => "bad-op"

def judgeConcLine : List String → String
  | ["jk", ms, evs, toks] =>
    match ms.toNat? with
    | some ms => judgeConc ms ⟨1700000000000, [], [], [], []⟩ ((evs.splitOn ",").filter (· ≠ ""))
                   ((toks.splitOn ",").filter (fun t => t ≠ "" && t ≠ "-"))
    | none => "bad-op"
  | _ => "bad-op"

/-- `j <actor> <dirdown> <level> <op> <action> <target> <class> <effect>…` -/
def judgeStep (st : DState) (fs : List String) : DState × String :=
  match fs with
  | "j" :: actor :: dd :: level :: op :: action :: target :: cls :: effs =>
    match unhexName actor, parseBool dd, level.toNat?, parseOp op action, unhexName target,
          (effs.filter (· ≠ "-")).mapM parseEffect with
    | some actor, some dd, some level, some op, some target, some effs =>
      let g := groupsOf st dd
      match effs.find? (fun e => !effectAllowed st.cfg g op actor level target e) with
      | some e => (st, "viol effect=" ++ effStr e)
      | none =>
        if cls == "ok" && !statusAllowed st.cfg g op actor then (st, "viol status=ok-for-non-admin")
        else if cls == "ok" || cls == "reject" || cls == "deny:401" || cls == "deny:403" then (st, "ok")
        else (st, "bad-op")
    | _, _, _, _, _, _ => (st, "bad-op")
  | ["sbegin", ms] =>
    match ms.toNat? with
    | some ms => ({ st with seq := some (ms, HState.init 1700000000000) }, "ok")
    | none => (st, "bad-op")
  | ["send"] => ({ st with seq := none }, "ok")
  | ["sadv", d] =>
    match st.seq, d.toNat? with
    | some (ms, hs), some d => ({ st with seq := some (ms, hstep ms st.cfg hs (.advance d)) }, "ok")
    | _, _ => (st, "bad-op")
  | "sj" :: actor :: dd :: level :: op :: action :: target :: cls :: effs =>
    -- one step of an observed sequence: the administrator status comes from the history of
    -- (time, actor, directory) and the CONFIG (`backedB`), never from a cache
    match st.seq, unhexName actor, parseBool dd, level.toNat?, parseOp op action, unhexName target,
          (effs.filter (· ≠ "-")).mapM parseEffect with
    | some (ms, hs), some actor, some dd, some level, some op, some target, some effs =>
      let g := groupsOf st dd
      let hs' : HState := { hs with handled := ⟨hs.c.now, ⟨op, actor, level, target, g⟩, false, .deny .session⟩ :: hs.handled }
      let adm := backedB ms st.cfg hs'.handled hs.c.now actor
      let st' := { st with seq := some (ms, hs') }
      match effs.find? (fun e => !effectAllowedB adm st.cfg g op actor level target e) with
      | some e => (st', "viol effect=" ++ effStr e ++ " admin-by-config=" ++ boolStr adm)
      | none =>
        if cls == "ok" && !statusAllowedB adm op then (st', "viol status=ok-for-non-admin")
        else if cls == "ok" || cls == "reject" || cls == "deny:401" || cls == "deny:403" then (st', "ok")
        else (st', "bad-op")
    | _, _, _, _, _, _, _ => (st, "bad-op")
  | "jc" :: _ => (st, judgeCache fs)
  | "jk" :: _ => (st, judgeConcLine fs)
  | _ =>
    match cfgStep st fs with
    | some st' => (st', "ok")
    | none => (st, "bad-op")

def handler (mode : String) : Option Handler :=
  if mode == "model" then some { σ := DState, init := DState.init, step := modelStep }
  else if mode == "judge" then some { σ := DState, init := DState.init, step := judgeStep }
  else none

end KM.Driver.C08
