import KM.Driver.Core
/-! Driver for C11 (stub until the property's model is built). -/
namespace KM.Driver.C11

def handler (_mode : String) : Option Handler := none

end KM.Driver.C11
