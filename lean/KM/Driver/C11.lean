import KM.Driver.Core
import KM.Model.IPBlock
/-! Driver for C11: line protocol between checks/C11.py, the Go harnesses and `KM.IPBlock`.

Text forms — address `a.b.c.d`; block `a.b.c.d/n`; block list `b,b,…` or `-`; bit string
`n:hex` (`_` = no bytes); wire bit string `pad:hex`; family `afihex=bs,bs,…` (`=-` none);
families joined by `;` (`-` none); extension `absent` | `unparsable` | `P<families>` (after
asn1.Unmarshal) | `W<wire families>` (before); peer `noport` | `unparsed` | `v4:a.b.c.d` |
`m4:a.b.c.d` | `v6`; env three bits `denied automation revoked`. -/
namespace KM.Driver.C11
open KM.Util KM.IPBlock

/-! ### parsing -/

def pNat (s : String) : Option Nat := if s.isEmpty then none else s.toNat?

def pByte (s : String) : Option UInt8 := do
  let n ← pNat s
  if n < 256 then some (UInt8.ofNat n) else none

def pIP (s : String) : Option IP4 :=
  match s.splitOn "." with
  | [a, b, c, d] => do some ⟨← pByte a, ← pByte b, ← pByte c, ← pByte d⟩
  | _ => none

def pBlock (s : String) : Option Block :=
  match s.splitOn "/" with
  | [ip, n] => do some ⟨← pIP ip, ← pNat n⟩
  | _ => none

def pList {α} (f : String → Option α) (sep : String) (s : String) : Option (List α) :=
  if s == "-" then some [] else (s.splitOn sep).mapM f

def pNet (s : String) : Option Net :=
  if s == "other" then some .other else (pBlock s).map .v4

def pHexBytes (s : String) : Option (List UInt8) :=
  if s == "_" then some [] else unhexBytes s.toList

def pBitStr (s : String) : Option BitStr :=
  match s.splitOn ":" with
  | [n, h] => do some ⟨← pNat n, ← pHexBytes h⟩
  | _ => none

def pWireBits (s : String) : Option WireBits :=
  match s.splitOn ":" with
  | [n, h] => do some ⟨← pNat n, ← pHexBytes h⟩
  | _ => none

def pFamily (s : String) : Option Family :=
  match s.splitOn "=" with
  | [a, l] => do some ⟨← pHexBytes a, ← pList pBitStr "," l⟩
  | _ => none

def pFamilyW (s : String) : Option FamilyW :=
  match s.splitOn "=" with
  | [a, l] => do some ⟨← pHexBytes a, ← pList pWireBits "," l⟩
  | _ => none

/-- an extension argument: parsed form, or wire form together with its wire families -/
def pExt (s : String) : Option (Ext × Option (List FamilyW)) :=
  if s == "absent" then some (.absent, none)
  else if s == "unparsable" then some (.unparsable, none)
  else if s.startsWith "P" then do
    let fs ← pList pFamily ";" (s.drop 1).toString
    some (.parsed fs, none)
  else if s.startsWith "W" then do
    let ws ← pList pFamilyW ";" (s.drop 1).toString
    some (Ext.ofWire ws, some ws)
  else none

def pPeer (s : String) : Option Peer :=
  if s == "noport" then some .noPort
  else if s == "unparsed" then some .unparsed
  else if s == "v6" then some .v6
  else if s.startsWith "v4:" then (pIP (s.drop 3).toString).map .v4
  else if s.startsWith "m4:" then (pIP (s.drop 3).toString).map .v4mapped
  else none

def pEnv (s : String) : Option Env :=
  match s.toList with
  | [a, b, c] => do
    let f := fun (ch : Char) => if ch == '1' then some true else if ch == '0' then some false else none
    some ⟨← f a, ← f b, ← f c⟩
  | _ => none

/-! ### printing -/

def sIP (a : IP4) : String := s!"{a.b0.toNat}.{a.b1.toNat}.{a.b2.toNat}.{a.b3.toNat}"
def sBlock (b : Block) : String := s!"{sIP b.ip}/{b.ones}"
def sList {α} (f : α → String) (sep : String) (l : List α) : String :=
  if l.isEmpty then "-" else sep.intercalate (l.map f)
def sBytes (l : List UInt8) : String := if l.isEmpty then "_" else hexB l
def sBitStr (s : BitStr) : String := s!"{s.bitLen}:{sBytes s.bytes}"
def sWireBits (w : WireBits) : String := s!"{w.pad}:{sBytes w.bytes}"
def sFamily (f : Family) : String := s!"{sBytes f.afi}={sList sBitStr "," f.addrs}"
def sFamilyW (f : FamilyW) : String := s!"{sBytes f.afi}={sList sWireBits "," f.addrs}"
def sExt : Ext → String
  | .absent => "absent"
  | .unparsable => "unparsable"
  | .parsed fs => "P" ++ sList sFamily ";" fs
def sResBool : Res Bool → String
  | .ok true => "t" | .ok false => "f" | .err => "err" | .panic => "PANIC"
def sResBlocks : Res (List Block) → String
  | .ok bs => "ok:" ++ sList sBlock "," bs | .err => "err" | .panic => "PANIC"
def sRefresh : Refresh → String
  | .issued cn nets => s!"issued {hex (String.ofList cn)} {sList sBlock "," nets}"
  | .status c => s!"status {c}"
  | .crashed => "crashed"

/-- status `certGenHandler` answers with the same credential (it authenticates, it does not extract) -/
def sCertgen : Auth → String
  | .user _ => "200" | .forbidden => "403" | .serverError => "500" | .crashed => "PANIC"

def readers (e : Ext) (p : Peer) : String :=
  s!"restricted={boolStr e.restricted} verify={sResBool (verify e p)} extract={sResBlocks (extract e)}"

/-! ### model mode -/

def model : List String → String
  | ["dec", n, h] =>
    match pNat n, pHexBytes h with
    | some n, some bs =>
      match decode ⟨n, bs⟩ with
      | .ok b => "ok " ++ sBlock b
      | .err => "err"
      | .panic => "PANIC"
    | _, _ => "bad-op"
  | ["enc", b] =>
    match pBlock b with
    | some b => if b.ones ≤ 32 then sBitStr (encode b) else "bad-op"
    | none => "bad-op"
  | ["ver", e, p] =>
    match pExt e, pPeer p with
    | some (e, w), some p =>
      (match w with | some _ => s!"parse={sExt e} " | none => "") ++ readers e p
    | _, _ => "bad-op"
  | ["mint", ns, p] =>
    match pList pNet "," ns, pPeer p with
    | some ns, some p =>
      match mintFams ns, mintExt ns with
      | some fs, some e => s!"mint=ok wire=W{sList sFamilyW ";" (marshalFams fs)} parse={sExt e} {readers e p}"
      | _, _ => "mint=err"
    | _, _ => "bad-op"
  | ["ref", cn, e, p, env] =>
    match unhex cn, pExt e, pPeer p, pEnv env with
    | some cn, some (e, _), some p, some env =>
      s!"{sRefresh (refresh cn.toList e p env)} certgen={sCertgen (ipAuth cn.toList e p env)}"
    | _, _, _, _ => "bad-op"
  -- auth <chain length> <cn> <ext> <peer> <env> : checkAuth(…, AuthTypeAny), TLS branch
  | ["auth", n, cn, e, p, env] =>
    match pNat n, unhex cn, pExt e, pPeer p, pEnv env with
    | some n, some cn, some (e, _), some p, some env =>
      match authAny n cn.toList e p env with
      | .user u => s!"user {hex (String.ofList u)}"
      | .forbidden => "none" | .serverError => "none" | .crashed => "PANIC"
    | _, _, _, _, _ => "bad-op"
  | ["refm", cn, ns, p, env] =>
    match unhex cn, pList pNet "," ns, pPeer p, pEnv env with
    | some cn, some ns, some p, some env =>
      match mintExt ns with
      | some e => s!"{sRefresh (refresh cn.toList e p env)} certgen={sCertgen (ipAuth cn.toList e p env)}"
      | none => "minterr"
    | _, _, _, _ => "bad-op"
  | _ => "bad-op"

/-! ### judge mode: the predicates of the theorems, applied to what the implementation answered -/

/-- right-hand side of `c11_member` -/
def insideAny (bs : List Block) (p : Peer) : Bool :=
  p != .noPort && bs.any fun b =>
    match p.ip4 with
    | some a => a.and (mask b.ones) == b.ip
    | none => false

/-- a bit string is a well-formed IPv4 prefix: at most 32 bits and enough bytes (`c11_malformed`) -/
def wellFormed (s : BitStr) : Bool := s.bitLen ≤ 32 && (s.bitLen + 7) / 8 ≤ s.bytes.length

/-- the block a well-formed bit string denotes, computed without the decoder: first ⌈n/8⌉ bytes,
zero-filled -/
def blockOf (s : BitStr) : Block :=
  let bs := s.bytes.take ((s.bitLen + 7) / 8)
  ⟨⟨bs.getD 0 0, bs.getD 1 0, bs.getD 2 0, bs.getD 3 0⟩, s.bitLen⟩

def allowedBy (fs : List Family) (p : Peer) : Bool :=
  fs.any fun f => f.afi == v4afi && f.addrs.any fun s => wellFormed s && contains (blockOf s) p

def judge : List String → String
  -- jmint <nets> <peer> <verify> <extract> : certificate minted by the implementation for <nets>
  | ["jmint", ns, p, v, x] =>
    match pList pBlock "," ns, pPeer p with
    | some bs, some p =>
      if v == "PANIC" || x == "PANIC" then "viol panic"
      else if !bs.all (fun b => b.ones ≤ 32) then "bad-op"
      else
        let canonical := bs.all fun b => decide b.canonical
        let inside := insideAny (bs.map Block.canon) p
        -- statement: "authenticates a request if and only if the TCP peer address lies inside one of them".
        -- `t` is "authenticates"; `f` and `err` are both "does not" — whether the library answers false or
        -- (false, error) for a peer that is outside (or is no address at all) is not fixed by the statement.
        if v == "t" && !inside then "viol admitted-outside-netblocks"
        else if canonical && p != .noPort && inside && v != "t" then "viol refused-inside-netblocks"
        -- statement: "the netblocks read back from a certificate equal the ones it was minted with"
        else if canonical && x != sResBlocks (.ok bs) then "viol extract-differs-from-minted"
        else if !canonical && x != "err" && x != sResBlocks (.ok (bs.map Block.canon)) then "viol extract-neither-error-nor-canonical"
        else "ok"
    | _, _ => "bad-op"
  -- jext <ext as asn1 parsed it> <peer> <verify> <extract>
  | ["jext", e, p, v, x] =>
    match pExt e, pPeer p with
    | some (e, _), some p =>
      if v == "PANIC" || x == "PANIC" then "viol panic"
      else match e with
        -- statement: "Malformed or oversized address extensions in an otherwise trusted certificate are rejected
        -- without crashing and never widen access": rejected = not `t` (false or an error, either way) and no
        -- netblocks read out of the malformed part; never a panic (above).
        | .absent => if v == "t" then "viol admitted-without-extension"
                     else if x.startsWith "ok:" && x != "ok:-" then "viol extract-without-extension" else "ok"
        | .unparsable => if v == "t" then "viol admitted-on-unparsable-extension"
                         else if x.startsWith "ok:" && x != "ok:-" then "viol extract-unparsable" else "ok"
        | .parsed fs =>
          let v4 := fs.filter fun f => f.afi == v4afi
          if v == "t" && !(p != .noPort && allowedBy fs p) then "viol admitted-by-malformed-or-foreign-block"
          -- netblocks are read back only from well-formed IPv4 prefixes (whether a foreign family makes the
          -- reader fail or is skipped is not fixed by the statement), and they are exactly those prefixes
          else if x.startsWith "ok:" && !(v4.all fun f => f.addrs.all wellFormed) then
            "viol extracted-from-malformed-extension"
          else if x.startsWith "ok:" && x != sResBlocks (.ok (v4.flatMap fun f => f.addrs.map blockOf)) then
            "viol extracted-blocks-differ"
          else "ok"
    | _, _ => "bad-op"
  -- jref <cn> <nets of the presented certificate (canonical)> <peer> <env> <status> <new cn> <new nets>
  | ["jref", cn, ns, p, env, st, ncn, nn] =>
    match pList pBlock "," ns, pPeer p, pEnv env with
    | some bs, some p, some env =>
      let inside := insideAny bs p
      let good := !env.denied && env.automation && !env.revoked
      if st == "PANIC" then "viol panic"
      else if st == "200" && !inside then "viol refreshed-from-outside"
      else if st == "200" && !good then "viol refreshed-despite-denied-or-foreign-identity"
      else if st == "200" && ncn != cn then "viol refreshed-identity-differs"
      else if st == "200" && nn != sList sBlock "," bs then "viol refreshed-netblocks-differ"
      else if st != "200" && inside && good then "viol refresh-refused-inside"
      else if st != "200" && !(st.startsWith "4" || st.startsWith "5") then "viol unexpected-status"
      else "ok"
    | _, _, _ => "bad-op"
  -- jauth <ext as asn1 parsed it, present> <peer> <env> <cn> <user checkAuth named | none | PANIC> <status of an issuing handler>
  -- (`c11_restricted_never_plain`: a certificate carrying the extension authenticates only from inside a
  -- well-formed IPv4 block of it, in good standing, under its own CN)
  | ["jauth", e, p, env, cn, user, st] =>
    match pExt e, pPeer p, pEnv env with
    | some (e, _), some p, some env =>
      let inside := match e with
        | .parsed fs => p != .noPort && allowedBy fs p
        | _ => false
      let good := !env.denied && env.automation && !env.revoked
      if user == "PANIC" || st == "PANIC" then "viol panic"
      else if e == .absent then "bad-op"
      else if user != "none" && !inside then "viol authenticated-without-a-wellformed-block-containing-the-peer"
      else if user != "none" && !good then "viol authenticated-despite-denied-or-foreign-identity"
      else if user != "none" && user != cn then "viol authenticated-under-another-name"
      else if st == "200" && !(inside && good) then "viol certificate-issued-on-a-malformed-or-foreign-extension"
      else "ok"
    | _, _, _ => "bad-op"
  -- juse <nets of the ORIGINAL certificate> <peer> <env> <status> : a refreshed certificate presented from <peer>
  | ["juse", ns, p, env, st] =>
    match pList pBlock "," ns, pPeer p, pEnv env with
    | some bs, some p, some env =>
      let inside := insideAny bs p
      let good := !env.denied && env.automation && !env.revoked
      if st == "PANIC" then "viol panic"
      else if st == "200" && !inside then "viol refreshed-certificate-admitted-outside-original-netblocks"
      else if st == "200" && !good then "viol refreshed-certificate-admitted-despite-denied-or-foreign-identity"
      else if st != "200" && inside && good then "viol refreshed-certificate-refused-inside-original-netblocks"
      else if st != "200" && !(st.startsWith "4" || st.startsWith "5") then "viol unexpected-status"
      else "ok"
    | _, _, _ => "bad-op"
  | _ => "bad-op"

def handler (mode : String) : Option Handler :=
  if mode == "model" then some (.pure model)
  else if mode == "judge" then some (.pure judge)
  else none

end KM.Driver.C11
