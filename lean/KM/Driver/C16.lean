import KM.Driver.Core
import KM.Model.Conc
/-! Driver for C16: `pair <fixture tokens|otp> <kindA> <kindB> <schedule e.g. ABAB>` ↦
`<statusA> <statusB> <digest of the final profile>`. Kinds: `u2f:<idx>:<action>`, `totp:<idx>:<action>`,
`otp:<ok|bad>`; actions `disable|enable|delete|rename<n>`. -/
namespace KM.Driver.C16
open KM.Util KM.Conc

def parseAction (s : String) : Option Action :=
  if s == "disable" then some .disable
  else if s == "enable" then some .enable
  else if s == "delete" then some .delete
  else if s.startsWith "rename" then (s.drop 6).toString.toNat?.map Action.rename
  else none

def parseKind (s : String) : Option Kind :=
  match s.splitOn ":" with
  | ["u2f", i, a] => do let i ← i.toNat?; let a ← parseAction a; pure (.u2f i a)
  | ["totp", i, a] => do let i ← i.toNat?; let a ← parseAction a; pure (.totp i a)
  | ["otp", "ok"] => some (.bootstrap true)
  | ["otp", "bad"] => some (.bootstrap false)
  | _ => none

def tokensFixture : Profile :=
  { u2f := fun i => if i = 1 ∨ i = 2 then some { enabled := true, name := 0 } else none,
    totp := fun i => if i = 1 then some { enabled := true, name := 0 } else none,
    bootstrap := false }

def otpFixture : Profile := { u2f := fun _ => none, totp := fun _ => none, bootstrap := true }

def tokStr : Option Tok → String
  | none => "-"
  | some t => s!"{boolStr t.enabled}/{t.name}"

def digest (p : Profile) : String :=
  s!"u2f={tokStr (p.u2f 1)},{tokStr (p.u2f 2)},{tokStr (p.u2f 3)} totp={tokStr (p.totp 1)},{tokStr (p.totp 2)} otp={boolStr p.bootstrap}"

def stStr : Option Nat → String
  | some n => toString n
  | none => "unfinished"

def model : List String → String
  | ["pair", fx, ka, kb, sched] =>
    match parseKind ka, parseKind kb with
    | some a, some b =>
      let p := if fx == "otp" then otpFixture else tokensFixture
      let s : Store := fun _ => p
      let sch := sched.toList.map (· == 'A')
      let (s', ta, tb) := KM.Conc.run s (mk 0 a) (mk 0 b) sch
      s!"{stStr ta.status} {stStr tb.status} {digest (s' 0)}"
    | _, _ => "bad-op"
  | ["triple", fx, ka, kb, kc, sched] =>
    match parseKind ka, parseKind kb, parseKind kc with
    | some a, some b, some c =>
      let p := if fx == "otp" then otpFixture else tokensFixture
      let s : Store := fun _ => p
      let sch := sched.toList.map (fun ch => if ch == 'A' then 0 else if ch == 'B' then 1 else 2)
      let (s', ta, tb, tc) := KM.Conc.run3 s (mk 0 a) (mk 0 b) (mk 0 c) sch
      s!"{stStr ta.status} {stStr tb.status} {stStr tc.status} {digest (s' 0)}"
    | _, _, _ => "bad-op"
  | _ => "bad-op"

def handler (mode : String) : Option Handler :=
  if mode == "model" then some (.pure model) else none

end KM.Driver.C16
