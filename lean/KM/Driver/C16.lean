import KM.Driver.Core
import KM.Model.Conc
/-! Driver for C16: `pair <fixture tokens|otp> <kindA> <kindB> <schedule e.g. ABAB>` ↦
`<statusA> <statusB> <digest of the final profile>`. Kinds: `u2f:<idx>:<action>`, `totp:<idx>:<action>`,
`otp:<ok|bad>`; actions `disable|enable|delete|rename<n>`. -/
namespace KM.Driver.C16
open KM.Util KM.Conc

def parseAction (s : String) : Option Action :=
  if s == "disable" then some .disable
  else if s == "enable" then some .enable
  else if s == "delete" then some .delete
  else if s.startsWith "rename" then (s.drop 6).toString.toNat?.map Action.rename
  else none

def parseKind (s : String) : Option Kind :=
  match s.splitOn ":" with
  | ["u2f", i, a] => do let i ← i.toNat?; let a ← parseAction a; pure (.u2f i a)
  | ["totp", i, a] => do let i ← i.toNat?; let a ← parseAction a; pure (.totp i a)
  | ["otp", "ok"] => some (.bootstrap true)
  | ["otp", "bad"] => some (.bootstrap false)
  | _ => none

def tokensFixture : Profile :=
  { u2f := fun i => if i = 1 ∨ i = 2 then some { enabled := true, name := 0 } else none,
    totp := fun i => if i = 1 then some { enabled := true, name := 0 } else none,
    bootstrap := false }

def otpFixture : Profile := { u2f := fun _ => none, totp := fun _ => none, bootstrap := true }

def tokStr : Option Tok → String
  | none => "-"
  | some t => s!"{boolStr t.enabled}/{t.name}"

def digest (p : Profile) : String :=
  s!"u2f={tokStr (p.u2f 1)},{tokStr (p.u2f 2)},{tokStr (p.u2f 3)} totp={tokStr (p.totp 1)},{tokStr (p.totp 2)} otp={boolStr p.bootstrap}"

def stStr : Option Nat → String
  | some n => toString n
  | none => "unfinished"

/-! `fine totp <kind,kind,…> <schedule>`: requests A, B, C … present the same valid TOTP code; the n-th
occurrence of a letter in the schedule is that request's n-th step (load, gate+evaluate, save), all at one
instant, on a fresh user.  ↦ `<ok|refused> … stored=<new|old>`. -/
def fineEvents (sched : List Char) : List TEv :=
  (sched.foldl (fun (acc : List TEv × (Nat → Nat)) ch =>
    let r := ch.toNat - 'A'.toNat
    let k := acc.2 r
    let ev : List TEv := if k == 0 then [.load r] else if k == 1 then [.gate r 0] else if k == 2 then [.save r] else []
    (acc.1 ++ ev, fun q => if q = r then k + 1 else acc.2 q)) ([], fun _ => 0)).1

def fineKindOK (k : String) : Bool := k == "auth" || k == "verify"

def fineModel (kinds sched : String) : String :=
  let ks := kinds.splitOn ","
  let n := ks.length
  if !(ks.all fineKindOK) || n > 3 || !(sched.toList.all (fun ch => 'A'.toNat ≤ ch.toNat && ch.toNat < 'A'.toNat + n)) then "bad-op"
  else
    -- whatever the schedule leaves unfinished runs to completion afterwards, in name order (as the harness does);
    -- steps a request has already taken are no-ops the second time (a loaded request re-loading is harmless
    -- only before its gate, so completion events are generated per request from its own progress)
    let cnt : Nat → Nat := fun r => (sched.toList.filter (fun ch => ch.toNat - 'A'.toNat == r)).length
    let rest : List TEv := (List.range n).flatMap (fun r =>
      if cnt r == 0 then [] else [TEv.load r, .gate r 0, .save r].drop (cnt r))
    let s := tRun true 1 (TSt.init 0 none) (fineEvents sched.toList ++ rest)
    let outs := (List.range n).map (fun r => if s.honoured.contains r then "ok" else "refused")
    " ".intercalate outs ++ (if s.stored == 1 then " stored=new" else " stored=old")

def model : List String → String
  | ["pair", fx, ka, kb, sched] =>
    match parseKind ka, parseKind kb with
    | some a, some b =>
      let p := if fx == "otp" then otpFixture else tokensFixture
      let s : Store := fun _ => p
      let sch := sched.toList.map (· == 'A')
      let (s', ta, tb) := KM.Conc.run s (mk 0 a) (mk 0 b) sch
      s!"{stStr ta.status} {stStr tb.status} {digest (s' 0)}"
    | _, _ => "bad-op"
  | ["triple", fx, ka, kb, kc, sched] =>
    match parseKind ka, parseKind kb, parseKind kc with
    | some a, some b, some c =>
      let p := if fx == "otp" then otpFixture else tokensFixture
      let s : Store := fun _ => p
      let sch := sched.toList.map (fun ch => if ch == 'A' then 0 else if ch == 'B' then 1 else 2)
      let (s', ta, tb, tc) := KM.Conc.run3 s (mk 0 a) (mk 0 b) (mk 0 c) sch
      s!"{stStr ta.status} {stStr tb.status} {stStr tc.status} {digest (s' 0)}"
    | _, _, _ => "bad-op"
  | ["fine", "totp", kinds, sched] => fineModel kinds sched
  | _ => "bad-op"

/-- `once <ok|refused|…> …`: the property's predicate on what the implementation answered to several
presentations of one one-time value — honoured at most once (a refusal is anything that is not `ok`). -/
def judge : List String → String
  | "once" :: outs =>
    let k := (outs.filter (· == "ok")).length
    if outs.isEmpty then "bad-op"
    else if k ≤ 1 then "ok" else s!"viol honoured={k}"
  | _ => "bad-op"

def handler (mode : String) : Option Handler :=
  if mode == "model" then some (.pure model)
  else if mode == "judge" then some (.pure judge)
  else none

end KM.Driver.C16
