import KM.Driver.Core
/-! Driver for C16 (stub until the property's model is built). -/
namespace KM.Driver.C16

def handler (_mode : String) : Option Handler := none

end KM.Driver.C16
