import KM.Driver.Core
/-! Driver for C04 (stub until the property's model is built). -/
namespace KM.Driver.C04

def handler (_mode : String) : Option Handler := none

end KM.Driver.C04
