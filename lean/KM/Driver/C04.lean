import KM.Driver.Core
import KM.Model.Token
/-! Driver for C04: line protocol between checks/C04.py, the Go harness and `KM.Token`.

`call <consumer> <nowSec> <nowNsec> <issuerHex> <keys> <A> <B> <C> <D> <E> <alg> <by> <sigAlg> <wire>`
  keys  = `id:type,…`        wire = `-` | `key=val;key=val…`     val = s<hex> | n<int> | l<hex,…> | z | o
`emit <kind> …` prints the claims a producer mints. -/
namespace KM.Driver.C04
open KM.Util KM.Token

def strOfHex (h : String) : Option Str := (unhex h).map String.toList
def hexOfStr (s : Str) : String := hex (String.ofList s)

def tailStr (s : String) : String := String.ofList (s.toList.drop 1)

def parseVal (s : String) : Option Val :=
  match s.toList with
  | 's' :: _ => (strOfHex (tailStr s)).map Val.str
  | 'n' :: _ => (tailStr s).toInt?.map Val.num
  | 'l' :: rest =>
    if rest.isEmpty then some (.strs [])
    else ((tailStr s).splitOn ",").mapM strOfHex |>.map Val.strs
  | ['z'] => some .null
  | ['o'] => some .other
  | _ => none

def showVal : Val → String
  | .str s => "s" ++ hexOfStr s
  | .num i => "n" ++ toString i
  | .strs l => "l" ++ ",".intercalate (l.map hexOfStr)
  | .null => "z"
  | .other => "o"

def fieldOfName (n : String) : Option Field :=
  Field.all.find? (fun f => String.ofList f.json == n)

def parseWire (s : String) : Option Wire :=
  if s == "-" then some Wire.empty
  else (s.splitOn ";").foldlM (fun (w : Wire) kv =>
    match kv.splitOn "=" with
    | [k, v] => do
      let f ← fieldOfName k
      let x ← parseVal v
      pure (w.set f (some x))
    | _ => none) Wire.empty

def showWire (w : Wire) : String :=
  let parts := Field.all.filterMap (fun f => (w f).map (fun v => String.ofList f.json ++ "=" ++ showVal v))
  if parts.isEmpty then "-" else ";".intercalate parts

def parseAlg : String → Option Alg
  | "RS256" => some .RS256 | "RS384" => some .RS384 | "RS512" => some .RS512 | "PS256" => some .PS256
  | "ES256" => some .ES256 | "ES384" => some .ES384 | "ES512" => some .ES512 | "EdDSA" => some .EdDSA
  | "HS256" => some .HS256 | "none" => some .none | "other" => some .other
  | _ => none

def parseKeyType : String → Option KeyType
  | "rsa" => some .rsa | "p256" => some .p256 | "p384" => some .p384 | "p521" => some .p521
  | "ed25519" => some .ed25519 | "unsupported" => some .unsupported
  | _ => none

def parseKeys (s : String) : Option (List Key) :=
  if s == "-" then some []
  else (s.splitOn ",").mapM (fun kv =>
    match kv.splitOn ":" with
    | [i, t] => do pure { id := ← i.toNat?, ty := ← parseKeyType t }
    | _ => none)

def parseConsumer : String → Option Consumer
  | "session" => some .session | "upgrade" => some .upgrade | "cliVerify" => some .cliVerify
  | "cliSend" => some .cliSend | "storage" => some .storage | "code" => some .code
  | "access" => some .access
  | _ => none

def showRej : Rej → String
  | .crypto => "crypto" | .values => "values" | .expired => "expired" | .level => "level"
  | .user => "user" | .notFound => "notFound" | .subject => "subject" | .dtype => "dtype"
  | .clientAuth => "clientAuth" | .redirect => "redirect" | .kind => "kind" | .issuer => "issuer"
  | .audience => "audience" | .noCookie => "noCookie"

structure Call where
  c : Consumer
  x : Ctx
  a : Artefact
  slots : List String

def optInt (s : String) : Option Int := if s == "-" then some 0 else s.toInt?
def optNat (s : String) : Option Nat := if s == "-" then some 0 else s.toNat?

/-- fill the context from the five generic slots -/
def mkCtx (c : Consumer) (d : Deployment) (now : Clock) (s : List String) : Option Ctx :=
  let base : Ctx := { dep := d, now := now }
  match c, s with
  | .session, [a, _, _, _, _] => do pure { base with required := ← optNat a }
  | .upgrade, [a, _, _, _, _] => do pure { base with newLevel := ← optInt a }
  | .cliVerify, _ => some base
  | .cliSend, [a, b, _, _, _] => do pure { base with authUser := ← strOfHex a, required := ← optNat b }
  | .storage, [a, b, cu, ct, ce] => do
    pure { base with lookupUser := ← strOfHex a, lookupType := ← optInt b, colUser := ← strOfHex cu,
                     colType := ← optInt ct, colExp := ← optInt ce }
  | .code, [a, b, ok, _, _] => do
    pure { base with clientID := ← strOfHex a, redirect := ← strOfHex b, clientAuthOK := ← parseBool ok }
  | .access, _ => some base
  | _, _ => none

def parseCall : List String → Option (Call × List String)
  | "call" :: c :: ns :: nn :: iss :: keys :: sa :: sb :: sc :: sd :: se :: alg :: by_ :: sig :: wire :: rest => do
    let c ← parseConsumer c
    let now : Clock := { sec := ← ns.toInt?, nsec := ← nn.toNat? }
    let d : Deployment := { issuer := ← strOfHex iss, trusted := ← parseKeys keys }
    let x ← mkCtx c d now [sa, sb, sc, sd, se]
    let signedBy ← (if by_ == "-" then some none else by_.toNat?.map some)
    let a : Artefact := { claims := ← parseWire wire, alg := ← parseAlg alg, signedBy := signedBy,
                          sigAlg := ← parseAlg sig }
    pure ({ c := c, x := x, a := a, slots := [sa, sb, sc, sd, se] }, rest)
  | _ => none

def rowOf (x : Ctx) (a : Artefact) : Row :=
  { user := x.colUser, ty := x.colType, expCol := x.colExp, jws := a }

/-- a fresh, valid session cookie of `user` signed by the deployment's first key (what the harness
presents to `SendAuthDocumentHandler` next to the CLI token under test) -/
def goodCookie (x : Ctx) (user : Str) : Option Artefact :=
  match x.dep.trusted with
  | k :: _ => (algOf k.ty).map fun al =>
    { claims := emitSession x.dep user x.required x.now.sec 1000, alg := al, signedBy := some k.id, sigAlg := al }
  | [] => none

def showFx (e : Effects) : String :=
  s!"fx={if e.setCookie.isSome then 1 else 0}{e.handedOut.length}{if e.disclosed.isSome then 1 else 0}"

def dummyCode (d : Deployment) (now : Clock) (info : AuthInfo) : List Wire :=
  [emitCode d { client := [], user := info.username, scope := [], nonce := [], redirect := [],
                accessAudience := [], jti := [], protectedDataKey := [], protectedData := [] } now.sec]

/-- decision text and handler-level effects of one call -/
def decide_ (k : Call) (old : Bool) : String × Effects :=
  let d := k.x.dep
  let now := k.x.now
  match k.c with
  | .session =>
    let o := hWithSession d now k.x.required (some k.a) (dummyCode d now)
    (match acceptSession d now k.x.required k.a with
     | .ok i => s!"ok {hexOfStr i.username} {i.authType} {i.expiresAt}"
     | .error e => "rej " ++ showRej e, o.2)
  | .upgrade =>
    let o := hUpgrade d now k.x.newLevel (some k.a)
    (match acceptUpgrade d now k.x.newLevel k.a with
     | .ok c => "ok " ++ showWire (emitAuth c)
     | .error e => "rej " ++ showRej e, o.2)
  | .cliVerify =>
    let o := hCliVerify d now k.a
    (match acceptCliVerify d now k.a with
     | .ok _ => "ok"
     | .error e => "rej " ++ showRej e, o.2)
  | .cliSend =>
    let o := hCliSend d now k.x.required (goodCookie k.x k.x.authUser) k.a
    (match o.1 with
     | .ok _ => "ok " ++ ";".intercalate (o.2.handedOut.map showWire)
     | .error e => "rej " ++ showRej e, o.2)
  | .storage =>
    if old then
      (match acceptStorageOld d now (some (rowOf k.x k.a)) k.x.lookupUser k.x.lookupType with
       | .ok s => ("ok " ++ hexOfStr s, ⟨none, [], some s⟩)
       | .error e => ("rej " ++ showRej e, Effects.nothing))
    else
      let o := hGetSigned d now (some (rowOf k.x k.a)) k.x.lookupUser k.x.lookupType
      (match acceptStorage d now (some (rowOf k.x k.a)) k.x.lookupUser k.x.lookupType with
       | .ok s => "ok " ++ hexOfStr s
       | .error e => "rej " ++ showRej e, o.2)
  | .code =>
    let o := hToken d now k.x.clientID k.x.redirect k.x.clientAuthOK k.a
    (match acceptCode d now k.x.clientID k.x.redirect k.x.clientAuthOK k.a with
     | .ok c => "ok " ++ hexOfStr (gStr c .username)
     | .error e => "rej " ++ showRej e, o.2)
  | .access =>
    let o := hUserinfo d now k.a
    (match acceptAccess d now k.a with
     | .ok u => "ok " ++ hexOfStr u
     | .error e => "rej " ++ showRej e, o.2)

def emitOp : List String → Option String
  | ["session", iss, user, level, t, dur] => do
    let d : Deployment := { issuer := ← strOfHex iss, trusted := [] }
    pure (showWire (emitSession d (← strOfHex user) (← level.toInt?) (← t.toInt?) (← dur.toInt?)))
  | ["cli", iss, user, t, life] => do
    let d : Deployment := { issuer := ← strOfHex iss, trusted := [] }
    pure (showWire (emitCli d (← strOfHex user) (← t.toInt?) (← life.toInt?)))
  | ["storage", iss, user, ty, data, exp, t] => do
    let d : Deployment := { issuer := ← strOfHex iss, trusted := [] }
    pure (showWire (emitStorage d (← strOfHex user) (← ty.toInt?) (← strOfHex data) (← exp.toInt?) (← t.toInt?)))
  | ["code", iss, client, user, scope, nonce, redirect, aa, jti, pdk, pd, t] => do
    let d : Deployment := { issuer := ← strOfHex iss, trusted := [] }
    let aud ← (match ← parseVal aa with | .strs l => some l | _ => none)
    let client ← strOfHex client
    let user ← strOfHex user
    let scope ← strOfHex scope
    let nonce ← strOfHex nonce
    let redirect ← strOfHex redirect
    let jti ← strOfHex jti
    let pdk ← strOfHex pdk
    let pd ← strOfHex pd
    let t ← t.toInt?
    let p : CodeParams := ⟨client, user, scope, nonce, redirect, aud, jti, pdk, pd⟩
    pure (showWire (emitCode d p t))
  | ["access", iss, t, wire] => do
    let d : Deployment := { issuer := ← strOfHex iss, trusted := [] }
    pure (showWire (emitAccess d (← parseWire wire) (← t.toInt?)))
  | ["id", iss, client, t, wire] => do
    let d : Deployment := { issuer := ← strOfHex iss, trusted := [] }
    pure (showWire (emitId d (← parseWire wire) (← strOfHex client) (← t.toInt?)))
  | _ => none

def modelWith (old : Bool) (fs : List String) : String :=
  match fs with
  | "emit" :: rest => (emitOp rest).getD "bad-op"
  | _ =>
    match parseCall fs with
    | some (k, []) => let r := decide_ k old; r.1 ++ " " ++ showFx r.2
    | _ => "bad-op"

/-- `call … <wire> <acc|rej> <fx>`: apply the property predicate to what the implementation did -/
def judge (fs : List String) : String :=
  match parseCall fs with
  | some (k, [dec, fx]) =>
    if dec == "acc" then
      if honourable k.c k.x k.a then "ok"
      else
        let why :=
          (if !signedByDeployment k.x.dep k.a then ["not-signed-by-deployment"] else []) ++
          (if !hasMarker k.c.purpose k.a.claims then ["wrong-kind"] else []) ++
          (if !(match k.c with
                | .upgrade => decide (gInt k.a.claims .nbf ≤ k.x.now.sec)
                | c => inWindow c.purpose k.x.now k.a.claims) then ["outside-validity-window"] else []) ++
          (if !(match k.c.purpose with
                | .session | .cli | .storage => namesThisServer k.x.dep k.a.claims
                | _ => true) then ["issuer-or-audience-not-this-server"] else []) ++
          (if !(match k.c with
                | .storage => gStr k.a.claims .sub == k.x.lookupUser && gInt k.a.claims .dataType == k.x.lookupType
                | .code => gStr k.a.claims .sub == k.x.clientID
                | .cliSend => gStr k.a.claims .sub == k.x.authUser
                | _ => true) then ["not-bound-to-this-request"] else [])
        "viol accepted " ++ ",".intercalate why
    else if dec == "rej" then
      if fx == "fx=000" then "ok" else "viol rejected-with-side-effects " ++ fx
    else "bad-op"
  | _ => "bad-op"

def handler (mode : String) : Option Handler :=
  if mode == "model" then some (.pure (modelWith false))
  else if mode == "model-asfound" then some (.pure (modelWith true))
  else if mode == "judge" then some (.pure judge)
  else none

end KM.Driver.C04
