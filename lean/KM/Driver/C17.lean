import KM.Driver.Core
import KM.Model.LoginDest
namespace KM.Driver.C17
open KM.Util KM.LoginDest

def startStr : Start → String
  | .pathAbsolute => "path" | .authority => "authority" | .other => "other"

/-- steps of a `flow` op: `B <hex dest> <cookie presented>` (the model, like the code, ignores which
cookie a begin presents) and `C <attempt whose state> <attempt whose cookie>` -/
def parseSteps : List String → Option (List FStep)
  | [] => some []
  | "B" :: h :: _ :: rest => do
    let s ← unhex h
    let r ← parseSteps rest
    pure (.begin s.toList :: r)
  | "C" :: i :: j :: rest => do
    let i ← i.toNat?
    let j ← j.toNat?
    let r ← parseSteps rest
    pure (.callback i j :: r)
  | _ => none

def isCallback : FStep → Bool
  | .callback _ _ => true
  | _ => false

/-- the `url.Parse` oracle as observed by the harness: one bit per begin, about its filtered destination -/
def oracleOf (steps : List FStep) (bits : List Char) : List Char → Bool :=
  let dests := steps.filterMap fun | .begin d => some (filter d) | _ => none
  fun d => match (dests.zip bits).find? (fun x => x.1 == d) with
    | some (_, b) => b == '1'
    | none => true

/-- `dest <hex> <parseOK>` ↦ `<hex of filter result> <hex of Location>`;
`flow <parseOK bits> <steps>` ↦ `flow {<hex Location>|refuse}` (one per callback) -/
def model : List String → String
  | "flow" :: bits :: rest =>
    match parseSteps rest with
    | some steps =>
      let outs := frun (oracleOf steps bits.toList) Flow.init steps
      let rs := (steps.zip outs).filterMap fun (st, o) =>
        if isCallback st then some (match o with | some l => hex (String.ofList l) | none => "refuse") else none
      " ".intercalate ("flow" :: rs)
    | none => "bad-op"
  | ["dest", h, p] =>
    match unhex h, parseBool p with
    | some s, some b =>
      let f := filter s.toList
      s!"{hex (String.ofList f)} {hex (String.ofList (location b f))}"
    | _, _ => "bad-op"
  | _ => "bad-op"

/-- `loc <hex of an emitted Location>` ↦ verdict of the property predicate -/
def judge : List String → String
  | ["loc", h] =>
    match unhex h with
    | some s =>
      if safeLoc s.toList && browserStart s.toList == .pathAbsolute then "ok"
      else s!"viol start={startStr (browserStart s.toList)}"
    | none => "bad-op"
  | _ => "bad-op"

def handler (mode : String) : Option Handler :=
  if mode == "model" then some (.pure model)
  else if mode == "judge" then some (.pure judge)
  else none

end KM.Driver.C17
