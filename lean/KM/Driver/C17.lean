import KM.Driver.Core
import KM.Model.LoginDest
namespace KM.Driver.C17
open KM.Util KM.LoginDest

def startStr : Start → String
  | .pathAbsolute => "path" | .authority => "authority" | .other => "other"

/-- `dest <hex> <parseOK>` ↦ `<hex of filter result> <hex of Location>` -/
def model : List String → String
  | ["dest", h, p] =>
    match unhex h, parseBool p with
    | some s, some b =>
      let f := filter s.toList
      s!"{hex (String.ofList f)} {hex (String.ofList (location b f))}"
    | _, _ => "bad-op"
  | _ => "bad-op"

/-- `loc <hex of an emitted Location>` ↦ verdict of the property predicate -/
def judge : List String → String
  | ["loc", h] =>
    match unhex h with
    | some s =>
      if safeLoc s.toList && browserStart s.toList == .pathAbsolute then "ok"
      else s!"viol start={startStr (browserStart s.toList)}"
    | none => "bad-op"
  | _ => "bad-op"

def handler (mode : String) : Option Handler :=
  if mode == "model" then some (.pure model)
  else if mode == "judge" then some (.pure judge)
  else none

end KM.Driver.C17
