import KM.Driver.Core
import KM.Model.CertGen
/-! Parsing of the request-shape tokens shared by the C01 / C06 / C09 drivers. -/
namespace KM.Driver.AuthOps
open KM.Util KM.Auth

def parseMethod : String → Option Method
  | "GET" => some .get | "POST" => some .post | "PUT" => some .other | _ => none

def parseOrigin : String → Option Origin
  | "none" => some .none | "bad" => some .unparsable | "same" => some .sameHost | "other" => some .otherHost
  | _ => none

/-- key ids used by the harness: 1 = keymaster signer, 2 = foreign CA, 10 = leaf key -/
def kmKey : Nat := 1
def foreignKey : Nat := 2
def leafKey : Nat := 10

def mkLeaf (kind : String) : Option Cert :=
  let base : Cert := { cn := "alice", keyId := leafKey, ipRestricted := false, ipVerdict := .outside,
                       notBefore := 0, revoked := false }
  match kind with
  | "km" => some base
  | "foreign" => some base
  | "ipin" => some { base with cn := "role1", ipRestricted := true, ipVerdict := .inside }
  | "ipout" => some { base with cn := "role1", ipRestricted := true, ipVerdict := .outside }
  | "ipxff" | "ipxri" => some { base with cn := "role1", ipRestricted := true, ipVerdict := .outside }
  | "ipinhdr" => some { base with cn := "role1", ipRestricted := true, ipVerdict := .inside }
  | "iperr" => some { base with cn := "role1", ipRestricted := true, ipVerdict := .error }
  | "ipnoauto" => some { base with cn := "mallory", ipRestricted := true, ipVerdict := .inside }
  | _ => none

def caCert (key : Nat) : Cert :=
  { cn := "ca", keyId := key, ipRestricted := false, ipVerdict := .outside, notBefore := 0, revoked := false }

/-- `none` | `nochain` | `<kind>:<shape>[:denied]`; returns (tls, chains, denied?) -/
def parseTls (s : String) : Option (Bool × List Chain × Bool) :=
  if s == "none" then some (false, [], false)
  else if s == "nochain" then some (true, [], false)
  else match s.splitOn ":" with
    | kind :: shape :: rest =>
      match mkLeaf kind with
      | Option.none => Option.none
      | some leaf =>
        let signerKey := if kind == "foreign" then foreignKey else kmKey
        let chain? : Option Chain := match shape with
          | "1" => some [leaf]
          | "2" => some [leaf, caCert signerKey]
          | "2x" => some [leaf, caCert foreignKey]
          | _ => Option.none
        match chain? with
        | Option.none => Option.none
        | some ch => some (true, [ch], rest == ["denied"])
    | _ => Option.none

def parseKind : String → Option TokKind
  | "auth" => some .auth | "cli" => some .cli | "storage" => some .storage | _ => none

/-- `none` | kind:sig:iss:aud:nbf:exp:level:sub (now = 1000; exp `soon` = 1050: over when presented again at `laterNow`) -/
def laterNow : Int := 1100

def parseCookie (s : String) : Option (Option Token) :=
  if s == "none" then some Option.none
  else match s.splitOn ":" with
    | [kind, sig, iss, aud, nbf, exp, level, sub] =>
      match parseKind kind, level.toNat? with
      | some k, some l =>
        some (some { sigOK := sig == "ok", issOK := iss == "ok", audOK := aud == "ok", kind := k,
                     nbf := if nbf == "past" then 900 else 1100,
                     exp := if exp == "past" then 950 else if exp == "soon" then 1050 else 2000,
                     iat := 900, sub := sub, level := l })
      | _, _ => Option.none
    | _ => Option.none

def parseBasic : String → Option (Option Basic)
  | "none" => some Option.none
  | "valid" => some (some { user := "username", result := .valid })
  | "invalid" => some (some { user := "username", result := .invalid })
  | "error" => some (some { user := "username", result := .error })
  | _ => Option.none

structure Parsed where
  cfg : Cfg
  req : Req

/-- method origin host tls cookie basic limiter -/
def parseReq : List String → Option Parsed
  | [m, o, h, t, c, b, l] => do
    let m ← parseMethod m
    let o ← parseOrigin o
    let h ← parseBool h
    let (tls, chains, denied) ← parseTls t
    let c ← parseCookie c
    let b ← parseBasic b
    let l ← parseBool l
    pure { cfg := { keymasterKeys := [kmKey], deniedKeys := if denied then [leafKey] else [],
                    automationUsers := ["role1"], automationLookupFails := [] },
           req := { method := m, origin := o, hostPresent := h, tls := tls, chains := chains,
                    cookie := c, basic := b, limiterAllows := l, now := 1000 } }
  | _ => Option.none

def outStr : Out → String
  | .ok info => s!"ok {hex info.user} {info.authType}"
  | .fail s => s!"fail {s}"
  | .silent => "silent"

end KM.Driver.AuthOps
