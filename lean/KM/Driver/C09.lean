import KM.Driver.Core
/-! Driver for C09 (stub until the property's model is built). -/
namespace KM.Driver.C09

def handler (_mode : String) : Option Handler := none

end KM.Driver.C09
