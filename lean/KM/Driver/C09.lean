import KM.Driver.Core
import KM.Model.Seal
/-! Driver for C09. Stateful ops:
`reset <ed 0|1>` · `reset2 <ed> <preloaded keys s|e|f…|->` · `inj2 …` (digest + `in=<signer key published><ed key published>`) · `inj notls|nochain|noform|pass:<hex passphrase>` · `req`
each ↦ `<status> <signer?> <ed?> <#published> <#caCerts> <#readySignals>` -/
namespace KM.Driver.C09
open KM.Util KM.Seal

structure St where
  cfg : Cfg
  s : State

def digest (status : Nat) (s : State) : String :=
  s!"{status} {boolStr s.signer.isSome} {boolStr s.edSigner.isSome} {s.published.length} {s.caKeys.length} {s.readySignals}"

/-- `digest` + which of the two CA keys are in the published list -/
def digest2 (cfg : Cfg) (status : Nat) (s : State) : String :=
  let edIn := match cfg.edKey with | some e => s.published.contains e | none => s.published.contains 11
  s!"{digest status s} in={boolStr (s.published.contains cfg.signerKey)}{boolStr edIn}"

/-- letters `s` (the signer's key, 10), `e` (the Ed25519 CA key, 11), `f` (a foreign key, 99) -/
def parsePre (t : String) : Option (List Nat) :=
  if t == "-" then some []
  else t.toList.mapM (fun ch => if ch == 's' then some 10 else if ch == 'e' then some 11 else if ch == 'f' then some 99 else none)

def parseInj (t : String) : Option Inj :=
  if t == "notls" then some .noTLS
  else if t == "nochain" then some .noVerifiedChain
  else if t == "noform" then some .noPassphraseField
  else if t.startsWith "pass:" then
    match unhex (t.drop 5).toString with
    | some p => some (.pass (if p == "password" then 1 else 2))
    | none => none
  else none

def stepLine (st : St) : List String → St × String
  | ["reset", ed] =>
    match parseBool ed with
    | some e =>
      let cfg : Cfg := { correct := 1, signerKey := 10, edKey := if e then some 11 else none }
      ({ cfg := cfg, s := init }, digest 0 init)
    | none => (st, "bad-op")
  | ["reset2", ed, pre] =>
    match parseBool ed, parsePre pre with
    | some e, some pre =>
      let cfg : Cfg := { correct := 1, signerKey := 10, edKey := if e then some 11 else none }
      ({ cfg := cfg, s := initWith pre }, digest2 cfg 0 (initWith pre))
    | _, _ => (st, "bad-op")
  | ["inj2", t] =>
    match parseInj t with
    | some i =>
      let (s', status) := inject st.cfg st.s i
      ({ st with s := s' }, digest2 st.cfg status s')
    | none => (st, "bad-op")
  | ["inj", t] =>
    match parseInj t with
    | some i =>
      let (s', status) := inject st.cfg st.s i
      ({ st with s := s' }, digest status s')
    | none => (st, "bad-op")
  -- the real daemon binary observed from outside: sealed / after a wrong passphrase / after the right one
  | ["daemon"] =>
    let cfg : Cfg := { correct := 1, signerKey := 10, edKey := none }
    let obs (s : State) := s!"readyz={readyz s} readiness={readiness s} service={if serviceUp s then "open" else "closed"}"
    let s0 := init
    let (s1, c1) := inject cfg s0 (.pass 2)
    let (s2, c2) := inject cfg s1 (.pass 1)
    (st, s!"sealed {obs s0} | wrong inject={c1} {obs s1} | right inject={c2} {obs s2} x509ca={s2.caKeys.length}")
  | ["req"] => (st, s!"{readyz st.s} {match guardedStatus st.s with | some n => toString n | none => "pass"}")
  | _ => (st, "bad-op")

def handler (mode : String) : Option Handler :=
  if mode == "model" then
    some { σ := St, init := { cfg := { correct := 1, signerKey := 10, edKey := none }, s := init }, step := stepLine }
  else none

end KM.Driver.C09
