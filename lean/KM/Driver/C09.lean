import KM.Driver.Core
import KM.Model.Seal
/-! Driver for C09. Stateful ops:
`reset <ed 0|1>` · `reset2 <ed> <preloaded keys s|e|f…|->` · `inj2 …` (digest + `in=<signer key published><ed key published>`) · `inj notls|nochain|noform|pass:<hex passphrase>` · `req`
each ↦ `<status> <signer?> <ed?> <#published> <#caCerts> <#readySignals>`
round 5: `reset3 <main file g|e|x|n|o> <ed file -|g|c|r|x|n|z|o> <preloaded>` · `inj3 …` ↦ digest2 + ` ca=<CA cert over signer key><over ed key> obs=<readyz>,<guarded route>`
(files: g the good key · e/c/r an Ed25519/ECDSA/RSA key where it does not belong · x a PEM block that is no key · n no PEM · z empty · o the good key under another passphrase);
mode `judge`: `<reset|inj> <status> <signer s|?|-> <ed e|?|-> <in=..> <ca=..> <#ready> <readyz> <guard>` ↦ `ok` / `viol …` (`Seal.soundB`, `Seal.obsOK`, refused ⇒ still sealed) -/
namespace KM.Driver.C09
open KM.Util KM.Seal

structure St where
  cfg : Cfg
  s : State

def digest (status : Nat) (s : State) : String :=
  s!"{status} {boolStr s.signer.isSome} {boolStr s.edSigner.isSome} {s.published.length} {s.caKeys.length} {s.readySignals}"

/-- `digest` + which of the two CA keys are in the published list -/
def digest2 (cfg : Cfg) (status : Nat) (s : State) : String :=
  let edIn := match cfg.edKey with | some e => s.published.contains e | none => s.published.contains 11
  s!"{digest status s} in={boolStr (s.published.contains cfg.signerKey)}{boolStr edIn}"

/-- letters `s` (the signer's key, 10), `e` (the Ed25519 CA key, 11), `f` (a foreign key, 99) -/
def parsePre (t : String) : Option (List Nat) :=
  if t == "-" then some []
  else t.toList.mapM (fun ch => if ch == 's' then some 10 else if ch == 'e' then some 11 else if ch == 'f' then some 99 else none)

def digest3 (cfg : Cfg) (status : Nat) (s : State) : String :=
  s!"{digest2 cfg status s} ca={boolStr (s.caKeys.contains cfg.signerKey)}{boolStr (s.caKeys.contains 11)} obs={readyz s},{match guardedStatus s with | some n => toString n | none => "pass"}"

/-- the key-file fixtures of `reset3` -/
def parseFiles (p e : String) : Option Cfg :=
  let main : Option (Nat × Bool) :=
    if p == "g" then some (1, true) else if p == "o" then some (3, true)
    else if p == "e" || p == "x" || p == "n" then some (1, false) else none
  -- every file is encrypted under "password" except the `o` ones; the injected passphrase has to open both
  let ed : Option (Option Nat × EdFile) :=
    if e == "-" then some (none, .usable)
    else if !(["g", "c", "r", "x", "n", "z", "o"].contains e) then none
    else if (e == "o") != (p == "o") then some (some 11, .otherPassphrase)
    else if e == "g" || e == "o" then some (some 11, .usable)
    else if e == "z" then some (none, .usable)      -- an empty plaintext is treated like no Ed25519 file
    else some (some 11, .notEd25519)
  match main, ed with
  | some (c, u), some (k, f) => some { correct := c, signerKey := 10, edKey := k, signerUsable := u, edFile := f }
  | _, _ => none

def parseInj (t : String) : Option Inj :=
  if t == "notls" then some .noTLS
  else if t == "nochain" then some .noVerifiedChain
  else if t == "noform" then some .noPassphraseField
  else if t.startsWith "pass:" then
    match unhex (t.drop 5).toString with
    | some p => some (.pass (if p == "password" then 1 else if p == "another passphrase" then 3 else 2))
    | none => none
  else none

def stepLine (st : St) : List String → St × String
  | ["reset", ed] =>
    match parseBool ed with
    | some e =>
      let cfg : Cfg := { correct := 1, signerKey := 10, edKey := if e then some 11 else none }
      ({ cfg := cfg, s := init }, digest 0 init)
    | none => (st, "bad-op")
  | ["reset2", ed, pre] =>
    match parseBool ed, parsePre pre with
    | some e, some pre =>
      let cfg : Cfg := { correct := 1, signerKey := 10, edKey := if e then some 11 else none }
      ({ cfg := cfg, s := initWith pre }, digest2 cfg 0 (initWith pre))
    | _, _ => (st, "bad-op")
  | ["inj2", t] =>
    match parseInj t with
    | some i =>
      let (s', status) := inject st.cfg st.s i
      ({ st with s := s' }, digest2 st.cfg status s')
    | none => (st, "bad-op")
  | ["reset3", p, e, pre] =>
    match parseFiles p e, parsePre pre with
    | some cfg, some pre => ({ cfg := cfg, s := initWith pre }, digest3 cfg 0 (initWith pre))
    | _, _ => (st, "bad-op")
  | ["inj3", t] =>
    match parseInj t with
    | some i =>
      let (s', status) := inject st.cfg st.s i
      ({ st with s := s' }, digest3 st.cfg status s')
    | none => (st, "bad-op")
  | ["inj", t] =>
    match parseInj t with
    | some i =>
      let (s', status) := inject st.cfg st.s i
      ({ st with s := s' }, digest status s')
    | none => (st, "bad-op")
  -- the real daemon binary observed from outside: sealed / after a wrong passphrase / after the right one
  | ["daemon"] =>
    let cfg : Cfg := { correct := 1, signerKey := 10, edKey := none }
    let obs (s : State) := s!"readyz={readyz s} readiness={readiness s} service={if serviceUp s then "open" else "closed"}"
    let s0 := init
    let (s1, c1) := inject cfg s0 (.pass 2)
    let (s2, c2) := inject cfg s1 (.pass 1)
    (st, s!"sealed {obs s0} | wrong inject={c1} {obs s1} | right inject={c2} {obs s2} x509ca={s2.caKeys.length}")
  | ["req"] => (st, s!"{readyz st.s} {match guardedStatus st.s with | some n => toString n | none => "pass"}")
  | _ => (st, "bad-op")

/-! ### judge: the state observed on the implementation, evaluated with the predicates of `c09_sound`,
`c09_sealed_fails_closed`/`c09_ready_iff` and `c09_refused_stays_sealed`; reads no configuration -/

def parseKey (t : String) (known : String) (k : Nat) : Option (Option Nat) :=
  if t == "-" then some none else if t == known then some (some k) else if t == "?" then some (some 98) else none

def parseBits (t : String) (pfx : String) : Option (Bool × Bool) :=
  if t.startsWith pfx then
    match (t.drop pfx.length).toString.toList with
    | [a, b] => match parseBool (String.singleton a), parseBool (String.singleton b) with
      | some x, some y => some (x, y)
      | _, _ => none
    | _ => none
  else none

def keysOf (b : Bool × Bool) : List Nat := (if b.1 then [10] else []) ++ (if b.2 then [11] else [])

/-- judge state: was the server sealed after the previous line of this history? -/
def judgeLine (prevSealed : Bool) : List String → Bool × String
  | [kind, status, sg, ed, inn, ca, ready, rz, guard] =>
    match status.toNat?, parseKey sg "s" 10, parseKey ed "e" 11, parseBits inn "in=", parseBits ca "ca=",
          ready.toNat?, rz.toNat? with
    | some status, some sg, some ed, some inn, some ca, some ready, some rz =>
      if kind != "reset" && kind != "inj" then (prevSealed, "bad-op") else
      let s : State := { signer := sg, edSigner := ed, published := keysOf inn, caKeys := keysOf ca, readySignals := ready }
      let sealedNow := s.signer.isNone
      let verdict :=
        if !soundB s then s!"viol unsound-state signer={sg.isSome} ed={ed.isSome} published={keysOf inn} certified={keysOf ca} ready-signals={ready}"
        else if !obsOK s rz (guard == "500") then s!"viol observers-disagree-with-seal sealed={sealedNow} readyz={rz} guarded-route={guard}"
        else if kind == "inj" && prevSealed && status != 200 && !sealedNow then s!"viol refused-injection-unsealed status={status}"
        else "ok"
      (sealedNow, verdict)
    | _, _, _, _, _, _, _ => (prevSealed, "bad-op")
  | _ => (prevSealed, "bad-op")

def handler (mode : String) : Option Handler :=
  if mode == "model" then
    some { σ := St, init := { cfg := { correct := 1, signerKey := 10, edKey := none }, s := init }, step := stepLine }
  else if mode == "judge" then
    some { σ := Bool, init := true, step := judgeLine }
  else none

end KM.Driver.C09
