import KM.Driver.Core
import KM.Model.Seal
/-! Driver for C09. Stateful ops:
`reset <ed 0|1>` · `inj notls|nochain|noform|pass:<hex passphrase>` · `req`
each ↦ `<status> <signer?> <ed?> <#published> <#caCerts> <#readySignals>` -/
namespace KM.Driver.C09
open KM.Util KM.Seal

structure St where
  cfg : Cfg
  s : State

def digest (status : Nat) (s : State) : String :=
  s!"{status} {boolStr s.signer.isSome} {boolStr s.edSigner.isSome} {s.published.length} {s.caKeys.length} {s.readySignals}"

def parseInj (t : String) : Option Inj :=
  if t == "notls" then some .noTLS
  else if t == "nochain" then some .noVerifiedChain
  else if t == "noform" then some .noPassphraseField
  else if t.startsWith "pass:" then
    match unhex (t.drop 5).toString with
    | some p => some (.pass (if p == "password" then 1 else 2))
    | none => none
  else none

def stepLine (st : St) : List String → St × String
  | ["reset", ed] =>
    match parseBool ed with
    | some e =>
      let cfg : Cfg := { correct := 1, signerKey := 10, edKey := if e then some 11 else none }
      ({ cfg := cfg, s := init }, digest 0 init)
    | none => (st, "bad-op")
  | ["inj", t] =>
    match parseInj t with
    | some i =>
      let (s', status) := inject st.cfg st.s i
      ({ st with s := s' }, digest status s')
    | none => (st, "bad-op")
  | ["req"] => (st, s!"{readyz st.s} {match guardedStatus st.s with | some n => toString n | none => "pass"}")
  | _ => (st, "bad-op")

def handler (mode : String) : Option Handler :=
  if mode == "model" then
    some { σ := St, init := { cfg := { correct := 1, signerKey := 10, edKey := none }, s := init }, step := stepLine }
  else none

end KM.Driver.C09
