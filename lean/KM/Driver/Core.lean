import KM.Model.Util
/-! Line-protocol plumbing shared by all per-property drivers. -/
namespace KM.Driver

structure Handler where
  σ : Type
  init : σ
  /-- one input line (already split into fields) ↦ new state and one output line -/
  step : σ → List String → σ × String

def Handler.pure (f : List String → String) : Handler :=
  { σ := Unit, init := (), step := fun _ fs => ((), f fs) }

partial def loop (h : Handler) (inp : IO.FS.Stream) (out : IO.FS.Stream) (s : h.σ) : IO Unit := do
  let line ← inp.getLine
  if line.isEmpty then return ()
  let l := (line.dropEndWhile (fun c => c == '\n' || c == '\r')).toString
  if l.isEmpty || l.startsWith "#" then
    out.putStrLn l
    loop h inp out s
  else
    let (s', o) := h.step s (KM.Util.fields l)
    out.putStrLn o
    loop h inp out s'

def run (h : Handler) : IO Unit := do
  let inp ← IO.getStdin
  let out ← IO.getStdout
  loop h inp out h.init
  out.flush

end KM.Driver
