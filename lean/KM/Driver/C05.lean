import KM.Driver.Core
/-! Driver for C05 (stub until the property's model is built). -/
namespace KM.Driver.C05

def handler (_mode : String) : Option Handler := none

end KM.Driver.C05
