import KM.Driver.Core
import KM.Model.Session
import KM.Model.SessionCert
/-! Driver for C05: stateful line protocol.

`model`/`digest`: op line ↦ `<status> <cookies> <events>` (digest adds ` | <canonical state>`).
`model-asfound`: same with every repair switched off (used to describe a reverted tree).
`judge`: `<op line> => <what the implementation answered>` ↦ `ok` / `viol <keys>`; keeps only what an
observer of the wire and of the external verifiers knows (never the model's handler state) and applies
the predicates the theorems are about: `levelOKb` (≡ `LevelOK`), subject stability, one-time use,
expiry (`chalLife`, `vipLife`, TOTP window), CLI user equality. -/
namespace KM.Driver.C05
open KM.Util KM.Session

def t0 : Nat := 1000

/-! ### parsing -/
def pNat (s : String) : Option Nat := s.toNat?
def pInt (s : String) : Option Int := s.toInt?

def pPair (s : String) : Option (Nat × Nat) :=
  match s.splitOn ":" with
  | [a, b] => do let x ← pNat a; let y ← pNat b; pure (x, y)
  | _ => none

/-- one cookie reference: `x` garbage (a value that does not verify), `<uid>:<level>` -/
def pCookie1 (s : String) : Option (Option Cookie) :=
  if s == "x" then some none
  else match pPair s with
    | some (u, l) => some (some ⟨u, l⟩)
    | none => none

/-- `cert<uid>`: the request arrives with a verified keymaster client certificate of that user -/
def isCertRef (s : String) : Bool := s.startsWith "cert"

/-- the auth cookies of a request, in order: `-` none, else references joined by `+` (certificate
references are not cookies and are skipped here, see `pCert`) -/
def pCookie (s : String) : Option Cookies :=
  if s == "-" then some [] else ((s.splitOn "+").filter (fun r => !isCertRef r)).mapM pCookie1

/-- the client certificate of a request, if any (the last `cert<uid>` reference) -/
def pCert (s : String) : Option User :=
  (((s.splitOn "+").filter isCertRef).getLast?).bind fun r => (r.drop 4).toString.toNat?

/-- the certificate reference of an op line (field 1 of every request op except login) -/
def lineCert (fs : List String) : Option User :=
  match fs with
  | "login" :: _ => none
  | _ :: c :: _ => pCert c
  | _ => none

def pOwner (s : String) : Option (Option User) :=
  if s == "x" then some none else (pNat s).map some

def pV (s : String) : Option (Option Nat) :=
  if s == "-" then some none else (pNat s).map some

def pKind (s : String) : Option TokKind :=
  if s == "u" then some .u2f else if s == "w" then some .wa else none

def pTok (s : String) : Option (Option CliTok) :=
  if s == "x" then some none
  else match pPair s with
    | some (u, e) => some (some ⟨u, t0 + e⟩)
    | none => none

def relStep (r : Int) : Nat := (Int.ofNat t0 + r).toNat

def parseOp : List String → Option Op
  | ["login", u, pw] => do pure (.login (← pNat u) (← parseBool pw))
  | ["vipotp", c, o] => do pure (.vipOtp (← pCookie c) (← pOwner o))
  | ["pushstart", c, v] => do pure (.pushStart (← pCookie c) (← pV v))
  | ["approve", k] => do pure (.approve (← pNat k))
  | ["poll", c, v] => do pure (.poll (← pCookie c) (← pV v))
  | ["totp", c, o, r] => do
    let c ← pCookie c
    let o ← pOwner o
    let r ← pInt r
    pure (.totp c (o.map fun u => (u, relStep r)))
  | ["bootstrap", c, o] => do pure (.bootstrap (← pCookie c) (← pOwner o))
  | ["u2fbegin", c] => do pure (.u2fBegin (← pCookie c))
  | ["wabegin", c] => do pure (.waBegin (← pCookie c))
  | ["u2ffinish", c, o, k, n] => do
    let c ← pCookie c
    let o ← pOwner o
    let k ← pKind k
    let n ← pNat n
    pure (.u2fFinish c (o.map fun u => ⟨u, k, n⟩))
  | ["wafinish", c, o, k, n] => do
    let c ← pCookie c
    let o ← pOwner o
    let k ← pKind k
    let n ← pNat n
    pure (.waFinish c (o.map fun u => ⟨u, k, n⟩))
  | ["showtoken", c, l] => do pure (.showToken (← pCookie c) (← pNat l))
  | ["senddoc", c, t] => do pure (.sendDoc (← pCookie c) (← pTok t))
  | ["logout", c] => do pure (.logout (← pCookie c))
  | ["oktaotp", c, o] => do pure (.oktaOtp (← pCookie c) (← pOwner o))
  | ["oktapushstart", c] => do pure (.oktaPushStart (← pCookie c))
  | ["oktaapprove", u] => do pure (.oktaApprove (← pNat u))
  | ["oktapoll", c] => do pure (.oktaPoll (← pCookie c))
  | ["tick"] => some .tick
  | ["sweep"] => some .sweep
  | ["totpenrol", c] => do pure (.totpEnrol (← pCookie c))
  | ["totprename", c, u] => do pure (.totpRename (← pCookie c) (← pNat u))
  | ["hwrename", c, u] => do pure (.hwRename (← pCookie c) (← pNat u))
  | ["fault", sv, ld] => do pure (.fault (← parseBool sv) (← parseBool ld))
  | _ => none

def cfgOfFlags (f b : Nat) : UserCfg := ⟨f.testBit 0, f.testBit 1, f.testBit 2, b⟩

def parseReset : List String → Option State
  | ["reset", f0, b0, f1, b1, mode] => do
    let f0 ← pNat f0
    let b0 ← pNat b0
    let f1 ← pNat f1
    let b1 ← pNat b1
    -- a trailing "@" selects user names that share their local part ("alice", "alice@partner.example"):
    -- a naming of the world on which no decision of the model depends
    let okta ← if mode == "okta" || mode == "okta@" then some true
               else if mode == "htp" || mode == "htp@" then some false else none
    pure (init t0 okta fun u => if u = 0 then cfgOfFlags f0 b0 else if u = 1 then cfgOfFlags f1 b1 else ⟨false, false, false, 0⟩)
  | _ => none

/-! ### printing -/
def codeStr (n : Nat) : String := if n = 0 then "PANIC" else if n = 1 then "-" else toString n

def joinOr (l : List String) : String := if l.isEmpty then "-" else ",".intercalate l

def cookieStr (c : Cookie) : String := s!"{c.sub}:{c.level}"

def factorStr : Factor → String
  | .password => "pw" | .hwToken => "hw" | .vip => "vip" | .totp => "totp"
  | .okta => "okta" | .bootstrap => "boot" | .cli => "cli" | .x509 => "x509"

def evStr (e : User × Factor) : String := s!"{factorStr e.2}:{e.1}"

def outStr (o : Out) : String :=
  s!"{codeStr o.code} {joinOr (o.cookies.map cookieStr)} {joinOr (o.events.map evStr)}"

def sortDedup (l : List String) : List String :=
  (l.toArray.qsort (· < ·)).toList.eraseDups

def optStr {α : Type} (f : α → String) : Option α → String
  | some a => f a
  | none => "_"

/-- canonical description of everything the handlers can observe, over users 0,1, push cookie values 0..3
and the transactions created so far; clock relative to the start -/
def digest (s : State) : String :=
  let rel (n : Nat) : String := toString (Int.ofNat n - Int.ofNat t0)
  let ck := sortDedup (s.cookies.map cookieStr)
  let tk := sortDedup (s.toks.map fun t => s!"{t.user}:{rel t.expiresAt}")
  let push := (List.range 4).map fun V => optStr (fun (t : PushTx) => s!"{t.user}/{t.txid}/{rel t.expiresAt}") (s.push V)
  let svc := (List.range s.nextTx).map fun k => optStr (fun (p : User × Bool) => s!"{p.1}/{boolStr p.2}") (s.svcTx k)
  let usr := (List.range 2).map fun u =>
    let p := s.prof u
    let ch := optStr (fun (c : Chal) => s!"{c.id}/{boolStr c.hasWA}/{rel c.issuedAt}") (s.chal u)
    let lt := if p.lastTotp = 0 then "never" else rel p.lastTotp
    s!"[{ch} lt={lt} b={optStr rel p.boot} x={boolStr p.extraTotp} o={boolStr (s.oktaSess u)}{boolStr (s.oktaPushed u)}{boolStr (s.oktaApproved u)}]"
  s!"t={rel s.now} f={boolStr s.saveFails}{boolStr s.loadFails} ck={ck} tk={tk} push={push} svc={svc} nc={s.nextChal} {usr}"

/-! ### model mode -/
structure MState where
  started : Bool
  s : State

def mInit : MState := ⟨false, init t0 false fun _ => ⟨false, false, false, 0⟩⟩

def modelStep (v : Variant) (withDigest : Bool) (m : MState) (fs : List String) : MState × String :=
  match fs with
  | "reset" :: _ =>
    match parseReset fs with
    | some s => (⟨true, s⟩, if withDigest then s!"- - - | {digest s}" else "- - -")
    | none => (m, "bad-op")
  | _ =>
    if !m.started then (m, "bad-op") else
    match parseOp fs with
    | none => (m, "bad-op")
    | some op =>
      -- a request carrying a client certificate goes through the certificate wrapper (repaired helper)
      let r := match lineCert fs with
        | some A => KM.SessionCert.stepCert true v m.s A op
        | none => step v m.s op
      (⟨true, r.1⟩, if withDigest then s!"{outStr r.2} | {digest r.1}" else outStr r.2)

/-! ### judge mode -/
structure JState where
  started : Bool := false
  now : Nat := 0                          -- ticks since reset
  bootLife : List Nat := [0, 0]
  log : List (User × Factor) := []
  usedTotp : List (User × Int) := []
  usedBoot : List User := []
  usedChal : List Nat := []
  chalAt : List Nat := []                 -- challenge k was handed out at tick chalAt[k]
  pushAt : List (Nat × Nat) := []         -- (push cookie value, tick of the latest successful push start)

def pFactor (s : String) : Option Factor :=
  if s == "pw" then some .password else if s == "hw" then some .hwToken else if s == "vip" then some .vip
  else if s == "totp" then some .totp else if s == "okta" then some .okta else if s == "boot" then some .bootstrap
  else if s == "cli" then some .cli else if s == "x509" then some .x509 else none

def pList {α : Type} (f : String → Option α) (s : String) : Option (List α) :=
  if s == "-" then some [] else (s.splitOn ",").mapM f

def pEvent (s : String) : Option (User × Factor) :=
  match s.splitOn ":" with
  | [f, u] => do pure ((← pNat u), (← pFactor f))
  | _ => none

def pCk (s : String) : Option Cookie := (pPair s).map fun p => ⟨p.1, p.2⟩

def splitArrow (fs : List String) : List String × List String :=
  (fs.takeWhile (· != "=>"), (fs.dropWhile (· != "=>")).drop 1)

/-- the cookie that identifies the caller of an op line: the LAST auth cookie attached (field 1 of every
request op except login) -/
def opCookie (fs : List String) : Option Cookie :=
  match fs with
  | "login" :: _ => none
  | _ :: c :: _ => (pCookie c).bind caller
  | _ => none

def judgeStep (j : JState) (fs : List String) : JState × String :=
  let (opf, outf) := splitArrow fs
  match opf with
  | ["reset", _, b0, _, b1, _] =>
    match pNat b0, pNat b1 with
    | some b0, some b1 => ({ started := true, bootLife := [b0, b1] }, "ok")
    | _, _ => (j, "bad-op")
  | _ =>
  if !j.started then (j, "bad-op") else
  match outf with
  | [code, cks, evs] =>
    match pList pCk cks, pList pEvent evs with
    | some cks, some evs =>
      -- ground truth the harness creates by construction: `cert<uid>` is a genuine certificate of that user
      let certU := lineCert opf
      let log := evs ++ (match certU with | some A => [(A, Factor.x509)] | none => []) ++ j.log
      let acc := !cks.isEmpty
      let sub := (opCookie opf).map (·.sub)
      -- P1: every factor bit of every cookie handed out was verified for its subject
      let v1 := cks.filterMap fun c => if levelOKb log c.sub c.level then none else some s!"inv:{opf.headD "?"}"
      -- P1': the subject never changes (login: it is the user who logged in)
      let v2 := cks.filterMap fun c =>
        match opf with
        | ["login", u, _] => if pNat u == some c.sub then none else some "subject:login"
        | _ => if sub == some c.sub || certU == some c.sub then none else some s!"subject:{opf.headD "?"}"
      -- P0: only a success response hands out a cookie (a step that failed to consume must not upgrade)
      let v0 := if acc && !(code == "200" || code == "308") then [s!"cookie-on-error:{opf.headD "?"}"] else []
      let j1 := { j with log := log }
      let (j2, v3) : JState × List String :=
        match opf with
        | ["tick"] => ({ j1 with now := j1.now + 1 }, [])
        | ["totp", _, o, r] =>
          if acc then
            match pNat o, pInt r with
            | some o, some r =>
              ({ j1 with usedTotp := (o, r) :: j1.usedTotp },
                (if j1.usedTotp.contains (o, r) then ["onetime:totp"] else []) ++
                (if r + 1 < Int.ofNat j1.now then ["expired:totp"] else []))
            | _, _ => (j1, ["accepted-garbage:totp"])
          else (j1, [])
        | ["bootstrap", _, _] =>
          if acc then
            match sub with
            | some u =>
              ({ j1 with usedBoot := u :: j1.usedBoot },
                (if j1.usedBoot.contains u then ["onetime:bootstrap"] else []) ++
                (if j1.bootLife.getD u 0 ≤ j1.now then ["expired:bootstrap"] else []))
            | none => (j1, [])
          else (j1, [])
        | [b, _] =>
          if (b == "u2fbegin" || b == "wabegin") && code == "200" then ({ j1 with chalAt := j1.chalAt ++ [j1.now] }, [])
          else (j1, [])
        | [fin, _, _, _, n] =>
          if (fin == "u2ffinish" || fin == "wafinish") && acc then
            match pNat n with
            | some n =>
              ({ j1 with usedChal := n :: j1.usedChal },
                (if j1.usedChal.contains n then [s!"onetime:challenge:{fin}"] else []) ++
                (match j1.chalAt[n]? with
                 | none => [s!"unknown-challenge:{fin}"]
                 | some t => if t + chalLife ≤ j1.now then [s!"expired:challenge:{fin}"] else []))
            | none => (j1, [s!"accepted-garbage:{fin}"])
          else (j1, [])
        | ["pushstart", _, v] =>
          match pNat v with
          | some v => if code == "200" then ({ j1 with pushAt := (v, j1.now) :: j1.pushAt }, []) else (j1, [])
          | none => (j1, [])
        | ["poll", _, v] =>
          if acc then
            match (pNat v).bind fun v => j1.pushAt.lookup v with
            | none => (j1, ["unknown-push"])
            | some t => (j1, if t + vipLife ≤ j1.now then ["expired:push"] else [])
          else (j1, [])
        | ["senddoc", _, t] =>
          if acc then
            match pPair t with
            | some (tu, e) =>
              (j1, (if cks == [⟨tu, KM.Gen.authTypeWebauthForCLI⟩] && sub == some tu then [] else ["cli-user"]) ++
                   (if e ≤ j1.now then ["expired:cli"] else []))
            | none => (j1, ["accepted-garbage:senddoc"])
          else (j1, [])
        | _ => (j1, [])
      let v := v0 ++ v1 ++ v2 ++ v3
      (j2, if v.isEmpty then "ok" else "viol " ++ " ".intercalate v.eraseDups)
    | _, _ => (j, "bad-op")
  | _ => (j, "bad-op")

def asFound : Variant := ⟨false, false, false, false, false⟩

def handler (mode : String) : Option Handler :=
  if mode == "model" then some { σ := MState, init := mInit, step := modelStep fixed false }
  else if mode == "digest" then some { σ := MState, init := mInit, step := modelStep fixed true }
  else if mode == "model-asfound" then some { σ := MState, init := mInit, step := modelStep asFound false }
  else if mode == "judge" then some { σ := JState, init := {}, step := judgeStep }
  else none

end KM.Driver.C05
