import KM.Driver.Core
import KM.Model.RateLimit
/-! Driver for C14.

Op lines (times are *gaps* to the previous op of the same section, so that a generator can be
adjusted without renumbering):

* `lim <rateMilli> <burst> <mono>`   new limiter (`mono` = 1: the gaps that follow are ≥ 0)
* `at <gap_ns>`                        `AllowN(t, 1)` at t := t + gap
* `seq <id>`                           new TOTP sequence: all users fresh, clock at the base time
* `att <user> <gap_s> <counter> <good|prev|next|bad|dis>`    direct `validateUserTOTP`
* `hatt <user> <gap_s> <verify|auth> <good|bad|dis>`  through verifyTOTPHandler / TOTPAuthHandler

Modes: `plan` (moves ops off exact thresholds the real clock / float64 cannot reproduce and fills in
`auto`/`same` counters), `model`, `judge` (input: what the implementation did). -/
namespace KM.Driver.C14
open KM.Util KM.RateLimit

structure St where
  p : Limit := ⟨1000, 10⟩
  b : Bucket := ⟨0, 0⟩
  t : Int := 0
  mono : Bool := true
  first : Option Int := none
  cnt : Nat := 0
  now : Int := 0
  users : String → Totp := fun _ => Totp.init
  mons : String → Mon := fun _ => Mon.init
  acc : String → Option Int := fun _ => none   -- judge: step of the user's last accepted code

/-- base of the synthetic limiter clock (ns) and of the virtual TOTP clock -/
def bucketBase : Int := 1000000000 * sec
def totpBase : Int := 1000000000 * sec
/-- period counter used for calls through the HTTP handlers (they pass the real `time.Now()`) -/
def handlerCounter : Int := 1999999999

/-- what `totpMatchedCounter` returns for the submitted code: `good`/`prev`/`next` are the enabled
device's codes of step `counter`, `counter-1`, `counter+1`; `bad` fits nothing, `dis` only a disabled
device -/
def parseCode (s : String) : Option (Option Int) :=
  if s == "good" then some (some 0) else if s == "prev" then some (some (-1))
  else if s == "next" then some (some 1)
  else if s == "bad" || s == "dis" then some none else none

def matchedAt (off : Option Int) (ctr : Int) : Option Int := off.map (ctr + ·)

def newLim (st : St) (r b : Nat) (mono : Bool) : St :=
  { st with p := ⟨r, b⟩, b := Bucket.new ⟨r, b⟩ goZeroTime, t := bucketBase, mono := mono,
            first := none, cnt := 0 }

def newSeq (st : St) : St :=
  { st with now := totpBase, users := fun _ => Totp.init, mons := fun _ => Mon.init, acc := fun _ => none }

def roundSecs (d : Int) : Int := (d + sec / 2) / sec

def totpLine (s : Totp) (now : Int) (o : Outcome) : String :=
  let ret := boolStr (o == .accepted)
  let gate := boolStr (o != .spaced)
  let frec := boolStr (o == .rejected)
  let lock := if s.lockoutExp > now then roundSecs (s.lockoutExp - now) else 0
  let lfAge := if s.lastFail == goZeroTime then -1 else roundSecs (now - s.lastFail)
  s!"{ret} {gate} {frec} {s.failCount} {lock} {lfAge}"

def outcomeStr : Outcome → String
  | .spaced => "spaced" | .locked => "locked" | .replay => "replay"
  | .accepted => "accepted" | .rejected => "rejected"

/-- `burst <entry> <seq|conc> <n> <rateMilli> <burst> <pause_ms>`: what an instantaneous burst (the
second half `pause_ms` later in `seq` mode) admits — a lower bound for the real, slower one -/
def burstLow (mode : String) (n r b pause : Nat) : Nat :=
  let p : Limit := ⟨r, b⟩
  let n1 := if mode == "seq" && pause > 0 then n / 2 else n
  let ts := List.replicate n1 bucketBase ++ List.replicate (n - n1) (bucketBase + (pause : Int) * 1000000)
  (runBucket p (Bucket.new p goZeroTime) ts).2

def optNat (s : String) : Option (Option Nat) := if s == "-" then some none else s.toNat?.map some

/-! ### model -/

def modelStep (st : St) : List String → St × String
  -- `cfgburst <entry> <seq|conc> <n> <rateMilli|-> <burst|-> <pause_ms>`: the limiter that the real
  -- config loader builds from a file with these settings ("-": not set)
  | ["cfgburst", _, mode, n, r, b, pause] =>
    match n.toNat?, optNat r, optNat b, pause.toNat? with
    | some n, some r, some b, some pause =>
      let cfg := KM.Gen.C14.limiterConfig
      match effective cfg.defaultRateMilli cfg.clampRateMilli r, effective cfg.defaultBurst cfg.clampBurst b with
      | some er, some eb => (st, s!"lo={burstLow mode n er eb pause} lim_burst={eb} lim_rate_milli={er}")
      | _, _ => (st, "unknown-config-shape")
    | _, _, _, _ => (st, "bad-op")
  | ["clean", g] =>
    match g.toInt? with
    | some g => if g < 0 then (st, "bad-op") else ({ st with now := st.now + g * sec }, "clean")
    | none => (st, "bad-op")
  | ["burst", _, mode, n, r, b, pause] =>
    match n.toNat?, r.toNat?, b.toNat?, pause.toNat? with
    | some n, some r, some b, some pause => (st, s!"lo={burstLow mode n r b pause}")
    | _, _, _, _ => (st, "bad-op")
  | ["lim", r, b, m] =>
    match r.toNat?, b.toNat?, parseBool m with
    | some r, some b, some m => (newLim st r b m, "lim")
    | _, _, _ => (st, "bad-op")
  | ["at", g] =>
    match g.toInt? with
    | some g =>
      let t := st.t + g
      let r := allowStep st.p st.b t
      ({ st with b := r.1, t := t }, boolStr r.2)
    | none => (st, "bad-op")
  | ["seq", _] => (newSeq st, "seq")
  -- `catt <user> <gap_s> <counter> <n>`: n simultaneous calls with the right code; the gate is taken
  -- under the mutex, so this is one call followed by n-1 calls that are turned away as too soon
  | ["catt", u, g, c, n] =>
    match g.toInt?, c.toInt?, n.toNat? with
    | some g, some ctr, some _ =>
      if g < 0 then (st, "bad-op") else
      let now := st.now + g * sec
      let r := step (st.users u) ⟨now, ctr, some ctr⟩
      let r2 := step r.1 ⟨now, ctr, some ctr⟩
      ({ st with now := now, users := upd st.users u r2.1 }, totpLine r2.1 now r.2 ++ " " ++ outcomeStr r.2)
    | _, _, _ => (st, "bad-op")
  | [kind, u, g, c, code] =>
    if kind != "att" && kind != "hatt" then (st, "bad-op") else
    let ctr : Option Int := if kind == "hatt" then
        (if c == "verify" || c == "auth" then some handlerCounter else none) else c.toInt?
    match g.toInt?, ctr, parseCode code with
    | some g, some ctr, some ok =>
      if g < 0 then (st, "bad-op") else
      let now := st.now + g * sec
      let r := step (st.users u) ⟨now, ctr, matchedAt ok ctr⟩
      ({ st with now := now, users := upd st.users u r.1 }, totpLine r.1 now r.2 ++ " " ++ outcomeStr r.2)
    | _, _, _ => (st, "bad-op")
  | _ => (st, "bad-op")

/-! ### plan: the same walk, but an op that sits on a threshold is pushed off it first -/

def bumpBucket (p : Limit) (b : Bucket) (t : Int) : Nat → Int
  | 0 => t
  | n + 1 => if bucketMargin p b t < 60 then bumpBucket p b (t + 1) n else t

def bumpTotp (s : Totp) (now : Int) : Nat → Int
  | 0 => now
  | n + 1 => if tight s now then bumpTotp s (now + sec) n else now

def planStep (st : St) : List String → St × String
  | ["cfgburst", e, mode, n, r, b, pause] => (st, s!"cfgburst {e} {mode} {n} {r} {b} {pause}")
  | ["clean", g] =>
    match g.toInt? with
    | some g' => if g' < 0 then (st, "bad-op") else ({ st with now := st.now + g' * sec }, s!"clean {g}")
    | none => (st, "bad-op")
  | ["burst", e, mode, n, r, b, pause] => (st, s!"burst {e} {mode} {n} {r} {b} {pause}")
  | ["lim", r, b, m] =>
    match r.toNat?, b.toNat?, parseBool m with
    | some r', some b', some m' => (newLim st r' b' m', s!"lim {r} {b} {m}")
    | _, _, _ => (st, "bad-op")
  | ["at", g] =>
    match g.toInt? with
    | some g =>
      let t := bumpBucket st.p st.b (st.t + g) 8
      let r := allowStep st.p st.b t
      ({ st with b := r.1, t := t }, s!"at {t - st.t}")
    | none => (st, "bad-op")
  | ["seq", k] => (newSeq st, s!"seq {k}")
  | ["catt", u, g, c, n] =>
    match g.toInt? with
    | some g =>
      if g < 0 then (st, "bad-op") else
      let s := st.users u
      let now := bumpTotp s (st.now + g * sec) 8
      let ctr : Option Int :=
        if c == "auto" then some (now / sec / (KM.Gen.C14.totpPeriod : Int)) else c.toInt?
      match ctr with
      | some ctr =>
        let r := step s ⟨now, ctr, some ctr⟩
        let r2 := step r.1 ⟨now, ctr, some ctr⟩
        ({ st with now := now, users := upd st.users u r2.1 }, s!"catt {u} {(now - st.now) / sec} {ctr} {n}")
      | none => (st, "bad-op")
    | none => (st, "bad-op")
  | [kind, u, g, c, code] =>
    if kind != "att" && kind != "hatt" then (st, "bad-op") else
    match g.toInt?, parseCode code with
    | some g, some ok =>
      if g < 0 then (st, "bad-op") else
      let s := st.users u
      let now := bumpTotp s (st.now + g * sec) 8
      let ctr : Option Int :=
        if kind == "hatt" then (if c == "verify" || c == "auth" then some handlerCounter else none)
        else if c == "auto" then some (now / sec / (KM.Gen.C14.totpPeriod : Int))
        else if c == "same" && s.lastSuccCounter != handlerCounter then some s.lastSuccCounter
        else if c == "same" then some (now / sec / (KM.Gen.C14.totpPeriod : Int))
        else c.toInt?
      match ctr with
      | some ctr =>
        let r := step s ⟨now, ctr, matchedAt ok ctr⟩
        let cs := if kind == "hatt" then c else toString ctr
        ({ st with now := now, users := upd st.users u r.1 },
         s!"{kind} {u} {(now - st.now) / sec} {cs} {code}")
      | none => (st, "bad-op")
    | _, _ => (st, "bad-op")
  | _ => (st, "bad-op")

/-! ### judge: the predicates of the theorems applied to what the implementation did -/

def verdictStr (m : Mon) (now : Int) : Verdict → String
  | .ok => "ok"
  | .tooSoon => s!"viol tooSoon last_eval_ago_ns={now - (m.lastEval.getD now)}"
  | .duringLockout =>
    s!"viol duringLockout consecutive_failures={m.n} locked_for_another_s={((m.lockedUntil.getD now) - now) / sec}"

def judgeStep (st : St) : List String → St × String
  | ["lim", r, b, m] =>
    match r.toNat?, b.toNat?, parseBool m with
    | some r, some b, some m => (newLim st r b m, "ok")
    | _, _, _ => (st, "bad-op")
  -- `dec <gap_ns> <admitted>`: c14_bucket's bound over the window since the sequence began
  | ["dec", g, d] =>
    match g.toInt?, parseBool d with
    | some g, some d =>
      let t := st.t + g
      let first := st.first.getD t
      let cnt := st.cnt + (if d then 1 else 0)
      let st' := { st with t := t, first := some first, cnt := cnt }
      if st.mono && decide ((cnt : Int) > bucketBound st.p (t - first)) then
        (st', s!"viol admitted={cnt} bound={bucketBound st.p (t - first)} window_ns={t - first}")
      else (st', "ok")
    | _, _ => (st, "bad-op")
  -- `cpw <configured rateMilli|-> <configured burst|-> <n> <backend> <r429> <bad> <elapsed_ns>`: a burst
  -- against the limiter built by the real config loader, judged with the *configured* values (floor
  -- 10 and 1/s); unset values are only checked for the accounting (defaults are the maintainers' choice)
  | ["cpw", r, b, n, be, r429, bad, el] =>
    match optNat r, optNat b, n.toNat?, be.toNat?, r429.toNat?, bad.toNat?, el.toInt? with
    | some r, some b, some n, some be, some r429, some bad, some el =>
      if bad != 0 then (st, s!"viol responses_not_429_without_backend_or_429_with_backend={bad}")
      else if be + r429 != n then (st, s!"viol accounted={be + r429} of={n}")
      else match r, b with
        | some r, some b =>
          let p : Limit := ⟨Spec.enforcedRateMilli r, Spec.enforcedBurst b⟩
          if decide ((be : Int) > bucketBound p el) then
            (st, s!"viol backend_calls={be} bound={bucketBound p el} configured_burst={b} configured_rate_milli={r} elapsed_ns={el}")
          else (st, "ok")
        | _, _ => (st, "ok")
    | _, _, _, _, _, _, _ => (st, "bad-op")
  | ["clean", g] =>
    match g.toInt? with
    | some g => if g < 0 then (st, "bad-op") else ({ st with now := st.now + g * sec }, "ok")
    | none => (st, "bad-op")
  -- `pw <rateMilli> <burst> <n> <backend> <r429> <bad> <elapsed_ns>`: a burst through a real entry point
  | ["pw", r, b, n, be, r429, bad, el] =>
    match r.toNat?, b.toNat?, n.toNat?, be.toNat?, r429.toNat?, bad.toNat?, el.toInt? with
    | some r, some b, some n, some be, some r429, some bad, some el =>
      if bad != 0 then (st, s!"viol responses_not_429_without_backend_or_429_with_backend={bad}")
      else if be + r429 != n then (st, s!"viol accounted={be + r429} of={n}")
      else if decide ((be : Int) > bucketBound ⟨r, b⟩ el) then
        (st, s!"viol backend_calls={be} bound={bucketBound ⟨r, b⟩ el} elapsed_ns={el}")
      else (st, "ok")
    | _, _, _, _, _, _, _ => (st, "bad-op")
  | ["seq", _] => (newSeq st, "ok")
  -- `ev <user> <gap_s> <returned true> <failure recorded> <step of the submitted code | ->`:
  -- the monitor of c14_lockout/c14_spacing, and c14_one_time's "accepted steps strictly increase"
  | ["ev", u, g, ret, frec, stp] =>
    match g.toInt?, parseBool ret, parseBool frec with
    | some g, some ret, some frec =>
      if g < 0 then (st, "bad-op") else
      let now := st.now + g * sec
      let out : Outcome := if ret then .accepted else if frec then .rejected else .spaced
      let m := st.mons u
      let r := Spec.monStep m now out
      let reused : Bool := match stp.toInt?, st.acc u with
        | some k, some l => ret && decide (k ≤ l)
        | _, _ => false
      let acc' := match stp.toInt? with
        | some k => if ret then upd st.acc u (some k) else st.acc
        | none => st.acc
      let st' := { st with now := now, mons := upd st.mons u r.1, acc := acc' }
      if reused then (st', s!"viol stepReused step={stp} last_accepted_step={(st.acc u).getD 0}")
      else (st', verdictStr m now r.2)
    | _, _, _ => (st, "bad-op")
  | _ => (st, "bad-op")

def handler (mode : String) : Option Handler :=
  if mode == "model" then some { σ := St, init := {}, step := modelStep }
  else if mode == "plan" then some { σ := St, init := {}, step := planStep }
  else if mode == "judge" then some { σ := St, init := {}, step := judgeStep }
  else none

end KM.Driver.C14
