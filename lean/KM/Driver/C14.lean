import KM.Driver.Core
/-! Driver for C14 (stub until the property's model is built). -/
namespace KM.Driver.C14

def handler (_mode : String) : Option Handler := none

end KM.Driver.C14
