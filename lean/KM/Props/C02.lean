/-! # C02 — property theorems (stub: not built yet) -/
