import KM.Lemmas.CertFields
import KM.Gen.C02
/-! # C02 — issued certificates bind the authenticated user to the submitted key only

Property theorems only.  `handle` mirrors `certGenHandler` (who is authenticated, is it the user
named in the URL) and the field construction of `lib/certgen`; `sshExtensions` mirrors
`expandSSHExtensions` + the merge loop of `GenSSHCertFileString`; `publish` / `caList` mirror how
the signers' public material gets into what `/public/sshca` and `/public/x509ca` serve.
`KM.Gen.C02.src` carries the literals of the current source.  Parameters of every theorem: the
password backend (`accepts`), `shell.Expand` with the handler's mapper (`expand user template`),
the key type `K`.  Signature validity is cryptography: observed by the harness on every returned
certificate, not proved. -/
namespace KM.CertFields

/-- the literals the property depends on -/
def SrcOK (src : Src) : Prop :=
  src.stdExt = fiveStandard ∧ src.skipEmptyKey = true ∧ src.certTypeIsUser = true ∧
  src.principalsIsUser = true ∧ src.x509IsCA = false ∧ src.x509BC = true ∧
  src.x509ClientAuth = true ∧ src.mismatchStatus = 403

instance (src : Src) : Decidable (SrcOK src) := by unfold SrcOK; infer_instance

/-- **Source table**: the current source builds SSH certificates with `CertType: ssh.UserCert`,
`ValidPrincipals: []string{username}`, `Key: userKey` parsed from the submitted text, the five
standard extensions (all with empty values) merged with `if key == "" { continue };
extensions[key] = value`; X.509 templates with `IsCA: false`, `ExtKeyUsage: [ClientAuth]`,
`CommonName: userName`, signed over `userPub`; `certGenHandler` answers 403 when
`authData.Username != targetUser` and hands `targetUser` to both generators. -/
theorem c02_src :
    SrcOK KM.Gen.C02.src ∧
    KM.Gen.C02.standardExtensions.map (·.2) = [[], [], [], [], []] ∧
    KM.Gen.C02.mergeLoop = ["if key == \"\" { continue }".toList, "extensions[key] = value".toList] ∧
    KM.Gen.C02.sshCertFields.lookup "Key" = some "userKey".toList ∧
    KM.Gen.C02.sshCertFields.lookup "SignatureKey" = some "signer.PublicKey()".toList ∧
    KM.Gen.C02.sshCertFields.lookup "KeyId" = some "keyIdentity".toList ∧
    KM.Gen.C02.sshCertFields.lookup "Permissions" = some "ssh.Permissions{Extensions: extensions}".toList ∧
    KM.Gen.C02.userKeyDef = ["ssh.ParseAuthorizedKey([]byte(userPubKey))".toList] ∧
    KM.Gen.C02.keyIdentityDef = ["host_identity + \"_\" + username".toList] ∧
    KM.Gen.C02.x509SubjectFields.lookup "CommonName" = some "userName".toList ∧
    KM.Gen.C02.x509TemplateFields.lookup "Subject" = some "subject".toList ∧
    KM.Gen.C02.x509CreateArgs = ["rand.Reader".toList, "&template".toList, "caCert".toList,
      "userPub".toList, "caPriv".toList] ∧
    KM.Gen.C02.targetUserDef = ["r.URL.Path[len(certgenPath):]".toList, "authData.Username".toList] ∧
    KM.Gen.C02.mismatchCond = "authData.Username != targetUser".toList ∧
    KM.Gen.C02.sshHandlerArgs[2]? = some "targetUser".toList ∧
    KM.Gen.C02.x509HandlerArgs[2]? = some "targetUser".toList ∧
    KM.Gen.C02.sshGenArgs.take 4 = ["targetUser".toList, "userPubKey".toList, "signer".toList,
      "state.HostIdentity".toList] ∧
    KM.Gen.C02.sshGenArgs[5]? = some "extensions".toList ∧
    KM.Gen.C02.x509GenArgs.take 4 = ["targetUser".toList, "userPub".toList, "caCert".toList,
      "signer".toList] ∧
    KM.Gen.C02.expandShape = ["case \"USERNAME\": return username".toList,
      "range state.Config.Base.SSHCertConfig.Extensions".toList,
      "key, err := shell.Expand(extension.Key, mapper)".toList, "if err != nil { return nil, err }".toList,
      "value, err := shell.Expand(extension.Value, mapper)".toList, "if err != nil { return nil, err }".toList,
      "userExtensions[key] = value".toList] := by
  decide

/-- **Extensions**: when every configured template expands, the map put into the certificate is —
key by key — the value of the *last* configured entry whose expanded key is that key (entries whose
key expands to the empty string are skipped; a configured key equal to a standard name overrides
it), the empty string for the remaining standard names, and nothing else. -/
theorem c02_extensions (names : List Str) (hn : [] ∉ names) (expand : Str → Option Str)
    (cfg : List (Str × Str)) (m : SMap) (h : sshExtensions names true expand cfg = some m) (k : Str) :
    m k = specExt names expand cfg k := by
  unfold sshExtensions at h
  split at h
  · rename_i custom hc
    simp only [Option.some.injEq] at h
    subst h
    have hl := expandAll_lookup expand cfg SMap.empty custom hc k
    unfold mergeExt specExt stdMap
    by_cases hk : k = []
    · subst hk; simp [hn]
    · simp only [Bool.true_and, beq_iff_eq, hk, if_false]
      rw [hl]
      cases lastConfigured expand k cfg <;> simp [SMap.empty]
  · cases h

/-- … and the expansion fails as a whole (HTTP 500, nothing issued) exactly when some configured
key or value does not expand -/
theorem c02_extensions_fail (names : List Str) (expand : Str → Option Str) (cfg : List (Str × Str)) :
    (sshExtensions names true expand cfg).isSome =
      cfg.all (fun e => (expand e.1).isSome && (expand e.2).isSome) := by
  unfold sshExtensions
  rw [← expandAll_isSome expand cfg SMap.empty]
  cases expandAll expand cfg SMap.empty <;> rfl

/-- **Published keys**: after `signerPublicKeyToKeymasterKeys` the list served by `/public/sshca`
contains the primary signer's key, the Ed25519 signer's key when one is configured, and everything
that was there before; after `loadSignersFromPemData` the list served by `/public/x509ca` ends
with the primary signer's CA, which is the one `getSignerX509CAForPublic` signs under. -/
theorem c02_published {K} [DecidableEq K] (known pre : List K) (ed : Option K) (signer : K) :
    signer ∈ publish known ed signer ∧ (∀ e, ed = some e → e ∈ publish known ed signer) ∧
    (∀ x ∈ known, x ∈ publish known ed signer) ∧
    x509IssuerCA (caList pre ed signer) = some signer ∧ signer ∈ caList pre ed signer := by
  cases ed with
  | none =>
    refine ⟨mem_addKey_self _ _, fun e h => (by cases h), fun x hx => mem_addKey_of_mem _ hx, ?_, ?_⟩
    · simp [x509IssuerCA, caList]
    · simp [caList]
  | some e =>
    refine ⟨mem_addKey_self _ _, fun e' h => ?_, fun x hx => ?_, ?_, ?_⟩
    · cases h; exact mem_addKey_of_mem _ (mem_addKey_self _ _)
    · exact mem_addKey_of_mem _ (mem_addKey_of_mem _ hx)
    · simp [x509IssuerCA, caList]
    · simp [caList]

/-- **SSH fields**: whenever the handler answers with an SSH certificate, some user `u` was
authenticated, the URL named exactly `u`, and the certificate has `u` as its only principal, the
submitted key as its key, user type, key id `<host>_<u>`, a signing key that is among the
published ones, and the extension map of `c02_extensions` for `u`. -/
theorem c02_ssh_fields {K} [DecidableEq K] (src : Src) (hsrc : SrcOK src) (cfg : Cfg) (st : St K)
    (accepts : Str → Bool) (expand : Str → Str → Option Str) (cred : Cred) (urlUser : Str)
    (ct : CType) (kind : KeyKind) (key : K) (c : SshCert K)
    (h : handle src cfg st accepts expand cred urlUser ct kind key = .ssh c) :
    ∃ u, authUser cfg.disableNorm accepts cred = some u ∧ urlUser = u ∧ ct = .ssh ∧
      c.principals = [u] ∧ c.key = key ∧ c.userCert = true ∧
      c.keyId = cfg.hostIdentity ++ '_' :: u ∧
      c.signatureKey ∈ publish st.preKnown st.ed st.signer ∧
      (kind = .ed25519 → st.ed = some c.signatureKey) ∧ (kind ≠ .ed25519 → c.signatureKey = st.signer) ∧
      ∀ k, c.exts k = specExt fiveStandard (expand u) cfg.exts k := by
  obtain ⟨h1, h2, h3, h4, _, _, _, _⟩ := hsrc
  unfold handle at h
  split at h
  · cases h
  · rename_i u hu
    split at h
    · cases h
    · rename_i hne
      have hurl : u = urlUser := Classical.not_not.mp hne
      split at h
      · split at h
        · cases h
        · split at h
          · cases h
          · rename_i sk hsk
            split at h
            · cases h
            · rename_i m hm
              simp only [Out.ssh.injEq] at h
              subst h
              have hpub := c02_published st.preKnown st.preCAs st.ed st.signer
              have hempty : ([] : Str) ∉ fiveStandard := by decide
              rw [h1, h2] at hm
              refine ⟨u, hu, hurl.symm, rfl, rfl, rfl, h3, rfl, ?_, ?_, ?_,
                fun k => c02_extensions fiveStandard hempty (expand u) cfg.exts m hm k⟩
              · unfold sshSigner at hsk
                split at hsk
                · split at hsk
                  · rename_i e he
                    cases hsk
                    exact hpub.2.1 _ he
                  · cases hsk
                · cases hsk; exact hpub.1
              · intro hk
                unfold sshSigner at hsk
                simp only [hk, if_true] at hsk
                split at hsk
                · rename_i e he; cases hsk; exact he
                · cases hsk
              · intro hk
                unfold sshSigner at hsk
                simp only [hk, if_false] at hsk
                cases hsk; rfl
      · split at h <;> cases h

/-- **X.509 fields**: whenever the handler answers with an X.509 certificate (plain or
Kubernetes flavour), the authenticated user `u` equals the URL's user, `u` is the common name,
the certified key is the submitted one, it is not a CA, basic constraints are marked valid,
client authentication is its extended key usage, and it is issued under the primary signer's CA,
which `/public/x509ca` serves. -/
theorem c02_x509_fields {K} [DecidableEq K] (src : Src) (hsrc : SrcOK src) (cfg : Cfg) (st : St K)
    (accepts : Str → Bool) (expand : Str → Str → Option Str) (cred : Cred) (urlUser : Str)
    (ct : CType) (kind : KeyKind) (key : K) (c : X509Cert K)
    (h : handle src cfg st accepts expand cred urlUser ct kind key = .x509 c) :
    ∃ u, authUser cfg.disableNorm accepts cred = some u ∧ urlUser = u ∧ ct ≠ .ssh ∧
      c.cn = u ∧ c.key = key ∧ c.isCA = false ∧ c.bcValid = true ∧ c.clientAuth = true ∧
      c.issuer = st.signer ∧ c.issuer ∈ caList st.preCAs st.ed st.signer := by
  obtain ⟨_, _, _, _, h5, h6, h7, _⟩ := hsrc
  have hpub := c02_published st.preKnown st.preCAs st.ed st.signer
  unfold handle at h
  split at h
  · cases h
  · rename_i u hu
    split at h
    · cases h
    · rename_i hne
      have hurl : u = urlUser := Classical.not_not.mp hne
      split at h
      · split at h
        · cases h
        · split at h
          · cases h
          · split at h <;> cases h
      · rename_i hct
        split at h
        · cases h
        · rename_i ca hca
          simp only [Out.x509.injEq] at h
          subst h
          rw [hpub.2.2.2.1] at hca
          cases hca
          exact ⟨u, hu, hurl.symm, fun hc => hct (by rw [hc]), rfl, rfl, h5, h6, h7, rfl, hpub.2.2.2.2⟩

/-- **Other user**: a request authenticated as `u` that names any other user in the URL is refused
with 403 — for every certificate type, key, configuration; and without a valid credential the
answer is 401. -/
theorem c02_other_user {K} (src : Src) (hsrc : SrcOK src) (cfg : Cfg) (st : St K)
    (accepts : Str → Bool) (expand : Str → Str → Option Str) (cred : Cred) (urlUser : Str)
    (ct : CType) (kind : KeyKind) (key : K) :
    (∀ u, authUser cfg.disableNorm accepts cred = some u → u ≠ urlUser →
      handle src cfg st accepts expand cred urlUser ct kind key = .status 403) ∧
    (authUser cfg.disableNorm accepts cred = none →
      handle src cfg st accepts expand cred urlUser ct kind key = .status 401) := by
  constructor
  · intro u hu hne
    unfold handle
    rw [hu]
    simp [hne, hsrc.2.2.2.2.2.2.2]
  · intro hn
    unfold handle
    rw [hn]

theorem ofNat_toNat (n : Nat) (h : n < 0xd800) : (Char.ofNat n).toNat = n := by
  have hv : n.isValidChar := Or.inl h
  unfold Char.ofNat
  rw [dif_pos hv]
  unfold Char.ofNatAux Char.toNat
  simp

theorem lowerChar_not_upper (c : Char) : ¬ ('A' ≤ lowerChar c ∧ lowerChar c ≤ 'Z') := by
  unfold lowerChar
  split
  · rename_i h
    intro hc
    have h1 : 65 ≤ c.toNat := h.1
    have h2 : c.toNat ≤ 90 := h.2
    have hv : (Char.ofNat (c.toNat + 32)).toNat = c.toNat + 32 := ofNat_toNat _ (by omega)
    have h3 : (Char.ofNat (c.toNat + 32)).toNat ≤ 90 := hc.2
    omega
  · rename_i h; exact h

/-- **Normalised user**: the name a password credential authenticates is the normalised typed
name — with normalisation enabled it contains no upper-case ASCII letter, so a URL naming a
case variant is a different user (`c02_other_user`) — and the login handler's cookie carries that
same name, so cookie and basic credentials of one person yield the same principal. -/
theorem c02_normalised (dn : Bool) (accepts : Str → Bool) (typed : Str) (pw : Bool) (u : Str)
    (h : authUser dn accepts (.basic typed pw) = some u) :
    u = normalise dn typed ∧ accepts u = true ∧ pw = true ∧
    authUser dn accepts (loginCookie dn accepts typed pw) = some u ∧
    (dn = false → ∀ c ∈ u, ¬ ('A' ≤ c ∧ c ≤ 'Z')) := by
  simp only [authUser] at h
  split at h
  · rename_i hc
    simp only [Bool.and_eq_true] at hc
    simp only [Option.some.injEq] at h
    subst h
    refine ⟨rfl, hc.2, hc.1, ?_, ?_⟩
    · simp [loginCookie, hc.1, hc.2, authUser]
    · intro hdn c hcm
      subst hdn
      simp only [normalise, Bool.false_eq_true, if_false, List.mem_map] at hcm
      obtain ⟨a, _, ha⟩ := hcm
      rw [← ha]
      exact lowerChar_not_upper a
  · cases h

/-- non-vacuity: with the repository's literals, `Alice` logging in by password and asking for
`/certgen/alice` gets an SSH certificate whose only principal is `alice`, while `/certgen/Alice`
is refused; an override of a standard extension is visible in the result -/
def exampleSt : St Nat := { signer := 1, ed := none, preKnown := [], preCAs := [] }
def exampleCfg : Cfg :=
  { disableNorm := false, hostIdentity := "km".toList, exts := [("permit-pty".toList, "$USERNAME".toList)] }
def exampleCert (url : Str) : Option ((List Str × Nat × Nat) × (Option Str × Option Str)) :=
  match handle KM.Gen.C02.src exampleCfg exampleSt (fun _ => true) (fun u t => expandStr u t)
      (.basic "Alice".toList true) url .ssh .rsa2048 7 with
  | .ssh c => some ((c.principals, c.key, c.signatureKey), (c.exts "permit-pty".toList,
      c.exts "permit-user-rc".toList))
  | _ => none
def exampleStatus (url : Str) : Option Nat :=
  match handle KM.Gen.C02.src exampleCfg exampleSt (fun _ => true) (fun u t => expandStr u t)
      (.basic "Alice".toList true) url .ssh .rsa2048 7 with
  | .status n => some n
  | _ => none
example : exampleCert "alice".toList =
    some ((["alice".toList], 7, 1), (some "alice".toList, some [])) := by decide
example : exampleStatus "Alice".toList = some 403 := by decide

end KM.CertFields
