import KM.Model.Admin
import KM.Model.GoLite
import KM.Gen.GoAdmin
import KM.Gen.GoGate
import KM.Model.GoTypes
import KM.Gen.GoTotpManage
import KM.Gen.GoU2fReg
import KM.Gen.GoWaReg
/-! # C08 — the administration predicates as TRANSLATED from the current source (go2lean)

`isAutomationAdmin` and `isAutomationUser` (cmd/keymasterd) are translated statement by statement from /repo's
working tree on every run (`KM/Gen/GoAdmin.lean`), parameterised by the two calls they make (`IsAdminUser`,
`getUserGroups`).  The theorems say the translations ARE the functions the C08 model decides with, for every
behaviour of those calls; they are audited with the other `c08_*` obligations. -/
namespace KM.Admin
open KM.Go

/-- how the model's directory reads as the Go helper `getUserGroups` -/
def getGroupsOf (groups : Groups) (r : Name) : List Name × Option Err :=
  match groups r with
  | none => ([], some ['!'])
  | some gs => (gs, none)

def verdictOfAuto (r : Bool × Option Err) : Option Bool := if r.2.isSome then none else some r.1

theorem contains_any (l : List Name) (u : Name) : l.contains u = l.any (fun a => u == a) := by
  induction l with
  | nil => rfl
  | cons a as ih => rw [List.contains_cons, List.any_cons, ih]

/-- the translated `isAutomationAdmin` is the model's `automationAdmin` applied to `IsAdminUser`'s answer, for every
behaviour of `IsAdminUser` and every operator list -/
theorem c08_go_automation_admin (cfg : Cfg) (isAdminUser : Name → Bool) (u : Name) :
    KM.Gen.GoAdmin.isAutomationAdmin isAdminUser cfg.automationAdmins u = automationAdmin cfg (isAdminUser u) u := by
  unfold KM.Gen.GoAdmin.isAutomationAdmin automationAdmin
  dsimp -proj -iota only
  rw [forRange_any (fun a => u == a) true _ (by intro x s; cases s; rfl)]
  rw [contains_any]
  cases isAdminUser u <;> cases cfg.automationAdmins.any (fun a => u == a) <;> rfl

/-- the translated `isAutomationUser` is the model's `automationUser` (listed ⇒ true without a lookup; lookup error ⇒
error; otherwise membership of one of the user's groups in the configured groups), for every directory -/
theorem c08_go_automation_user (cfg : Cfg) (groups : Groups) (r : Name) :
    verdictOfAuto (KM.Gen.GoAdmin.isAutomationUser (getGroupsOf groups) cfg.automationUsers cfg.automationUserGroups r) =
      automationUser cfg groups r := by
  unfold KM.Gen.GoAdmin.isAutomationUser automationUser getGroupsOf
  rw [forRange_any (fun a => a == r) (true, none) _ (by intro x s; cases s; rfl)]
  have e1 : cfg.automationUsers.any (fun a => a == r) = cfg.automationUsers.contains r := by
    rw [contains_any]; congr 1; funext a; exact Bool.beq_comm
  rw [e1]
  cases h : cfg.automationUsers.contains r with
  | true => rfl
  | false =>
    simp only [Bool.false_eq_true, if_false]
    cases hg : groups r with
    | none => rfl
    | some gs =>
      dsimp only
      rw [forRange_any (fun g => gs.any (fun n => n == g)) (true, none) _ (by
        intro g st; cases st
        rw [forRange_any (fun n => n == g) (true, none) _ (by intro y st; cases st; rfl)]
        cases gs.any (fun n => n == g) <;> rfl)]
      have e2 : (fun g => gs.any (fun n => n == g)) = (fun g => gs.contains g) := by
        funext g; rw [contains_any]; congr 1; funext a; exact Bool.beq_comm
      rw [e2]
      cases cfg.automationUserGroups.any (fun g => gs.contains g) <;> rfl

/-- non-vacuity: the translated functions on concrete inputs -/
example : KM.Gen.GoAdmin.isAutomationAdmin (fun _ => false) ["robot".toList] "robot".toList = true ∧
    KM.Gen.GoAdmin.isAutomationAdmin (fun _ => false) ["robot".toList] "alice".toList = false ∧
    KM.Gen.GoAdmin.isAutomationUser (fun _ => (["ops".toList], none)) [] ["ops".toList] "svc".toList = (true, none) := by
  decide

/-! ### `IsAdminUser`: the cache in front of the directory, as translated -/

open KM.GoTypes in
/-- **the admin cache, on the translated source**: a still-valid entry is the answer without asking the directory; an
expired (or absent) one makes exactly one directory lookup, whose answer is returned and stored afresh; only when that
lookup FAILS is the previous verdict returned (and re-stored) — for every behaviour of the cache and of the directory -/
theorem c08_go_isAdminUser (ext : AdminCacheExt) (u : Name) :
    KM.Gen.GoAdmin.IsAdminUser ext u =
      match ext.cacheGet u with
      | (cached, true) => (cached, [])
      | (cached, false) =>
        match ext.lookup u with
        | (v, none) => (v, [AdminEffect.lookup u, AdminEffect.put u v])
        | (_, some _) => (cached, [AdminEffect.lookup u, AdminEffect.put u cached]) := by
  obtain ⟨cacheGet, lookup⟩ := ext
  unfold KM.Gen.GoAdmin.IsAdminUser
  dsimp -iota only
  rcases cacheGet u with ⟨c, v⟩
  cases v with
  | true => rfl
  | false =>
    rcases hl : lookup u with ⟨nv, _ | e⟩ <;> simp [hl]

open KM.GoTypes in
/-- **a verdict older than the cache lifetime is re-evaluated when the directory answers**: with an expired entry and
a directory that answers, what is returned is the directory's current verdict, never the stale one -/
theorem c08_go_expired_reevaluated (ext : AdminCacheExt) (u : Name) (cached v : Bool)
    (hc : ext.cacheGet u = (cached, false)) (hl : ext.lookup u = (v, none)) :
    (KM.Gen.GoAdmin.IsAdminUser ext u).1 = v := by
  rw [c08_go_isAdminUser, hc]
  simp [hl]

/-! ### the admin gate `sendFailureToClientIfNonAdmin` and `IsAdminUserAndU2F`, as translated -/

open KM.GoTypes in
/-- **the admin gate, on the translated source**: the handler behind it runs (`false`, with the caller's identity)
exactly when the server is unsealed, `checkAuth` admits the request under the mask "web-UI level or keymaster
certificate", and `IsAdminUser` says yes for THAT identity; a non-admin gets one 401; for every behaviour of
`checkAuth` and `IsAdminUser` -/
theorem c08_go_admin_gate (ext : AdminGateExt) (webUI : Nat) :
    KM.Gen.GoGate.sendFailureToClientIfNonAdmin ext webUI =
      if ext.locked = true then ((true, none), [])
      else match ext.checkAuth (webUI ||| 512) with
        | (_, some _) => ((true, none), [])
        | (info, none) =>
          if ext.isAdmin info.Username = true then ((false, some info), [])
          else ((true, none), [GateEffect.fail 401]) := by
  obtain ⟨locked, checkAuth, isAdmin⟩ := ext
  unfold KM.Gen.GoGate.sendFailureToClientIfNonAdmin
  dsimp -iota only
  cases locked with
  | true => rfl
  | false =>
    rcases hc : checkAuth (webUI ||| 512) with ⟨info, _ | e⟩
    · cases ha : isAdmin info.Username <;> simp [ha]
    · simp

open KM.GoTypes in
/-- passing the gate means being an administrator -/
theorem c08_go_admin_gate_passed (ext : AdminGateExt) (webUI : Nat) (info : authInfo)
    (h : (KM.Gen.GoGate.sendFailureToClientIfNonAdmin ext webUI).1 = (false, some info)) :
    ext.locked = false ∧ ext.checkAuth (webUI ||| 512) = (info, none) ∧ ext.isAdmin info.Username = true := by
  rw [c08_go_admin_gate] at h
  cases hl : ext.locked with
  | true => simp [hl] at h
  | false =>
    rcases hc : ext.checkAuth (webUI ||| 512) with ⟨i, _ | e⟩
    · cases ha : ext.isAdmin i.Username with
      | true => simp [hl, hc, ha] at h; subst h; exact ⟨rfl, rfl, ha⟩
      | false => simp [hl, hc, ha] at h
    · simp [hl, hc] at h

/-- the translated `IsAdminUserAndU2F` is the model's `adminAndU2F` -/
theorem c08_go_admin_and_u2f (isAdminUser : Name → Bool) (u : Name) (level : Nat) :
    KM.Gen.GoGate.IsAdminUserAndU2F isAdminUser u level = adminAndU2F (isAdminUser u) level := by
  unfold KM.Gen.GoGate.IsAdminUserAndU2F adminAndU2F u2fBit KM.Gen.authTypeU2F
  rfl

end KM.Admin

/-! ## `totpTokenManagerHandler` from its first statement to the save (`KM/Gen/GoTotpManage.lean`, block with a join point) -/
namespace KM.ManageGo
open KM.GoTypes KM.Go

/-- an effect that changes a profile (in memory or in the store): everything but the gate, a refusal and the end -/
def Changes (e : ManageEffect) : Prop := (∀ n, e ≠ .fail n) ∧ e ≠ .lockedGate ∧ e ≠ .success

/-- **users manage only their own tokens; managing somebody else's needs admin rights with U2F; and nothing is changed
from a cached profile** (C08, C15), on the translated source of `totpTokenManagerHandler` (from its first statement to
the save): any change of a profile — a token renamed, enabled, disabled or deleted in the loaded profile, or the profile
saved — happens only on an unsealed server, for a POST by an identity `checkAuth` admitted at the web-UI level, for the
profile of `username` where that is the caller's own name or the caller is an admin authenticated with U2F, loaded from
the PRIMARY store (not the offline cache) without error, for an existing token; and the profile saved is that user's. -/
theorem c08_go_totp_manage (ext : ManageExt) (method user idx action name : List Char) (lvl : Nat) (e : ManageEffect)
    (he : Changes e)
    (h : e ∈ (KM.Gen.GoTotpManage.totpManageCore ext method user idx action name lvl).2) :
    ext.locked = false ∧ method = "POST".toList ∧
    ∃ info, ext.checkAuth lvl = (info, none) ∧
      (ext.adminAndU2F info.Username info.AuthType = true ∨ user = info.Username) ∧
      (ext.loadProfile user).2.2.1 = false ∧ (ext.loadProfile user).2.2.2 = none ∧
      (∀ u, e = .save u → u = user) := by
  obtain ⟨locked, ca, pf, adm, pidx, load, has, nameOK, save⟩ := ext
  unfold KM.Gen.GoTotpManage.totpManageCore at h
  dsimp only at h ⊢
  have bad0 : e ∈ (([] : List ManageEffect) ++ [ManageEffect.lockedGate]) → False := by
    intro hm; simp at hm; exact he.2.1 hm
  have bad : ∀ n, e ∈ (([] : List ManageEffect) ++ [ManageEffect.lockedGate] ++ [ManageEffect.fail n]) → False := by
    intro n hm; simp at hm; rcases hm with rfl | rfl
    · exact he.2.1 rfl
    · exact he.1 n rfl
  by_cases hl : locked = true
  · subst hl; simp only [if_true] at h; exact (bad0 h).elim
  have hl' : locked = false := by simpa using hl
  subst hl'
  simp only [Bool.false_eq_true, if_false] at h
  by_cases hce : (ca lvl).2.isSome = true
  · rw [if_pos hce] at h; exact (bad _ h).elim
  rw [if_neg hce] at h
  have hca : ca lvl = ((ca lvl).1, none) := by
    cases hh : (ca lvl).2 with
    | none => exact Prod.ext rfl hh
    | some x => rw [hh] at hce; simp at hce
  by_cases hm : (method != "POST".toList) = true
  · rw [if_pos hm] at h; exact (bad _ h).elim
  rw [if_neg hm] at h
  have hm' : method = "POST".toList := by simpa using hm
  cases pf with
  | some x => simp only [Option.isSome_some, if_true] at h; exact (bad _ h).elim
  | none =>
    simp only [Option.isSome_none, Bool.false_eq_true, if_false] at h
    by_cases hadm : (!adm (ca lvl).1.Username (ca lvl).1.AuthType && user != (ca lvl).1.Username) = true
    · rw [if_pos hadm] at h; exact (bad _ h).elim
    rw [if_neg hadm] at h
    have hwho : adm (ca lvl).1.Username (ca lvl).1.AuthType = true ∨ user = (ca lvl).1.Username := by
      cases ha : adm (ca lvl).1.Username (ca lvl).1.AuthType
      · right; rw [ha] at hadm; simpa using hadm
      · left; rfl
    by_cases hpi : (pidx idx).2.isSome = true
    · rw [if_pos hpi] at h; exact (bad _ h).elim
    rw [if_neg hpi] at h
    by_cases hle : (load user).2.2.2.isSome = true
    · rw [if_pos hle] at h; exact (bad _ h).elim
    rw [if_neg hle] at h
    have hle' : (load user).2.2.2 = none := by
      cases hh : (load user).2.2.2 with
      | none => rfl
      | some x => rw [hh] at hle; simp at hle
    by_cases hfc : (load user).2.2.1 = true
    · rw [if_pos hfc] at h; exact (bad _ h).elim
    rw [if_neg hfc] at h
    have hfc' : (load user).2.2.1 = false := by simpa using hfc
    refine ⟨rfl, hm', (ca lvl).1, hca, hwho, hfc', hle', ?_⟩
    intro u hu
    subst hu
    by_cases hok : (!has (pidx idx).1) = true
    · rw [if_pos hok] at h; exact (bad _ h).elim
    rw [if_neg hok] at h
    repeat' split at h
    all_goals first
      | exact (bad _ h).elim
      | (simp at h; exact h)
      | (simp at h)

end KM.ManageGo

/-! ## `u2fRegisterResponse` from `checkAuth` to the save (`KM/Gen/GoU2fReg.lean`, block) -/
namespace KM.RegGo
open KM.GoTypes KM.Go

/-- an effect that changes a profile: everything but a refusal and the end -/
def Changes (e : RegEffect) : Prop := (∀ n, e ≠ .fail n) ∧ e ≠ .success

/-- **a token is registered only for one's own account, or by an admin with U2F, and never into a cached profile**
(C08, C15), on the translated source of `u2fRegisterResponse` (from `checkAuth` to the save): any change of a profile —
the new registration, the cleared challenge, the second-factor mark, the save — happens only for an identity
`checkAuth` admitted at the web-UI level, for the URL's user where that is the caller's own name or the caller is an
admin authenticated with U2F, on a profile loaded from the PRIMARY store without error with a registration challenge
pending, after `u2f.Register` verified the response; and the profile saved is that user's. -/
theorem c08_go_u2f_register (ext : RegExt) (user : List Char) (lvl : Nat) (e : RegEffect) (he : Changes e)
    (h : e ∈ (KM.Gen.GoU2fReg.u2fRegisterCore ext user lvl).2) :
    ∃ info, ext.checkAuth lvl = (info, none) ∧
      (ext.adminAndU2F info.Username info.AuthType = true ∨ info.Username = user) ∧
      (ext.loadProfile user).2.2.1 = false ∧ (ext.loadProfile user).2.2.2 = none ∧
      ext.noChallenge = false ∧ ext.register.2 = none ∧ (∀ u, e = .save u → u = user) := by
  obtain ⟨ca, adm, dec, load, noch, reg, now, save⟩ := ext
  unfold KM.Gen.GoU2fReg.u2fRegisterCore at h
  dsimp only at h ⊢
  have bad0 : e ∈ ([] : List RegEffect) → False := by intro hm; cases hm
  have bad : ∀ n, e ∈ (([] : List RegEffect) ++ [RegEffect.fail n]) → False := by
    intro n hm; simp at hm; exact he.1 n hm
  by_cases hce : (ca lvl).2.isSome = true
  · rw [if_pos hce] at h; exact (bad0 h).elim
  rw [if_neg hce] at h
  have hca : ca lvl = ((ca lvl).1, none) := by
    cases hh : (ca lvl).2 with
    | none => exact Prod.ext rfl hh
    | some x => rw [hh] at hce; simp at hce
  by_cases hadm : (!adm (ca lvl).1.Username (ca lvl).1.AuthType && (ca lvl).1.Username != user) = true
  · rw [if_pos hadm] at h; exact (bad _ h).elim
  rw [if_neg hadm] at h
  have hwho : adm (ca lvl).1.Username (ca lvl).1.AuthType = true ∨ (ca lvl).1.Username = user := by
    cases ha : adm (ca lvl).1.Username (ca lvl).1.AuthType
    · right; rw [ha] at hadm; simpa using hadm
    · left; rfl
  by_cases hde : dec.2.isSome = true
  · rw [if_pos hde] at h; exact (bad _ h).elim
  rw [if_neg hde] at h
  by_cases hle : (load user).2.2.2.isSome = true
  · rw [if_pos hle] at h; exact (bad _ h).elim
  rw [if_neg hle] at h
  have hle' : (load user).2.2.2 = none := by
    cases hh : (load user).2.2.2 with
    | none => rfl
    | some x => rw [hh] at hle; simp at hle
  by_cases hfc : (load user).2.2.1 = true
  · rw [if_pos hfc] at h; exact (bad _ h).elim
  rw [if_neg hfc] at h
  have hfc' : (load user).2.2.1 = false := by simpa using hfc
  by_cases hnc : noch = true
  · rw [if_pos hnc] at h; exact (bad _ h).elim
  rw [if_neg hnc] at h
  have hnc' : noch = false := by simpa using hnc
  by_cases hre : reg.2.isSome = true
  · rw [if_pos hre] at h; exact (bad _ h).elim
  rw [if_neg hre] at h
  have hre' : reg.2 = none := by
    cases hh : reg.2 with
    | none => rfl
    | some x => rw [hh] at hre; simp at hre
  refine ⟨(ca lvl).1, hca, hwho, hfc', hle', hnc', hre', ?_⟩
  intro u hu
  subst hu
  repeat' split at h
  all_goals first
    | (simp at h; exact h)
    | (simp at h)

end KM.RegGo

/-! ## `webauthnFinishRegistration` from `checkAuth` to the response (`KM/Gen/GoWaReg.lean`, block) -/
namespace KM.WaRegGo
open KM.GoTypes KM.Go

/-- an effect that changes a profile: everything but a refusal and the end -/
def Changes (e : WaRegEffect) : Prop := (∀ n, e ≠ .fail n) ∧ e ≠ .success

/-- **a WebAuthn credential is registered only for one's own account, or by an admin with U2F, and never into a cached
profile** (C08, C15), on the translated source of `webauthnFinishRegistration` (from `checkAuth` to the response): the
credential is added and the profile saved only for an identity `checkAuth` admitted at the web-UI level, for the URL's
user where that is the caller's own name or the caller is an admin authenticated with U2F, on a profile loaded from the
PRIMARY store without error, after the library's `FinishRegistration` accepted the response; the profile saved is that
user's. -/
theorem c08_go_webauthn_register (ext : WaRegExt) (user : List Char) (lvl : Nat) (e : WaRegEffect) (he : Changes e)
    (h : e ∈ (KM.Gen.GoWaReg.webauthnRegisterCore ext user lvl).2) :
    ∃ info, ext.checkAuth lvl = (info, none) ∧
      (ext.adminAndU2F info.Username info.AuthType = true ∨ info.Username = user) ∧
      (ext.loadProfile user).2.2.1 = false ∧ (ext.loadProfile user).2.2.2 = none ∧
      ext.finishRegistration.2 = none ∧ (∀ u, e = .save u → u = user) := by
  obtain ⟨ca, adm, load, fin, add, save⟩ := ext
  unfold KM.Gen.GoWaReg.webauthnRegisterCore at h
  dsimp only at h ⊢
  have bad0 : e ∈ ([] : List WaRegEffect) → False := by intro hm; cases hm
  have bad : ∀ n, e ∈ (([] : List WaRegEffect) ++ [WaRegEffect.fail n]) → False := by
    intro n hm; simp at hm; exact he.1 n hm
  by_cases hce : (ca lvl).2.isSome = true
  · rw [if_pos hce] at h; exact (bad0 h).elim
  rw [if_neg hce] at h
  have hca : ca lvl = ((ca lvl).1, none) := by
    cases hh : (ca lvl).2 with
    | none => exact Prod.ext rfl hh
    | some x => rw [hh] at hce; simp at hce
  by_cases hadm : (!adm (ca lvl).1.Username (ca lvl).1.AuthType && (ca lvl).1.Username != user) = true
  · rw [if_pos hadm] at h; exact (bad _ h).elim
  rw [if_neg hadm] at h
  have hwho : adm (ca lvl).1.Username (ca lvl).1.AuthType = true ∨ (ca lvl).1.Username = user := by
    cases ha : adm (ca lvl).1.Username (ca lvl).1.AuthType
    · right; rw [ha] at hadm; simpa using hadm
    · left; rfl
  by_cases hle : (load user).2.2.2.isSome = true
  · rw [if_pos hle] at h; exact (bad _ h).elim
  rw [if_neg hle] at h
  have hle' : (load user).2.2.2 = none := by
    cases hh : (load user).2.2.2 with
    | none => rfl
    | some x => rw [hh] at hle; simp at hle
  by_cases hfc : (load user).2.2.1 = true
  · rw [if_pos hfc] at h; exact (bad _ h).elim
  rw [if_neg hfc] at h
  have hfc' : (load user).2.2.1 = false := by simpa using hfc
  by_cases hre : fin.2.isSome = true
  · rw [if_pos hre] at h; exact (bad _ h).elim
  rw [if_neg hre] at h
  have hre' : fin.2 = none := by
    cases hh : fin.2 with
    | none => rfl
    | some x => rw [hh] at hre; simp at hre
  refine ⟨(ca lvl).1, hca, hwho, hfc', hle', hre', ?_⟩
  intro u hu
  subst hu
  repeat' split at h
  all_goals first
    | (simp at h; exact h)
    | (simp at h)

end KM.WaRegGo
