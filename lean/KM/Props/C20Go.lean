import KM.Props.C02Go
/-! # C20 — the publication step of `postAuthSSHCertHandler` as TRANSLATED from the current source (go2lean)

Same translated block as `KM/Props/C02Go.lean` (`KM.Gen.GoIssue.sshIssue`). -/
namespace KM.IssueGo
open KM.GoTypes KM.Go

/-- **every certificate that is handed out has been reported to the audit stream first** (C20), on the translated
source: if the handler starts its 200 response, then what it did is exactly — call the generator once, hand THAT
call's certificate to `eventNotifier.PublishSSH`, respond; and nothing is published that the generator did not return. -/
theorem c20_go_ssh_published (ext : SshIssueExt) (method user : List Char) (duration : Int) (edMissing : Bool) :
    (SshEffect.respond ∈ (KM.Gen.GoIssue.sshIssue ext method user duration edMissing).2 ∨
     (∃ c, SshEffect.publish c ∈ (KM.Gen.GoIssue.sshIssue ext method user duration edMissing).2)) →
    ∃ k s cs cert, ext.sign user k s duration = (cs, cert, none) ∧
      (KM.Gen.GoIssue.sshIssue ext method user duration edMissing).2 =
        [.sign user k s duration, .publish cert, .respond] := by
  rw [ssh_issue_eq]
  intro h
  by_cases hm : (method != "POST".toList) = true
  · rw [if_pos hm] at h; simp at h
  · rw [if_neg hm] at h ⊢
    rcases hf : ext.formFile with ⟨file, hdr, _ | e⟩
    · rw [hf] at h; simp only at h ⊢
      rcases hv : ext.validKey (ext.fileText file) with ⟨pk, ue, _ | e⟩
      · rcases ue with _ | ue
        · rw [hv] at h; simp only at h ⊢
          unfold afterValid at h ⊢
          by_cases h4 : kindOf ext pk = .ed25519 ∧ edMissing = true
          · simp [h4] at h
          · simp only [h4, if_false] at h ⊢
            rcases hn : ext.newSigner (kindOf ext pk) with ⟨sg, _ | e⟩
            · rw [hn] at h; simp only at h ⊢
              rcases hx : ext.expand user with ⟨x, _ | e⟩
              · rw [hx] at h; simp only at h ⊢
                rcases hsg : ext.sign user (ext.fileText file) sg duration with ⟨cs, cert, _ | e⟩
                · exact ⟨_, _, _, _, hsg, rfl⟩
                · rw [hsg] at h; simp at h
              · rw [hx] at h; simp at h
            · rw [hn] at h; simp at h
        · rw [hv] at h; simp at h
      · rw [hv] at h; simp at h
    · rw [hf] at h; simp at h

/-- **the same for X.509 certificates**: if `postAuthX509CertHandler` starts its 200 response (or publishes anything),
then what it did is exactly — one call of `certgen.GenUserX509Cert`, `eventNotifier.PublishX509` of THAT call's
certificate, respond. -/
theorem c20_go_x509_published (ext : X509IssueExt) (method user addGroups : List Char) (duration : Int) (kube : Bool) :
    (X509Effect.respond ∈ (KM.Gen.GoIssue.x509Issue ext method user addGroups duration kube).2 ∨
     (∃ c, X509Effect.publish c ∈ (KM.Gen.GoIssue.x509Issue ext method user addGroups duration kube).2)) →
    ∃ pub sg g o m der, ext.sign user pub sg duration g o m = (der, none) ∧
      (KM.Gen.GoIssue.x509Issue ext method user addGroups duration kube).2 =
        [.sign user pub sg duration g o m, .publish der, .respond] :=
  x509_published ext method user addGroups duration kube

end KM.IssueGo
