import KM.Gen.Pins
import KM.Props.C06
import KM.Model.CertGen
/-! # C01 — certificates are issued only after the operator-required authentication

`decide` is the decision model of `certGenHandler` (repaired code); its sufficiency loop is the
clause table `KM.Gen.certgenClauses` regenerated from the source on every run. -/
namespace KM.CertGen
open KM.Auth KM.Site KM.Gen

/-- what the property demands before a certificate may be issued -/
def SpecSufficient (allowed : List (List Char)) (level : Nat) : Prop :=
  protoAuthTypePassword.toList ∈ allowed ∨ hasAll level authTypeU2F = true ∨
  ∃ f ∈ allowed, ∃ b, factorBit f = some b ∧ hasAll level b = true

/-- well-formedness of a clause table: no unrecognised clause, the unconditional clause is the
password setting, every factor clause tests the bit its setting stands for -/
def clauseOK (c : Clause) : Bool :=
  match c.test with
  | .always => c.pref == protoAuthTypePassword.toList
  | .hasAll b => factorBit c.pref == some b && c.prefConst == c.bitConst
  | .unknown => false

def alwaysOK (a : List Char × Nat) : Bool := a.2 == authTypeU2F && a.1 == "AuthTypeU2F".toList

/-- **Table**: the sufficiency loop of the current source tree is well-formed, nothing else
writes the verdict, the loop ranges over the operator's list, the gate is `AuthTypeAny`, and the
gates run in the order sealed → checkAuth → sufficiency → target user → method → issue. -/
theorem c01_table :
    certgenClauses.all clauseOK = true ∧ certgenAlwaysBits.all alwaysOK = true ∧
    certgenOtherWrites = 0 ∧ certgenRangesOverAllowedBackends = true ∧ certgenMask = Mask.any ∧
    certgenGateOrder = ["sealed", "checkAuth", "sufficient", "targetUser", "post", "issue"].map String.toList ∧
    authTypeAny = 0xFFFF := by decide

/-- generic: a well-formed clause table grants only what the specification allows -/
theorem sufficient_spec (clauses : List Clause) (always : List (List Char × Nat))
    (hc : clauses.all clauseOK = true) (ha : always.all alwaysOK = true)
    (allowed : List (List Char)) (level : Nat)
    (h : sufficient clauses always allowed level = true) : SpecSufficient allowed level := by
  unfold sufficient at h
  rw [Bool.or_eq_true] at h
  rcases h with h | h
  · rw [List.any_eq_true] at h
    obtain ⟨pref, hp, h⟩ := h
    rw [List.any_eq_true] at h
    obtain ⟨c, hcm, h⟩ := h
    have hok := List.all_eq_true.mp hc c hcm
    unfold clauseHolds at h
    rw [Bool.and_eq_true] at h
    obtain ⟨he, ht⟩ := h
    have he' : c.pref = pref := by simpa using he
    unfold clauseOK at hok
    split at hok
    · left
      have : c.pref = protoAuthTypePassword.toList := by simpa using hok
      rw [← this, he']; exact hp
    · rename_i b hb
      right; right
      rw [hb] at ht
      rw [Bool.and_eq_true] at hok
      have : factorBit c.pref = some b := by simpa using hok.1
      exact ⟨pref, hp, b, by rw [← he']; exact this, ht⟩
    · cases hok
  · rw [List.any_eq_true] at h
    obtain ⟨a, ham, h⟩ := h
    have hok := List.all_eq_true.mp ha a ham
    unfold alwaysOK at hok
    rw [Bool.and_eq_true] at hok
    have : a.2 = authTypeU2F := by simpa using hok.1
    right; left
    rw [← this]; exact h

/-- **Soundness**: a certificate is issued only when the server is unsealed, the request carries
a credential that really establishes the identity and level it is admitted with, that level
contains a method the operator listed (or the hardware-token bit, or the operator listed
`password`), and the certificate is for the authenticated user — for every configuration,
every operator list (any strings), every level bit set and every request shape. -/
theorem c01_sound (cfg : Cfg) (allowed : List (List Char)) (r : CGReq) (u : User)
    (h : decide cfg allowed r = .issued u) :
    r.sealed = false ∧ u = r.target ∧ r.req.method = .post ∧ r.post = .ok ∧
    ∃ info, checkAuth cfg r.req authTypeAny = .ok info ∧ info.user = u ∧
      Established cfg r.req info ∧ SpecSufficient allowed info.authType := by
  unfold decide decideWith at h
  split at h
  · cases h
  · rename_i hs
    split at h
    · cases h
    · cases h
    · rename_i info hca
      split at h
      · cases h
      · rename_i hsuf
        split at h
        · cases h
        · rename_i hu
          split at h
          · cases h
          · rename_i hm
            split at h
            · rename_i hp
              injection h with h
              have hsuf' : sufficient certgenClauses certgenAlwaysBits allowed info.authType = true := by
                simpa using hsuf
              refine ⟨by simpa using hs, ?_, by simpa using hm, hp, info, hca, h, ?_, ?_⟩
              · rw [← h]; simpa using hu
              · exact (c06_checkAuth_sound cfg r.req authTypeAny info hca).1
              · exact sufficient_spec _ _ c01_table.1 c01_table.2.1 allowed _ hsuf'
            · cases h

/-- **Password-only sessions** get no certificate when only second factors are listed. -/
theorem c01_password_only_refused (cfg : Cfg) (allowed : List (List Char)) (r : CGReq) (u : User) (info : AuthInfo)
    (hnp : protoAuthTypePassword.toList ∉ allowed)
    (hca : checkAuth cfg r.req authTypeAny = .ok info) (hlvl : info.authType = authTypePassword) :
    decide cfg allowed r ≠ .issued u := by
  intro h
  obtain ⟨_, _, _, _, info', hca', _, _, hspec⟩ := c01_sound cfg allowed r u h
  rw [hca] at hca'
  injection hca' with e
  subst e
  rw [hlvl] at hspec
  rcases hspec with h1 | h1 | ⟨f, hf, b, hb, hh⟩
  · exact hnp h1
  · revert h1; decide
  · unfold factorBit at hb
    repeat' split at hb
    all_goals first
      | (injection hb with hb; subst hb; revert hh; decide)
      | cases hb

/-- **Sealed**: while the signer is absent the endpoint answers 500 and decides nothing else. -/
theorem c01_sealed (cfg : Cfg) (allowed : List (List Char)) (r : CGReq) (h : r.sealed = true) :
    decide cfg allowed r = .refused 500 := by
  unfold decide decideWith; simp [h]

theorem tlsFinish_not_fail {m : Nat} {acc : TlsAcc} {s : Nat} : tlsFinish fixed m acc ≠ .fail s := by
  unfold tlsFinish; split <;> simp

theorem tlsBranch_fail {cfg : Cfg} {req : Req} {m s : Nat}
    (h : tlsBranch fixed cfg req m = .fail s) : s = 403 ∨ s = 500 := by
  unfold tlsBranch at h
  repeat' split at h
  all_goals first
    | (cases h <;> omega)
    | exact absurd h tlsFinish_not_fail

theorem cookieBranch_fail {req : Req} {m s : Nat}
    (h : cookieBranch req m = .fail s) : s = 401 ∨ s = 429 ∨ s = 500 := by
  unfold cookieBranch at h
  repeat' split at h
  all_goals (cases h <;> omega)

theorem cookieBranch_not_silent {req : Req} {m : Nat} : cookieBranch req m ≠ .silent := by
  unfold cookieBranch
  repeat' split
  all_goals simp

/-- every refusal of the repaired `checkAuth` writes a 4xx/5xx status; it never returns silently -/
theorem checkAuth_refusal (cfg : Cfg) (req : Req) (m : Nat) :
    (∃ info, checkAuth cfg req m = .ok info) ∨ ∃ s, checkAuth cfg req m = .fail s ∧ 400 ≤ s := by
  unfold checkAuth checkAuthWith
  split
  · exact Or.inr ⟨400, by simp [fixed], by omega⟩
  · split
    · exact Or.inr ⟨401, rfl, by omega⟩
    · split
      · rename_i info _; exact Or.inl ⟨info, rfl⟩
      · rename_i s ht
        rcases tlsBranch_fail ht with h | h <;> exact Or.inr ⟨s, rfl, by omega⟩
      · cases hc : cookieBranch req m with
        | ok info => exact Or.inl ⟨info, rfl⟩
        | fail s =>
          rcases cookieBranch_fail hc with h | h | h <;> exact Or.inr ⟨s, rfl, by omega⟩
        | silent => exact absurd hc cookieBranch_not_silent

/-- **Everything else is an error**: a request that is not served receives a 4xx/5xx status
(the handler never returns silently, and never answers 2xx without issuing), given that the
post-authentication stage reports its own refusals with error statuses. -/
theorem c01_otherwise_error (cfg : Cfg) (allowed : List (List Char)) (r : CGReq)
    (hpost : ∀ s, r.post = .refused s → 400 ≤ s) :
    (∃ u, decide cfg allowed r = .issued u) ∨ ∃ s, decide cfg allowed r = .refused s ∧ 400 ≤ s := by
  unfold decide decideWith
  split
  · exact Or.inr ⟨500, rfl, by omega⟩
  · rcases checkAuth_refusal cfg r.req authTypeAny with ⟨info, hca⟩ | ⟨s, hca, hs⟩
    · unfold checkAuth at hca
      rw [hca]
      simp only
      split
      · exact Or.inr ⟨401, rfl, by omega⟩
      · split
        · exact Or.inr ⟨403, rfl, by omega⟩
        · split
          · exact Or.inr ⟨405, rfl, by omega⟩
          · split
            · exact Or.inl ⟨info.user, rfl⟩
            · rename_i s hp
              exact Or.inr ⟨s, rfl, hpost s hp⟩
    · unfold checkAuth at hca
      rw [hca]
      exact Or.inr ⟨s, rfl, hs⟩

/-- every factor setting of the specification has its clause in the table -/
def tableComplete (clauses : List Clause) : Bool :=
  [protoAuthTypeU2F, protoAuthTypeTOTP, protoAuthTypeSymantecVIP, protoAuthTypeIPCertificate,
   protoAuthTypeOkta2FA, protoAuthTypeWebauthForCLI].all fun f =>
    match factorBit f.toList with
    | some b => clauses.any (fun c => c.pref == f.toList && c.test == ClauseTest.hasAll b)
    | Option.none => false

theorem c01_table_complete :
    tableComplete certgenClauses = true ∧
    certgenClauses.any (fun c => c.pref == protoAuthTypePassword.toList && c.test == ClauseTest.always) = true ∧
    certgenAlwaysBits.any (fun a => a.2 == authTypeU2F) = true := by decide

theorem factorBit_dom {f : List Char} {b : Nat} (h : factorBit f = some b) :
    f ∈ [protoAuthTypeU2F, protoAuthTypeTOTP, protoAuthTypeSymantecVIP, protoAuthTypeIPCertificate,
      protoAuthTypeOkta2FA, protoAuthTypeWebauthForCLI].map String.toList := by
  unfold factorBit at h
  repeat' split at h
  all_goals first
    | (cases h; done)
    | (cases h; rename_i he; simp only [beq_iff_eq] at he; subst he; simp)

/-- the specification's condition implies the code's sufficiency verdict (current table) -/
theorem spec_sufficient (allowed : List (List Char)) (level : Nat)
    (h : SpecSufficient allowed level) :
    sufficient certgenClauses certgenAlwaysBits allowed level = true := by
  unfold sufficient
  rw [Bool.or_eq_true]
  rcases h with h | h | ⟨f, hf, b, hb, hh⟩
  · left
    rw [List.any_eq_true]
    refine ⟨_, h, ?_⟩
    have := c01_table_complete.2.1
    rw [List.any_eq_true] at this ⊢
    obtain ⟨c, hc, hcc⟩ := this
    rw [Bool.and_eq_true] at hcc
    refine ⟨c, hc, ?_⟩
    unfold clauseHolds
    have ht : c.test = ClauseTest.always := by simpa using hcc.2
    rw [ht]; simpa using hcc.1
  · right
    have := c01_table_complete.2.2
    rw [List.any_eq_true] at this ⊢
    obtain ⟨a, ha, hab⟩ := this
    refine ⟨a, ha, ?_⟩
    have : a.2 = authTypeU2F := by simpa using hab
    rw [this]; exact h
  · left
    rw [List.any_eq_true]
    refine ⟨f, hf, ?_⟩
    have hdom := factorBit_dom hb
    have hcomp := c01_table_complete.1
    unfold tableComplete at hcomp
    rw [List.all_eq_true] at hcomp
    rw [List.mem_map] at hdom
    obtain ⟨fs, hfs, hfe⟩ := hdom
    have := hcomp fs hfs
    rw [hfe, hb] at this
    simp only at this
    rw [List.any_eq_true] at this ⊢
    obtain ⟨c, hc, hcc⟩ := this
    rw [Bool.and_eq_true] at hcc
    refine ⟨c, hc, ?_⟩
    unfold clauseHolds
    have ht : c.test = ClauseTest.hasAll b := by simpa using hcc.2
    rw [ht, Bool.and_eq_true]
    exact ⟨hcc.1, hh⟩

/-- **The judge is the statement's**: the Boolean rule the check's judge applies (`specSufficientB`, no
regenerated table) is the specification, and on the current tree the table-driven model decides the same. -/
theorem c01_spec_judge (allowed : List (List Char)) (level : Nat) :
    (specSufficientB allowed level = true ↔ SpecSufficient allowed level) ∧
    sufficient certgenClauses certgenAlwaysBits allowed level = specSufficientB allowed level := by
  have hiff : specSufficientB allowed level = true ↔ SpecSufficient allowed level := by
    unfold specSufficientB SpecSufficient
    rw [Bool.or_eq_true, Bool.or_eq_true]
    constructor
    · rintro ((h | h) | h)
      · left; simpa using h
      · right; left; exact h
      · right; right
        rw [List.any_eq_true] at h
        obtain ⟨f, hf, hh⟩ := h
        cases hb : factorBit f with
        | none => simp [hb] at hh
        | some b => exact ⟨f, hf, b, hb, by simpa [hb] using hh⟩
    · rintro (h | h | ⟨f, hf, b, hb, hh⟩)
      · left; left; simpa using h
      · left; right; exact h
      · right
        rw [List.any_eq_true]
        exact ⟨f, hf, by simp [hb, hh]⟩
  refine ⟨hiff, ?_⟩
  cases hs : specSufficientB allowed level with
  | true => exact spec_sufficient allowed level (hiff.mp hs)
  | false =>
    cases hc : sufficient certgenClauses certgenAlwaysBits allowed level with
    | false => rfl
    | true =>
      have := hiff.mpr (sufficient_spec _ _ c01_table.1 c01_table.2.1 allowed level hc)
      rw [hs] at this; cases this

theorem c01_judge_is_model (cfg : Cfg) (allowed : List (List Char)) (r : CGReq) :
    specDecide cfg allowed r = decide cfg allowed r := by
  unfold specDecide decide decideWith
  simp only [(c01_spec_judge allowed _).2]

/-- **Completeness**: a user holding a valid session (at least one factor bit) whose level meets
the specification's condition, asking with POST for their own name on an unsealed server, with a
well-formed key and duration, from the same site, is served. -/
theorem c01_complete (cfg : Cfg) (allowed : List (List Char)) (r : CGReq) (t : Token)
    (hs : r.sealed = false) (hm : r.req.method = .post) (hp : r.post = .ok)
    (ho : r.req.origin = .none ∨ r.req.origin = .sameHost) (htls : r.req.tls = false)
    (hc : r.req.cookie = some t) (hv : t.sigOK = true ∧ t.issOK = true ∧ t.audOK = true ∧ t.kind = .auth ∧
      t.nbf ≤ r.req.now ∧ r.req.now ≤ t.exp) (hu : t.sub = r.target)
    (hnz : hasBit t.level authTypeAny = true)
    (hl : SpecSufficient allowed t.level) :
    decide cfg allowed r = .issued r.target := by
  have hca : checkAuthWith fixed cfg r.req authTypeAny =
      .ok { user := t.sub, authType := t.level, issuedAt := t.iat, expiresAt := t.exp } := by
    unfold checkAuthWith
    have h1 : (r.req.origin == Origin.unparsable) = false := by rcases ho with h | h <;> simp [h]
    have h2 : (r.req.origin == Origin.otherHost) = false := by rcases ho with h | h <;> simp [h]
    have h3 : tlsBranch fixed cfg r.req authTypeAny = .fallthrough := by
      unfold tlsBranch; simp [htls]
    simp only [h1, h2, h3, Bool.and_false, Bool.false_and, Bool.false_eq_true, if_false]
    unfold cookieBranch
    simp only [hc]
    have hj : jwtInfo r.req.now t = some { user := t.sub, authType := t.level, issuedAt := t.iat, expiresAt := t.exp } := by
      unfold jwtInfo
      simp [hv.1, hv.2.1, hv.2.2.1, hv.2.2.2.1, hv.2.2.2.2.1]
    simp only [hj]
    have h4 : ¬ (t.exp < r.req.now) := by omega
    simp [h4, hnz]
  unfold decide decideWith
  simp only [hs, Bool.false_eq_true, if_false, hca]
  simp [spec_sufficient allowed t.level hl, hu, hm, hp]

/-- non-vacuity of `c01_complete`'s premises: a TOTP session with TOTP listed -/
example : SpecSufficient ["TOTP".toList] (authTypePassword ||| authTypeTOTP) ∧
    hasBit (authTypePassword ||| authTypeTOTP) authTypeAny = true := by
  refine ⟨Or.inr (Or.inr ⟨_, List.mem_cons_self, authTypeTOTP, by decide, by decide⟩), by decide⟩

/-! ### round 5: histories. The handler keeps nothing between requests: whatever else was served before, or is being
served at the same moment, a certificate in a history is backed by the credential of the request that received it. -/

/-- **Histories**: in every history of requests (any length, any order, any overlap) each issued certificate is
justified by the request it answers — never by another request of the history. -/
theorem c01_history_sound (cfg : Cfg) (allowed : List (List Char)) (rs : List CGReq) (i : Nat) (u : User)
    (h : (decideHistory cfg allowed rs)[i]? = some (.issued u)) :
    ∃ r, rs[i]? = some r ∧ r.sealed = false ∧ u = r.target ∧ r.req.method = .post ∧
      ∃ info, checkAuth cfg r.req authTypeAny = .ok info ∧ info.user = u ∧
        Established cfg r.req info ∧ SpecSufficient allowed info.authType := by
  unfold decideHistory at h
  rw [List.getElem?_map] at h
  cases hr : rs[i]? with
  | none => rw [hr] at h; cases h
  | some r =>
    rw [hr] at h
    simp only [Option.map_some, Option.some.injEq] at h
    obtain ⟨h1, h2, h3, _, info, h5, h6, h7, h8⟩ := c01_sound cfg allowed r u h
    exact ⟨r, rfl, h1, h2, h3, info, h5, h6, h7, h8⟩

/-- the judge's history decision is the model's -/
theorem c01_history_judge_is_model (cfg : Cfg) (allowed : List (List Char)) (rs : List CGReq) :
    specDecideHistory cfg allowed rs = decideHistory cfg allowed rs := by
  unfold specDecideHistory decideHistory
  exact List.map_congr_left (fun r _ => c01_judge_is_model cfg allowed r)

/-- **Overlap**: a request whose only credential is a password the backend does not accept gets no certificate,
whatever the other requests of the history carry (e.g. the right password for the same user, being verified at that
very moment). -/
theorem c01_history_wrong_password_refused (cfg : Cfg) (allowed : List (List Char)) (rs : List CGReq) (i : Nat)
    (r : CGReq) (b : Basic) (u : User)
    (hr : rs[i]? = some r) (htls : r.req.tls = false) (hck : r.req.cookie = Option.none)
    (hb : r.req.basic = some b) (hres : b.result ≠ .valid) :
    (decideHistory cfg allowed rs)[i]? ≠ some (.issued u) := by
  intro h
  obtain ⟨r', hr', _, _, _, info, _, _, hest, _⟩ := c01_history_sound cfg allowed rs i u h
  rw [hr] at hr'
  injection hr' with e
  subst e
  rcases hest with hc | ⟨hc, _⟩ | ⟨_, hc⟩ | ⟨_, hc⟩ | ⟨_, hc, _⟩
  · obtain ⟨t, ht, _⟩ := hc
    rw [hck] at ht; cases ht
  · obtain ⟨_, _, b', hb', _, hv⟩ := hc
    rw [hb] at hb'
    injection hb' with e
    subst e
    exact hres hv
  · have := hc.1; rw [htls] at this; cases this
  · have := hc.1; rw [htls] at this; cases this
  · have := hc.1; rw [htls] at this; cases this

/-- **Expiry**: a session cookie presented after its expiry gets no certificate — whatever happened when the same
cookie was presented earlier (`r.servedAt later` is the same request, byte for byte, served at time `later`). -/
theorem c01_expired_later_refused (cfg : Cfg) (allowed : List (List Char)) (r : CGReq) (t : Token) (u : User)
    (later : Int) (htls : r.req.tls = false) (hc : r.req.cookie = some t) (hexp : t.exp < later) :
    decide cfg allowed (r.servedAt later) ≠ .issued u := by
  intro h
  obtain ⟨_, _, _, _, info, _, _, hest, _⟩ := c01_sound cfg allowed (r.servedAt later) u h
  have hck : (r.servedAt later).req.cookie = some t := hc
  have htl : (r.servedAt later).req.tls = false := htls
  have hnow : (r.servedAt later).req.now = later := rfl
  rcases hest with hv | ⟨hv, _⟩ | ⟨_, hv⟩ | ⟨_, hv⟩ | ⟨_, hv, _⟩
  · obtain ⟨t', ht', _, _, _, _, _, hle, _⟩ := hv
    rw [hck] at ht'
    injection ht' with e
    subst e
    rw [hnow] at hle
    omega
  · rw [hv.1] at hck; cases hck
  · have := hv.1; rw [htl] at this; cases this
  · have := hv.1; rw [htl] at this; cases this
  · have := hv.1; rw [htl] at this; cases this

/-- non-vacuity: the history the harness drives — a TOTP session cookie that ends at 1050, presented at 1000 (served)
and again at 1100 (refused) -/
example : ∃ (cfg : Cfg) (r : CGReq) (t : Token), r.req.tls = false ∧ r.req.cookie = some t ∧ t.exp < 1100 ∧
    decide cfg ["TOTP".toList] r = .issued r.target ∧
    ∀ u, decide cfg ["TOTP".toList] (r.servedAt 1100) ≠ .issued u := by
  let t : Token := { sigOK := true, issOK := true, audOK := true, kind := .auth, nbf := 900, exp := 1050, iat := 900,
                     sub := "alice", level := authTypePassword ||| authTypeTOTP }
  let r : CGReq := { req := { method := .post, origin := .none, hostPresent := true, tls := false, chains := [],
                               cookie := some t, basic := Option.none, limiterAllows := true, now := 1000 },
                     sealed := false, target := "alice", post := .ok }
  let cfg : Cfg := { keymasterKeys := [1], deniedKeys := [], automationUsers := [], automationLookupFails := [] }
  refine ⟨cfg, r, t, rfl, rfl, by decide, ?_, fun u => c01_expired_later_refused cfg _ r t u 1100 rfl rfl (by decide)⟩
  exact c01_complete cfg _ r t rfl rfl rfl (Or.inl rfl) rfl rfl
    ⟨rfl, rfl, rfl, rfl, by decide, by decide⟩ rfl (by decide)
    (Or.inr (Or.inr ⟨_, List.mem_cons_self, authTypeTOTP, by decide, by decide⟩))

end KM.CertGen

-- BEGIN PINS (written by bin/update-pins.py)
namespace KM.CertGen

/-- **Source pins** (regenerated): SHA-256 (first 80 bits) of the signature and body, whitespace-normalised,
of `certGenHandler`, which `KM.CertGen.decide` transcribes (its gate functions are pinned by `c06_source_pins`) — equal to the values recorded when the model was last
read against the code. Any edit, harmless or not, breaks this tie. -/
theorem c01_source_pins :
    KM.Gen.Pins.certGenHandler = "eb2ac932a11df9304a29" := by
  exact rfl

end KM.CertGen
-- END PINS
