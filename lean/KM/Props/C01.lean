/-! # C01 — property theorems (stub: not built yet) -/
