import KM.Model.KeyStrength
import KM.Model.GoTypes
import KM.Gen.GoCertgen
/-! # C10 — `ValidatePublicKeyStrength` (lib/certgen) as TRANSLATED from the current source (go2lean)

The predicate every issuing path calls is translated from /repo's working tree on every run
(`KM/Gen/GoCertgen.lean`); its type switch becomes a `match` over `KM.GoTypes.PubKey`. The theorems say that the
translated predicate is the model's `strong` (thresholds read by the extractor) and — directly — the property's own
statement `spec` on every key the standard parsers can deliver. -/
namespace KM.KeyStrength
open KM.GoTypes

/-- how the model's description of a key reads as the Go value -/
def toGo : KeyDesc → PubKey
  | .rsa bits e => .rsa bits e
  | .ecdsa cb => .ecdsa cb
  | .ed25519 => .ed25519
  | .other => .other

/-- the translated predicate never returns an error -/
theorem c10_go_no_error (k : PubKey) : (KM.Gen.GoCertgen.ValidatePublicKeyStrength k).2 = none := by
  unfold KM.Gen.GoCertgen.ValidatePublicKeyStrength
  cases k <;> simp <;> (repeat' split) <;> rfl

/-- **the translated predicate is the statement's predicate**: RSA ≥ 2048 bits with exponent ≥ 65537, Ed25519,
nothing of any other type; for ECDSA it accepts exactly `BitSize ≥ 255`, which on the curves Go can deliver
(224, 256, 384, 521) is the statement's "NIST curve of at least 256 bits" -/
theorem c10_go_is_spec (k : KeyDesc) (hc : ∀ cb, k = .ecdsa cb → cb ∈ goCurves) :
    (KM.Gen.GoCertgen.ValidatePublicKeyStrength (toGo k)).1 = spec k := by
  unfold KM.Gen.GoCertgen.ValidatePublicKeyStrength spec toGo
  cases k with
  | rsa bits e =>
    by_cases h1 : (bits : Int) < 2048 <;> by_cases h2 : (e : Int) < 65537 <;> simp [h1, h2] <;> omega
  | ecdsa cb =>
    have := hc cb rfl
    simp only [goCurves, List.mem_cons, List.mem_nil_iff, or_false] at this
    rcases this with rfl | rfl | rfl | rfl <;> decide
  | ed25519 => rfl
  | other => rfl

/-- the translated predicate is the model's `strong` (whose thresholds the extractor reads from the same source) -/
theorem c10_go_is_model (k : KeyDesc) :
    (KM.Gen.GoCertgen.ValidatePublicKeyStrength (toGo k)).1 = strong k := by
  unfold KM.Gen.GoCertgen.ValidatePublicKeyStrength strong strongWith current passes toGo
    KM.Gen.C10.rsaMinBits KM.Gen.C10.rsaMinE KM.Gen.C10.ecdsaBitSizeBelow KM.Gen.C10.ed25519Accepted KM.Gen.C10.defaultRefuses
  cases k with
  | rsa bits e =>
    by_cases h1 : (bits : Int) < 2048 <;> by_cases h2 : (e : Int) < 65537 <;> simp [h1, h2] <;> omega
  | ecdsa cb => by_cases h1 : (cb : Int) < 255 <;> simp [h1] <;> omega
  | ed25519 => rfl
  | other => rfl

/-- non-vacuity: the translated predicate on concrete keys (2047-bit RSA, e = 3, P-224, P-256, Ed25519, DSA) -/
example : (KM.Gen.GoCertgen.ValidatePublicKeyStrength (.rsa 2047 65537)).1 = false ∧
    (KM.Gen.GoCertgen.ValidatePublicKeyStrength (.rsa 2048 3)).1 = false ∧
    (KM.Gen.GoCertgen.ValidatePublicKeyStrength (.rsa 2048 65537)).1 = true ∧
    (KM.Gen.GoCertgen.ValidatePublicKeyStrength (.ecdsa 224)).1 = false ∧
    (KM.Gen.GoCertgen.ValidatePublicKeyStrength (.ecdsa 256)).1 = true ∧
    (KM.Gen.GoCertgen.ValidatePublicKeyStrength .ed25519).1 = true ∧
    (KM.Gen.GoCertgen.ValidatePublicKeyStrength .other).1 = false := by decide

end KM.KeyStrength
