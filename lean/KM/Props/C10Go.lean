import KM.Model.KeyStrength
import KM.Model.GoTypes
import KM.Gen.GoCertgen
import KM.Gen.GoSshKey
/-! # C10 — `ValidatePublicKeyStrength` (lib/certgen) as TRANSLATED from the current source (go2lean)

The predicate every issuing path calls is translated from /repo's working tree on every run
(`KM/Gen/GoCertgen.lean`); its type switch becomes a `match` over `KM.GoTypes.PubKey`. The theorems say that the
translated predicate is the model's `strong` (thresholds read by the extractor) and — directly — the property's own
statement `spec` on every key the standard parsers can deliver. -/
namespace KM.KeyStrength
open KM.GoTypes

/-- how the model's description of a key reads as the Go value -/
def toGo : KeyDesc → PubKey
  | .rsa bits e => .rsa bits e
  | .ecdsa cb => .ecdsa cb
  | .ed25519 => .ed25519
  | .other => .other

/-- the translated predicate never returns an error -/
theorem c10_go_no_error (k : PubKey) : (KM.Gen.GoCertgen.ValidatePublicKeyStrength k).2 = none := by
  unfold KM.Gen.GoCertgen.ValidatePublicKeyStrength
  cases k <;> simp <;> (repeat' split) <;> rfl

/-- **the translated predicate is the statement's predicate**: RSA ≥ 2048 bits with exponent ≥ 65537, Ed25519,
nothing of any other type; for ECDSA it accepts exactly `BitSize ≥ 255`, which on the curves Go can deliver
(224, 256, 384, 521) is the statement's "NIST curve of at least 256 bits" -/
theorem c10_go_is_spec (k : KeyDesc) (hc : ∀ cb, k = .ecdsa cb → cb ∈ goCurves) :
    (KM.Gen.GoCertgen.ValidatePublicKeyStrength (toGo k)).1 = spec k := by
  unfold KM.Gen.GoCertgen.ValidatePublicKeyStrength spec toGo
  cases k with
  | rsa bits e =>
    by_cases h1 : (bits : Int) < 2048 <;> by_cases h2 : (e : Int) < 65537 <;> simp [h1, h2] <;> omega
  | ecdsa cb =>
    have := hc cb rfl
    simp only [goCurves, List.mem_cons, List.mem_nil_iff, or_false] at this
    rcases this with rfl | rfl | rfl | rfl <;> decide
  | ed25519 => rfl
  | other => rfl

/-- the translated predicate is the model's `strong` (whose thresholds the extractor reads from the same source) -/
theorem c10_go_is_model (k : KeyDesc) :
    (KM.Gen.GoCertgen.ValidatePublicKeyStrength (toGo k)).1 = strong k := by
  unfold KM.Gen.GoCertgen.ValidatePublicKeyStrength strong strongWith current passes toGo
    KM.Gen.C10.rsaMinBits KM.Gen.C10.rsaMinE KM.Gen.C10.ecdsaBitSizeBelow KM.Gen.C10.ed25519Accepted KM.Gen.C10.defaultRefuses
  cases k with
  | rsa bits e =>
    by_cases h1 : (bits : Int) < 2048 <;> by_cases h2 : (e : Int) < 65537 <;> simp [h1, h2] <;> omega
  | ecdsa cb => by_cases h1 : (cb : Int) < 255 <;> simp [h1] <;> omega
  | ed25519 => rfl
  | other => rfl

/-- non-vacuity: the translated predicate on concrete keys (2047-bit RSA, e = 3, P-224, P-256, Ed25519, DSA) -/
example : (KM.Gen.GoCertgen.ValidatePublicKeyStrength (.rsa 2047 65537)).1 = false ∧
    (KM.Gen.GoCertgen.ValidatePublicKeyStrength (.rsa 2048 3)).1 = false ∧
    (KM.Gen.GoCertgen.ValidatePublicKeyStrength (.rsa 2048 65537)).1 = true ∧
    (KM.Gen.GoCertgen.ValidatePublicKeyStrength (.ecdsa 224)).1 = false ∧
    (KM.Gen.GoCertgen.ValidatePublicKeyStrength (.ecdsa 256)).1 = true ∧
    (KM.Gen.GoCertgen.ValidatePublicKeyStrength .ed25519).1 = true ∧
    (KM.Gen.GoCertgen.ValidatePublicKeyStrength .other).1 = false := by decide

end KM.KeyStrength

/-! ## `getValidSSHPublicKey`, the whole function (`KM/Gen/GoSshKey.lean`) -/
namespace KM.SshKeyGo
open KM.GoTypes KM.Go

/-- **an SSH key line is accepted only if it is well-formed, parses, and is a strong key** (C10), on the translated
source: the function returns neither a user error nor an internal error exactly when the regular expression matched the
submitted line, `ssh.ParseAuthorizedKey` parsed that same line, the parsed key is a crypto key, and
`ValidatePublicKeyStrength` (translated: `c10_go_is_spec`) said `true` without error; what it hands back is the parsed
key — and `postAuthSSHCertHandler` signs only then (`c02_go_ssh_sign`). -/
theorem c10_go_valid_ssh_key (ext : SshKeyExt) (line : List Char) (k : Option Nat) :
    KM.Gen.GoSshKey.getValidSSHPublicKey ext line = (k, none, none) ↔
      ext.lineMatches line = (true, none) ∧
      (∃ a b c, ext.parse line = (k, a, b, c, none)) ∧
      (∃ ck, ext.asCrypto k = (ck, true) ∧ ext.strong ck = (true, none)) := by
  obtain ⟨lm, parse, asC, strong⟩ := ext
  unfold KM.Gen.GoSshKey.getValidSSHPublicKey
  dsimp only
  rcases hl : lm line with ⟨v, _ | e⟩
  · cases v
    · simp
    · simp only [Option.isSome_none, Bool.false_eq_true, if_false, Bool.not_true, true_and]
      rcases hp : parse line with ⟨key, a, b, c, _ | e⟩
      · simp only [Option.isSome_none, Bool.false_eq_true, if_false]
        rcases hc : asC key with ⟨ck, ok⟩
        cases ok
        · simp only [Bool.not_false, if_true]
          constructor
          · intro h; cases h
          · rintro ⟨⟨a', b', c', h1⟩, ck', h2, _⟩
            cases h1; rw [hc] at h2; cases h2
        · simp only [Bool.not_true, Bool.false_eq_true, if_false]
          rcases hs : strong ck with ⟨sv, _ | e⟩
          · cases sv
            · simp only [Option.isSome_none, Bool.false_eq_true, if_false, Bool.not_false, if_true]
              constructor
              · intro h; cases h
              · rintro ⟨⟨a', b', c', h1⟩, ck', h2, h3⟩
                cases h1; rw [hc] at h2; cases h2; rw [hs] at h3; cases h3
            · simp only [Option.isSome_none, Bool.false_eq_true, if_false, Bool.not_true]
              constructor
              · intro h; cases h
                exact ⟨⟨a, b, c, rfl⟩, ck, hc, hs⟩
              · rintro ⟨⟨a', b', c', h1⟩, _⟩
                cases h1; rfl
          · simp only [Option.isSome_some, if_true]
            constructor
            · intro h; cases h
            · rintro ⟨⟨a', b', c', h1⟩, ck', h2, h3⟩
              cases h1; rw [hc] at h2; cases h2; rw [hs] at h3; cases h3
      · simp only [Option.isSome_some, if_true]
        constructor
        · intro h; cases h
        · rintro ⟨⟨a', b', c', h1⟩, _⟩; cases h1
  · simp

end KM.SshKeyGo
