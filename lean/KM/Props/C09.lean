/-! # C09 — property theorems (stub: not built yet) -/
