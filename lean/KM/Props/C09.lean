import KM.Gen.Pins
import KM.Model.Seal
import KM.Gen.Routes
/-! # C09 — a sealed server signs nothing; only the right passphrase unseals it, once -/
namespace KM.Seal

theorem mem_addKey_self (l : List Nat) (k : Nat) : k ∈ addKey l k := by
  unfold addKey; split
  · rename_i h; simpa using h
  · simp

theorem mem_addKey_of_mem {l : List Nat} {k x : Nat} (h : x ∈ l) : x ∈ addKey l k := by
  unfold addKey; split
  · exact h
  · simp [h]

theorem unsealed_ready (cfg : Cfg) (s : State) : Ready cfg (unsealed cfg s) := by
  unfold unsealed Ready
  cases he : cfg.edKey with
  | none => simp [mem_addKey_self]
  | some e =>
    refine ⟨rfl, mem_addKey_self _ _, by simp, ?_⟩
    intro e' he'
    injection he' with he'
    subst he'
    exact ⟨rfl, mem_addKey_of_mem (mem_addKey_self _ _), by simp⟩

/-- **Wrong passphrase / no client certificate**: the state is left exactly as it was. -/
theorem c09_wrong_passphrase (cfg : Cfg) (s : State) (p : Nat) (h : p ≠ cfg.correct) :
    inject cfg s (.pass p) = (s, 400) := by
  simp only [inject]; split
  · rfl
  · simp

theorem c09_needs_verified_client_cert (cfg : Cfg) (s : State) :
    (inject cfg s .noTLS).1 = s ∧ (inject cfg s .noVerifiedChain).1 = s ∧
    (inject cfg s .noPassphraseField).1 = s ∧
    (inject cfg s .noTLS).2 ≥ 400 ∧ (inject cfg s .noVerifiedChain).2 ≥ 400 := by
  simp [inject]

/-- one step preserves the seal invariant -/
theorem step_inv (cfg : Cfg) (s : State) (op : Op) (h : Inv cfg s) : Inv cfg (step cfg s op) := by
  cases op with
  | request => exact h
  | inj i =>
    cases i with
    | noTLS => exact h
    | noVerifiedChain => exact h
    | noPassphraseField => exact h
    | pass p =>
      simp only [step, inject]
      split
      · exact h
      · rename_i hn
        split
        · exact h
        · split
          · exact h
          · split
            · rcases h with ⟨hs, hr⟩ | ⟨hrd, _⟩
              · left
                unfold edLeft; split
                · exact ⟨hs, hr⟩
                · exact ⟨hs, hr⟩
              · rw [hrd.1] at hn; simp at hn
            · rcases h with ⟨_, hr⟩ | ⟨hrd, _⟩
              · right
                refine ⟨unsealed_ready cfg s, ?_⟩
                unfold unsealed; split <;> simp [hr]
              · rw [hrd.1] at hn; simp at hn

/-- **Exactly one transition, never half-initialised**: after ANY sequence of injections
(right or wrong passphrases, with or without client certificate) interleaved with ordinary
requests, the server is either still sealed and has signalled nothing, or it is fully
initialised — signer, Ed25519 signer when configured, published SSH/JWKS keys and X.509 CA
list all in place — and has signalled readiness exactly once. -/
theorem c09_unseal_once (cfg : Cfg) (ops : List Op) : Inv cfg (run cfg init ops) := by
  have : ∀ s, Inv cfg s → Inv cfg (run cfg s ops) := by
    induction ops with
    | nil => intro s h; exact h
    | cons op rest ih => intro s h; exact ih _ (step_inv cfg s op h)
  exact this init (Or.inl ⟨rfl, rfl⟩)

/-- **Published keys include the keys that sign** in every reachable state. -/
theorem c09_published (cfg : Cfg) (ops : List Op) (k : Nat)
    (h : (run cfg init ops).signer = some k) :
    k ∈ (run cfg init ops).published ∧ k ∈ (run cfg init ops).caKeys ∧
    ∀ e, (run cfg init ops).edSigner = some e → cfg.edKey = some e →
      e ∈ (run cfg init ops).published ∧ e ∈ (run cfg init ops).caKeys := by
  rcases c09_unseal_once cfg ops with ⟨hn, _⟩ | ⟨hr, _⟩
  · rw [hn] at h; cases h
  · rw [hr.1] at h; injection h with h; subst h
    exact ⟨hr.2.1, hr.2.2.1, fun e _ hc => (hr.2.2.2 e hc).2⟩

/-- keys once published stay published -/
theorem step_published_mono (cfg : Cfg) (s : State) (op : Op) (x : Nat) (h : x ∈ s.published) :
    x ∈ (step cfg s op).published := by
  cases op with
  | request => exact h
  | inj i =>
    cases i with
    | noTLS => exact h
    | noVerifiedChain => exact h
    | noPassphraseField => exact h
    | pass p =>
      simp only [step, inject]
      split
      · exact h
      · split
        · exact h
        · split
          · exact h
          · split
            · unfold edLeft; split
              · exact h
              · exact h
            · unfold unsealed; split
              · exact mem_addKey_of_mem (mem_addKey_of_mem h)
              · exact mem_addKey_of_mem h

theorem published_mono (cfg : Cfg) (ops : List Op) : ∀ (s : State) (x : Nat), x ∈ s.published →
    x ∈ (run cfg s ops).published := by
  induction ops with
  | nil => intro s x h; exact h
  | cons op rest ih => intro s x h; exact ih _ x (step_published_mono cfg s op x h)

/-- **The same from any pre-loaded key list** (`keymaster_public_keys_filename` may already list the
keys of cluster members, this server's own RSA key among them, before the server is unsealed): the
invariant holds in every reachable state, so once unsealed *every* key that signs — the Ed25519 one
too — is in the published list, whatever was listed before. -/
theorem c09_unseal_once_preloaded (cfg : Cfg) (pre : List Nat) (ops : List Op) :
    Inv cfg (run cfg (initWith pre) ops) := by
  have : ∀ s, Inv cfg s → Inv cfg (run cfg s ops) := by
    induction ops with
    | nil => intro s h; exact h
    | cons op rest ih => intro s h; exact ih _ (step_inv cfg s op h)
  exact this (initWith pre) (Or.inl ⟨rfl, rfl⟩)

theorem c09_published_preloaded (cfg : Cfg) (pre : List Nat) (ops : List Op) (k : Nat)
    (h : (run cfg (initWith pre) ops).signer = some k) :
    k ∈ (run cfg (initWith pre) ops).published ∧
    (∀ e, cfg.edKey = some e → (run cfg (initWith pre) ops).edSigner = some e ∧
      e ∈ (run cfg (initWith pre) ops).published) ∧
    ∀ x ∈ pre, x ∈ (run cfg (initWith pre) ops).published := by
  rcases c09_unseal_once_preloaded cfg pre ops with ⟨hn, _⟩ | ⟨hr, _⟩
  · rw [hn] at h; cases h
  · rw [hr.1] at h; injection h with h; subst h
    refine ⟨hr.2.1, fun e hc => ⟨(hr.2.2.2 e hc).1, (hr.2.2.2 e hc).2.1⟩, ?_⟩
    exact fun x hx => published_mono cfg ops (initWith pre) x hx

/-- non-vacuity, the cluster case: the RSA key is already listed, the Ed25519 key is not -/
example : (run { correct := 7, signerKey := 10, edKey := some 11 } (initWith [99, 10])
    [.inj (.pass 3), .inj (.pass 7)]).published = [99, 10, 11] := by decide

/-- **The daemon as a whole** (main()'s wiring, regenerated facts + the invariant): in every reachable state,
while sealed the service port does not listen and both readiness routes report not-ready; once unsealed all
three flip together. -/
theorem daemon_of_inv (cfg : Cfg) (s : State) (h : Inv cfg s) :
    (s.signer = none → serviceUp s = false ∧ readyz s = 503 ∧ readiness s = 503) ∧
    (s.signer ≠ none → serviceUp s = true ∧ readyz s = 200 ∧ readiness s = 200) := by
  rcases h with ⟨hn, h0⟩ | ⟨hr, h1⟩
  · refine ⟨fun _ => ?_, fun h => absurd hn h⟩
    simp [serviceUp, readyz, readiness, hn, h0]
  · refine ⟨fun h => ?_, fun _ => ?_⟩
    · rw [hr.1] at h; cases h
    · simp [serviceUp, readyz, readiness, hr.1, h1]

theorem c09_daemon (cfg : Cfg) (pre : List Nat) (ops : List Op) :
    ((run cfg (initWith pre) ops).signer = none →
      serviceUp (run cfg (initWith pre) ops) = false ∧ readyz (run cfg (initWith pre) ops) = 503 ∧
      readiness (run cfg (initWith pre) ops) = 503) ∧
    ((run cfg (initWith pre) ops).signer ≠ none →
      serviceUp (run cfg (initWith pre) ops) = true ∧ readyz (run cfg (initWith pre) ops) = 200 ∧
      readiness (run cfg (initWith pre) ops) = 200) :=
  daemon_of_inv cfg _ (c09_unseal_once_preloaded cfg pre ops)

theorem c09_main_wiring :
    KM.Gen.mainServiceListensAfterUnseal = true ∧ KM.Gen.mainReadinessSetAfterUnseal = true ∧
    KM.Gen.mainAdminListensBeforeUnseal = true := by decide

/-! ## Round 5: the contents of the key files are part of the configuration -/

/-- **An injection is accepted exactly when** the server is sealed, the passphrase is the one that decrypts
the main CA file, the main file holds a usable key and the configured Ed25519 file (if any) decrypts with the
same passphrase to an Ed25519 key. -/
theorem c09_accepted_iff (cfg : Cfg) (s : State) (i : Inj) :
    (inject cfg s i).2 = 200 ↔
      s.signer = none ∧ i = .pass cfg.correct ∧ edBlocks cfg = false ∧ cfg.signerUsable = true := by
  cases i with
  | noTLS => simp [inject]
  | noVerifiedChain => simp [inject]
  | noPassphraseField => simp [inject]
  | pass p =>
    simp only [inject]
    cases hs : s.signer with
    | some k => simp
    | none =>
      by_cases hp : p = cfg.correct
      · subst hp
        cases hb : edBlocks cfg <;> cases hu : cfg.signerUsable <;> simp
      · simp [hp]

/-- **A refused injection leaves the server sealed, whatever the key files hold**: any answer other than 200
to a sealed server leaves the signer unset, signals nothing and publishes nothing. (As the code is, the
Ed25519 signer and its CA certificate may stay behind when the *main* key is refused: `edLeft`.) -/
theorem c09_refused_stays_sealed (cfg : Cfg) (s : State) (i : Inj)
    (hs : s.signer = none) (h : (inject cfg s i).2 ≠ 200) :
    (inject cfg s i).1.signer = none ∧ (inject cfg s i).1.readySignals = s.readySignals ∧
    (inject cfg s i).1.published = s.published := by
  cases i with
  | noTLS => exact ⟨hs, rfl, rfl⟩
  | noVerifiedChain => exact ⟨hs, rfl, rfl⟩
  | noPassphraseField => exact ⟨hs, rfl, rfl⟩
  | pass p =>
    simp only [inject] at h ⊢
    split
    · exact ⟨hs, rfl, rfl⟩
    · split
      · exact ⟨hs, rfl, rfl⟩
      · split
        · exact ⟨hs, rfl, rfl⟩
        · split
          · unfold edLeft; split
            · exact ⟨hs, rfl, rfl⟩
            · exact ⟨hs, rfl, rfl⟩
          · rename_i h1 h2 h3 h4
            simp [h1, h2, h3, h4] at h

/-- a loaded Ed25519 signer is the configured one -/
def EdFromCfg (cfg : Cfg) (s : State) : Prop := ∀ e, s.edSigner = some e → cfg.edKey = some e

theorem step_edFromCfg (cfg : Cfg) (s : State) (op : Op) (h : EdFromCfg cfg s) :
    EdFromCfg cfg (step cfg s op) := by
  cases op with
  | request => exact h
  | inj i =>
    cases i with
    | noTLS => exact h
    | noVerifiedChain => exact h
    | noPassphraseField => exact h
    | pass p =>
      simp only [step, inject]
      split
      · exact h
      · split
        · exact h
        · split
          · exact h
          · split
            · unfold edLeft; split
              · rename_i e he; intro e' he'; simp at he'; rw [← he']; exact he
              · exact h
            · unfold unsealed; split
              · rename_i e he; intro e' he'; simp at he'; rw [← he']; exact he
              · exact h

theorem sound_of_inv (cfg : Cfg) (s : State) (h : Inv cfg s) (he : EdFromCfg cfg s) : Sound s := by
  rcases h with hl | ⟨hr, h1⟩
  · exact Or.inl hl
  · exact Or.inr ⟨cfg.signerKey, hr.1, hr.2.1, hr.2.2.1,
      fun e hse => ⟨(hr.2.2.2 e (he e hse)).2.1, (hr.2.2.2 e (he e hse)).2.2⟩, h1⟩

/-- **Every reachable state is sound, for every configuration of key files and every pre-loaded key list**:
after any history the server is sealed and has signalled nothing, or it signs, has signalled exactly once and
every loaded signer's key is published and certified. A state with a signer but no readiness signal, or with a
signer whose key is not published, is unreachable. -/
theorem c09_sound (cfg : Cfg) (pre : List Nat) (ops : List Op) : Sound (run cfg (initWith pre) ops) := by
  have : ∀ s, Inv cfg s ∧ EdFromCfg cfg s → Inv cfg (run cfg s ops) ∧ EdFromCfg cfg (run cfg s ops) := by
    induction ops with
    | nil => intro s h; exact h
    | cons op rest ih => intro s h; exact ih _ ⟨step_inv cfg s op h.1, step_edFromCfg cfg s op h.2⟩
  have h := this (initWith pre) ⟨Or.inl ⟨rfl, rfl⟩, fun e he => by simp [initWith, init] at he⟩
  exact sound_of_inv cfg _ h.1 h.2

/-- the judge's Boolean is the predicate of `c09_sound` -/
theorem c09_soundB_iff (s : State) : soundB s = true ↔ Sound s := by
  unfold soundB Sound
  cases hs : s.signer with
  | none => simp
  | some k =>
    cases he : s.edSigner with
    | none => simp [and_assoc]
    | some e => simp [and_assoc]

/-- non-vacuity: an Ed25519 file that holds no Ed25519 key — the right passphrase is refused and nothing moves;
an unusable main key — refused, the Ed25519 part stays behind, still sealed -/
example : inject { correct := 7, signerKey := 10, edKey := some 11, edFile := .notEd25519 } init (.pass 7) = (init, 400) := by
  decide
example : inject { correct := 7, signerKey := 10, edKey := some 11, signerUsable := false } init (.pass 7) =
    ({ init with edSigner := some 11, caKeys := [11] }, 400) := by decide
/-- the half-unsealed state (signer set, nothing signalled or published) is not sound -/
example : soundB { init with signer := some 10, caKeys := [10] } = false := by decide

theorem only_correct_aux (cfg : Cfg) (ops : List Op) :
    ∀ s, s.signer = none → (run cfg s ops).signer ≠ none → Op.inj (.pass cfg.correct) ∈ ops := by
  induction ops with
  | nil => intro s hs hh; exact absurd hs hh
  | cons op rest ih =>
    intro s hs hh
    by_cases hop : op = Op.inj (.pass cfg.correct)
    · rw [hop]; exact List.mem_cons_self
    · have hstep : (step cfg s op).signer = none := by
        cases op with
        | request => exact hs
        | inj i =>
          cases i with
          | noTLS => exact hs
          | noVerifiedChain => exact hs
          | noPassphraseField => exact hs
          | pass p =>
            have hp : p ≠ cfg.correct := fun e => hop (by rw [e])
            simp only [step, c09_wrong_passphrase cfg s p hp]; exact hs
      exact List.mem_cons_of_mem _ (ih (step cfg s op) hstep hh)

/-- **Only the correct passphrase unseals**: if the server is unsealed after a history, that
history contains an injection with the correct passphrase over a verified client certificate. -/
theorem c09_only_correct (cfg : Cfg) (ops : List Op)
    (h : (run cfg init ops).signer ≠ none) : Op.inj (.pass cfg.correct) ∈ ops :=
  only_correct_aux cfg ops init rfl h

/-- **Sealed ⇒ not ready, guarded routes answer 500**, in every reachable state. -/
theorem c09_sealed_fails_closed (s : State) (h : s.signer = none) :
    readyz s = 503 ∧ guardedStatus s = some 500 := by
  simp [readyz, guardedStatus, h]

theorem c09_ready_iff (s : State) : readyz s = 200 ↔ s.signer ≠ none := by
  unfold readyz; cases s.signer <;> simp

/-- routes that may reach a signing primitive without testing the seal first: both dereference the
nil signer before producing any output (token endpoint: cannot even verify a code while no key
is published; federated callback: `setNewAuthCookie` → nil dereference) — confirmed on the real
handlers by the harness on every run -/
def unguardedSigners : List (List Char) := ["/idp/oauth2/token".toList, "/auth/oauth2/callback".toList]

/-- **Every route fails closed** (regenerated table): each registered route either tests the
seal before anything else, or cannot reach a signing primitive, or is one of the two enumerated
nil-dereference routes; the unseal step runs wholly under the mutex, assigns the signer last,
the guard reads it under the same mutex, and nothing else ever writes the signer. -/
theorem c09_sealed_routes :
    KM.Gen.sealRoutes.all (fun r => r.2.1 || !r.2.2 || unguardedSigners.contains r.1) = true ∧
    KM.Gen.unsealRunsUnderMutex = true ∧ KM.Gen.signerAssignedLast = true ∧
    KM.Gen.sealedGuardReadsUnderMutex = true ∧
    KM.Gen.signerWriters = ["loadSignersFromPemData".toList] := by decide

/-- non-vacuity: the right passphrase does unseal -/
example : (run { correct := 7, signerKey := 1, edKey := some 2 } init
    [.inj (.pass 3), .request, .inj .noTLS, .inj (.pass 7), .inj (.pass 7)]) =
    { signer := some 1, edSigner := some 2, published := [2, 1], caKeys := [2, 1], readySignals := 1 } := by
  decide

end KM.Seal

-- BEGIN PINS (written by bin/update-pins.py)
namespace KM.Seal

/-- **Source pins** (regenerated): SHA-256 (first 80 bits) of the signature and body, whitespace-normalised,
of the functions `KM.Seal.inject` collapses into one atomic step — equal to the values recorded when the model was last
read against the code. Any edit, harmless or not, breaks this tie. -/
theorem c09_source_pins :
    KM.Gen.Pins.unsealCA = "16e41b1bc90e6780513c" ∧
    KM.Gen.Pins.secretInjectorHandler = "1ae090057f1e8143c30e" ∧
    KM.Gen.Pins.loadSignersFromPemData = "45e7c1e1ed2a3e9459b3" ∧
    KM.Gen.Pins.signerPublicKeyToKeymasterKeys = "006bc740bfba4a215d6c" ∧
    KM.Gen.Pins.readyzHandler = "f7e9f069a9610273fc66" ∧
    KM.Gen.Pins.isUnsealed = "76c391d95d49bcc66ff4" ∧
    KM.Gen.Pins.pgpDecryptFileData = "e845003d3fa5bac59ac8" := by
  exact ⟨rfl, rfl, rfl, rfl, rfl, rfl, rfl⟩

end KM.Seal
-- END PINS
