import KM.Lemmas.Token
/-! # C04 — signed tokens are unforgeable and never accepted outside their purpose

Property theorems only. The model (`KM.Token`) transcribes the consumers of `cmd/keymasterd`;
`honourable` is the property's own predicate. Tables under `KM.Gen.C04` are regenerated from the
source tree on every run. -/
namespace KM.Token
open KM.Gen.C04

/-- the two facts about the environment the theorems need: the issuer URL is not empty (it always
starts with `https://`) and the clock reads a time after 1970 -/
structure Sane (x : Ctx) : Prop where
  issuer : x.dep.issuer ≠ []
  clock : 0 ≤ x.now.sec

/-! ### the regenerated tables are the ones the model was transcribed from -/

/-- the comparisons the model's consumers make, as a table -/
def expectAuthValues (want : Rhs) : List Cmp :=
  [⟨.issuer, .ne, .issuer⟩, ⟨.tokenType, .ne, want⟩, ⟨.audienceLen, .lt, .int 1⟩,
   ⟨.audience0, .ne, .issuer⟩, ⟨.notBefore, .gt, .nowUnix⟩]

def guarded : UpgradeGuard → Bool
  | .checkAuthBefore | .commonTOTPBefore => true
  | _ => false

/-- **Sites.** What the source says today is what the model assumes:
the five kind literals (pairwise distinct, none empty), the kind strings the callers of
`getAuthInfoFromJWT` demand, the comparison set of every consumer (a dropped or altered comparison
changes the table), the JSON key / Go type of every claims-struct field the decoders read, what
`getAuthInfoFromJWT` copies into its result, and that every `updateAuthCookieAuthlevel` call site
sits behind `checkAuth`. -/
theorem c04_sites :
    [sessionType, cliType, storageType, codeType, accessType].Pairwise (· ≠ ·) ∧
    [sessionType, cliType, storageType, codeType, accessType].all (· ≠ []) = true ∧
    want_getAuthInfoFromAuthJWT = sessionType ∧ want_VerifyAuthTokenHandler = cliType ∧
    want_SendAuthDocumentHandler = cliType ∧
    cmps_getAuthInfoFromJWT = expectAuthValues (.param "tokenType".toList) ∧
    cmps_updateAuthJWTWithNewAuthLevel =
      expectAuthValues (.lit sessionType) ++ [⟨.subject, .ne, .param "username".toList⟩] ∧
    cmps_getStorageDataFromStorageStringDataJWT = expectAuthValues (.lit storageType) ∧
    cmps_GetSigned = [⟨.subject, .ne, .param "username".toList⟩, ⟨.dataType, .ne, .param "dataType".toList⟩,
                      ⟨.expiration, .lt, .nowUnix⟩] ∧
    cmps_checkAuth = [⟨.expiresAt, .beforeNow, .none⟩, ⟨.authType, .maskZero, .param "requiredAuthType".toList⟩] ∧
    cmps_VerifyAuthTokenHandler = [⟨.expiresAt, .untilNeg, .none⟩] ∧
    cmps_SendAuthDocumentHandler = [⟨.authUsername, .ne, .field "authData.Username".toList⟩, ⟨.expiresAt, .untilNeg, .none⟩] ∧
    cmps_idpOpenIDCTokenHandler = [⟨.subject, .ne, .loc "clientID".toList⟩, ⟨.expiration, .lt, .nowUnix⟩,
                                   ⟨.redirectURI, .ne, .form "redirect_uri".toList⟩, ⟨.typ, .ne, .lit codeType⟩] ∧
    cmps_idpOpenIDCUserinfoHandler = [⟨.expiration, .lt, .nowUnix⟩, ⟨.typ, .ne, .lit accessType⟩,
                                      ⟨.issuer, .ne, .issuer⟩, ⟨.audienceHas, .missingIfNonEmpty, .userinfoURL⟩] ∧
    authInfoAssignments = [("AuthType".toList, "AuthType".toList, "id".toList),
                           ("ExpiresAt".toList, "Expiration".toList, "timeUnix".toList),
                           ("IssuedAt".toList, "IssuedAt".toList, "timeUnix".toList),
                           ("Username".toList, "Subject".toList, "id".toList)] ∧
    upgradeCallers.all (fun s => guarded s.2 || s.1 == "internalTOTPAuthHandler") = true ∧
    internalTOTPCallers.all (fun s => guarded s.2) = true ∧ internalTOTPCallers ≠ [] := by
  decide

/-- JSON key and Go type of the struct fields each decoder of the model reads -/
def layout (l : List StructField) : List (Str × GoTy) := l.map (fun f => (f.json, f.ty))

/-- **Sites (layout).** The claims structs carry exactly the JSON keys / types the model's decoders
(`typedAuth`, `typedStorage`, `typedCode`, `typedAccess`) and `Field.json` assume, and the fields
written with `omitempty` are the ones `emitAuth` / `emitStorage` / `emitCode` / `emitAccess` omit. -/
theorem c04_sites_layout :
    layout struct_authInfoJWT =
      [(Field.iss.json, .str), (Field.sub.json, .str), (Field.aud.json, .strs), (Field.exp.json, .int),
       (Field.nbf.json, .int), (Field.iat.json, .int), (Field.tokenType.json, .str), (Field.authType.json, .int)] ∧
    layout struct_storageStringDataJWT =
      [(Field.iss.json, .str), (Field.sub.json, .str), (Field.aud.json, .strs), (Field.nbf.json, .int),
       (Field.exp.json, .int), (Field.iat.json, .int), (Field.tokenType.json, .str), (Field.dataType.json, .int),
       (Field.data.json, .str)] ∧
    layout struct_keymasterdCodeToken =
      [(Field.iss.json, .str), (Field.sub.json, .str), (Field.iat.json, .int), (Field.exp.json, .int),
       (Field.aud.json, .strs), (Field.username.json, .str), (Field.authLevel.json, .int), (Field.authExp.json, .int),
       (Field.nonce.json, .str), (Field.redirectUri.json, .str), (Field.accessAudience.json, .strs),
       (Field.scope.json, .str), (Field.typ.json, .str), (Field.jti.json, .str),
       (Field.protectedDataKey.json, .str), (Field.protectedData.json, .str)] ∧
    layout struct_bearerAccessToken =
      [(Field.iss.json, .str), (Field.aud.json, .strs), (Field.username.json, .str), (Field.scope.json, .str),
       (Field.exp.json, .int), (Field.iat.json, .int), (Field.typ.json, .str)] ∧
    layout struct_openIDConnectIDToken =
      [(Field.iss.json, .str), (Field.sub.json, .str), (Field.aud.json, .strs), (Field.exp.json, .int),
       (Field.iat.json, .int), (Field.authTime.json, .int), (Field.nonce.json, .str)] ∧
    (struct_authInfoJWT.filter (·.omitempty)).map (·.json) =
      [Field.iss.json, Field.sub.json, Field.aud.json, Field.exp.json, Field.nbf.json, Field.iat.json] ∧
    (struct_storageStringDataJWT.filter (·.omitempty)).map (·.json) =
      [Field.iss.json, Field.sub.json, Field.aud.json, Field.nbf.json, Field.iat.json] ∧
    (struct_keymasterdCodeToken.filter (·.omitempty)).map (·.json) =
      [Field.accessAudience.json, Field.protectedDataKey.json, Field.protectedData.json] ∧
    (struct_bearerAccessToken.filter (·.omitempty)).map (·.json) = [Field.aud.json] ∧
    (struct_openIDConnectIDToken.filter (·.omitempty)).map (·.json) = [Field.authTime.json, Field.nonce.json] := by
  decide

/-! ### the model's value test *is* the regenerated comparison table, interpreted -/

/-- meaning of one comparison of the `jwt.go` value tests; anything not understood counts as "rejects" -/
def evalAuthCmp (d : Deployment) (now : Clock) (want : Str) (w : Wire) : Cmp → Bool
  | ⟨.issuer, .ne, .issuer⟩ => gStr w .iss != d.issuer
  | ⟨.tokenType, .ne, .param _⟩ => gStr w .tokenType != want
  | ⟨.tokenType, .ne, .lit s⟩ => gStr w .tokenType != s
  | ⟨.audienceLen, .lt, .int n⟩ => decide (((gStrs w .aud).length : Int) < n)
  | ⟨.audience0, .ne, .issuer⟩ => (gStrs w .aud).head? != some d.issuer
  | ⟨.notBefore, .gt, .nowUnix⟩ => decide (gInt w .nbf > now.sec)
  | _ => true

/-- **Table = model.** `authValuesBad` (used by the session, CLI, upgrade and storage consumers) is
exactly the disjunction of the comparisons extracted from `getAuthInfoFromJWT`,
`updateAuthJWTWithNewAuthLevel` and `getStorageDataFromStorageStringDataJWT`. The upgrade consumer's last
comparison (the cookie's subject against the user the request was authenticated as, added by the repair of
the certificate-plus-foreign-cookie defect) is not a test of the token but of whose session is raised: it is
modelled and proved under C05 (`KM.SessionCert`, `c05_cert_*`); here the caller is the token's own subject. -/
theorem c04_table_model (d : Deployment) (now : Clock) (want : Str) (w : Wire) :
    authValuesBad d now want w = cmps_getAuthInfoFromJWT.any (evalAuthCmp d now want w) ∧
    authValuesBad d now sessionType w =
      cmps_updateAuthJWTWithNewAuthLevel.dropLast.any (evalAuthCmp d now sessionType w) ∧
    authValuesBad d now storageType w =
      cmps_getStorageDataFromStorageStringDataJWT.any (evalAuthCmp d now storageType w) := by
  have h1 := c04_sites.2.2.2.2.2.1
  have h2 := c04_sites.2.2.2.2.2.2.1
  have h3 := c04_sites.2.2.2.2.2.2.2.1
  rw [h1, h2, h3]
  have hl : ∀ l : List Str, decide ((l.length : Int) < 1) = decide (l = []) := by
    intro l
    cases l with
    | nil => simp
    | cons a as =>
      simp
      omega
  simp [expectAuthValues, evalAuthCmp, authValuesBad, Bool.or_assoc, hl, List.dropLast]

/-! ### soundness: whatever a consumer honours satisfies the property's predicate -/

theorem want_session : want_getAuthInfoFromAuthJWT = sessionType := by decide
theorem want_cliV : want_VerifyAuthTokenHandler = cliType := by decide
theorem want_cliS : want_SendAuthDocumentHandler = cliType := by decide

/-- the shape shared by the three `authInfoJWT`/storage value tests -/
theorem auth_core {d : Deployment} {now : Clock} {want : Str} {a : Artefact}
    (hv : verifies d a = true) (hb : authValuesBad d now want a.claims = false) :
    signedByDeployment d a = true ∧ gStr a.claims .tokenType = want ∧ gInt a.claims .nbf ≤ now.sec ∧
    namesThisServer d a.claims = true := by
  obtain ⟨h1, h2, h3, h4⟩ := authValues_ok hb
  refine ⟨verifies_signed hv, h2, h4, ?_⟩
  have hm := head_mem_contains h3
  simp only [List.contains_iff_mem] at hm
  simp [namesThisServer, h1, hm]

/-- **Soundness.** For every consumer, context and artefact (any claims object, any header
algorithm, any signature): if the consumer honours the artefact then it was signed by one of the
deployment's keys under that key's algorithm, says it is of the kind the consumer is for, is inside
its validity window, names this server as issuer and audience (session, CLI, storage) and is bound
to the request (storage: user and type looked up; code: the authenticated client; CLI hand-off: the
logged-in user). -/
theorem c04_sound (c : Consumer) (x : Ctx) (a : Artefact) (hs : Sane x) (h : accepts c x a = true) :
    honourable c x a = true := by
  have hc := hs.clock
  cases c with
  | session =>
    obtain ⟨info, hi⟩ := isOk_iff.mp h
    obtain ⟨hg, he, _⟩ := acceptSession_ok hi
    obtain ⟨hv, _, hb, rfl⟩ := getAuthInfo_ok hg
    obtain ⟨k1, k2, k3, k4⟩ := auth_core hv hb
    have := not_expired_ge (gInt_range _ _) hc he
    simp [honourable, Consumer.purpose, hasMarker, inWindow, k1, k2, k3, k4, want_session, this]
  | upgrade =>
    obtain ⟨cl, hi⟩ := isOk_iff.mp h
    obtain ⟨hv, _, hb, _⟩ := acceptUpgrade_ok hi
    obtain ⟨k1, k2, k3, k4⟩ := auth_core hv hb
    simp [honourable, Consumer.purpose, hasMarker, k1, k2, k3, k4]
  | cliVerify =>
    obtain ⟨info, hi⟩ := isOk_iff.mp h
    obtain ⟨hg, he⟩ := acceptCliVerify_ok hi
    obtain ⟨hv, _, hb, rfl⟩ := getAuthInfo_ok hg
    obtain ⟨k1, k2, k3, k4⟩ := auth_core hv hb
    have := not_expired_ge (gInt_range _ _) hc he
    simp [honourable, Consumer.purpose, hasMarker, inWindow, k1, k2, k3, k4, want_cliV, this]
  | cliSend =>
    obtain ⟨info, hi⟩ := isOk_iff.mp h
    obtain ⟨hg, hu, he⟩ := acceptCliSend_ok hi
    obtain ⟨hv, _, hb, rfl⟩ := getAuthInfo_ok hg
    obtain ⟨k1, k2, k3, k4⟩ := auth_core hv hb
    have := not_expired_ge (gInt_range _ _) hc he
    simp at hu
    simp [honourable, Consumer.purpose, hasMarker, inWindow, k1, k2, k3, k4, want_cliS, this, hu]
  | storage =>
    obtain ⟨data, hi⟩ := isOk_iff.mp h
    obtain ⟨_, hsv, h1, h2, h3, _⟩ := acceptStorage_ok hi
    obtain ⟨hv, _, hb⟩ := storageVerify_ok hsv
    obtain ⟨k1, k2, k3, k4⟩ := auth_core hv hb
    simp at h1 h2 h3 k1 k2 k3 k4
    simp [honourable, Consumer.purpose, hasMarker, inWindow, k1, k2, k3, k4, h1, h2, h3]
  | code =>
    obtain ⟨w, hi⟩ := isOk_iff.mp h
    obtain ⟨hv, _, _, hcc, _⟩ := acceptCode_ok hi
    obtain ⟨h1, h2, _, h4⟩ := codeChecks_ok hcc
    simp [honourable, Consumer.purpose, hasMarker, inWindow, verifies_signed hv, h1, h2, h4]
  | access =>
    obtain ⟨u, hi⟩ := isOk_iff.mp h
    obtain ⟨hv, _, h1, h2, _, _, _⟩ := acceptAccess_ok hi
    simp [honourable, Consumer.purpose, hasMarker, inWindow, verifies_signed hv, h1, h2]

/-- without any assumption on the environment: an honoured artefact passed signature verification
and carries the marker of the consumer's kind -/
theorem accepts_core (c : Consumer) (x : Ctx) (a : Artefact) (h : accepts c x a = true) :
    verifies x.dep a = true ∧ hasMarker c.purpose a.claims = true := by
  cases c with
  | session =>
    obtain ⟨info, hi⟩ := isOk_iff.mp h
    obtain ⟨hg, _, _⟩ := acceptSession_ok hi
    obtain ⟨hv, _, hb, _⟩ := getAuthInfo_ok hg
    exact ⟨hv, by simp [Consumer.purpose, hasMarker, (auth_core hv hb).2.1, want_session]⟩
  | upgrade =>
    obtain ⟨cl, hi⟩ := isOk_iff.mp h
    obtain ⟨hv, _, hb, _⟩ := acceptUpgrade_ok hi
    exact ⟨hv, by simp [Consumer.purpose, hasMarker, (auth_core hv hb).2.1]⟩
  | cliVerify =>
    obtain ⟨info, hi⟩ := isOk_iff.mp h
    obtain ⟨hg, _⟩ := acceptCliVerify_ok hi
    obtain ⟨hv, _, hb, _⟩ := getAuthInfo_ok hg
    exact ⟨hv, by simp [Consumer.purpose, hasMarker, (auth_core hv hb).2.1, want_cliV]⟩
  | cliSend =>
    obtain ⟨info, hi⟩ := isOk_iff.mp h
    obtain ⟨hg, _, _⟩ := acceptCliSend_ok hi
    obtain ⟨hv, _, hb, _⟩ := getAuthInfo_ok hg
    exact ⟨hv, by simp [Consumer.purpose, hasMarker, (auth_core hv hb).2.1, want_cliS]⟩
  | storage =>
    obtain ⟨data, hi⟩ := isOk_iff.mp h
    obtain ⟨_, hsv, _⟩ := acceptStorage_ok hi
    obtain ⟨hv, _, hb⟩ := storageVerify_ok hsv
    have := (auth_core hv hb).2.1
    simp at this
    exact ⟨hv, by simp [Consumer.purpose, hasMarker, this]⟩
  | code =>
    obtain ⟨w, hi⟩ := isOk_iff.mp h
    obtain ⟨hv, _, _, hcc, _⟩ := acceptCode_ok hi
    exact ⟨hv, by simp [Consumer.purpose, hasMarker, (codeChecks_ok hcc).2.2.2]⟩
  | access =>
    obtain ⟨u, hi⟩ := isOk_iff.mp h
    obtain ⟨hv, _, _, h2, _⟩ := acceptAccess_ok hi
    exact ⟨hv, by simp [Consumer.purpose, hasMarker, h2]⟩

/-! ### the producer × consumer matrix -/

/-- every claims object some producer of keymasterd can mint, for every choice of its parameters
(deployment, user, level, times, client, scope, nonce, redirect, audiences, …) -/
inductive Minted : Kind → Wire → Prop
  | session (d : Deployment) (user : Str) (level t dur : Int) : Minted .session (emitSession d user level t dur)
  | cli (d : Deployment) (user : Str) (t life : Int) : Minted .cli (emitCli d user t life)
  | storage (d : Deployment) (user : Str) (ty : Int) (data : Str) (exp t : Int) :
      Minted .storage (emitStorage d user ty data exp t)
  | code (d : Deployment) (p : CodeParams) (t : Int) : Minted .code (emitCode d p t)
  | access (d : Deployment) (c : Wire) (t : Int) : Minted .access (emitAccess d c t)
  | idToken (d : Deployment) (c : Wire) (client : Str) (t : Int) : Minted .idToken (emitId d c client t)

/-- the kind markers a minted artefact carries: its `token_type` and `type` claims as decoded -/
theorem minted_markers {k : Kind} {w : Wire} (h : Minted k w) :
    (gStr w .tokenType, gStr w .typ) =
      match k with
      | .session => (sessionType, []) | .cli => (cliType, []) | .storage => (storageType, [])
      | .code => ([], codeType) | .access => ([], accessType) | .idToken => ([], []) := by
  cases h <;> simp [emitSession, emitCli, emitAuth, emitStorage, emitCode, emitAccess, emitId, gStr, decStr]

/-- **Matrix.** An artefact minted as kind `k` — whatever the producer's parameters, whoever signed
it, under whatever algorithm — is rejected by every consumer whose purpose is another kind, in every
context. (In particular an ID token is accepted nowhere.) -/
theorem c04_matrix (k : Kind) (w : Wire) (hm : Minted k w) (c : Consumer) (hk : c.purpose ≠ k)
    (x : Ctx) (alg sigAlg : Alg) (signedBy : Option Nat) :
    accepts c x { claims := w, alg := alg, signedBy := signedBy, sigAlg := sigAlg } = false := by
  cases hacc : accepts c x { claims := w, alg := alg, signedBy := signedBy, sigAlg := sigAlg }
  · rfl
  · exfalso
    have hmk := (accepts_core c x _ hacc).2
    have hmm := minted_markers hm
    simp only at hmk
    have e1 : sessionType ≠ [] := by decide
    have e2 : cliType ≠ [] := by decide
    have e3 : storageType ≠ [] := by decide
    have e4 : codeType ≠ [] := by decide
    have e5 : accessType ≠ [] := by decide
    have d12 : sessionType ≠ cliType := by decide
    have d13 : sessionType ≠ storageType := by decide
    have d23 : cliType ≠ storageType := by decide
    have d45 : codeType ≠ accessType := by decide
    cases k <;> cases c <;>
      simp_all [Consumer.purpose, hasMarker, Ne.symm d12, Ne.symm d13, Ne.symm d23, Ne.symm d45]

/-! ### keys and algorithms -/

/-- **Key.** If no trusted key made the signature under the scheme the header names and that is
the key's own algorithm, every consumer rejects, whatever the claims say. -/
theorem c04_key (c : Consumer) (x : Ctx) (a : Artefact) (h : signedByDeployment x.dep a = false) :
    accepts c x a = false := by
  cases hacc : accepts c x a
  · rfl
  · have := verifies_signed (accepts_core c x a hacc).1
    rw [this] at h; cases h

theorem signed_false_iff {d : Deployment} {a : Artefact} :
    signedByDeployment d a = false ↔
      ∀ k ∈ d.trusted, ¬(a.signedBy = some k.id ∧ algOf k.ty = some a.alg ∧ a.sigAlg = a.alg) := by
  simp [signedByDeployment, and_assoc]

/-- re-signing with a key that is not one of the deployment's -/
theorem c04_key_foreign (c : Consumer) (x : Ctx) (a : Artefact)
    (h : ∀ k ∈ x.dep.trusted, a.signedBy ≠ some k.id) : accepts c x a = false := by
  apply c04_key
  rw [signed_false_iff]
  intro k hk hh
  exact h k hk hh.1

/-- algorithm substitution: `none`, HMAC (e.g. keyed with the public key) and every algorithm keymaster
derives for no key type are rejected even if a trusted key "made" the signature -/
theorem c04_key_alg (c : Consumer) (x : Ctx) (a : Artefact)
    (h : a.alg = .none ∨ a.alg = .HS256 ∨ a.alg = .RS384 ∨ a.alg = .RS512 ∨ a.alg = .PS256 ∨ a.alg = .other) :
    accepts c x a = false := by
  apply c04_key
  rw [signed_false_iff]
  intro k _ hh
  have h2 := hh.2.1
  rcases h with h | h | h | h | h | h <;> rw [h] at h2 <;> cases hk : k.ty <;> rw [hk] at h2 <;> cases h2

/-- key-type confusion (RS↔ES …): a header algorithm that is not the signing key's own, or a
signature produced under another scheme than the header says -/
theorem c04_key_confusion (c : Consumer) (x : Ctx) (a : Artefact)
    (h : a.sigAlg ≠ a.alg ∨ ∀ k ∈ x.dep.trusted, a.signedBy = some k.id → algOf k.ty ≠ some a.alg) :
    accepts c x a = false := by
  apply c04_key
  rw [signed_false_iff]
  intro k hk hh
  rcases h with h | h
  · exact h hh.2.2
  · exact h k hk hh.1 hh.2.1

/-- the header algorithm must be on the list derived from the trusted keys -/
theorem c04_key_allowed (c : Consumer) (x : Ctx) (a : Artefact) (l : List Alg)
    (hl : allowed x.dep = some l) (h : a.alg ∉ l) : accepts c x a = false := by
  apply c04_key
  rw [signed_false_iff]
  intro k hk hh
  exact h ((allowed_mem hl a.alg).mpr ⟨k, hk, hh.2.1⟩)

/-! ### validity window, issuer and audience -/

/-- **Window.** Past its signed `exp` an artefact is rejected by every consumer that grants
anything on it, and before its signed `nbf` by every consumer of the kinds that carry one — with
exactly the claims the Go code reads (`exp`/`nbf` as decoded into the consumer's struct).
`upgrade` does not read `exp` (see `c04_upgrade_keeps_window_and_user`). -/
theorem c04_window (c : Consumer) (x : Ctx) (a : Artefact) (hs : Sane x) :
    (c ≠ .upgrade → gInt a.claims .exp < x.now.sec → accepts c x a = false) ∧
    ((c.purpose = .session ∨ c.purpose = .cli ∨ c.purpose = .storage) →
      x.now.sec < gInt a.claims .nbf → accepts c x a = false) := by
  constructor
  · intro hc hlt
    cases hacc : accepts c x a
    · rfl
    · have hh := c04_sound c x a hs hacc
      cases c <;> simp_all [honourable, Consumer.purpose, inWindow] <;> omega
  · intro hc hlt
    cases hacc : accepts c x a
    · rfl
    · have hh := c04_sound c x a hs hacc
      cases c <;> simp_all [honourable, Consumer.purpose, inWindow] <;> omega

/-- **Issuer and audience.** Session cookies, CLI tokens and storage records are honoured only
when `iss` is this server and the first audience is this server. -/
theorem c04_iss_aud (c : Consumer) (x : Ctx) (a : Artefact)
    (hp : c.purpose = .session ∨ c.purpose = .cli ∨ c.purpose = .storage) (h : accepts c x a = true) :
    gStr a.claims .iss = x.dep.issuer ∧ (gStrs a.claims .aud).head? = some x.dep.issuer := by
  cases c with
  | session =>
    obtain ⟨info, hi⟩ := isOk_iff.mp h
    obtain ⟨hg, _, _⟩ := acceptSession_ok hi
    obtain ⟨_, _, hb, _⟩ := getAuthInfo_ok hg
    exact ⟨(authValues_ok hb).1, (authValues_ok hb).2.2.1⟩
  | upgrade =>
    obtain ⟨cl, hi⟩ := isOk_iff.mp h
    obtain ⟨_, _, hb, _⟩ := acceptUpgrade_ok hi
    exact ⟨(authValues_ok hb).1, (authValues_ok hb).2.2.1⟩
  | cliVerify =>
    obtain ⟨info, hi⟩ := isOk_iff.mp h
    obtain ⟨hg, _⟩ := acceptCliVerify_ok hi
    obtain ⟨_, _, hb, _⟩ := getAuthInfo_ok hg
    exact ⟨(authValues_ok hb).1, (authValues_ok hb).2.2.1⟩
  | cliSend =>
    obtain ⟨info, hi⟩ := isOk_iff.mp h
    obtain ⟨hg, _, _⟩ := acceptCliSend_ok hi
    obtain ⟨_, _, hb, _⟩ := getAuthInfo_ok hg
    exact ⟨(authValues_ok hb).1, (authValues_ok hb).2.2.1⟩
  | storage =>
    obtain ⟨data, hi⟩ := isOk_iff.mp h
    obtain ⟨_, hsv, _⟩ := acceptStorage_ok hi
    obtain ⟨_, _, hb⟩ := storageVerify_ok hsv
    exact ⟨(authValues_ok hb).1, (authValues_ok hb).2.2.1⟩
  | code => simp [Consumer.purpose] at hp
  | access => simp [Consumer.purpose] at hp

/-- the access-token consumer's own issuer / audience rule -/
theorem c04_access_iss_aud (x : Ctx) (a : Artefact) (h : accepts .access x a = true) :
    gStr a.claims .iss = x.dep.issuer ∧
    (gStrs a.claims .aud = [] ∨ (gStrs a.claims .aud).contains x.dep.userinfoURL = true) := by
  obtain ⟨u, hi⟩ := isOk_iff.mp h
  obtain ⟨_, _, _, _, h5, h6, _⟩ := acceptAccess_ok hi
  exact ⟨h5, h6⟩

/-! ### single-claim mutations -/

/-- the JSON keys the consumer's claims struct has — all other keys are invisible to it -/
def Consumer.reads : Consumer → List Field
  | .session | .upgrade | .cliVerify | .cliSend => [.iss, .sub, .aud, .exp, .nbf, .iat, .tokenType, .authType]
  | .storage => [.iss, .sub, .aud, .nbf, .exp, .iat, .tokenType, .dataType, .data]
  | .code => [.iss, .sub, .iat, .exp, .aud, .username, .authLevel, .authExp, .nonce, .redirectUri,
              .accessAudience, .scope, .typ, .jti, .protectedDataKey, .protectedData]
  | .access => [.iss, .aud, .username, .scope, .exp, .iat, .typ]

/-- the claims a consumer compares with something fixed by the deployment or the request, as it decodes them -/
structure Pinned where
  iss : Str := []
  kind : Str := []
  aud0 : Option Str := none
  audOK : Bool := true
  sub : Str := []
  dataType : Int := 0
  redirect : Str := []
deriving DecidableEq, Repr

def pinned (c : Consumer) (d : Deployment) (w : Wire) : Pinned :=
  match c with
  | .session | .upgrade | .cliVerify =>
    { iss := gStr w .iss, kind := gStr w .tokenType, aud0 := (gStrs w .aud).head? }
  | .cliSend =>
    { iss := gStr w .iss, kind := gStr w .tokenType, aud0 := (gStrs w .aud).head?, sub := gStr w .sub }
  | .storage =>
    { iss := gStr w .iss, kind := gStr w .tokenType, aud0 := (gStrs w .aud).head?, sub := gStr w .sub,
      dataType := gInt w .dataType }
  | .code => { kind := gStr w .typ, sub := gStr w .sub, redirect := gStr w .redirectUri }
  | .access =>
    { iss := gStr w .iss, kind := gStr w .typ,
      audOK := (gStrs w .aud).isEmpty || (gStrs w .aud).contains d.userinfoURL }

/-- the one value of the pinned claims a consumer honours in a given context -/
def pinnedGood (c : Consumer) (x : Ctx) : Pinned :=
  match c with
  | .session | .upgrade => { iss := x.dep.issuer, kind := sessionType, aud0 := some x.dep.issuer }
  | .cliVerify => { iss := x.dep.issuer, kind := cliType, aud0 := some x.dep.issuer }
  | .cliSend => { iss := x.dep.issuer, kind := cliType, aud0 := some x.dep.issuer, sub := x.authUser }
  | .storage => { iss := x.dep.issuer, kind := storageType, aud0 := some x.dep.issuer, sub := x.lookupUser,
                  dataType := x.lookupType }
  | .code => { kind := codeType, sub := x.clientID, redirect := x.redirect }
  | .access => { iss := x.dep.issuer, kind := accessType }

/-- an honoured artefact carries exactly the one good value of every pinned claim -/
theorem pinned_of_accepts (c : Consumer) (x : Ctx) (a : Artefact) (h : accepts c x a = true) :
    pinned c x.dep a.claims = pinnedGood c x := by
  cases c with
  | session =>
    obtain ⟨info, hi⟩ := isOk_iff.mp h
    obtain ⟨hg, _, _⟩ := acceptSession_ok hi
    obtain ⟨_, _, hb, _⟩ := getAuthInfo_ok hg
    obtain ⟨h1, h2, h3, _⟩ := authValues_ok hb
    simp [pinned, pinnedGood, h1, h2, h3, want_session]
  | upgrade =>
    obtain ⟨cl, hi⟩ := isOk_iff.mp h
    obtain ⟨_, _, hb, _⟩ := acceptUpgrade_ok hi
    obtain ⟨h1, h2, h3, _⟩ := authValues_ok hb
    simp [pinned, pinnedGood, h1, h2, h3]
  | cliVerify =>
    obtain ⟨info, hi⟩ := isOk_iff.mp h
    obtain ⟨hg, _⟩ := acceptCliVerify_ok hi
    obtain ⟨_, _, hb, _⟩ := getAuthInfo_ok hg
    obtain ⟨h1, h2, h3, _⟩ := authValues_ok hb
    simp [pinned, pinnedGood, h1, h2, h3, want_cliV]
  | cliSend =>
    obtain ⟨info, hi⟩ := isOk_iff.mp h
    obtain ⟨hg, hu, _⟩ := acceptCliSend_ok hi
    obtain ⟨_, _, hb, rfl⟩ := getAuthInfo_ok hg
    obtain ⟨h1, h2, h3, _⟩ := authValues_ok hb
    simp at hu
    simp [pinned, pinnedGood, h1, h2, h3, want_cliS, hu]
  | storage =>
    obtain ⟨data, hi⟩ := isOk_iff.mp h
    obtain ⟨_, hsv, k1, k2, _⟩ := acceptStorage_ok hi
    obtain ⟨_, _, hb⟩ := storageVerify_ok hsv
    obtain ⟨h1, h2, h3, _⟩ := authValues_ok hb
    simp at h1 h2 h3 k1 k2
    simp [pinned, pinnedGood, h1, h2, h3, k1, k2]
  | code =>
    obtain ⟨w, hi⟩ := isOk_iff.mp h
    obtain ⟨_, _, _, hcc, _⟩ := acceptCode_ok hi
    obtain ⟨h1, _, h3, h4⟩ := codeChecks_ok hcc
    simp [pinned, pinnedGood, h1, h3, h4]
  | access =>
    obtain ⟨u, hi⟩ := isOk_iff.mp h
    obtain ⟨_, _, _, h2, h3, h4, _⟩ := acceptAccess_ok hi
    rcases h4 with h4 | h4
    · simp [pinned, pinnedGood, h2, h3, h4]
    · simp only [List.contains_iff_mem] at h4
      simp [pinned, pinnedGood, h2, h3, h4]

/-- the consumer's verdict depends on the claims object only through the keys of its own struct -/
theorem accepts_congr (c : Consumer) (x : Ctx) (a : Artefact) (w' : Wire)
    (h : ∀ g ∈ c.reads, w' g = a.claims g) :
    accepts c x { a with claims := w' } = accepts c x a := by
  cases c with
  | session =>
    simp only [Consumer.reads, List.forall_mem_cons, List.not_mem_nil, false_imp_iff, implies_true, and_true] at h
    obtain ⟨h1, h2, h3, h4, h5, h6, h7, h8⟩ := h
    simp only [accepts, acceptSession, getAuthInfo_congr _ _ _ a w' h1 h2 h3 h4 h5 h6 h7 h8]
  | upgrade =>
    simp only [Consumer.reads, List.forall_mem_cons, List.not_mem_nil, false_imp_iff, implies_true, and_true] at h
    obtain ⟨h1, h2, h3, h4, h5, h6, h7, h8⟩ := h
    simp only [accepts, acceptUpgrade_congr _ _ _ a w' h1 h2 h3 h4 h5 h6 h7 h8]
  | cliVerify =>
    simp only [Consumer.reads, List.forall_mem_cons, List.not_mem_nil, false_imp_iff, implies_true, and_true] at h
    obtain ⟨h1, h2, h3, h4, h5, h6, h7, h8⟩ := h
    simp only [accepts, acceptCliVerify, getAuthInfo_congr _ _ _ a w' h1 h2 h3 h4 h5 h6 h7 h8]
  | cliSend =>
    simp only [Consumer.reads, List.forall_mem_cons, List.not_mem_nil, false_imp_iff, implies_true, and_true] at h
    obtain ⟨h1, h2, h3, h4, h5, h6, h7, h8⟩ := h
    simp only [accepts, acceptCliSend, getAuthInfo_congr _ _ _ a w' h1 h2 h3 h4 h5 h6 h7 h8]
  | storage =>
    simp only [Consumer.reads, List.forall_mem_cons, List.not_mem_nil, false_imp_iff, implies_true, and_true] at h
    obtain ⟨h1, h2, h3, h4, h5, h6, h7, h8, h9⟩ := h
    simp only [accepts]
    exact congrArg isOk (acceptStorage_congr x.dep x.now
      { user := x.colUser, ty := x.colType, expCol := x.colExp, jws := a } x.lookupUser x.lookupType w'
      h1 h2 h3 h4 h5 h6 h7 h8 h9)
  | code =>
    simp only [accepts]
    exact acceptCode_congr _ _ _ _ _ a w' h
  | access =>
    simp only [Consumer.reads, List.forall_mem_cons, List.not_mem_nil, false_imp_iff, implies_true, and_true] at h
    obtain ⟨h1, h2, h3, h4, h5, h6, h7⟩ := h
    simp only [accepts, acceptAccess_congr _ _ a w' h1 h2 h3 h4 h5 h6 h7]

/-- **Single claim.** Take an artefact a consumer honours and change the value of one JSON key
(to anything, including removing it), keeping the signature valid (i.e. re-signed by the real key):
* a key the consumer's struct does not have changes nothing;
* if the mutated artefact is still honoured, every pinned claim (issuer, kind, first audience / audience
  rule, and where applicable subject, data type, redirect URI) decodes to the same value as before —
  so a mutation that moves one of them is rejected. (`nbf`/`exp` mutations: `c04_window`.) -/
theorem c04_single_claim (c : Consumer) (x : Ctx) (a : Artefact) (f : Field) (v : Option Val)
    (h : accepts c x a = true) :
    (f ∉ c.reads → accepts c x { a with claims := a.claims.set f v } = true) ∧
    (accepts c x { a with claims := a.claims.set f v } = true →
      pinned c x.dep (a.claims.set f v) = pinned c x.dep a.claims) := by
  constructor
  · intro hf
    rw [accepts_congr c x a _ (fun g hg => set_other a.claims v (fun e => hf (by rw [← e]; exact hg)))]
    exact h
  · intro h'
    have := pinned_of_accepts c x _ h'
    simp only at this
    rw [this, pinned_of_accepts c x a h]

/-! ### side effects -/

/-- **No effect.** In every token-consuming handler (as modelled: `checkAuth`-guarded handlers that
hand out tokens, `updateAuthCookieAuthlevel`, the two CLI-token handlers, `GetSigned`, the token and
userinfo endpoints) a rejected artefact leaves nothing behind: no `Set-Cookie`, no token handed out,
no protected value disclosed. (Nothing in these paths writes server-side state at all: sessions and
tokens are stateless.) -/
theorem c04_no_effect (d : Deployment) (now : Clock) (e : Rej) :
    (∀ req cookie mint, (hWithSession d now req cookie mint).1 = .error e →
        (hWithSession d now req cookie mint).2 = Effects.nothing) ∧
    (∀ lvl cookie, (hUpgrade d now lvl cookie).1 = .error e → (hUpgrade d now lvl cookie).2 = Effects.nothing) ∧
    (∀ tok, (hCliVerify d now tok).2 = Effects.nothing) ∧
    (∀ req cookie tok, (hCliSend d now req cookie tok).1 = .error e →
        (hCliSend d now req cookie tok).2 = Effects.nothing) ∧
    (∀ r u ty, (hGetSigned d now r u ty).1 = .error e → (hGetSigned d now r u ty).2 = Effects.nothing) ∧
    (∀ cl rd ok code, (hToken d now cl rd ok code).1 = .error e →
        (hToken d now cl rd ok code).2 = Effects.nothing) ∧
    (∀ tok, (hUserinfo d now tok).1 = .error e → (hUserinfo d now tok).2 = Effects.nothing) := by
  refine ⟨?_, ?_, ?_, ?_, ?_, ?_, ?_⟩
  · intro req cookie mint h
    unfold hWithSession at h ⊢
    split <;> try rfl
    split <;> try rfl
    rename_i hh; simp [hh] at h
  · intro lvl cookie h
    unfold hUpgrade at h ⊢
    split <;> try rfl
    split <;> try rfl
    rename_i hh; simp [hh] at h
  · intro tok
    unfold hCliVerify
    split <;> rfl
  · intro req cookie tok h
    unfold hCliSend at h ⊢
    split <;> try rfl
    split <;> try rfl
    split <;> try rfl
    rename_i h1 _ _ h2 _ _ h3; simp [h2, h3] at h
  · intro r u ty h
    unfold hGetSigned at h ⊢
    split <;> try rfl
    rename_i hh; simp [hh] at h
  · intro cl rd ok code h
    unfold hToken at h ⊢
    split <;> try rfl
    rename_i hh; simp [hh] at h
  · intro tok h
    unfold hUserinfo at h ⊢
    split <;> try rfl
    rename_i hh; simp [hh] at h

/-- and the handlers decide exactly as the consumers do -/
theorem handlers_decide_as_consumers (d : Deployment) (now : Clock) :
    (∀ lvl a, ((hUpgrade d now lvl (some a)).1 = .ok ()) ↔ isOk (acceptUpgrade d now lvl a) = true) ∧
    (∀ r u ty, ((hGetSigned d now r u ty).1 = .ok ()) ↔ isOk (acceptStorage d now r u ty) = true) ∧
    (∀ cl rd ok a, ((hToken d now cl rd ok a).1 = .ok ()) ↔ isOk (acceptCode d now cl rd ok a) = true) ∧
    (∀ a, ((hUserinfo d now a).1 = .ok ()) ↔ isOk (acceptAccess d now a) = true) := by
  refine ⟨?_, ?_, ?_, ?_⟩
  · intro lvl a; unfold hUpgrade; simp only; cases acceptUpgrade d now lvl a <;> simp [isOk]
  · intro r u ty; unfold hGetSigned; cases acceptStorage d now r u ty <;> simp [isOk]
  · intro cl rd ok a; unfold hToken; cases acceptCode d now cl rd ok a <;> simp [isOk]
  · intro a; unfold hUserinfo; cases acceptAccess d now a <;> simp [isOk]

/-! ### the two sanctioned re-issues keep what the input token said -/

theorem gInt_emitAuth_exp (c : AuthClaims) (h : inI64 c.exp = true) : gInt (emitAuth c) .exp = c.exp := by
  unfold gInt emitAuth optInt
  by_cases h0 : c.exp = 0
  · simp [h0, decInt]
  · simp [h0, decInt, h]

theorem gStr_emitAuth_sub (c : AuthClaims) : gStr (emitAuth c) .sub = c.sub := by
  unfold gStr emitAuth optStr
  by_cases h0 : c.sub = []
  · simp [h0, decStr]
  · simp [h0, decStr]

/-- **Upgrade keeps window and user.** The cookie `updateAuthJWTWithNewAuthLevel` re-signs (with
whichever trusted key, at whatever later time it is presented, for whatever mask) is honoured by
`checkAuth` only while the *original* cookie's signed `exp` has not passed, and for the original
cookie's user: upgrading never extends a session nor changes whose it is. -/
theorem c04_upgrade_keeps_window_and_user (d : Deployment) (now now' : Clock) (lvl : Int) (a : Artefact)
    (c : AuthClaims) (h : acceptUpgrade d now lvl a = .ok c)
    (alg sigAlg : Alg) (signedBy : Option Nat) (req : Nat) (info : AuthInfo)
    (h' : acceptSession d now' req { claims := emitAuth c, alg := alg, signedBy := signedBy, sigAlg := sigAlg } = .ok info) :
    expiredAt (gInt a.claims .exp) now' = false ∧ info.username = gStr a.claims .sub ∧ info.authType = lvl := by
  obtain ⟨_, _, _, rfl⟩ := acceptUpgrade_ok h
  obtain ⟨hg, he, _⟩ := acceptSession_ok h'
  obtain ⟨_, ht, _, rfl⟩ := getAuthInfo_ok hg
  simp only at he ht ⊢
  rw [gInt_emitAuth_exp _ (by simp [decodeAuth, gInt_range])] at he
  rw [gStr_emitAuth_sub]
  refine ⟨by simpa [decodeAuth] using he, by simp [decodeAuth], ?_⟩
  have hl : inI64 lvl = true := by
    simp only [typedAuth, okInt, emitAuth, decInt, Bool.and_eq_true] at ht
    have := ht.2
    split at this
    · assumption
    · cases this
  simp [emitAuth, gInt, decInt, hl]

theorem remaining_le {e : Int} {now : Clock} (hr : inI64 e = true) (hn : 0 ≤ now.sec)
    (hns : now.nsec < 1000000000) (h : expiredAt e now = false) :
    0 ≤ remainingSecs e now ∧ now.sec + remainingSecs e now ≤ e := by
  have hb := inI64_bounds hr
  simp only [expiredAt, Bool.or_eq_false_iff, Bool.and_eq_false_iff, decide_eq_false_iff_not, Int.not_lt] at h
  obtain ⟨h1, h2⟩ := h
  unfold remainingSecs
  unfold unixInternal wrap64 at h1 h2 ⊢
  omega

/-- **CLI hand-off.** The one sanctioned change of kind: `SendAuthDocumentHandler` turns an honoured
CLI token into a session cookie for the CLI. That cookie names the token's user (who is the
logged-in user), carries only the `WebauthForCLI` level, and never outlives the token. -/
theorem c04_cli_session_bounded (d : Deployment) (now : Clock) (u : Str) (tok : Artefact) (info : AuthInfo)
    (hn : 0 ≤ now.sec) (hns : now.nsec < 1000000000) (h : acceptCliSend d now u tok = .ok info) :
    info.username = u ∧ info.username = gStr tok.claims .sub ∧
    gStr (emitSession d info.username KM.Gen.authTypeWebauthForCLI now.sec (remainingSecs info.expiresAt now)) .sub
      = gStr tok.claims .sub ∧
    gInt (emitSession d info.username KM.Gen.authTypeWebauthForCLI now.sec (remainingSecs info.expiresAt now)) .exp
      ≤ gInt tok.claims .exp := by
  obtain ⟨hg, hu, he⟩ := acceptCliSend_ok h
  obtain ⟨_, _, _, rfl⟩ := getAuthInfo_ok hg
  simp only at hu he ⊢
  have hr := remaining_le (gInt_range tok.claims .exp) hn hns he
  have hb := inI64_bounds (gInt_range tok.claims .exp)
  refine ⟨hu, by simp, ?_, ?_⟩
  · unfold emitSession; rw [gStr_emitAuth_sub]
  · unfold emitSession
    rw [gInt_emitAuth_exp _ (by simp only [inI64, Bool.and_eq_true, decide_eq_true_eq]; omega)]
    exact hr.2

/-! ### round 3: the loader-built deployment, lookups as a sequence -/

/-- **Configuration trust.** In a deployment whose trusted keys are what the loader makes of the
configuration — the listed peer keys, the optional Ed25519 signer, the signer — an artefact signed by
any other key that exists around the configuration (a client CA of `client_ca_filename`, the TLS key, …)
and is not itself listed is rejected by every consumer, whatever it claims. -/
theorem c04_config_trust (kc : KeyConfig) (x : Ctx) (hx : x.dep.trusted = kc.trusted) (c : Consumer) (a : Artefact)
    (k : Key) (_hk : k ∈ kc.clientCAs ++ kc.others) (hs : a.signedBy = some k.id)
    (hn : ∀ t ∈ kc.trusted, t.id ≠ k.id) : accepts c x a = false := by
  apply c04_key_foreign
  intro t ht
  rw [hx] at ht
  rw [hs]
  intro e
  injection e with e
  exact hn t ht e.symm

/-- **Lookup sequences.** Whatever the history of earlier lookups (served by the primary or by the
local copy), every lookup of a sequence that returns data does so for a record that is, at the time of
*that* lookup, signed by the deployment, a storage record, inside its signed window, naming this
server, and bound to the user and type asked for. -/
theorem c04_storage_sequence (d : Deployment) (hd : d.issuer ≠ []) (l : List Lookup) (i : Nat) (s : Lookup)
    (hs : l[i]? = some s) (h0 : 0 ≤ s.now.sec) (data : Str) (hr : (lookups d l)[i]? = some (.ok data)) :
    ∃ r, s.row = some r ∧
      honourable .storage { dep := d, now := s.now, lookupUser := s.user, lookupType := s.ty,
                            colUser := r.user, colType := r.ty, colExp := r.expCol } r.jws = true := by
  simp only [lookups, List.getElem?_map, hs, Option.map_some, Option.some.injEq] at hr
  cases hrow : s.row with
  | none => rw [hrow] at hr; simp [acceptStorage] at hr
  | some r =>
    refine ⟨r, rfl, ?_⟩
    apply c04_sound
    · exact ⟨hd, h0⟩
    · simp only [accepts]
      rw [hrow] at hr
      have : ({ user := r.user, ty := r.ty, expCol := r.expCol, jws := r.jws } : Row) = r := rfl
      rw [this, hr]
      rfl

/-! ### round 5: requests in flight at the same time -/

/-- one request being processed: the consumer it reached, that request's own context (clock, lookup /
client / logged-in user, …) and the artefact it carries -/
structure Request where
  c : Consumer
  x : Ctx
  a : Artefact

/-- The consumers keep nothing between calls and share nothing across calls but the deployment: a batch
of requests processed at the same time — in whatever interleaving — is decided request by request. -/
def inFlight (l : List Request) : List Bool := l.map (fun r => accepts r.c r.x r.a)

/-- **Overlapping requests.** Whatever else is being processed at the same time (the same bytes at
another consumer included), every request of the batch that is honoured carries an artefact that is, for
*that* consumer and at *that* request's time, signed by the deployment, of the consumer's kind, inside its
window, naming this server and bound to the request. -/
theorem c04_overlap (l : List Request) (i : Nat) (r : Request) (hr : l[i]? = some r) (hs : Sane r.x)
    (h : (inFlight l)[i]? = some true) : honourable r.c r.x r.a = true := by
  simp only [inFlight, List.getElem?_map, hr, Option.map_some, Option.some.injEq] at h
  exact c04_sound r.c r.x r.a hs h

/-- **The same bytes at two consumers.** An artefact minted as kind `k` that is in flight at any number
of consumers at once is refused by each of them whose purpose is another kind — also while a consumer of
kind `k` is honouring the very same bytes. -/
theorem c04_overlap_same_token (k : Kind) (w : Wire) (hm : Minted k w) (alg sigAlg : Alg) (signedBy : Option Nat)
    (l : List Request) (i : Nat) (r : Request) (hr : l[i]? = some r)
    (ha : r.a = { claims := w, alg := alg, signedBy := signedBy, sigAlg := sigAlg }) (hk : r.c.purpose ≠ k) :
    (inFlight l)[i]? = some false := by
  simp only [inFlight, List.getElem?_map, hr, Option.map_some, Option.some.injEq]
  rw [ha]
  exact c04_matrix k w hm r.c hk r.x alg sigAlg signedBy

/-! ### the tree as found -/

def cxDep : Deployment := { issuer := "https://km".toList, trusted := [⟨1, .rsa⟩] }
def cxNow : Clock := { sec := 1000, nsec := 0 }
/-- a record really signed by keymaster for alice, type 1, whose signed `exp` (400) is long past -/
def cxExpired : Artefact :=
  { claims := emitStorage cxDep "alice".toList 1 "hash".toList 400 100, alg := .RS256, signedBy := some 1, sigAlg := .RS256 }
/-- a record really signed by keymaster for alice, type 2 -/
def cxType2 : Artefact :=
  { claims := emitStorage cxDep "alice".toList 2 "other".toList 5000 100, alg := .RS256, signedBy := some 1, sigAlg := .RS256 }
/-- context: the unsigned columns say (alice, 1, 9999); the lookup is for (alice, 1) -/
def cxCtx : Ctx :=
  { dep := cxDep, now := cxNow, lookupUser := "alice".toList, lookupType := 1,
    colUser := "alice".toList, colType := 1, colExp := 9999 }

/-- **As found.** `GetSigned` of the pinned tree honours a record whose signed `exp` is in the past
once the unsigned `expiration_epoch` column is raised, and a type-2 record for a type-1 lookup once
the unsigned `type` column is edited — both violate the property's predicate; the repaired consumer
rejects both. -/
theorem c04_unfixed_counterexample :
    acceptsOld .storage cxCtx cxExpired = true ∧ honourable .storage cxCtx cxExpired = false ∧
    acceptsOld .storage cxCtx cxType2 = true ∧ honourable .storage cxCtx cxType2 = false ∧
    accepts .storage cxCtx cxExpired = false ∧ accepts .storage cxCtx cxType2 = false := by
  decide

/-! ### non-vacuity: the hypotheses of the theorems are satisfiable, honest artefacts are honoured -/

example : Sane cxCtx := ⟨by decide, by decide⟩

def cxKey : Artefact → Artefact := fun a => { a with alg := .RS256, signedBy := some 1, sigAlg := .RS256 }

example : accepts .session { cxCtx with required := 2 }
    (cxKey { claims := emitSession cxDep "alice".toList 10 900 57600, alg := .none, signedBy := none, sigAlg := .none }) = true := by
  decide
example : accepts .cliVerify cxCtx
    (cxKey { claims := emitCli cxDep "alice".toList 900 3600, alg := .none, signedBy := none, sigAlg := .none }) = true := by
  decide
example : accepts .storage cxCtx
    (cxKey { claims := emitStorage cxDep "alice".toList 1 "hash".toList 5000 100, alg := .none, signedBy := none, sigAlg := .none }) = true := by
  decide
example : accepts .code { cxCtx with clientID := "clientA".toList, redirect := "https://app/cb".toList }
    (cxKey { claims := emitCode cxDep ⟨"clientA".toList, "alice".toList, "openid".toList, [], "https://app/cb".toList, [], [], [], []⟩ 900,
             alg := .none, signedBy := none, sigAlg := .none }) = true := by
  decide
example : accepts .access cxCtx
    (cxKey { claims := emitAccess cxDep
              (emitCode cxDep ⟨"clientA".toList, "alice".toList, "openid".toList, [], "https://app/cb".toList, [], [], [], []⟩ 900) 950,
             alg := .none, signedBy := none, sigAlg := .none }) = true := by
  decide
/-- an ID token presented as access token is rejected -/
example : accepts .access cxCtx
    (cxKey { claims := emitId cxDep
              (emitCode cxDep ⟨"clientA".toList, "alice".toList, "openid".toList, [], "https://app/cb".toList, [], [], [], []⟩ 900)
              "clientA".toList 950,
             alg := .none, signedBy := none, sigAlg := .none }) = false := by
  decide

/-- the same session cookie in flight at the session consumer, `VerifyAuthTokenHandler` and the session consumer
again: honoured, refused, honoured -/
example : inFlight
    (let a := cxKey { claims := emitSession cxDep "alice".toList 10 900 57600, alg := .none, signedBy := none, sigAlg := .none }
     [⟨.session, { cxCtx with required := 2 }, a⟩, ⟨.cliVerify, cxCtx, a⟩, ⟨.session, { cxCtx with required := 2 }, a⟩])
    = [true, false, true] := by
  decide

end KM.Token
