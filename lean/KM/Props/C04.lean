/-! # C04 — property theorems (stub: not built yet) -/
