import KM.Lemmas.Token
/-! # C04 — signed tokens are unforgeable and never accepted outside their purpose

Property theorems only. The model (`KM.Token`) transcribes the consumers of `cmd/keymasterd`;
`honourable` is the property's own predicate. Tables under `KM.Gen.C04` are regenerated from the
source tree on every run. -/
namespace KM.Token
open KM.Gen.C04

/-- the two facts about the environment the theorems need: the issuer URL is not empty (it always
starts with `https://`) and the clock reads a time after 1970 -/
structure Sane (x : Ctx) : Prop where
  issuer : x.dep.issuer ≠ []
  clock : 0 ≤ x.now.sec

/-! ### the regenerated tables are the ones the model was transcribed from -/

/-- the comparisons the model's consumers make, as a table -/
def expectAuthValues (want : Rhs) : List Cmp :=
  [⟨.issuer, .ne, .issuer⟩, ⟨.tokenType, .ne, want⟩, ⟨.audienceLen, .lt, .int 1⟩,
   ⟨.audience0, .ne, .issuer⟩, ⟨.notBefore, .gt, .nowUnix⟩]

def guarded : UpgradeGuard → Bool
  | .checkAuthBefore | .commonTOTPBefore => true
  | _ => false

/-- **Sites.** What the source says today is what the model assumes:
the five kind literals (pairwise distinct, none empty), the kind strings the callers of
`getAuthInfoFromJWT` demand, the comparison set of every consumer (a dropped or altered comparison
changes the table), the JSON key / Go type of every claims-struct field the decoders read, what
`getAuthInfoFromJWT` copies into its result, and that every `updateAuthCookieAuthlevel` call site
sits behind `checkAuth`. -/
theorem c04_sites :
    [sessionType, cliType, storageType, codeType, accessType].Pairwise (· ≠ ·) ∧
    [sessionType, cliType, storageType, codeType, accessType].all (· ≠ []) = true ∧
    want_getAuthInfoFromAuthJWT = sessionType ∧ want_VerifyAuthTokenHandler = cliType ∧
    want_SendAuthDocumentHandler = cliType ∧
    cmps_getAuthInfoFromJWT = expectAuthValues (.param "tokenType".toList) ∧
    cmps_updateAuthJWTWithNewAuthLevel = expectAuthValues (.lit sessionType) ∧
    cmps_getStorageDataFromStorageStringDataJWT = expectAuthValues (.lit storageType) ∧
    cmps_GetSigned = [⟨.subject, .ne, .param "username".toList⟩, ⟨.dataType, .ne, .param "dataType".toList⟩,
                      ⟨.expiration, .lt, .nowUnix⟩] ∧
    cmps_checkAuth = [⟨.expiresAt, .beforeNow, .none⟩, ⟨.authType, .maskZero, .param "requiredAuthType".toList⟩] ∧
    cmps_VerifyAuthTokenHandler = [⟨.expiresAt, .untilNeg, .none⟩] ∧
    cmps_SendAuthDocumentHandler = [⟨.authUsername, .ne, .field "authData.Username".toList⟩, ⟨.expiresAt, .untilNeg, .none⟩] ∧
    cmps_idpOpenIDCTokenHandler = [⟨.subject, .ne, .loc "clientID".toList⟩, ⟨.expiration, .lt, .nowUnix⟩,
                                   ⟨.redirectURI, .ne, .form "redirect_uri".toList⟩, ⟨.typ, .ne, .lit codeType⟩] ∧
    cmps_idpOpenIDCUserinfoHandler = [⟨.expiration, .lt, .nowUnix⟩, ⟨.typ, .ne, .lit accessType⟩,
                                      ⟨.issuer, .ne, .issuer⟩, ⟨.audienceHas, .missingIfNonEmpty, .userinfoURL⟩] ∧
    authInfoAssignments = [("AuthType".toList, "AuthType".toList, "id".toList),
                           ("ExpiresAt".toList, "Expiration".toList, "timeUnix".toList),
                           ("IssuedAt".toList, "IssuedAt".toList, "timeUnix".toList),
                           ("Username".toList, "Subject".toList, "id".toList)] ∧
    upgradeCallers.all (fun s => guarded s.2 || s.1 == "internalTOTPAuthHandler") = true ∧
    internalTOTPCallers.all (fun s => guarded s.2) = true ∧ internalTOTPCallers ≠ [] := by
  decide

/-- JSON key and Go type of the struct fields each decoder of the model reads -/
def layout (l : List StructField) : List (Str × GoTy) := l.map (fun f => (f.json, f.ty))

/-- **Sites (layout).** The claims structs carry exactly the JSON keys / types the model's decoders
(`typedAuth`, `typedStorage`, `typedCode`, `typedAccess`) and `Field.json` assume, and the fields
written with `omitempty` are the ones `emitAuth` / `emitStorage` / `emitCode` / `emitAccess` omit. -/
theorem c04_sites_layout :
    layout struct_authInfoJWT =
      [(Field.iss.json, .str), (Field.sub.json, .str), (Field.aud.json, .strs), (Field.exp.json, .int),
       (Field.nbf.json, .int), (Field.iat.json, .int), (Field.tokenType.json, .str), (Field.authType.json, .int)] ∧
    layout struct_storageStringDataJWT =
      [(Field.iss.json, .str), (Field.sub.json, .str), (Field.aud.json, .strs), (Field.nbf.json, .int),
       (Field.exp.json, .int), (Field.iat.json, .int), (Field.tokenType.json, .str), (Field.dataType.json, .int),
       (Field.data.json, .str)] ∧
    layout struct_keymasterdCodeToken =
      [(Field.iss.json, .str), (Field.sub.json, .str), (Field.iat.json, .int), (Field.exp.json, .int),
       (Field.aud.json, .strs), (Field.username.json, .str), (Field.authLevel.json, .int), (Field.authExp.json, .int),
       (Field.nonce.json, .str), (Field.redirectUri.json, .str), (Field.accessAudience.json, .strs),
       (Field.scope.json, .str), (Field.typ.json, .str), (Field.jti.json, .str),
       (Field.protectedDataKey.json, .str), (Field.protectedData.json, .str)] ∧
    layout struct_bearerAccessToken =
      [(Field.iss.json, .str), (Field.aud.json, .strs), (Field.username.json, .str), (Field.scope.json, .str),
       (Field.exp.json, .int), (Field.iat.json, .int), (Field.typ.json, .str)] ∧
    layout struct_openIDConnectIDToken =
      [(Field.iss.json, .str), (Field.sub.json, .str), (Field.aud.json, .strs), (Field.exp.json, .int),
       (Field.iat.json, .int), (Field.authTime.json, .int), (Field.nonce.json, .str)] ∧
    (struct_authInfoJWT.filter (·.omitempty)).map (·.json) =
      [Field.iss.json, Field.sub.json, Field.aud.json, Field.exp.json, Field.nbf.json, Field.iat.json] ∧
    (struct_storageStringDataJWT.filter (·.omitempty)).map (·.json) =
      [Field.iss.json, Field.sub.json, Field.aud.json, Field.nbf.json, Field.iat.json] ∧
    (struct_keymasterdCodeToken.filter (·.omitempty)).map (·.json) =
      [Field.accessAudience.json, Field.protectedDataKey.json, Field.protectedData.json] ∧
    (struct_bearerAccessToken.filter (·.omitempty)).map (·.json) = [Field.aud.json] ∧
    (struct_openIDConnectIDToken.filter (·.omitempty)).map (·.json) = [Field.authTime.json, Field.nonce.json] := by
  decide

/-! ### soundness: whatever a consumer honours satisfies the property's predicate -/

theorem want_session : want_getAuthInfoFromAuthJWT = sessionType := by decide
theorem want_cliV : want_VerifyAuthTokenHandler = cliType := by decide
theorem want_cliS : want_SendAuthDocumentHandler = cliType := by decide

/-- the shape shared by the three `authInfoJWT`/storage value tests -/
theorem auth_core {d : Deployment} {now : Clock} {want : Str} {a : Artefact}
    (hv : verifies d a = true) (hb : authValuesBad d now want a.claims = false) :
    signedByDeployment d a = true ∧ gStr a.claims .tokenType = want ∧ gInt a.claims .nbf ≤ now.sec ∧
    namesThisServer d a.claims = true := by
  obtain ⟨h1, h2, h3, h4⟩ := authValues_ok hb
  refine ⟨verifies_signed hv, h2, h4, ?_⟩
  have hm := head_mem_contains h3
  simp only [List.contains_iff_mem] at hm
  simp [namesThisServer, h1, hm]

/-- **Soundness.** For every consumer, context and artefact (any claims object, any header
algorithm, any signature): if the consumer honours the artefact then it was signed by one of the
deployment's keys under that key's algorithm, says it is of the kind the consumer is for, is inside
its validity window, names this server as issuer and audience (session, CLI, storage) and is bound
to the request (storage: user and type looked up; code: the authenticated client; CLI hand-off: the
logged-in user). -/
theorem c04_sound (c : Consumer) (x : Ctx) (a : Artefact) (hs : Sane x) (h : accepts c x a = true) :
    honourable c x a = true := by
  have hc := hs.clock
  cases c with
  | session =>
    obtain ⟨info, hi⟩ := isOk_iff.mp h
    obtain ⟨hg, he, _⟩ := acceptSession_ok hi
    obtain ⟨hv, _, hb, rfl⟩ := getAuthInfo_ok hg
    obtain ⟨k1, k2, k3, k4⟩ := auth_core hv hb
    have := not_expired_ge (gInt_range _ _) hc he
    simp [honourable, Consumer.purpose, hasMarker, inWindow, k1, k2, k3, k4, want_session, this]
  | upgrade =>
    obtain ⟨cl, hi⟩ := isOk_iff.mp h
    obtain ⟨hv, _, hb, _⟩ := acceptUpgrade_ok hi
    obtain ⟨k1, k2, k3, k4⟩ := auth_core hv hb
    simp [honourable, Consumer.purpose, hasMarker, k1, k2, k3, k4]
  | cliVerify =>
    obtain ⟨info, hi⟩ := isOk_iff.mp h
    obtain ⟨hg, he⟩ := acceptCliVerify_ok hi
    obtain ⟨hv, _, hb, rfl⟩ := getAuthInfo_ok hg
    obtain ⟨k1, k2, k3, k4⟩ := auth_core hv hb
    have := not_expired_ge (gInt_range _ _) hc he
    simp [honourable, Consumer.purpose, hasMarker, inWindow, k1, k2, k3, k4, want_cliV, this]
  | cliSend =>
    obtain ⟨info, hi⟩ := isOk_iff.mp h
    obtain ⟨hg, hu, he⟩ := acceptCliSend_ok hi
    obtain ⟨hv, _, hb, rfl⟩ := getAuthInfo_ok hg
    obtain ⟨k1, k2, k3, k4⟩ := auth_core hv hb
    have := not_expired_ge (gInt_range _ _) hc he
    simp at hu
    simp [honourable, Consumer.purpose, hasMarker, inWindow, k1, k2, k3, k4, want_cliS, this, hu]
  | storage =>
    obtain ⟨data, hi⟩ := isOk_iff.mp h
    obtain ⟨_, hsv, h1, h2, h3, _⟩ := acceptStorage_ok hi
    obtain ⟨hv, _, hb⟩ := storageVerify_ok hsv
    obtain ⟨k1, k2, k3, k4⟩ := auth_core hv hb
    simp at h1 h2 h3 k1 k2 k3 k4
    simp [honourable, Consumer.purpose, hasMarker, inWindow, k1, k2, k3, k4, h1, h2, h3]
  | code =>
    obtain ⟨w, hi⟩ := isOk_iff.mp h
    obtain ⟨hv, _, _, hcc, _⟩ := acceptCode_ok hi
    obtain ⟨h1, h2, _, h4⟩ := codeChecks_ok hcc
    simp [honourable, Consumer.purpose, hasMarker, inWindow, verifies_signed hv, h1, h2, h4]
  | access =>
    obtain ⟨u, hi⟩ := isOk_iff.mp h
    obtain ⟨hv, _, h1, h2, _, _, _⟩ := acceptAccess_ok hi
    simp [honourable, Consumer.purpose, hasMarker, inWindow, verifies_signed hv, h1, h2]

end KM.Token
