import KM.Gen.GoIssue
/-! # C02 / C10 / C20 — `postAuthSSHCertHandler` as TRANSLATED from the current source (go2lean)

Block of the handler from its first statement to the publication of the certificate (`KM/Gen/GoIssue.lean`,
`sshIssue`).  Refusals, the call of `certgen.GenSSHCertFileString` (with the user, the submitted key text, the signer
and the lifetime it is given), the hand-over to the audit stream and the start of the 200 response are effects.
External and arbitrary: the uploaded file, `getValidSSHPublicKey`, the key's type string, `ssh.NewSignerFromSigner`,
the extension expansion, the generator's result. -/
namespace KM.IssueGo
open KM.GoTypes KM.Go

/-- the CA key the handler picks for a validated key -/
def kindOf (ext : SshIssueExt) (pk : Nat) : SignerKind :=
  if ext.keyType pk == "ssh-ed25519".toList then .ed25519 else .main

/-- what happens once the key text has been validated -/
def afterValid (ext : SshIssueExt) (user key : List Char) (pk : Nat) (duration : Int) (edMissing : Bool) :
    List SshEffect :=
  if kindOf ext pk = .ed25519 ∧ edMissing = true then [.fail 422]
  else match ext.newSigner (kindOf ext pk) with
    | (_, some _) => [.fail 500]
    | (sg, none) =>
      match ext.expand user with
      | (_, some _) => [.fail 500]
      | (_, none) =>
        .sign user key sg duration ::
          match ext.sign user key sg duration with
          | (_, _, some _) => [.fail 500]
          | (_, cert, none) => [.publish cert, .respond]

/-- **closed form of the translated handler** -/
theorem ssh_issue_eq (ext : SshIssueExt) (method user : List Char) (duration : Int) (edMissing : Bool) :
    (KM.Gen.GoIssue.sshIssue ext method user duration edMissing).2 =
      if method != "POST".toList then [.fail 405]
      else match ext.formFile with
        | (_, _, some _) => [.fail 400]
        | (file, _, none) =>
          match ext.validKey (ext.fileText file) with
          | (_, _, some _) => [.fail 500]
          | (_, some _, none) => [.fail 400]
          | (pk, none, none) => afterValid ext user (ext.fileText file) pk duration edMissing := by
  obtain ⟨ff, ft, vk, kt, nsg, ex, sg⟩ := ext
  unfold KM.Gen.GoIssue.sshIssue afterValid kindOf
  dsimp only
  by_cases hm : (method != "POST".toList) = true
  · simp only [hm, if_true, List.nil_append]
  · simp only [hm, if_false]
    rcases ff with ⟨file, hdr, _ | e⟩
    · simp only [Option.isSome_none, Bool.false_eq_true, if_false]
      rcases hv : vk (ft file) with ⟨pk, ue, _ | e⟩
      · rcases ue with _ | ue
        · simp only [Option.isSome_none, Bool.false_eq_true, if_false]
          by_cases hk : (kt pk == "ssh-ed25519".toList) = true
          · simp only [hk, if_true, true_and]
            cases edMissing
            · simp only [Bool.false_eq_true, if_false]
              rcases hn : nsg SignerKind.ed25519 with ⟨s, _ | e⟩
              · rcases hx : ex user with ⟨x, _ | e⟩
                · rcases hs : sg user (ft file) s duration with ⟨cs, cert, _ | e⟩ <;> simp [hs]
                · simp
              · simp
            · simp
          · simp only [hk, if_false, reduceCtorEq, false_and]
            rcases hn : nsg SignerKind.main with ⟨s, _ | e⟩
            · rcases hx : ex user with ⟨x, _ | e⟩
              · rcases hs : sg user (ft file) s duration with ⟨cs, cert, _ | e⟩ <;> simp [hs]
              · simp
            · simp
        · simp
      · simp
    · simp

/-- **the certificate is for the authenticated user and the submitted, validated key** (C02, C10), on the translated
source: the generator is called at most once, and only with the handler's `targetUser`, the text of the uploaded file
— the same text `getValidSSHPublicKey` accepted without a user error —, the handler's lifetime, and a signer made from
the Ed25519 CA key exactly when the submitted key is an Ed25519 key (and such a CA key exists). -/
theorem c02_go_ssh_sign (ext : SshIssueExt) (method user : List Char) (duration : Int) (edMissing : Bool)
    (u k : List Char) (s : SignerKind) (d : Int)
    (h : SshEffect.sign u k s d ∈ (KM.Gen.GoIssue.sshIssue ext method user duration edMissing).2) :
    u = user ∧ d = duration ∧ method = "POST".toList ∧
    ∃ file hdr pk, ext.formFile = (file, hdr, none) ∧ k = ext.fileText file ∧ ext.validKey k = (pk, none, none) ∧
      ext.newSigner (kindOf ext pk) = (s, none) ∧ (kindOf ext pk = .ed25519 → edMissing = false) ∧
      ((KM.Gen.GoIssue.sshIssue ext method user duration edMissing).2.filter
        (fun e => match e with | .sign .. => true | _ => false)).length = 1 := by
  rw [ssh_issue_eq] at h ⊢
  by_cases hm : (method != "POST".toList) = true
  · rw [if_pos hm] at h; simp at h
  · rw [if_neg hm] at h ⊢
    have hm' : method = "POST".toList := by simpa using hm
    rcases hf : ext.formFile with ⟨file, hdr, _ | e⟩
    · rw [hf] at h; simp only at h ⊢
      rcases hv : ext.validKey (ext.fileText file) with ⟨pk, ue, _ | e⟩
      · rcases ue with _ | ue
        · rw [hv] at h; simp only at h ⊢
          unfold afterValid at h ⊢
          by_cases h4 : kindOf ext pk = .ed25519 ∧ edMissing = true
          · simp [h4] at h
          · simp only [h4, if_false] at h ⊢
            rcases hn : ext.newSigner (kindOf ext pk) with ⟨sg, _ | e⟩
            · rw [hn] at h; simp only at h ⊢
              rcases hx : ext.expand user with ⟨x, _ | e⟩
              · rw [hx] at h; simp only at h ⊢
                have hs : SshEffect.sign u k s d = SshEffect.sign user (ext.fileText file) sg duration := by
                  rcases hsg : ext.sign user (ext.fileText file) sg duration with ⟨cs, cert, _ | e⟩ <;>
                    rw [hsg] at h <;> simpa using h
                cases hs
                refine ⟨rfl, rfl, hm', file, hdr, pk, rfl, rfl, hv, hn, ?_, ?_⟩
                · intro hk; cases hb : edMissing with
                  | false => rfl
                  | true => exact absurd ⟨hk, hb⟩ h4
                · rcases hsg : ext.sign user (ext.fileText file) s duration with ⟨cs, cert, _ | e⟩ <;> simp
              · rw [hx] at h; simp at h
            · rw [hn] at h; simp at h
        · rw [hv] at h; simp at h
      · rw [hv] at h; simp at h
    · rw [hf] at h; simp at h

/-- the translation runs: an RSA key text is signed with the main CA key, published, answered -/
example :
    let ext : SshIssueExt := ⟨(1, 0, none), fun _ => "ssh-rsa AAAA".toList, fun _ => (5, none, none),
      fun _ => "ssh-rsa".toList, fun k => (k, none), fun _ => (0, none), fun _ _ _ _ => ([], 42, none)⟩
    (KM.Gen.GoIssue.sshIssue ext "POST".toList "alice".toList 3600 true).2 =
      [.sign "alice".toList "ssh-rsa AAAA".toList .main 3600, .publish 42, .respond] := by decide

end KM.IssueGo
