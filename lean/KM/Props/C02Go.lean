import KM.Gen.GoIssue
/-! # C02 / C10 / C20 — `postAuthSSHCertHandler` as TRANSLATED from the current source (go2lean)

Block of the handler from its first statement to the publication of the certificate (`KM/Gen/GoIssue.lean`,
`sshIssue`).  Refusals, the call of `certgen.GenSSHCertFileString` (with the user, the submitted key text, the signer
and the lifetime it is given), the hand-over to the audit stream and the start of the 200 response are effects.
External and arbitrary: the uploaded file, `getValidSSHPublicKey`, the key's type string, `ssh.NewSignerFromSigner`,
the extension expansion, the generator's result. -/
namespace KM.IssueGo
open KM.GoTypes KM.Go

/-- the CA key the handler picks for a validated key -/
def kindOf (ext : SshIssueExt) (pk : Nat) : SignerKind :=
  if ext.keyType pk == "ssh-ed25519".toList then .ed25519 else .main

/-- what happens once the key text has been validated -/
def afterValid (ext : SshIssueExt) (user key : List Char) (pk : Nat) (duration : Int) (edMissing : Bool) :
    List SshEffect :=
  if kindOf ext pk = .ed25519 ∧ edMissing = true then [.fail 422]
  else match ext.newSigner (kindOf ext pk) with
    | (_, some _) => [.fail 500]
    | (sg, none) =>
      match ext.expand user with
      | (_, some _) => [.fail 500]
      | (_, none) =>
        .sign user key sg duration ::
          match ext.sign user key sg duration with
          | (_, _, some _) => [.fail 500]
          | (_, cert, none) => [.publish cert, .respond]

/-- **closed form of the translated handler** -/
theorem ssh_issue_eq (ext : SshIssueExt) (method user : List Char) (duration : Int) (edMissing : Bool) :
    (KM.Gen.GoIssue.sshIssue ext method user duration edMissing).2 =
      if method != "POST".toList then [.fail 405]
      else match ext.formFile with
        | (_, _, some _) => [.fail 400]
        | (file, _, none) =>
          match ext.validKey (ext.fileText file) with
          | (_, _, some _) => [.fail 500]
          | (_, some _, none) => [.fail 400]
          | (pk, none, none) => afterValid ext user (ext.fileText file) pk duration edMissing := by
  obtain ⟨ff, ft, vk, kt, nsg, ex, sg⟩ := ext
  unfold KM.Gen.GoIssue.sshIssue afterValid kindOf
  dsimp only
  by_cases hm : (method != "POST".toList) = true
  · simp only [hm, if_true, List.nil_append]
  · simp only [hm, if_false]
    rcases ff with ⟨file, hdr, _ | e⟩
    · simp only [Option.isSome_none, Bool.false_eq_true, if_false]
      rcases hv : vk (ft file) with ⟨pk, ue, _ | e⟩
      · rcases ue with _ | ue
        · simp only [Option.isSome_none, Bool.false_eq_true, if_false]
          by_cases hk : (kt pk == "ssh-ed25519".toList) = true
          · simp only [hk, if_true, true_and]
            cases edMissing
            · simp only [Bool.false_eq_true, if_false]
              rcases hn : nsg SignerKind.ed25519 with ⟨s, _ | e⟩
              · rcases hx : ex user with ⟨x, _ | e⟩
                · rcases hs : sg user (ft file) s duration with ⟨cs, cert, _ | e⟩ <;> simp [hs]
                · simp
              · simp
            · simp
          · simp only [hk, if_false, reduceCtorEq, false_and]
            rcases hn : nsg SignerKind.main with ⟨s, _ | e⟩
            · rcases hx : ex user with ⟨x, _ | e⟩
              · rcases hs : sg user (ft file) s duration with ⟨cs, cert, _ | e⟩ <;> simp [hs]
              · simp
            · simp
        · simp
      · simp
    · simp

/-- **the certificate is for the authenticated user and the submitted, validated key** (C02, C10), on the translated
source: the generator is called at most once, and only with the handler's `targetUser`, the text of the uploaded file
— the same text `getValidSSHPublicKey` accepted without a user error —, the handler's lifetime, and a signer made from
the Ed25519 CA key exactly when the submitted key is an Ed25519 key (and such a CA key exists). -/
theorem c02_go_ssh_sign (ext : SshIssueExt) (method user : List Char) (duration : Int) (edMissing : Bool)
    (u k : List Char) (s : SignerKind) (d : Int)
    (h : SshEffect.sign u k s d ∈ (KM.Gen.GoIssue.sshIssue ext method user duration edMissing).2) :
    u = user ∧ d = duration ∧ method = "POST".toList ∧
    ∃ file hdr pk, ext.formFile = (file, hdr, none) ∧ k = ext.fileText file ∧ ext.validKey k = (pk, none, none) ∧
      ext.newSigner (kindOf ext pk) = (s, none) ∧ (kindOf ext pk = .ed25519 → edMissing = false) ∧
      ((KM.Gen.GoIssue.sshIssue ext method user duration edMissing).2.filter
        (fun e => match e with | .sign .. => true | _ => false)).length = 1 := by
  rw [ssh_issue_eq] at h ⊢
  by_cases hm : (method != "POST".toList) = true
  · rw [if_pos hm] at h; simp at h
  · rw [if_neg hm] at h ⊢
    have hm' : method = "POST".toList := by simpa using hm
    rcases hf : ext.formFile with ⟨file, hdr, _ | e⟩
    · rw [hf] at h; simp only at h ⊢
      rcases hv : ext.validKey (ext.fileText file) with ⟨pk, ue, _ | e⟩
      · rcases ue with _ | ue
        · rw [hv] at h; simp only at h ⊢
          unfold afterValid at h ⊢
          by_cases h4 : kindOf ext pk = .ed25519 ∧ edMissing = true
          · simp [h4] at h
          · simp only [h4, if_false] at h ⊢
            rcases hn : ext.newSigner (kindOf ext pk) with ⟨sg, _ | e⟩
            · rw [hn] at h; simp only at h ⊢
              rcases hx : ext.expand user with ⟨x, _ | e⟩
              · rw [hx] at h; simp only at h ⊢
                have hs : SshEffect.sign u k s d = SshEffect.sign user (ext.fileText file) sg duration := by
                  rcases hsg : ext.sign user (ext.fileText file) sg duration with ⟨cs, cert, _ | e⟩ <;>
                    rw [hsg] at h <;> simpa using h
                cases hs
                refine ⟨rfl, rfl, hm', file, hdr, pk, rfl, rfl, hv, hn, ?_, ?_⟩
                · intro hk; cases hb : edMissing with
                  | false => rfl
                  | true => exact absurd ⟨hk, hb⟩ h4
                · rcases hsg : ext.sign user (ext.fileText file) s duration with ⟨cs, cert, _ | e⟩ <;> simp
              · rw [hx] at h; simp at h
            · rw [hn] at h; simp at h
        · rw [hv] at h; simp at h
      · rw [hv] at h; simp at h
    · rw [hf] at h; simp at h

/-- the translation runs: an RSA key text is signed with the main CA key, published, answered -/
example :
    let ext : SshIssueExt := ⟨(1, 0, none), fun _ => "ssh-rsa AAAA".toList, fun _ => (5, none, none),
      fun _ => "ssh-rsa".toList, fun k => (k, none), fun _ => (0, none), fun _ _ _ _ => ([], 42, none)⟩
    (KM.Gen.GoIssue.sshIssue ext "POST".toList "alice".toList 3600 true).2 =
      [.sign "alice".toList "ssh-rsa AAAA".toList .main 3600, .publish 42, .respond] := by decide

/-! ## `postAuthX509CertHandler` (`KM.Gen.GoIssue.x509Issue`, translated with a join point after the group lookup) -/

/-- what `postAuthX509CertHandler` does once the user's groups are known (`ug`; empty when they are not needed) -/
def afterGroups (ext : X509IssueExt) (method user addGroups : List Char) (duration : Int) (kube : Bool)
    (ug : List (List Char)) : List X509Effect :=
  match ext.serviceMethods user with
  | (_, some _) => [.fail 500]
  | (sm, none) =>
    if method != "POST".toList then [.fail 405]
    else match ext.formFile with
      | (_, _, some _) => [.fail 400]
      | (file, _, none) =>
        if !(ext.isPublicKeyBlock (ext.pemDecode file).1) then [.fail 400]
        else match ext.parseKey (ext.pemDecode file).1 with
          | (_, some _) => [.fail 400]
          | (pub, none) =>
            match ext.strong pub with
            | (_, some _) => [.fail 500]
            | (false, none) => [.fail 400]
            | (true, none) =>
              match ext.signerFor pub with
              | (_, _, some _) => [.fail 500]
              | (sg, der, none) =>
                match ext.parseCert der with
                | (_, some _) => [.fail 500]
                | (_, none) =>
                  .sign user pub sg duration (if addGroups == "true".toList then ug else [])
                      (if kube then ug else ["keymaster".toList]) sm ::
                    match ext.sign user pub sg duration (if addGroups == "true".toList then ug else [])
                      (if kube then ug else ["keymaster".toList]) sm with
                    | (_, some _) => [.fail 500]
                    | (derCert, none) =>
                      match ext.parseCert derCert with
                      | (_, some _) => [.fail 500]
                      | (_, none) => [.publish derCert, .respond]

/-- **closed form of the translated handler** -/
theorem x509_issue_eq (ext : X509IssueExt) (method user addGroups : List Char) (duration : Int) (kube : Bool) :
    (KM.Gen.GoIssue.x509Issue ext method user addGroups duration kube).2 =
      if kube || (addGroups == "true".toList) then
        match ext.userGroups user with
        | (_, some _) => [.fail 500]
        | (ug, none) => afterGroups ext method user addGroups duration kube ug
      else afterGroups ext method user addGroups duration kube [] := by
  obtain ⟨ugf, smf, ff, pd, ipk, pk, st, sf, pc, sg⟩ := ext
  unfold KM.Gen.GoIssue.x509Issue
  extract_lets tr ug0 orgs0 cert0 buf0 k1
  have hk : ∀ ug, (k1 (tr, ug)).2 =
      afterGroups ⟨ugf, smf, ff, pd, ipk, pk, st, sf, pc, sg⟩ method user addGroups duration kube ug := by
    intro ug
    unfold k1 afterGroups
    dsimp only
    rcases smf user with ⟨sm, _ | e⟩
    · simp only [Option.isSome_none, Bool.false_eq_true, if_false]
      by_cases hm : (method != "POST".toList) = true
      · simp only [hm, if_true]; rfl
      · simp only [hm, if_false]
        rcases ff with ⟨file, hdr, _ | e⟩
        · simp only [Option.isSome_none, Bool.false_eq_true, if_false]
          generalize (pd file).fst = block
          by_cases hb : (!ipk block) = true
          · simp only [hb, if_true]; rfl
          · simp only [hb, if_false]
            rcases pk block with ⟨pub, _ | e⟩
            · simp only [Option.isSome_none, Bool.false_eq_true, if_false]
              rcases st pub with ⟨v, _ | e⟩
              · cases v
                · simp only [Option.isSome_none, Bool.false_eq_true, if_false, Bool.not_false, if_true]; rfl
                · simp only [Option.isSome_none, Bool.false_eq_true, if_false, Bool.not_true]
                  rcases sf pub with ⟨s, der, _ | e⟩
                  · simp only [Option.isSome_none, Bool.false_eq_true, if_false]
                    rcases pc der with ⟨ca, _ | e⟩
                    · simp only [Option.isSome_none, Bool.false_eq_true, if_false]
                      rcases sg user pub s duration (if (addGroups == "true".toList) = true then ug else ug0)
                        (if kube = true then ug else orgs0) sm with ⟨dc, _ | e⟩
                      · simp only [Option.isSome_none, Bool.false_eq_true, if_false]
                        rcases pc dc with ⟨pcert, _ | e⟩
                        · simp only [Option.isSome_none, Bool.false_eq_true, if_false]; rfl
                        · simp only [Option.isSome_some, if_true]; rfl
                      · simp only [Option.isSome_some, if_true]; rfl
                    · simp only [Option.isSome_some, if_true]; rfl
                  · simp only [Option.isSome_some, if_true]; rfl
              · simp only [Option.isSome_some, if_true]; rfl
            · simp only [Option.isSome_some, if_true]; rfl
        · simp only [Option.isSome_some, if_true]; rfl
    · simp only [Option.isSome_some, if_true]; rfl
  by_cases hn : (kube || (addGroups == "true".toList)) = true
  · simp only [hn, if_true]
    rcases ugf user with ⟨ug, _ | e⟩
    · simp only [Option.isSome_none, Bool.false_eq_true, if_false]
      exact hk ug
    · simp only [Option.isSome_some, if_true]; rfl
  · simp only [hn, if_false]
    exact hk ug0

/-- the two lists the generator is given, from the user's groups `ug` -/
def groupsArg (addGroups : List Char) (ug : List (List Char)) : List (List Char) :=
  if addGroups == "true".toList then ug else []
def orgsArg (kube : Bool) (ug : List (List Char)) : List (List Char) :=
  if kube then ug else ["keymaster".toList]

theorem afterGroups_cases (ext : X509IssueExt) (method user addGroups : List Char) (duration : Int) (kube : Bool)
    (ug : List (List Char)) :
    (∃ st, afterGroups ext method user addGroups duration kube ug = [.fail st]) ∨
    ∃ file hdr pub sg der ca sm, method = "POST".toList ∧ ext.formFile = (file, hdr, none) ∧
      ext.isPublicKeyBlock (ext.pemDecode file).1 = true ∧ ext.parseKey (ext.pemDecode file).1 = (pub, none) ∧
      ext.strong pub = (true, none) ∧ ext.signerFor pub = (sg, der, none) ∧ ext.parseCert der = (ca, none) ∧
      ext.serviceMethods user = (sm, none) ∧
      ((∃ st, afterGroups ext method user addGroups duration kube ug =
          [.sign user pub sg duration (groupsArg addGroups ug) (orgsArg kube ug) sm, .fail st]) ∨
       ∃ dc, (ext.sign user pub sg duration (groupsArg addGroups ug) (orgsArg kube ug) sm) = (dc, none) ∧
         afterGroups ext method user addGroups duration kube ug =
          [.sign user pub sg duration (groupsArg addGroups ug) (orgsArg kube ug) sm, .publish dc, .respond]) := by
  unfold afterGroups groupsArg orgsArg
  rcases hsm : ext.serviceMethods user with ⟨sm, _ | e⟩
  · simp only
    by_cases hm : (method != "POST".toList) = true
    · left; exact ⟨405, by rw [if_pos hm]⟩
    · rw [if_neg hm]
      have hm' : method = "POST".toList := by simpa using hm
      rcases hf : ext.formFile with ⟨file, hdr, _ | e⟩
      · simp only
        by_cases hb : (!(ext.isPublicKeyBlock (ext.pemDecode file).1)) = true
        · left; exact ⟨400, by rw [if_pos hb]⟩
        · rw [if_neg hb]
          have hb' : ext.isPublicKeyBlock (ext.pemDecode file).1 = true := by simpa using hb
          rcases hp : ext.parseKey (ext.pemDecode file).1 with ⟨pub, _ | e⟩
          · simp only
            rcases hs : ext.strong pub with ⟨v, _ | e⟩
            · cases v
              · left; exact ⟨400, rfl⟩
              · simp only
                rcases hsf : ext.signerFor pub with ⟨sg, der, _ | e⟩
                · simp only
                  rcases hc : ext.parseCert der with ⟨ca, _ | e⟩
                  · simp only
                    right
                    refine ⟨file, hdr, pub, sg, der, ca, sm, hm', rfl, hb', hp, hs, hsf, hc, rfl, ?_⟩
                    rcases hg : ext.sign user pub sg duration (if (addGroups == "true".toList) = true then ug else [])
                      (if kube = true then ug else ["keymaster".toList]) sm with ⟨dc, _ | e⟩
                    · simp only
                      rcases hpc : ext.parseCert dc with ⟨pcert, _ | e⟩
                      · right; exact ⟨dc, rfl, rfl⟩
                      · left; exact ⟨500, rfl⟩
                    · left; exact ⟨500, rfl⟩
                  · left; exact ⟨500, rfl⟩
                · left; exact ⟨500, rfl⟩
            · left; exact ⟨500, rfl⟩
          · left; exact ⟨400, rfl⟩
      · left; exact ⟨400, rfl⟩
  · left; exact ⟨500, rfl⟩

/-- the user's groups as the handler obtains them: looked up only when a group-bearing certificate is asked for -/
def groupsFor (ext : X509IssueExt) (user addGroups : List Char) (kube : Bool) : Option (List (List Char)) :=
  if kube || (addGroups == "true".toList) then
    match ext.userGroups user with
    | (_, some _) => none
    | (ug, none) => some ug
  else some []

theorem x509_issue_cases (ext : X509IssueExt) (method user addGroups : List Char) (duration : Int) (kube : Bool) :
    (∃ st, (KM.Gen.GoIssue.x509Issue ext method user addGroups duration kube).2 = [.fail st]) ∨
    ∃ ug, groupsFor ext user addGroups kube = some ug ∧
      (KM.Gen.GoIssue.x509Issue ext method user addGroups duration kube).2 =
        afterGroups ext method user addGroups duration kube ug := by
  rw [x509_issue_eq]
  unfold groupsFor
  by_cases hn : (kube || (addGroups == "true".toList)) = true
  · rw [if_pos hn, if_pos hn]
    rcases ext.userGroups user with ⟨ug, _ | e⟩
    · right; exact ⟨ug, rfl, rfl⟩
    · left; exact ⟨500, rfl⟩
  · rw [if_neg hn, if_neg hn]
    right; exact ⟨[], rfl, rfl⟩

/-- **the X.509 certificate is for the authenticated user, the submitted validated key, and carries only that user's
own groups** (C02, C10), on the translated source: `certgen.GenUserX509Cert` is called only for `targetUser`, with the
public key parsed from the uploaded `PUBLIC KEY` block that `ValidatePublicKeyStrength` accepted, the CA signer chosen
for THAT key, the handler's lifetime, the service methods of that user, and as groups / organizations either nothing /
`["keymaster"]` or the groups the directory returned for that same user (groups only when `addGroups=true`,
organizations only for the Kubernetes flavour). -/
theorem c02_go_x509_sign (ext : X509IssueExt) (method user addGroups : List Char) (duration : Int) (kube : Bool)
    (u : List Char) (pub sg : Nat) (d : Int) (g o m : List (List Char))
    (h : X509Effect.sign u pub sg d g o m ∈ (KM.Gen.GoIssue.x509Issue ext method user addGroups duration kube).2) :
    u = user ∧ d = duration ∧ method = "POST".toList ∧
    ∃ file hdr der ug, ext.formFile = (file, hdr, none) ∧ ext.isPublicKeyBlock (ext.pemDecode file).1 = true ∧
      ext.parseKey (ext.pemDecode file).1 = (pub, none) ∧ ext.strong pub = (true, none) ∧
      ext.signerFor pub = (sg, der, none) ∧ ext.serviceMethods user = (m, none) ∧
      groupsFor ext user addGroups kube = some ug ∧ g = groupsArg addGroups ug ∧ o = orgsArg kube ug := by
  rcases x509_issue_cases ext method user addGroups duration kube with ⟨st, hst⟩ | ⟨ug, hug, heq⟩
  · rw [hst] at h; simp at h
  · rw [heq] at h
    rcases afterGroups_cases ext method user addGroups duration kube ug with ⟨st, hst⟩ |
      ⟨file, hdr, pub', sg', der, ca, sm, hm, hf, hb, hp, hs, hsf, hc, hsm, hrest⟩
    · rw [hst] at h; simp at h
    · have : X509Effect.sign u pub sg d g o m =
          X509Effect.sign user pub' sg' duration (groupsArg addGroups ug) (orgsArg kube ug) sm := by
        rcases hrest with ⟨st, hst⟩ | ⟨dc, _, hst⟩ <;> rw [hst] at h <;> simpa using h
      cases this
      exact ⟨rfl, rfl, hm, file, hdr, der, ug, hf, hb, hp, hs, hsf, hsm, hug, rfl, rfl⟩

/-- the response starts only after the certificate the generator returned was published (restated as `c20_go_x509_published`) -/
theorem x509_published (ext : X509IssueExt) (method user addGroups : List Char) (duration : Int) (kube : Bool) :
    (X509Effect.respond ∈ (KM.Gen.GoIssue.x509Issue ext method user addGroups duration kube).2 ∨
     (∃ c, X509Effect.publish c ∈ (KM.Gen.GoIssue.x509Issue ext method user addGroups duration kube).2)) →
    ∃ pub sg g o m der, ext.sign user pub sg duration g o m = (der, none) ∧
      (KM.Gen.GoIssue.x509Issue ext method user addGroups duration kube).2 =
        [.sign user pub sg duration g o m, .publish der, .respond] := by
  intro h
  rcases x509_issue_cases ext method user addGroups duration kube with ⟨st, hst⟩ | ⟨ug, hug, heq⟩
  · rw [hst] at h; simp at h
  · rw [heq] at h ⊢
    rcases afterGroups_cases ext method user addGroups duration kube ug with ⟨st, hst⟩ |
      ⟨file, hdr, pub', sg', der, ca, sm, hm, hf, hb, hp, hs, hsf, hc, hsm, hrest⟩
    · rw [hst] at h; simp at h
    · rcases hrest with ⟨st, hst⟩ | ⟨dc, hdc, hst⟩
      · rw [hst] at h; simp at h
      · exact ⟨_, _, _, _, _, dc, hdc, hst⟩


end KM.IssueGo
