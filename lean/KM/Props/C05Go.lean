import KM.Props.C14Go
/-! # C05 — when `validateUserTOTP` says yes, on the TRANSLATED source (go2lean); see `KM/Props/C14Go.lean` -/
namespace KM.Totp
open KM.Go KM.GoTypes

/-- **a TOTP code raises a session only if it is fresh for THIS user**: the translated `validateUserTOTP(user, …)`
answers `true` only past the spacing and lock-out gates, for a code that an enabled device of `user`'s own profile
validates for a step strictly later than the last accepted one, and — unless the profile came from the read-only
cache — only after that step was durably recorded (so the same code cannot be honoured again) -/
theorem c05_go_totp_accept (ext : TotpExt) (now : Int) (rate0 : totpRateLimitInfo) (user : Str) (otp t : Int)
    (h : (KM.Gen.GoTotp.validateUserTOTP ext now rate0 user otp t).1.1 = true) :
    (ext.loadProfile user).2.2.2 = none ∧
    ¬ (rate0.lastCheckTime + 2 > now) ∧ ¬ (rate0.lockoutExpirationTime > now) ∧
    (ext.loadProfile user).1.LastSuccessfullTOTPCounter ≠ t / 30 ∧
    ∃ d ∈ (ext.loadProfile user).1.TOTPAuthData, d.Enabled = true ∧ (ext.decrypt d.EncryptedSecret).2 = none ∧
      (ext.matched (ext.otpString otp) (ext.decrypt d.EncryptedSecret).1 (t / 30) 30).2 = true ∧
      (ext.matched (ext.otpString otp) (ext.decrypt d.EncryptedSecret).1 (t / 30) 30).1 >
        (ext.loadProfile user).1.LastSuccessfullTOTPCounter ∧
      ((ext.loadProfile user).2.2.1 = false →
        ext.saveResult user { (ext.loadProfile user).1 with LastSuccessfullTOTPCounter :=
          (ext.matched (ext.otpString otp) (ext.decrypt d.EncryptedSecret).1 (t / 30) 30).1 } = none) :=
  go_totp_accept ext now rate0 user otp t h

end KM.Totp
