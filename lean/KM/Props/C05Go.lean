import KM.Props.C14Go
import KM.Gen.GoVip
import KM.Gen.GoBoot
import KM.Gen.GoWebauthn
import KM.Props.C04Go
import KM.Props.C06Go
import KM.Gen.GoCookieUp
import KM.Gen.GoVipOtp
import KM.Gen.GoOkta
import KM.Gen.GoU2f
import KM.Gen.GoCommonOtp
/-! # C05 — when `validateUserTOTP` says yes, on the TRANSLATED source (go2lean); see `KM/Props/C14Go.lean` -/
namespace KM.Totp
open KM.Go KM.GoTypes

/-- **a TOTP code raises a session only if it is fresh for THIS user**: the translated `validateUserTOTP(user, …)`
answers `true` only past the spacing and lock-out gates, for a code that an enabled device of `user`'s own profile
validates for a step strictly later than the last accepted one, and — unless the profile came from the read-only
cache — only after that step was durably recorded (so the same code cannot be honoured again) -/
theorem c05_go_totp_accept (ext : TotpExt) (now : Int) (rate0 : totpRateLimitInfo) (user : Str) (otp t : Int)
    (h : (KM.Gen.GoTotp.validateUserTOTP ext now rate0 user otp t).1.1 = true) :
    (ext.loadProfile user).2.2.2 = none ∧
    ¬ (rate0.lastCheckTime + 2 > now) ∧ ¬ (rate0.lockoutExpirationTime > now) ∧
    (ext.loadProfile user).1.LastSuccessfullTOTPCounter ≠ t / 30 ∧
    ∃ d ∈ (ext.loadProfile user).1.TOTPAuthData, d.Enabled = true ∧ (ext.decrypt d.EncryptedSecret).2 = none ∧
      (ext.matched (ext.otpString otp) (ext.decrypt d.EncryptedSecret).1 (t / 30) 30).2 = true ∧
      (ext.matched (ext.otpString otp) (ext.decrypt d.EncryptedSecret).1 (t / 30) 30).1 >
        (ext.loadProfile user).1.LastSuccessfullTOTPCounter ∧
      ((ext.loadProfile user).2.2.1 = false →
        ext.saveResult user { (ext.loadProfile user).1 with LastSuccessfullTOTPCounter :=
          (ext.matched (ext.otpString otp) (ext.decrypt d.EncryptedSecret).1 (t / 30) 30).1 } = none) :=
  go_totp_accept ext now rate0 user otp t h

end KM.Totp

/-! ### `VIPPollCheckHandler` as translated: whose approval a poll collects -/
namespace KM.VipPoll
open KM.Go KM.GoTypes

/-- what the handler does once the method is GET or POST (the two arms of its `switch` are the same code) -/
def core (ext : VipPollExt) : List PollEffect :=
  if ext.parseForm.isSome = true then [.fail 400]
  else match ext.checkAuth 65535 with
    | (_, some _) => []
    | (info, none) =>
      match ext.pollCookie with
      | (_, some _) => [.fail 400]
      | (ck, none) =>
        if ((ext.transaction ck).2 = false ∨ (ext.transaction ck).1.Username ≠ info.Username) then [.fail 412]
        else if ext.expired (ext.transaction ck).1 = true then [.fail 412]
        else match ext.approved (ext.transaction ck).1.TransactionID with
          | (_, some _) => [.askVip (ext.transaction ck).1.TransactionID, .fail 400]
          | (false, none) => [.askVip (ext.transaction ck).1.TransactionID, .fail 412]
          | (true, none) =>
            match ext.upgradeResult info.Username (info.AuthType ||| 16) with
            | (_, some _) => [.askVip (ext.transaction ck).1.TransactionID, .upgrade info.Username (info.AuthType ||| 16), .fail 500]
            | (_, none) => [.askVip (ext.transaction ck).1.TransactionID, .upgrade info.Username (info.AuthType ||| 16),
                            .publish info.Username, .status 200]

/-- the translated handler in normal form -/
theorem handler_eq (ext : VipPollExt) (vipEnabled : Bool) (method : Str) :
    (KM.Gen.GoVip.VIPPollCheckHandler ext vipEnabled method).2 =
      if ext.locked = true then []
      else if vipEnabled = false then [.fail 400]
      else if method = "GET".toList ∨ method = "POST".toList then core ext
      else [.fail 405] := by
  obtain ⟨locked, parseForm, checkAuth, pollCookie, transaction, expired, approved, upgradeResult⟩ := ext
  unfold KM.Gen.GoVip.VIPPollCheckHandler core
  dsimp -iota only
  have hG : "GET".toList = ['G', 'E', 'T'] := by decide
  have hP : "POST".toList = ['P', 'O', 'S', 'T'] := by decide
  rw [hG, hP]
  cases locked with
  | true => rfl
  | false =>
    cases vipEnabled with
    | false => rfl
    | true =>
      have body : ∀ (m : Bool), m = m := fun _ => rfl
      by_cases h1 : method = ['G', 'E', 'T']
      · simp only [h1, beq_self_eq_true, if_true, true_or, Bool.false_eq_true, if_false, Bool.not_true]
        cases hp : parseForm with
        | some e => simp
        | none =>
          rcases hc : checkAuth 65535 with ⟨info, _ | e⟩
          · rcases hk : pollCookie with ⟨ck, _ | e⟩
            · rcases ht : transaction ck with ⟨tx, ok⟩
              cases ok with
              | false => simp [hc, hk, ht]
              | true =>
                by_cases hu : tx.Username = info.Username
                · cases hx : expired tx with
                  | true => simp [hc, hk, ht, hu, hx]
                  | false =>
                    rcases ha : approved tx.TransactionID with ⟨v, _ | e⟩
                    · cases v with
                      | false => simp [hc, hk, ht, hu, hx, ha]
                      | true =>
                        rcases hr : upgradeResult info.Username (info.AuthType ||| 16) with ⟨x, _ | e⟩ <;>
                          simp [hc, hk, ht, hu, hx, ha, hr]
                    · simp [hc, hk, ht, hu, hx, ha]
                · simp [hc, hk, ht, hu]
            · simp [hc, hk]
          · simp [hc]
      · by_cases h2 : method = ['P', 'O', 'S', 'T']
        · subst h2
          have hne : (['P', 'O', 'S', 'T'] == ['G', 'E', 'T']) = false := by decide
          simp only [hne, beq_self_eq_true, if_true, or_true, Bool.false_eq_true, if_false, Bool.not_true]
          cases hp : parseForm with
          | some e => simp
          | none =>
            rcases hc : checkAuth 65535 with ⟨info, _ | e⟩
            · rcases hk : pollCookie with ⟨ck, _ | e⟩
              · rcases ht : transaction ck with ⟨tx, ok⟩
                cases ok with
                | false => simp [hc, hk, ht]
                | true =>
                  by_cases hu : tx.Username = info.Username
                  · cases hx : expired tx with
                    | true => simp [hc, hk, ht, hu, hx]
                    | false =>
                      rcases ha : approved tx.TransactionID with ⟨v, _ | e⟩
                      · cases v with
                        | false => simp [hc, hk, ht, hu, hx, ha]
                        | true =>
                          rcases hr : upgradeResult info.Username (info.AuthType ||| 16) with ⟨x, _ | e⟩ <;>
                            simp [hc, hk, ht, hu, hx, ha, hr]
                      · simp [hc, hk, ht, hu, hx, ha]
                  · simp [hc, hk, ht, hu]
              · simp [hc, hk]
            · simp [hc]
        · simp [h1, h2]

/-- facts about `core` used below: whatever it asks VIP or upgrades concerns the caller's own transaction -/
theorem core_facts (ext : VipPollExt) (e : PollEffect) (he : e ∈ core ext) :
    (∀ id, e = .askVip id →
      ∃ info ck, ext.checkAuth 65535 = (info, none) ∧ ext.pollCookie = (ck, none) ∧ (ext.transaction ck).2 = true ∧
        (ext.transaction ck).1.Username = info.Username ∧ ext.expired (ext.transaction ck).1 = false ∧
        id = (ext.transaction ck).1.TransactionID) ∧
    (∀ u lvl, e = .upgrade u lvl →
      ∃ info ck, ext.checkAuth 65535 = (info, none) ∧ ext.pollCookie = (ck, none) ∧ (ext.transaction ck).2 = true ∧
        (ext.transaction ck).1.Username = info.Username ∧ ext.expired (ext.transaction ck).1 = false ∧
        ext.approved (ext.transaction ck).1.TransactionID = (true, none) ∧
        u = info.Username ∧ lvl = info.AuthType ||| 16) := by
  unfold core at he
  cases hp : ext.parseForm with
  | some x => simp [hp] at he; subst he; exact ⟨(by intro _ h; cases h), (by intro _ _ h; cases h)⟩
  | none =>
    simp only [hp, Option.isSome_none, Bool.false_eq_true, if_false] at he
    rcases hc : ext.checkAuth 65535 with ⟨info, _ | x⟩
    · rw [hc] at he
      dsimp only at he
      rcases hk : ext.pollCookie with ⟨ck, _ | x⟩
      · rw [hk] at he
        dsimp only at he
        by_cases hb : (ext.transaction ck).2 = false ∨ (ext.transaction ck).1.Username ≠ info.Username
        · simp only [hb, if_true, List.mem_singleton] at he; subst he
          exact ⟨(by intro _ h; cases h), (by intro _ _ h; cases h)⟩
        · have hb1 : (ext.transaction ck).2 = true := by
            cases h : (ext.transaction ck).2 with
            | true => rfl
            | false => exact absurd (Or.inl h) hb
          have hb2 : (ext.transaction ck).1.Username = info.Username := by
            by_cases h : (ext.transaction ck).1.Username = info.Username
            · exact h
            · exact absurd (Or.inr h) hb
          simp only [hb, if_false] at he
          cases hx : ext.expired (ext.transaction ck).1 with
          | true =>
            simp only [hx, if_true, List.mem_singleton] at he; subst he
            exact ⟨(by intro _ h; cases h), (by intro _ _ h; cases h)⟩
          | false =>
            simp only [hx, Bool.false_eq_true, if_false] at he
            rcases ha : ext.approved (ext.transaction ck).1.TransactionID with ⟨v, _ | x⟩
            · rw [ha] at he
              cases v with
              | false =>
                simp only [List.mem_cons, List.mem_nil_iff, or_false] at he
                rcases he with rfl | rfl
                · exact ⟨(by intro id h; cases h; exact ⟨info, ck, rfl, rfl, hb1, hb2, hx, rfl⟩), (by intro _ _ h; cases h)⟩
                · exact ⟨(by intro _ h; cases h), (by intro _ _ h; cases h)⟩
              | true =>
                dsimp only at he
                rcases hr : ext.upgradeResult info.Username (info.AuthType ||| 16) with ⟨y, _ | x⟩
                · rw [hr] at he
                  simp only [List.mem_cons, List.mem_nil_iff, or_false] at he
                  rcases he with rfl | rfl | rfl | rfl
                  · exact ⟨(by intro id h; cases h; exact ⟨info, ck, rfl, rfl, hb1, hb2, hx, rfl⟩), (by intro _ _ h; cases h)⟩
                  · exact ⟨(by intro _ h; cases h), (by intro u l h; cases h; exact ⟨info, ck, rfl, rfl, hb1, hb2, hx, ha, rfl, rfl⟩)⟩
                  · exact ⟨(by intro _ h; cases h), (by intro _ _ h; cases h)⟩
                  · exact ⟨(by intro _ h; cases h), (by intro _ _ h; cases h)⟩
                · rw [hr] at he
                  simp only [List.mem_cons, List.mem_nil_iff, or_false] at he
                  rcases he with rfl | rfl | rfl
                  · exact ⟨(by intro id h; cases h; exact ⟨info, ck, rfl, rfl, hb1, hb2, hx, rfl⟩), (by intro _ _ h; cases h)⟩
                  · exact ⟨(by intro _ h; cases h), (by intro u l h; cases h; exact ⟨info, ck, rfl, rfl, hb1, hb2, hx, ha, rfl, rfl⟩)⟩
                  · exact ⟨(by intro _ h; cases h), (by intro _ _ h; cases h)⟩
            · rw [ha] at he
              simp only [List.mem_cons, List.mem_nil_iff, or_false] at he
              rcases he with rfl | rfl
              · exact ⟨(by intro id h; cases h; exact ⟨info, ck, rfl, rfl, hb1, hb2, hx, rfl⟩), (by intro _ _ h; cases h)⟩
              · exact ⟨(by intro _ h; cases h), (by intro _ _ h; cases h)⟩
      · rw [hk] at he; simp only [List.mem_singleton] at he; subst he
        exact ⟨(by intro _ h; cases h), (by intro _ _ h; cases h)⟩
    · rw [hc] at he; cases he

theorem mem_core {ext : VipPollExt} {vipEnabled : Bool} {method : Str} {e : PollEffect}
    (he : e ∈ (KM.Gen.GoVip.VIPPollCheckHandler ext vipEnabled method).2)
    (hne : ∀ c, e ≠ .fail c) : ext.locked = false ∧ vipEnabled = true ∧ e ∈ core ext := by
  rw [handler_eq] at he
  cases hl : ext.locked with
  | true => simp [hl] at he
  | false =>
    cases vipEnabled with
    | false => simp [hl] at he; exact absurd he (hne 400)
    | true =>
      by_cases hm : method = "GET".toList ∨ method = "POST".toList
      · simp only [hl, Bool.false_eq_true, if_false, Bool.true_eq_false, hm, if_true] at he
        exact ⟨rfl, rfl, he⟩
      · simp only [hl, Bool.false_eq_true, if_false, Bool.true_eq_false, hm] at he
        simp only [List.mem_singleton] at he
        exact absurd he (hne 405)

end KM.VipPoll

namespace KM.Totp
open KM.Go KM.GoTypes KM.VipPoll

/-- **a VIP poll raises a session only with an approval of a push sent to that session's own user**, on the
translated source of the whole handler: if `updateAuthCookieAuthlevel` is reached at all, the server is unsealed, the
credential check admitted `info`, the transaction found under the (unauthenticated) poll cookie was started for
`info.Username`, has not expired, the VIP service says it is approved — and what is raised is `info.Username`'s cookie
to `info.AuthType | SymantecVIP`.  For every behaviour of `checkAuth`, of the transaction table and of the VIP service. -/
theorem c05_go_vip_poll_own_user (ext : VipPollExt) (vipEnabled : Bool) (method : Str) (u : Str) (lvl : Nat)
    (h : PollEffect.upgrade u lvl ∈ (KM.Gen.GoVip.VIPPollCheckHandler ext vipEnabled method).2) :
    ext.locked = false ∧
    ∃ info ck, ext.checkAuth 65535 = (info, none) ∧ ext.pollCookie = (ck, none) ∧ (ext.transaction ck).2 = true ∧
      (ext.transaction ck).1.Username = info.Username ∧ ext.expired (ext.transaction ck).1 = false ∧
      ext.approved (ext.transaction ck).1.TransactionID = (true, none) ∧
      u = info.Username ∧ lvl = info.AuthType ||| 16 := by
  obtain ⟨hl, _, hc⟩ := mem_core h (by intro c hh; cases hh)
  exact ⟨hl, (core_facts ext _ hc).2 u lvl rfl⟩

/-- the VIP service is only ever asked about a transaction that belongs to the authenticated caller -/
theorem c05_go_vip_poll_asks_own (ext : VipPollExt) (vipEnabled : Bool) (method : Str) (id : Str)
    (h : PollEffect.askVip id ∈ (KM.Gen.GoVip.VIPPollCheckHandler ext vipEnabled method).2) :
    ∃ info ck, ext.checkAuth 65535 = (info, none) ∧ ext.pollCookie = (ck, none) ∧ (ext.transaction ck).2 = true ∧
      (ext.transaction ck).1.Username = info.Username ∧ ext.expired (ext.transaction ck).1 = false ∧
      id = (ext.transaction ck).1.TransactionID := by
  obtain ⟨_, _, hc⟩ := mem_core h (by intro c hh; cases hh)
  exact (core_facts ext _ hc).1 id rfl

/-- non-vacuity: bob's poll with bob's approved transaction is served; alice's poll with bob's cookie value gets 412 -/
def exPoll (caller : Str) : VipPollExt where
  locked := false
  parseForm := none
  checkAuth _ := (⟨caller, 2, 0, 0⟩, none)
  pollCookie := (['7'], none)
  transaction _ := (⟨0, ['b', 'o', 'b'], ['t', 'x']⟩, true)
  expired _ := false
  approved _ := (true, none)
  upgradeResult _ _ := ([], none)

example : (KM.Gen.GoVip.VIPPollCheckHandler (exPoll ['b', 'o', 'b']) true "POST".toList).2 =
      [.askVip ['t', 'x'], .upgrade ['b', 'o', 'b'] 18, .publish ['b', 'o', 'b'], .status 200] ∧
    (KM.Gen.GoVip.VIPPollCheckHandler (exPoll ['a', 'l', 'i', 'c', 'e']) true "POST".toList).2 = [.fail 412] := by
  decide

end KM.Totp

/-! ### `BootstrapOtpAuthHandler` from the profile load to the cookie upgrade, as translated -/
namespace KM.Boot
open KM.Go KM.GoTypes

/-- the translated block in normal form -/
theorem core_eq (ext : BootExt) (a : authInfo) :
    (KM.Gen.GoBoot.bootstrapOtpCore ext a).2 =
      match ext.loadProfile a.Username with
      | (_, _, _, some _) => [.fail 500]
      | (_, _, true, none) => [.fail 503]
      | (p, _, false, none) =>
        if ext.noHash (ext.storedHash p false) = true then [.fail 412]
        else if ext.hashMatches (ext.storedHash p false) = false then [.fail 401]
        else match ext.saveResult a.Username { p with BootstrapOTP := 0 } with
          | some _ => [.saveProfile a.Username { p with BootstrapOTP := 0 }, .fail 500]
          | none =>
            match ext.upgradeResult a.Username (a.AuthType ||| 256) with
            | (_, some _) => [.saveProfile a.Username { p with BootstrapOTP := 0 }, .upgrade a.Username (a.AuthType ||| 256), .fail 500]
            | (_, none) => [.saveProfile a.Username { p with BootstrapOTP := 0 }, .upgrade a.Username (a.AuthType ||| 256), .reached] := by
  obtain ⟨loadProfile, storedHash, noHash, hashMatches, saveResult, upgradeResult⟩ := ext
  unfold KM.Gen.GoBoot.bootstrapOtpCore
  dsimp -iota only
  rcases hl : loadProfile a.Username with ⟨p, b, fc, _ | e⟩
  · cases fc with
    | true => simp
    | false =>
      cases hn : noHash (storedHash p false) with
      | true => simp [hn]
      | false =>
        cases hm : hashMatches (storedHash p false) with
        | false => simp [hn, hm]
        | true =>
          cases hs : saveResult a.Username { BootstrapOTP := 0 } with
          | some e => simp [hn, hm, hs]
          | none =>
            rcases hu : upgradeResult a.Username (a.AuthType ||| 256) with ⟨x, _ | e⟩ <;> simp [hn, hm, hs, hu]
  · simp

end KM.Boot

namespace KM.Totp
open KM.Go KM.GoTypes

/-- **a bootstrap OTP is spent before it raises the session**, on the translated source: the cookie upgrade is reached
only with a profile read from the PRIMARY store (not the cache), a stored unexpired OTP whose hash the presented value
matches, and only after the profile with the OTP record CLEARED was saved successfully — the save is the effect right
before the upgrade; and what is raised is the authenticated user's cookie to `level | BootstrapOTP` -/
theorem c05_go_bootstrap_consumed_first (ext : BootExt) (a : authInfo) (u : Str) (lvl : Nat)
    (h : BootEffect.upgrade u lvl ∈ (KM.Gen.GoBoot.bootstrapOtpCore ext a).2) :
    ∃ p b, ext.loadProfile a.Username = (p, b, false, none) ∧
      ext.noHash (ext.storedHash p false) = false ∧ ext.hashMatches (ext.storedHash p false) = true ∧
      ext.saveResult a.Username { p with BootstrapOTP := 0 } = none ∧
      u = a.Username ∧ lvl = a.AuthType ||| 256 ∧
      ∃ rest, (KM.Gen.GoBoot.bootstrapOtpCore ext a).2 =
        [.saveProfile a.Username { p with BootstrapOTP := 0 }, .upgrade u lvl] ++ rest := by
  rw [KM.Boot.core_eq] at h ⊢
  rcases hl : ext.loadProfile a.Username with ⟨p, b, fc, _ | e⟩
  · rw [hl] at h
    cases fc with
    | true => simp at h
    | false =>
      dsimp only at h ⊢
      cases hn : ext.noHash (ext.storedHash p false) with
      | true => simp [hn] at h
      | false =>
        cases hm : ext.hashMatches (ext.storedHash p false) with
        | false => simp [hn, hm] at h
        | true =>
          cases hs : ext.saveResult a.Username { BootstrapOTP := 0 } with
          | some e => simp [hn, hm, hs] at h
          | none =>
            rcases hu : ext.upgradeResult a.Username (a.AuthType ||| 256) with ⟨x, _ | e⟩
            · simp [hn, hm, hs, hu] at h
              obtain ⟨rfl, rfl⟩ := h
              exact ⟨p, b, rfl, by first | rfl | assumption, by first | rfl | assumption, by first | rfl | assumption, rfl, rfl, [.reached], by simp [hn, hm, hs, hu]⟩
            · simp [hn, hm, hs, hu] at h
              obtain ⟨rfl, rfl⟩ := h
              exact ⟨p, b, rfl, by first | rfl | assumption, by first | rfl | assumption, by first | rfl | assumption, rfl, rfl, [.fail 500], by simp [hn, hm, hs, hu]⟩
  · rw [hl] at h; simp at h

/-- **the TOTP step raises the caller's cookie only after `validateUserTOTP` said yes for the caller**, on the
translated source of `internalTOTPAuthHandler`: the upgrade is reached only when `validateUserTOTP(authUser, code)`
returned `(true, nil)` — whose meaning is `c05_go_totp_accept` — and it raises `authUser`'s cookie to `level | TOTP` -/
theorem c05_go_totp_upgrade (ext : TotpAuthExt) (user : Str) (level : Nat) (otp : Int) (u : Str) (lvl : Nat)
    (h : BootEffect.upgrade u lvl ∈ (KM.Gen.GoBoot.totpAuthCore ext user level otp).2) :
    ext.validate user otp = (true, none) ∧ u = user ∧ lvl = level ||| 64 := by
  obtain ⟨validate, upgradeResult⟩ := ext
  revert h
  unfold KM.Gen.GoBoot.totpAuthCore
  dsimp -iota only
  rcases hv : validate user otp with ⟨v, _ | e⟩
  · cases v with
    | false => simp
    | true =>
      rcases hu : upgradeResult user (level ||| 64) with ⟨x, _ | e⟩ <;> simp [hu] <;> intro h1 h2 <;> exact ⟨h1, h2⟩
  · simp

end KM.Totp

/-! ## `webauthnAuthFinish` from the verification decision to the response (`KM/Gen/GoWebauthn.lean`, block with a join
point; `go state.SaveUserProfile(…)` is recorded as an effect where the goroutine is started) -/
namespace KM.WebauthnGo
open KM.GoTypes KM.Go

/-- the verification that must have succeeded, and the level it earns -/
def Verified (ext : WaExt) (credentialFound : Bool) (authType lvl : Nat) : Prop :=
  (credentialFound = false ∧ ext.validateLogin.2 = none ∧ lvl = ((authType ||| 2048) ||| 8)) ∨
  (credentialFound = true ∧ ext.verifyLocal = none ∧ lvl = ((authType ||| 8) ||| 8))

/-- **the cookie is raised only for the user who proved the factor, only after a verification succeeded, and only once
per pending challenge** (C05, C16), on the translated source of `webauthnAuthFinish` (from the verification decision to
the response): the upgrade is reached only for `authData.Username`; only after the library's `ValidateLogin` (no local
credential matched) or the unrolled `parsedResponse.Verify` with the matched credential's key returned no error — the
level gained is FIDO2+U2F in the first case, U2F in the second, on top of what the session had —; and only when
`consumeLoginChallenge` found the pending challenge still there (it is consumed before the upgrade). -/
theorem c05_go_webauthn_upgrade (ext : WaExt) (user : List Char) (authType : Nat)
    (credentialFound fromCache isXHR : Bool) (u : List Char) (lvl : Nat)
    (h : WaEffect.upgrade u lvl ∈
      (KM.Gen.GoWebauthn.webauthnFinishCore ext user authType credentialFound fromCache isXHR).2) :
    u = user ∧ Verified ext credentialFound authType lvl ∧ ext.consumeResult user = true ∧
    WaEffect.consume user ∈
      (KM.Gen.GoWebauthn.webauthnFinishCore ext user authType credentialFound fromCache isXHR).2 := by
  obtain ⟨⟨vl, vle⟩, vloc, uv, ⟨reg, rok⟩, nc, cr, ur⟩ := ext
  unfold KM.Gen.GoWebauthn.webauthnFinishCore at h ⊢
  unfold Verified
  dsimp only at h ⊢
  by_cases hc0 : cr user = false
  · cases credentialFound <;> cases vle <;> cases vloc <;> cases rok <;> cases fromCache <;> simp [hc0] at h
  · have hc : cr user = true := by cases h' : cr user <;> simp_all
    cases credentialFound <;> cases vle <;> cases vloc <;> cases rok <;> cases fromCache <;> cases isXHR <;>
      simp [hc] at h ⊢ <;> (try split at h) <;> simp_all

/-- a profile that came from the offline cache is never written back: the save is started only when `fromCache` is
false (and only for the authenticated user) -/
theorem c05_go_webauthn_save_not_from_cache (ext : WaExt) (user : List Char) (authType : Nat)
    (credentialFound fromCache isXHR : Bool) (u : List Char)
    (h : WaEffect.saveProfile u ∈
      (KM.Gen.GoWebauthn.webauthnFinishCore ext user authType credentialFound fromCache isXHR).2) :
    u = user ∧ fromCache = false ∧ credentialFound = true ∧ ext.verifyLocal = none := by
  obtain ⟨⟨vl, vle⟩, vloc, uv, ⟨reg, rok⟩, nc, cr, ur⟩ := ext
  unfold KM.Gen.GoWebauthn.webauthnFinishCore at h
  dsimp only at h
  by_cases hc0 : cr user = false
  · cases credentialFound <;> cases vle <;> cases vloc <;> cases rok <;> cases fromCache <;> simp [hc0] at h ⊢ <;>
      simp_all
  · have hc : cr user = true := by cases h' : cr user <;> simp_all
    cases credentialFound <;> cases vle <;> cases vloc <;> cases rok <;> cases fromCache <;> cases isXHR <;>
      simp [hc] at h ⊢ <;> (try split at h) <;> simp_all

end KM.WebauthnGo

/-! ## `updateAuthCookieAuthlevel`, the whole function (`KM/Gen/GoCookieUp.lean`) -/
namespace KM.CookieUpGo
open KM.GoTypes KM.Go KM.CheckAuthGo

/-- **closed form of the translated function**: the LAST `auth_cookie` of the request is the one re-signed -/
theorem cookie_up_eq (ext : CookieUpExt) (cookies : List Cookie) (user : List Char) (lvl : Nat) :
    KM.Gen.GoCookieUp.updateAuthCookieAuthlevel ext cookies user lvl =
      match lastAuth cookies with
      | none => (([], some "cannot find authCookie".toList), [])
      | some c =>
        match ext.upgradeJWT c.value user lvl with
        | (_, some e) => (([], some e), [])
        | (v, none) => ((c.value, none), [.setCookie v]) := by
  obtain ⟨up⟩ := ext
  unfold KM.Gen.GoCookieUp.updateAuthCookieAuthlevel
  dsimp only
  rw [cookie_loop]
  generalize hl' : lastNamed "auth_cookie".toList cookies none = la
  have hl : lastAuth cookies = la := hl'
  rw [hl]
  cases la with
  | none => rfl
  | some c =>
    simp only [Option.isNone_some, Bool.false_eq_true, if_false, cookieValue]
    have key : ∀ r : List Char × Option Err,
        (if r.2.isSome = true then ((([] : List Char), r.2), ([] : List CookieUpEffect))
          else ((c.value, none), [] ++ [CookieUpEffect.setCookie r.1])) =
        (match r with
          | (_, some e) => (([], some e), [])
          | (v, none) => ((c.value, none), [CookieUpEffect.setCookie v])) := by
      intro r
      obtain ⟨v, e⟩ := r
      cases e <;> simp
    exact key _

/-- **the cookie that is set is a re-signing of the request's own auth cookie for the named user** (C05): a cookie is
set only when the request carries an `auth_cookie`, `updateAuthJWTWithNewAuthLevel` accepted the LAST one for
`username` at the new level, and the value set is exactly what that call returned; nothing else is ever set. -/
theorem c05_go_cookie_upgrade (ext : CookieUpExt) (cookies : List Cookie) (user : List Char) (lvl : Nat) (v : List Char)
    (h : CookieUpEffect.setCookie v ∈ (KM.Gen.GoCookieUp.updateAuthCookieAuthlevel ext cookies user lvl).2) :
    ∃ c, lastAuth cookies = some c ∧ ext.upgradeJWT c.value user lvl = (v, none) ∧
      KM.Gen.GoCookieUp.updateAuthCookieAuthlevel ext cookies user lvl = ((c.value, none), [.setCookie v]) := by
  rw [cookie_up_eq] at h ⊢
  cases hl : lastAuth cookies with
  | none => rw [hl] at h; simp at h
  | some c =>
    rw [hl] at h
    simp only at h ⊢
    rcases hu : ext.upgradeJWT c.value user lvl with ⟨v', _ | e⟩
    · rw [hu] at h
      simp only [List.mem_singleton, CookieUpEffect.setCookie.injEq] at h
      subst h
      exact ⟨c, rfl, hu, rfl⟩
    · rw [hu] at h; simp at h

/-- **composed with the translated `updateAuthJWTWithNewAuthLevel`** (`c04_go_upgrade_accept`): whenever the real pair
of functions sets a cookie, the request's last auth cookie parsed under the deployment's algorithm list, passed the
signature check, is a valid SESSION token of this issuer whose SUBJECT IS `username`, and the value set is the
re-signing of those same claims with only the level replaced. -/
theorem c05_go_cookie_upgrade_end_to_end (jext : JwtExt) (now : Int) (cookies : List Cookie) (user : List Char)
    (lvl : Nat) (v : List Char)
    (h : CookieUpEffect.setCookie v ∈ (KM.Gen.GoCookieUp.updateAuthCookieAuthlevel
      ⟨fun tok u l => KM.Gen.GoJwt.updateAuthJWTWithNewAuthLevel jext now tok u (l : Int)⟩ cookies user lvl).2) :
    ∃ c sa algos sg t cl, lastAuth cookies = some c ∧ jext.signerAlgo = (sa, none) ∧
      jext.verifierList = (algos, none) ∧ jext.newSigner = (sg, none) ∧
      jext.parseSigned c.value algos = (t, none) ∧ jext.authClaims t = (cl, none) ∧
      KM.TokenGo.valuesOK cl.Issuer cl.TokenType cl.Audience cl.NotBefore jext.issuer "keymaster_auth".toList now ∧
      cl.Subject = user ∧ jext.resign { cl with AuthType := (lvl : Int) } = (v, none) := by
  obtain ⟨c, hl, hu, _⟩ := c05_go_cookie_upgrade _ cookies user lvl v h
  simp only at hu
  obtain ⟨sa, algos, sg, t, cl, h1, h2, h3, h4, h5, h6, h7, h8⟩ :=
    (KM.TokenGo.c04_go_upgrade_accept jext now c.value user (lvl : Int) v).mp hu
  exact ⟨c, sa, algos, sg, t, cl, hl, h1, h2, h3, h4, h5, h6, h7, h8⟩

end KM.CookieUpGo

/-! ## `VIPAuthHandler` from `checkAuth` to the response (`KM/Gen/GoVipOtp.lean`, block with a join point) -/
namespace KM.VipOtpGo
open KM.GoTypes KM.Go

/-- the code the handler reads from the form: the single `OTP` value, or the empty string -/
def otpString (formOTP : List (List Char) × Bool) : List Char :=
  if formOTP.2 then formOTP.1.headD [] else []

/-- **a VIP one-time code raises only the cookie of the user it was validated for** (C05), on the translated source of
`VIPAuthHandler` (from `checkAuth` to the response): the upgrade is reached only when `checkAuth` admitted the request,
VIP is enabled, the single `OTP` form value parsed, and the VIP service — asked about exactly the authenticated user and
that code — answered `true` without an error; the cookie raised is that user's, by the VIP bit. -/
theorem c05_go_vip_otp_upgrade (ext : VipOtpExt) (formOTP : List (List Char) × Bool) (vipEnabled : Bool)
    (u : List Char) (lvl : Nat)
    (h : VipOtpEffect.upgrade u lvl ∈ (KM.Gen.GoVipOtp.vipOtpCore ext formOTP vipEnabled).2) :
    ∃ info otp, ext.checkAuth 65535 = (info, none) ∧ u = info.Username ∧ lvl = (info.AuthType ||| 16) ∧
      vipEnabled = true ∧ ext.atoi (otpString formOTP) = (otp, none) ∧
      ext.vipValidate info.Username otp = (true, none) ∧
      VipOtpEffect.asked info.Username otp ∈ (KM.Gen.GoVipOtp.vipOtpCore ext formOTP vipEnabled).2 := by
  obtain ⟨ca, atoi, vv, ur⟩ := ext
  obtain ⟨vals, ok⟩ := formOTP
  unfold KM.Gen.GoVipOtp.vipOtpCore at h ⊢
  unfold otpString
  dsimp only at h ⊢
  rcases hca : ca 65535 with ⟨info, _ | e⟩
  · rw [hca] at h
    simp only [Option.isSome_none, Bool.false_eq_true, if_false] at h ⊢
    refine ⟨info, (atoi (if ok = true then vals.headD [] else [])).1, rfl, ?_⟩
    cases ok <;> cases vipEnabled <;> simp only [Bool.false_eq_true, if_false, if_true, Bool.not_true, Bool.not_false] at h ⊢ <;>
      (repeat' split at h) <;> simp_all [Prod.ext_iff] <;> (try (rw [if_neg (by omega)])) <;> simp
  · rw [hca] at h; simp at h

end KM.VipOtpGo

/-! ## Okta: `oktaPollCheckHandler` from `checkAuth` to the end (tail block) and the core of `Okta2FAuthHandler`
(`KM/Gen/GoOkta.lean`) -/
namespace KM.OktaGo
open KM.GoTypes KM.Go

/-- **an approved Okta push raises only the cookie of the user Okta was asked about** (C05), on the translated source of
`oktaPollCheckHandler` (from `checkAuth` to the end): the upgrade is reached only when `checkAuth` admitted the request,
the password backend is Okta, and Okta — asked about the push of exactly the authenticated user — answered "approved"
without an error; the cookie raised is that user's, by the Okta bit; 200 is answered only after that upgrade succeeded. -/
theorem c05_go_okta_poll_upgrade (ext : OktaExt) (isOkta : Bool) (u : List Char) (lvl : Nat)
    (h : OktaEffect.upgrade u lvl ∈ (KM.Gen.GoOkta.oktaPollCore ext isOkta).2) :
    ∃ info, ext.checkAuth 65535 = (info, none) ∧ isOkta = true ∧ u = info.Username ∧ lvl = (info.AuthType ||| 128) ∧
      ext.push info.Username = (1, none) ∧ OktaEffect.askedPush info.Username ∈ (KM.Gen.GoOkta.oktaPollCore ext isOkta).2 := by
  obtain ⟨ca, push, otp, ur⟩ := ext
  unfold KM.Gen.GoOkta.oktaPollCore at h ⊢
  dsimp only at h ⊢
  refine ⟨(ca 65535).1, ?_⟩
  cases isOkta <;> simp only [Bool.false_eq_true, if_false, if_true, Bool.not_true, Bool.not_false] at h ⊢ <;>
    (repeat' split at h) <;> simp_all [Prod.ext_iff]

/-- **an Okta code raises only the cookie of the user it was validated for** (C05), on the translated core of
`Okta2FAuthHandler`: the upgrade is reached only when the backend is Okta and Okta — asked about exactly the user and
code that `commonTOTPPostHandler` handed over — answered `true` without an error; the cookie raised is that user's. -/
theorem c05_go_okta_otp_upgrade (ext : OktaExt) (isOkta : Bool) (user : List Char) (level otpv : Nat)
    (u : List Char) (lvl : Nat)
    (h : OktaEffect.upgrade u lvl ∈ (KM.Gen.GoOkta.oktaOtpCore ext isOkta user level otpv).2) :
    isOkta = true ∧ u = user ∧ lvl = (level ||| 128) ∧ ext.otp user otpv = (true, none) ∧
      OktaEffect.askedOtp user otpv ∈ (KM.Gen.GoOkta.oktaOtpCore ext isOkta user level otpv).2 := by
  obtain ⟨ca, push, otp, ur⟩ := ext
  unfold KM.Gen.GoOkta.oktaOtpCore at h ⊢
  dsimp only at h ⊢
  cases isOkta <;> simp only [Bool.false_eq_true, if_false, if_true, Bool.not_true, Bool.not_false] at h ⊢ <;>
    (repeat' split at h) <;> simp_all [Prod.ext_iff]

end KM.OktaGo

/-! ## `u2fSignResponse`: the two verification loops to the end of the function (`KM/Gen/GoU2f.lean`, tail block; maps
ranged over as lists of pairs in any order) -/
namespace KM.U2fGo
open KM.GoTypes KM.Go

/-- what a raised cookie rests on -/
def Proved (ext : U2fExt) (user : List Char) (authType : Nat) (u : List Char) (lvl : Nat) : Prop :=
  u = user ∧ lvl = (authType ||| 8) ∧ ext.consumeResult user = true ∧
  ((∃ kv ∈ ext.regs, kv.2.Enabled = true ∧ (ext.authenticate kv.2).2 = none) ∨
   (∃ kv ∈ ext.waRegs, kv.2.Enabled = true ∧ (ext.toU2f kv.2).2 = none ∧
      (ext.authenticate (ext.toU2f kv.2).1).2 = none))

/-- **a U2F signature raises only the cookie of the user whose own token produced it, once per pending challenge**
(C05, C16), on the translated source of `u2fSignResponse` (the two verification loops to the end of the function; the
maps are ranged over in ANY order): the upgrade is reached only for `authData.Username`, by the U2F bit, only when
`consumeLoginChallenge` found the pending challenge still there, and only when the sign response authenticated
against an ENABLED U2F registration of that user's profile — or against the U2F form of an enabled WebAuthn
registration of that profile. Proved with the Hoare rule for `forRange` (invariant: nothing has been recorded before
the pass that returns). -/
theorem c05_go_u2f_upgrade (ext : U2fExt) (user : List Char) (authType : Nat) (isXHR : Bool) (u : List Char) (lvl : Nat)
    (h : U2fEffect.upgrade u lvl ∈ (KM.Gen.GoU2f.u2fVerifyCore ext user authType isXHR).2) :
    Proved ext user authType u lvl := by
  obtain ⟨regs, waRegs, auth, toU2f, cr, ur⟩ := ext
  unfold KM.Gen.GoU2f.u2fVerifyCore at h
  dsimp only at h
  revert h
  generalize hb1 : (fun (kv_ : Nat × u2fAuthData) (st : Option Err × List U2fEffect) => _) = body1
  generalize hb2 : (fun (kv_ : Nat × webauthAuthData) (st : List U2fEffect) => _) = body2
  have step1 : ∀ kv ∈ regs, ∀ s : Option Err × List U2fEffect, s.2 = [] →
      (body1 kv s).post (fun s => s.2 = [])
        (fun r => U2fEffect.upgrade u lvl ∈ r.2 → Proved ⟨regs, waRegs, auth, toU2f, cr, ur⟩ user authType u lvl) := by
    intro kv hkv s hs
    obtain ⟨i, reg⟩ := kv
    obtain ⟨e, tr⟩ := s
    simp only at hs
    subst hs hb1
    dsimp only
    by_cases hen : reg.Enabled = true
    · simp only [hen, Bool.not_true, Bool.false_eq_true, if_false]
      by_cases hau : (auth reg).2.isNone = true
      · simp only [hau, if_true]
        by_cases hc : cr user = true
        · simp only [hc, Bool.not_true, Bool.false_eq_true, if_false]
          have hP : Proved ⟨regs, waRegs, auth, toU2f, cr, ur⟩ user authType user (authType ||| 8) :=
            ⟨rfl, rfl, hc, Or.inl ⟨(i, reg), hkv, hen, by simpa using hau⟩⟩
          by_cases hu : (ur user (authType ||| 8)).2.isSome = true
          · simp only [hu, if_true, Ctl.post]
            intro hm
            cases isXHR <;> simp at hm <;> (obtain ⟨rfl, rfl⟩ := hm; exact hP)
          · simp only [hu, Ctl.post]
            intro hm
            cases isXHR <;> simp at hm <;> (obtain ⟨rfl, rfl⟩ := hm; exact hP)
        · have hc' : cr user = false := by simpa using hc
          simp only [hc', Bool.not_false, if_true, Ctl.post]
          intro hm; simp at hm
      · simp [hau, Ctl.post]
    · have hen' : reg.Enabled = false := by simpa using hen
      simp [hen', Ctl.post]
  have step2 : ∀ kv ∈ waRegs, ∀ s : List U2fEffect, s = [] →
      (body2 kv s).post (fun s => s = [])
        (fun r => U2fEffect.upgrade u lvl ∈ r.2 → Proved ⟨regs, waRegs, auth, toU2f, cr, ur⟩ user authType u lvl) := by
    intro kv hkv s hs
    obtain ⟨i, wa⟩ := kv
    subst hs hb2
    dsimp only
    by_cases hen : wa.Enabled = true
    · simp only [hen, Bool.not_true, Bool.false_eq_true, if_false]
      by_cases hconv : (toU2f wa).2.isSome = true
      · simp [hconv, Ctl.post]
      · simp only [hconv]
        by_cases hau : (auth (toU2f wa).1).2.isNone = true
        · simp only [hau, if_true]
          by_cases hc : cr user = true
          · simp only [hc, Bool.not_true, Bool.false_eq_true, if_false]
            have hP : Proved ⟨regs, waRegs, auth, toU2f, cr, ur⟩ user authType user (authType ||| 8) :=
              ⟨rfl, rfl, hc, Or.inr ⟨(i, wa), hkv, hen, by simpa using hconv, by simpa using hau⟩⟩
            by_cases hu : (ur user (authType ||| 8)).2.isSome = true
            · simp only [hu, if_true, Ctl.post]
              intro hm
              cases isXHR <;> simp at hm <;> (obtain ⟨rfl, rfl⟩ := hm; exact hP)
            · simp only [hu, Ctl.post]
              intro hm
              cases isXHR <;> simp at hm <;> (obtain ⟨rfl, rfl⟩ := hm; exact hP)
          · have hc' : cr user = false := by simpa using hc
            simp only [hc', Bool.not_false, if_true, Ctl.post]
            intro hm; simp at hm
        · simp [hau, Ctl.post]
    · have hen' : wa.Enabled = false := by simpa using hen
      simp [hen', Ctl.post]
  cases h1 : forRange regs (none, []) body1 with
  | ret r =>
    intro h
    exact forRange_ret h1 (fun s => s.2 = []) _ rfl step1 h
  | done s =>
    obtain ⟨e, tr⟩ := s
    have htr : tr = [] := forRange_done h1 (fun s => s.2 = [])
      (fun r => U2fEffect.upgrade u lvl ∈ r.2 → Proved ⟨regs, waRegs, auth, toU2f, cr, ur⟩ user authType u lvl) rfl step1
    subst htr
    simp only
    cases h2 : forRange waRegs [] body2 with
    | ret r =>
      intro h
      exact forRange_ret h2 (fun s => s = []) _ rfl step2 h
    | done tr2 =>
      have htr2 : tr2 = [] := forRange_done h2 (fun s => s = [])
        (fun r => U2fEffect.upgrade u lvl ∈ r.2 → Proved ⟨regs, waRegs, auth, toU2f, cr, ur⟩ user authType u lvl) rfl step2
      subst htr2
      intro h; simp at h

end KM.U2fGo

/-! ## `commonTOTPPostHandler`, the whole function (`KM/Gen/GoCommonOtp.lean`), and its composition with the Okta core -/
namespace KM.CommonOtpGo
open KM.GoTypes KM.Go

/-- the code the handler reads from the form -/
def otpString (formOTP : List (List Char) × Bool) : List Char :=
  if formOTP.2 then formOTP.1.headD [] else []

/-- **the TOTP and Okta handlers work with the identity `checkAuth` admitted, and with nothing else** (C05), on the
translated source of `commonTOTPPostHandler` (whole function): it returns without an error only on an unsealed server,
for a POST, when `checkAuth` admitted the request at the required level; the name and level it hands on are that
identity's, the code is the single `OTP` form value. -/
theorem c05_go_common_otp (ext : CommonOtpExt) (method : List Char) (formOTP : List (List Char) × Bool) (req : Nat)
    (u : List Char) (lvl otp : Nat)
    (h : (KM.Gen.GoCommonOtp.commonTOTPPostHandler ext method formOTP req).1 = (u, lvl, otp, none)) :
    ext.locked = false ∧ method = "POST".toList ∧
    ∃ info, ext.checkAuth req = (info, none) ∧ u = info.Username ∧ lvl = info.AuthType ∧
      ext.atoi (otpString formOTP) = (otp, none) := by
  obtain ⟨locked, ca, pf, atoi⟩ := ext
  obtain ⟨vals, ok⟩ := formOTP
  unfold KM.Gen.GoCommonOtp.commonTOTPPostHandler at h
  unfold otpString
  dsimp only at h ⊢
  refine ⟨?_, ?_, (ca req).1, ?_⟩ <;>
  (cases locked <;> cases ok <;> cases pf <;>
    simp only [Bool.false_eq_true, if_false, if_true, Option.isSome_none, Option.isSome_some] at h ⊢ <;>
    (repeat' split at h) <;> simp_all [Prod.ext_iff])

/-- **composed with the translated core of `Okta2FAuthHandler`**: whenever the real pair raises a cookie, it is the
cookie of the user `checkAuth` admitted, and Okta confirmed the submitted code for exactly that user. -/
theorem c05_go_okta_otp_end_to_end (cext : CommonOtpExt) (oext : OktaExt) (method : List Char)
    (formOTP : List (List Char) × Bool) (isOkta : Bool) (u0 : List Char) (lvl0 otp : Nat) (u : List Char) (lvl : Nat)
    (h0 : (KM.Gen.GoCommonOtp.commonTOTPPostHandler cext method formOTP 65535).1 = (u0, lvl0, otp, none))
    (h : OktaEffect.upgrade u lvl ∈ (KM.Gen.GoOkta.oktaOtpCore oext isOkta u0 lvl0 otp).2) :
    ∃ info, cext.checkAuth 65535 = (info, none) ∧ u = info.Username ∧ lvl = (info.AuthType ||| 128) ∧
      oext.otp info.Username otp = (true, none) := by
  obtain ⟨_, _, info, hca, rfl, rfl, _⟩ := c05_go_common_otp cext method formOTP 65535 u0 lvl0 otp h0
  obtain ⟨_, rfl, rfl, hotp, _⟩ := KM.OktaGo.c05_go_okta_otp_upgrade oext isOkta _ _ otp u lvl h
  exact ⟨info, hca, rfl, rfl, hotp⟩

end KM.CommonOtpGo
