/-! # C14 — property theorems (stub: not built yet) -/
