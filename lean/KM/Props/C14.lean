import KM.Lemmas.RateLimit
import KM.Gen.C14
/-! # C14 — password and one-time-code guessing is throttled

Property theorems only.

* `runBucket`/`allowStep` mirror `golang.org/x/time/rate` `Limiter.AllowN(t, 1)` over exact scaled
  integers; `passwordAttempt` is "limiter first, backend only when admitted" — that this is the
  shape of both entry points is `c14_before_backend` (table regenerated from the source).
* `step` mirrors `validateUserTOTP` (repaired), `stepOld` the function as found; `monStep` is the
  property as a monitor over the observable history (used by the `judge` too).

Times are nanoseconds; rates are milli-events per second; one token is `tokenUnit` = 10^12. -/
namespace KM.RateLimit

/-! ## password attempts: the global token bucket -/

/-- **Bucket**: for every limiter configuration (rate ≤ 10^9/s), every limiter state within the
invariant and every non-decreasing list of request times t₁ ≤ t₂ ≤ … ≤ t_last, the number of
admitted requests is at most burst + ⌈rate · (t_last − t₁)⌉. -/
theorem c14_bucket (p : Limit) (b : Bucket) (t1 : Int) (ts : List Int)
    (hrate : (p.rateMilli : Int) ≤ tokenUnit) (hb : TokOK p b) (hts : NonDecr t1 ts) :
    ((runBucket p b (t1 :: ts)).2 : Int) ≤ bucketBound p (lastOr t1 ts - t1) := by
  have h1 := run_bound p (t1 :: ts) b t1 hb.1 ⟨Int.le_refl _, hts⟩
  have h2 := (tokOK_run (p := p) (t1 :: ts) hb).2
  simp only [lastOr] at h1
  unfold bucketBound ceilDiv
  rw [Int.mul_comm (p.rateMilli : Int)]
  generalize (lastOr t1 ts - t1) * (p.rateMilli : Int) = X at h1 ⊢
  generalize (runBucket p b (t1 :: ts)).1.tokens = T at h1 h2
  generalize ((runBucket p b (t1 :: ts)).2 : Int) = c at h1 ⊢
  unfold tokenUnit at *
  omega

/-- a limiter as built by `rate.NewLimiter` is within the invariant, whatever its `last` -/
theorem c14_bucket_new (p : Limit) (t0 t1 : Int) (ts : List Int)
    (hrate : (p.rateMilli : Int) ≤ tokenUnit) (hts : NonDecr t1 ts) :
    ((runBucket p (Bucket.new p t0) (t1 :: ts)).2 : Int) ≤ bucketBound p (lastOr t1 ts - t1) :=
  c14_bucket p _ t1 ts hrate (tokOK_new p t0) hts

/-- **Any window**: after an arbitrary earlier history `pre` (any times, in any order) the bound
holds for the requests of every later non-decreasing window. -/
theorem c14_bucket_window (p : Limit) (t0 : Int) (pre : List Int) (t1 : Int) (ts : List Int)
    (hrate : (p.rateMilli : Int) ≤ tokenUnit) (hts : NonDecr t1 ts) :
    ((runBucket p (Bucket.new p t0) (pre ++ t1 :: ts)).2 : Int)
      ≤ (runBucket p (Bucket.new p t0) pre).2 + bucketBound p (lastOr t1 ts - t1) := by
  have h := c14_bucket p (runBucket p (Bucket.new p t0) pre).1 t1 ts hrate
    (tokOK_run pre (tokOK_new p t0)) hts
  rw [(runBucket_append p pre (Bucket.new p t0) (t1 :: ts)).1]
  push_cast
  omega

/-- **Backend calls**: with the limiter consulted first (`passwordAttempt`), the password backend is
reached at most burst + ⌈rate·Δ⌉ times; every other attempt is answered `tooMany` (429) without a
lookup. -/
theorem c14_backend_bound (p : Limit) (t0 t1 : Int) (ts : List Int)
    (hrate : (p.rateMilli : Int) ≤ tokenUnit) (hts : NonDecr t1 ts) :
    ((((pwRun p (Bucket.new p t0) (t1 :: ts)).filter (· = PwResp.backend)).length : Nat) : Int)
        ≤ bucketBound p (lastOr t1 ts - t1) ∧
    ∀ r ∈ pwRun p (Bucket.new p t0) (t1 :: ts), r = .backend ∨ r = .tooMany := by
  constructor
  · rw [pwRun_backend_count]
    exact c14_bucket_new p t0 t1 ts hrate hts
  · intro r _
    cases r
    · exact Or.inr rfl
    · exact Or.inl rfl

/-- non-vacuity and sharpness: burst 10, 1/s — 13 requests in the same instant admit exactly 10;
one second later exactly one more. -/
example : (runBucket ⟨1000, 10⟩ (Bucket.new ⟨1000, 10⟩ 0) (List.replicate 13 5000000000)).2 = 10 ∧
    bucketBound ⟨1000, 10⟩ 0 = 10 := by decide
example : (runBucket ⟨1000, 10⟩ (Bucket.new ⟨1000, 10⟩ 0)
    (List.replicate 13 5000000000 ++ [6000000000, 6000000000])).2 = 11 ∧
    bucketBound ⟨1000, 10⟩ 1000000000 = 11 := by decide
example : NonDecr 5 [5, 6, 6, 9] := ⟨by decide, by decide, by decide, by decide, trivial⟩

/-! ## tables regenerated from the source -/

open KM.Gen.C14 in
/-- **Limiter before backend** (regenerated table): the only caller of `PasswordAuthenticate` is
`checkUserPassword`; the functions calling `checkUserPassword` are exactly `checkAuth` (basic-auth
branch) and `loginHandler`, and in both every such call follows, in the same statement list, an
`if err := state.checkPasswordAttemptLimit(…); err != nil { …; return }`; `checkPasswordAttemptLimit`
is `if !limiter.Allow() { writeFailureResponse(…, 429, …); …; return err }; return nil`. -/
theorem c14_before_backend :
    backendCallers.all (fun c => c.2 == GuardClass.guarded) = true ∧
    backendCallers.map (·.1) = ["checkAuth".toList, "loginHandler".toList] ∧
    passwordAuthenticateCallers = ["checkUserPassword".toList] ∧
    limitCheck = { stmtCount := 2, condIsNotAllow := true, refusalStatus := some 429,
                   refusalReturnsError := true, refusalCallsBackend := false,
                   passReturnsNil := true } := by
  decide

open KM.Gen.C14 in
/-- **Limiter configuration** (regenerated table): built once from the two configuration fields
after defaults, file and clamps have been applied; never reassigned or re-tuned; whatever the
file says, burst ≥ 10 and rate ≥ 1/s. -/
theorem c14_limiter_config :
    limiterConfig.builtFromConfigFields = true ∧ limiterConfig.orderOK = true ∧
    limiterConfig.assignSites = 1 ∧ limiterConfig.mutatorCalls = 0 ∧
    limiterConfig.defaultBurst = some 100 ∧ limiterConfig.defaultRateMilli = some 10000 ∧
    (∀ burst : Nat, ∃ b, clamp limiterConfig.clampBurst burst = some b ∧ 10 ≤ b ∧ burst ≤ b) ∧
    (∀ rate : Nat, ∃ r, clamp limiterConfig.clampRateMilli rate = some r ∧ 1000 ≤ r ∧ rate ≤ r) := by
  refine ⟨by decide, by decide, by decide, by decide, by decide, by decide, ?_, ?_⟩
  · intro burst
    refine ⟨if burst < 10 then 10 else burst, rfl, ?_, ?_⟩ <;> split <;> omega
  · intro rate
    refine ⟨if rate < 1000 then 1000 else rate, rfl, ?_, ?_⟩ <;> split <;> omega

open KM.Gen.C14 in
/-- **The configured limits are the enforced ones** (regenerated table + the statement's own floor):
for every burst and rate an operator writes into the config file, the limiter `loadVerifyConfigFile`
builds has exactly that burst and rate, raised to the floor (10, 1/s) only when they are below it —
in particular a configured burst of 10…99 is *not* replaced by the default. The `judge` bounds bursts
through a loader-built state with these `Spec.enforced…` values. -/
theorem c14_configured_enforced (burst rate : Nat) :
    effective limiterConfig.defaultBurst limiterConfig.clampBurst (some burst)
      = some (Spec.enforcedBurst burst) ∧
    effective limiterConfig.defaultRateMilli limiterConfig.clampRateMilli (some rate)
      = some (Spec.enforcedRateMilli rate) := by
  constructor
  · show some (if burst < 10 then 10 else burst) = some (max burst 10)
    congr 1; split <;> omega
  · show some (if rate < 1000 then 1000 else rate) = some (max rate 1000)
    congr 1; split <;> omega

open KM.Gen.C14 in
/-- **validateUserTOTP as read** (regenerated table): the statement order the model follows —
spacing test and `lastCheckTime` update under the mutex, then lock-out test, 24 h reset, replay
guard, the device loop (per enabled device `totpMatchedCounter`; a miss or a step not later than the
last accepted one goes on, i.e. ends in the failure path; otherwise the matched step is saved),
`failCount++`, the lock-out update, `lastFailTime`; the constants are the ones declared (2 s, 24 h,
every 5th); `totpMatchedCounter` tries `counter`, `counter-1`, `counter+1` with skew 0 through
`totp.ValidateCustom` and returns the step that validated; it is the only code comparison of an
authentication path (`validateNewTOTP` checks an enrolment against the user's own pending secret). -/
theorem c14_totp_source :
    totpOrder = [.loadProfile, .loadErr, .lock, .readLimit, .spacingTest, .setLastCheck, .storeLimit,
      .unlock, .lockoutTest, .resetTest, .replayTest, .deviceLoop, .incFail, .lockoutUpdate,
      .setLastFail, .lock, .storeLimit, .unlock, .retFalse] ∧
    spacingSecsUsed = minSecsBetweenTOTPValidations ∧ 2 ≤ spacingSecsUsed ∧
    resetSecsUsed = numHoursForLocalTOTPRateLimitReset * 3600 ∧
    everyUsed = numFailedTOTPChecksForTimeoutIncrease ∧ 0 < everyUsed ∧ totpPeriod = 30 ∧
    totpValidateSites = ["totpMatchedCounter".toList, "validateNewTOTP".toList] ∧
    totpMatchedCounterCallers = ["validateUserTOTP".toList] ∧
    matchOffsets = some [0, -1, 1] ∧ matchSkew = some 0 ∧ matchShapeOK = true ∧
    validateUserTOTPCallers = ["internalTOTPAuthHandler".toList, "verifyTOTPHandler".toList] := by
  decide

/-- does the statement under `failCount % every == 0` put the expiry into the future, further for
every further block of failures? -/
def escalates : LockoutUpdate → Bool
  | .nowPlusPerBlock s => decide (0 < s)
  | _ => false

/-- **The lock-out is assigned** (regenerated table): the result of `.Add(…)` is stored, based on
`time.Now()` and scaled by the number of failure blocks (1 h per block). -/
theorem c14_lockout_assigned :
    escalates KM.Gen.C14.lockoutUpdate = true ∧ lockoutSecs KM.Gen.C14.lockoutUpdate = 3600 := by
  decide

/-! ## one-time codes: the per-user limiter -/

/-- **Spacing** (every state, every sequence of attempts by any number of users, in any time
order): two attempts of the same user that get past the 2-second gate — in particular two
*evaluations* of that user's code — are at least `spacingNs` apart. -/
theorem c14_spacing_gate {U : Type} [DecidableEq U] (m : U → Totp) (ops : List (U × Attempt)) :
    (traceM step m ops).Pairwise (fun e1 e2 => e1.user = e2.user → e1.out ≠ .spaced →
      e2.out ≠ .spaced → e1.now + spacingNs ≤ e2.now) := by
  induction ops generalizing m with
  | nil => exact List.Pairwise.nil
  | cons op ops ih =>
    simp only [traceM]
    refine List.Pairwise.cons ?_ (ih _)
    intro e he hu h1 h2
    have hg := trace_gate lockNext ops _ e he h2
    simp only [stepM] at hu h1 hg ⊢
    rw [← hu] at hg
    simp only [upd, if_true] at hg
    have := step_lastCheck_of_pass h1
    unfold step at hg
    omega

theorem c14_spacing {U : Type} [DecidableEq U] (m : U → Totp) (ops : List (U × Attempt)) :
    (traceM step m ops).Pairwise (fun e1 e2 => e1.user = e2.user → e1.out.evaluated = true →
      e2.out.evaluated = true → e1.now + spacingNs ≤ e2.now) :=
  (c14_spacing_gate m ops).imp
    (fun h hu h1 h2 => h hu (evaluated_ne_spaced h1) (evaluated_ne_spaced h2))

/-- the spacing is the two seconds of the property -/
theorem c14_spacing_value : spacingNs = 2 * sec := by decide

/-- **Lock-out** (all users start with no limiter entry; every sequence of fewer than 2^32
attempts — `failCount` is a uint32): the observable history is accepted by the monitor
`monStep`, i.e. for every user (i) evaluations are ≥ 2 s apart and (ii) once that user's
count of consecutive evaluated failures (cleared by a success, restarted after 24 h without a
failure) reaches `every`·k, no evaluation of that user's code happens before
(time of that failure) + k · `lockStepNs`. -/
theorem c14_lockout {U : Type} [DecidableEq U] (ops : List (U × Attempt))
    (hlen : ops.length < 4294967296) :
    monAll (fun _ => Mon.init) (traceM step (fun _ => Totp.init) ops) = true :=
  monAll_of_rel ops _ _ (fun _ => rel_init) (fun _ => by simp [Mon.init]; omega)

/-- **The monitor is the property's** : `monStep`, whose parameters are read from the source, is the
monitor with the statement's own parameters (2 s, every 5th failure, k hours, 24 h) — the one the
driver's `judge` runs over what the implementation did. -/
theorem c14_monitor_spec (m : Mon) (now : Int) (out : Outcome) :
    monStep m now out = Spec.monStep m now out := by
  have h1 : spacingNs = Spec.spacingNs := by decide
  have h2 : resetNs = Spec.resetNs := by decide
  have h3 : every = Spec.every := by decide
  have h4 : lockStepNs = Spec.lockStepNs := by decide
  rcases m with ⟨le, n, lf, lu⟩
  cases out <;> cases le <;>
    simp only [monStep, Spec.monStep, monN, Spec.monN, monCheck, Spec.monCheck, tooSoon, Spec.tooSoon,
      h1, h2, h3, h4] <;> rfl

/-- **k-th lock-out**: the failure that brings `failCount` to `every`·k (k ≥ 1) sets the expiry to
now + k·(lock step): strictly in the future, and one step further for every further block. -/
theorem c14_lockout_kth (s : Totp) (a : Attempt) (k : Nat) (hev : 0 < every)
    (hr : (step s a).2 = .rejected) (hfc : (step s a).1.failCount = every * k) :
    (step s a).1.lockoutExp = a.now + (k : Int) * lockStepNs := by
  unfold step at hr hfc ⊢
  rcases stepWith_cases lockNext s a with ⟨_, h⟩ | ⟨_, _, h⟩ | ⟨_, _, _, h⟩ | ⟨_, _, _, _, h⟩ |
      ⟨_, _, _, _, h⟩ <;> rw [h] at hr hfc ⊢ <;> try (cases hr; done)
  simp only at hfc ⊢
  unfold lockNext
  rw [hfc]
  simp only [Nat.mul_mod_right, if_true]
  rw [Nat.mul_div_cancel_left k hev]

/-- **Inside a lock-out nothing is evaluated**: the call returns false before the code is looked
at, and neither the failure count nor the expiry move — for wrong and for right codes alike. -/
theorem c14_locked_no_eval (s : Totp) (a : Attempt) (h : a.now < s.lockoutExp) :
    (step s a).2.evaluated = false ∧ (step s a).1.failCount = s.failCount ∧
    (step s a).1.lockoutExp = s.lockoutExp ∧ (step s a).1.lastFail = s.lastFail := by
  unfold step
  rcases stepWith_cases lockNext s a with ⟨_, e⟩ | ⟨_, _, e⟩ | ⟨_, _, _, e⟩ | ⟨_, _, _, _, e⟩ |
      ⟨_, _, _, _, e⟩ <;> rw [e]
  · exact ⟨rfl, rfl, rfl, rfl⟩
  · exact ⟨rfl, rfl, rfl, rfl⟩
  · omega
  · omega
  · omega

/-- **Success resets**: an accepted code clears the failure count and ends any lock-out; the next
evaluated failure counts as the first. Acceptance needs a code that belongs to a time step *later*
than the last accepted one, outside spacing, lock-out and same-period guard; that step is stored. -/
theorem c14_success_resets (s : Totp) (a : Attempt) (h : (step s a).2 = .accepted) :
    (step s a).1.failCount = 0 ∧ (step s a).1.lockoutExp = a.now ∧
    (∃ m, a.matched = some m ∧ s.lastSuccCounter < m ∧ (step s a).1.lastSuccCounter = m) ∧
    s.lastCheck + spacingNs ≤ a.now ∧ s.lockoutExp ≤ a.now ∧ s.lastSuccCounter ≠ a.counter ∧
    ∀ b : Attempt, (step (step s a).1 b).2 = .rejected → (step (step s a).1 b).1.failCount = 1 := by
  have hacc := accepted_step (f := lockNext) h
  unfold step at h hacc ⊢
  rcases stepWith_cases lockNext s a with ⟨_, e⟩ | ⟨_, _, e⟩ | ⟨_, _, _, e⟩ | ⟨h1, h2, h3, h4, e⟩ |
      ⟨_, _, _, _, e⟩ <;> rw [e] at h hacc ⊢ <;> try (cases h; done)
  refine ⟨rfl, rfl, hacc, h1, h2, h3, ?_⟩
  intro b hb
  rcases stepWith_cases lockNext ⟨a.now, 0, s.lastFail, a.now, matchedOr a⟩ b with ⟨_, e'⟩ |
      ⟨_, _, e'⟩ | ⟨_, _, _, e'⟩ | ⟨_, _, _, _, e'⟩ | ⟨_, _, _, _, e'⟩ <;> rw [e'] at hb ⊢ <;>
      try (cases hb; done)
  show fcNext _ _ = 1
  unfold fcNext fcBase
  simp only []
  split <;> rfl

/-- **A code is good once** (step level): an attempt in the period of the last accepted code, or
whose code belongs to a step not later than the last accepted one (the same code again, in its own
or in the adjacent period, or any older code), is never accepted; the stored step stays — and it
never goes back on any step. A replayed right code outside the same period is an *evaluated
failure*: it counts towards the lock-out. -/
theorem c14_replay_guard (s : Totp) (a : Attempt)
    (h : s.lastSuccCounter = a.counter ∨ ∀ m, a.matched = some m → m ≤ s.lastSuccCounter) :
    (step s a).2 ≠ .accepted ∧ (step s a).1.lastSuccCounter = s.lastSuccCounter ∧
    (s.lastSuccCounter ≠ a.counter → s.lastCheck + spacingNs ≤ a.now → s.lockoutExp ≤ a.now →
      (step s a).2 = .rejected) := by
  unfold step
  rcases stepWith_cases lockNext s a with ⟨h1, e⟩ | ⟨_, h2, e⟩ | ⟨_, _, h3, e⟩ | ⟨_, _, h3, h4, e⟩ |
      ⟨_, _, h3, _, e⟩ <;> rw [e]
  · exact ⟨by simp, rfl, fun _ hg _ => by omega⟩
  · exact ⟨by simp, rfl, fun _ _ hl => by omega⟩
  · exact ⟨by simp, rfl, fun hne => absurd h3 hne⟩
  · obtain ⟨m, hm, hlt⟩ := fresh_iff.mp h4
    rcases h with h | h
    · exact absurd h h3
    · have := h m hm; omega
  · exact ⟨by simp, rfl, fun _ _ _ => rfl⟩

theorem c14_counter_monotone (s : Totp) (a : Attempt) :
    s.lastSuccCounter ≤ (step s a).1.lastSuccCounter := lastSucc_mono lockNext s a

/-- **A code is good once** (every state, every sequence of attempts by any users): every accepted
attempt carries a matched time step, and two accepted attempts of one user carry strictly
increasing steps — no code, and no older code, is ever accepted a second time. -/
theorem c14_one_time {U : Type} [DecidableEq U] (m : U → Totp) (ops : List (U × Attempt)) :
    (∀ e ∈ traceM step m ops, e.out = .accepted → ∃ k, e.matched = some k) ∧
    (traceM step m ops).Pairwise (fun e1 e2 => e1.user = e2.user → e1.out = .accepted →
      e2.out = .accepted → ∃ k1 k2, e1.matched = some k1 ∧ e2.matched = some k2 ∧ k1 < k2) := by
  constructor
  · intro e he hacc
    obtain ⟨k, hk, _⟩ := trace_accept lockNext ops m e he hacc
    exact ⟨k, hk⟩
  · induction ops generalizing m with
    | nil => exact List.Pairwise.nil
    | cons op ops ih =>
      simp only [traceM]
      refine List.Pairwise.cons ?_ (ih _)
      intro e he hu h1 h2
      obtain ⟨k2, hk2, hlt⟩ := trace_accept lockNext ops _ e he h2
      simp only [stepM] at hu h1 hlt ⊢
      obtain ⟨k1, hk1, _, hst⟩ := accepted_step h1
      rw [← hu] at hlt
      simp only [upd, if_true] at hlt
      unfold step at hlt
      exact ⟨k1, k2, hk1, hk2, by omega⟩

/-! ### the periodic state cleanup

In the source `performStateCleanup` does not touch `totpLocalRateLimit` (the harness runs its real
body between attempts and the run is compared with a model in which a pass changes nothing). What a
cleanup *may* do to the table without breaking the property is stated here. -/

/-- **Pruning is invisible exactly when nothing is counted**: deleting the limiter entry of a user
who is past the spacing, has no lock-out pending and **no failure counted** changes the outcome of
no later attempt, whatever comes (times non-decreasing, after year 1). -/
theorem c14_prune_unobservable (s : Totp) (t : Int) (as : List Attempt)
    (hp : prunable s t = true) (hz : goZeroTime + spacingNs ≤ t) (hnd : NonDecrA t as) :
    outs step (pruned s) as = outs step s as := by
  simp only [prunable, Bool.and_eq_true, decide_eq_true_eq] at hp
  obtain ⟨⟨h1, h2⟩, h3⟩ := hp
  have hsp := spacingNs_nonneg
  refine sim_outs as ?_ hnd
  refine ⟨rfl, ?_, Or.inr ⟨hz, h1⟩, Or.inr ⟨?_, h2⟩, Or.inr rfl⟩
  · show 0 = s.failCount
    omega
  · show goZeroTime ≤ t
    omega

/-- four wrong codes, one cleanup pass 40 s later, a fifth wrong code, then the right one -/
def pauseOps1 : List Attempt :=
  (List.range 4).map (fun (i : Nat) => ⟨1000000000 * sec + (3 * (i : Int)) * sec, 33333333, none⟩)
def pauseOps2 : List Attempt :=
  [⟨1000000000 * sec + 52 * sec, 33333335, none⟩, ⟨1000000000 * sec + 55 * sec, 33333335, some 33333335⟩]

/-- **Pruning an entry that counts failures breaks the lock-out** (the seeded change C14-4: cleanup
deleted every entry that is "idle" — no lock-out pending, past the spacing — regardless of
`failCount`): after four failures the entry is idle, deleting it makes the fifth failure the
"first" and the right code is accepted, where the real history is `rejected` (5th) then `locked`. -/
theorem c14_prune_counted_counterexample :
    idle (finalS step Totp.init pauseOps1) (1000000000 * sec + 49 * sec) = true ∧
    prunable (finalS step Totp.init pauseOps1) (1000000000 * sec + 49 * sec) = false ∧
    outs step (finalS step Totp.init pauseOps1) pauseOps2 = [.rejected, .locked] ∧
    outs step (pruned (finalS step Totp.init pauseOps1)) pauseOps2 = [.rejected, .accepted] := by
  decide

/-! ### the function as found -/

/-- twelve wrong codes three seconds apart, then the right one -/
def unfixedOps : List (Unit × Attempt) :=
  (List.range 12).map (fun (i : Nat) => ((), ⟨1000000000 * sec + (3 * (i : Int)) * sec, 33333333, none⟩)) ++
    [((), ⟨1000000000 * sec + 36 * sec, 33333334, some 33333334⟩)]

/-- **As found** (`lockoutExpirationTime.Add(…)` with the result discarded): all twelve wrong codes
are evaluated, `failCount` reaches 12, the expiry is never in the future, the thirteenth attempt is
evaluated and accepted — and the monitor rejects that history, while it accepts the repaired one,
where the sixth attempt is already refused. -/
theorem c14_unfixed_counterexample :
    (traceM stepOld (fun _ => Totp.init) unfixedOps).map (·.out) =
      List.replicate 12 Outcome.rejected ++ [Outcome.accepted] ∧
    (finalM stepOld (fun _ => Totp.init) (unfixedOps.take 12) ()).failCount = 12 ∧
    (finalM stepOld (fun _ => Totp.init) (unfixedOps.take 12) ()).lockoutExp ≤ 1000000000 * sec ∧
    monAll (fun _ => Mon.init) (traceM stepOld (fun _ => Totp.init) unfixedOps) = false ∧
    monAll (fun _ => Mon.init) (traceM step (fun _ => Totp.init) unfixedOps) = true ∧
    ((traceM step (fun _ => Totp.init) unfixedOps).map (·.out)).drop 4 =
      [Outcome.rejected] ++ List.replicate 8 Outcome.locked := by
  decide

/-- assigning the result onto the *previous* expiry is not enough either: four failures, 23 hours
of silence, then ten more failures three seconds apart are all evaluated, because the expiry is
extended from a base that lies a day back. -/
def lockNextExtendPrev (s : Totp) (now : Int) : Int :=
  if fcNext s now % every = 0 then lockBase s now + lockStepNs else lockBase s now

def extendPrevOps : List (Unit × Attempt) :=
  (List.range 4).map (fun (i : Nat) => ((), ⟨1000000000 * sec + (3 * (i : Int)) * sec, 1, none⟩)) ++
  (List.range 10).map (fun (i : Nat) => ((), ⟨1000000000 * sec + 82800 * sec + (3 * (i : Int)) * sec, 1, none⟩))

theorem c14_extend_previous_counterexample :
    (traceM (stepWith lockNextExtendPrev) (fun _ => Totp.init) extendPrevOps).map (·.out) =
      List.replicate 14 Outcome.rejected ∧
    monAll (fun _ => Mon.init)
      (traceM (stepWith lockNextExtendPrev) (fun _ => Totp.init) extendPrevOps) = false := by
  decide

/-- non-vacuity: a right code from a fresh state is accepted; five wrong codes lock for an hour -/
example : (step Totp.init ⟨1000000000 * sec, 33333333, some 33333333⟩).2 = .accepted := by decide
example : ((traceM step (fun _ => Totp.init)
    ((List.range 6).map (fun (i : Nat) => ((), ⟨1000000000 * sec + (3 * (i : Int)) * sec, 33333333, none⟩)))).map (·.out))
    = List.replicate 5 Outcome.rejected ++ [Outcome.locked] := by decide
example : every = 5 ∧ lockStepNs = 3600 * sec := by decide
/-- the C05 scenario: a code accepted in period c is refused 31 s later in period c+1 (where it is
still inside the validation window) and counts as a failure; the next period's own code is accepted -/
example : ((traceM step (fun _ => Totp.init)
    [((), ⟨1000000000 * sec, 33333333, some 33333333⟩), ((), ⟨1000000000 * sec + 31 * sec, 33333334, some 33333333⟩),
     ((), ⟨1000000000 * sec + 34 * sec, 33333334, some 33333334⟩)]).map (·.out))
    = [Outcome.accepted, Outcome.rejected, Outcome.accepted] := by decide

end KM.RateLimit
