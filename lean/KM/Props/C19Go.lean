import KM.Gen.GoAgent
/-! # C19 — `deleteDuplicateEntries` as TRANSLATED from the current source (go2lean)

lib/client/sshagent, whole function (`KM/Gen/GoAgent.lean`): which entries of the user's ssh-agent are removed before a
new certificate is added.  External and arbitrary: the agent's listing, `ssh.ParsePublicKey`, whether a parsed key is
a certificate, the entries' comments, the agent's answers to removals. -/
namespace KM.AgentGo
open KM.GoTypes KM.Go

variable {κ π : Type}

/-- an entry the function removes: it parses, it is a CERTIFICATE, and its comment is the new certificate's -/
def dup (ext : AgentExt κ π) (comment : List Char) (k : κ) : Bool :=
  (ext.parse k).2.isNone && ext.isCert (ext.parse k).1 && (ext.comment k == comment)

/-- the loop as a recursion: removals in listing order, stopping at the first removal the agent refuses -/
def delGo (ext : AgentExt κ π) (comment : List Char) :
    List κ → Nat → List (AgentEffect π) → (Nat × Option Err) × List (AgentEffect π)
  | [], n, tr => ((n, none), tr)
  | k :: ks, n, tr =>
    if dup ext comment k then
      match ext.removeResult (ext.parse k).1 with
      | some e => ((n, some e), tr ++ [.remove (ext.parse k).1])
      | none => delGo ext comment ks (n + 1) (tr ++ [.remove (ext.parse k).1])
    else delGo ext comment ks n tr

/-- the loop body as generated (kept here so that the loop lemma can be stated for every starting state) -/
def body (ext : AgentExt κ π) (comment : List Char) :
    κ → Nat × List (AgentEffect π) → Ctl ((Nat × Option Err) × List (AgentEffect π)) (Nat × List (AgentEffect π)) :=
  fun key st => match st with
    | (deletedCount, trace_) =>
      match (ext.parse key) with
      | (pubKey, err) =>
        if (Option.isSome err) then
          KM.Go.Ctl.next (deletedCount, trace_)
        else
          match ((), ext.isCert pubKey) with
          | (_, ok) =>
            if (!ok) then
              KM.Go.Ctl.next (deletedCount, trace_)
            else
              if ((ext.comment key) != comment) then
                KM.Go.Ctl.next (deletedCount, trace_)
              else
                let trace_ := trace_ ++ [KM.GoTypes.AgentEffect.remove pubKey];
                let err := (ext.removeResult pubKey);
                if (Option.isSome err) then
                  KM.Go.Ctl.ret ((deletedCount, err), trace_)
                else
                  let deletedCount := deletedCount + (1 : Nat);
                  KM.Go.Ctl.next (deletedCount, trace_)

theorem loop_eq (ext : AgentExt κ π) (comment : List Char) (l : List κ) (n : Nat) (tr : List (AgentEffect π)) :
    (match KM.Go.forRange l (n, tr) (body ext comment) with
      | KM.Go.Loop.ret r => r
      | KM.Go.Loop.done (deletedCount, trace_) => ((deletedCount, none), trace_)) = delGo ext comment l n tr := by
  induction l generalizing n tr with
  | nil => simp [forRange, delGo]
  | cons k ks ih =>
    simp only [forRange, delGo, dup, body]
    by_cases hs : (ext.parse k).2.isSome = true
    · have hn : (ext.parse k).2.isNone = false := by
        cases h : (ext.parse k).2 <;> simp_all
      simp only [hs, if_true, hn, Bool.false_and, Bool.false_eq_true, if_false]
      exact ih n tr
    · have hn : (ext.parse k).2.isNone = true := by
        cases h : (ext.parse k).2 <;> simp_all
      simp only [hs, if_false, hn, Bool.true_and]
      by_cases hc : ext.isCert (ext.parse k).1 = true
      · simp only [hc, Bool.not_true, Bool.false_eq_true, if_false, Bool.true_and]
        by_cases hm : (ext.comment k == comment) = true
        · have hm' : (ext.comment k != comment) = false := by simpa using hm
          simp only [hm, hm', Bool.false_eq_true, if_false, if_true]
          cases hr : ext.removeResult (ext.parse k).1 with
          | none =>
            simp only [Option.isSome_none, Bool.false_eq_true, if_false]
            exact ih (n + 1) (tr ++ [AgentEffect.remove (ext.parse k).1])
          | some e => simp
        · have hm' : (ext.comment k != comment) = true := by simpa using hm
          have hm2 : (ext.comment k == comment) = false := by simpa using hm
          simp only [hm2, hm', if_true, Bool.false_eq_true, if_false]
          exact ih n tr
      · have hc' : ext.isCert (ext.parse k).1 = false := by simpa using hc
        simp only [hc', Bool.not_false, if_true, Bool.false_and, Bool.false_eq_true, if_false]
        exact ih n tr

/-- **closed form of the translated function** -/
theorem delete_eq (ext : AgentExt κ π) (comment : List Char) :
    KM.Gen.GoAgent.deleteDuplicateEntries ext comment =
      match ext.list with
      | (_, some e) => ((0, some e), [])
      | (l, none) => delGo ext comment l 0 [] := by
  unfold KM.Gen.GoAgent.deleteDuplicateEntries
  rcases hl : ext.list with ⟨l, _ | e⟩
  · simp only [Option.isSome_none, Bool.false_eq_true, if_false]
    exact loop_eq ext comment l 0 []
  · simp

theorem delGo_only (ext : AgentExt κ π) (comment : List Char) (l : List κ) (n : Nat) (tr : List (AgentEffect π))
    (p : π) (h : AgentEffect.remove p ∈ (delGo ext comment l n tr).2) :
    AgentEffect.remove p ∈ tr ∨ ∃ k ∈ l, dup ext comment k = true ∧ (ext.parse k).1 = p := by
  induction l generalizing n tr with
  | nil => left; simpa [delGo] using h
  | cons k ks ih =>
    simp only [delGo] at h
    by_cases hd : dup ext comment k = true
    · simp only [hd, if_true] at h
      rcases hr : ext.removeResult (ext.parse k).1 with _ | e
      · rw [hr] at h; simp only at h
        rcases ih _ _ h with h1 | ⟨k', hk', h2⟩
        · rcases List.mem_append.mp h1 with h1 | h1
          · left; exact h1
          · right; simp only [List.mem_singleton, AgentEffect.remove.injEq] at h1
            exact ⟨k, List.mem_cons_self .., hd, h1.symm⟩
        · right; exact ⟨k', List.mem_cons_of_mem _ hk', h2⟩
      · rw [hr] at h; simp only at h
        rcases List.mem_append.mp h with h1 | h1
        · left; exact h1
        · right; simp only [List.mem_singleton, AgentEffect.remove.injEq] at h1
          exact ⟨k, List.mem_cons_self .., hd, h1.symm⟩
    · simp only [hd, if_false] at h
      rcases ih _ _ h with h1 | ⟨k', hk', h2⟩
      · left; exact h1
      · right; exact ⟨k', List.mem_cons_of_mem _ hk', h2⟩

theorem delGo_all (ext : AgentExt κ π) (comment : List Char) (l : List κ) (n : Nat) (tr : List (AgentEffect π))
    (h : (delGo ext comment l n tr).1.2 = none) :
    delGo ext comment l n tr =
      ((n + (l.filter (dup ext comment)).length, none),
        tr ++ (l.filter (dup ext comment)).map (fun k => .remove (ext.parse k).1)) := by
  induction l generalizing n tr with
  | nil => simp [delGo]
  | cons k ks ih =>
    simp only [delGo] at h ⊢
    by_cases hd : dup ext comment k = true
    · simp only [hd, if_true] at h ⊢
      rcases hr : ext.removeResult (ext.parse k).1 with _ | e
      · rw [hr] at h; simp only at h ⊢
        rw [ih _ _ h]
        simp [List.filter_cons, hd]; omega
      · rw [hr] at h; simp at h
    · simp only [hd, if_false] at h ⊢
      rw [ih _ _ h]
      simp [List.filter_cons, hd]

/-- **only stale certificates of the same name are ever removed from the user's agent** (C19), on the translated
source: every removal is of an entry of the agent's own listing that parsed, IS a certificate and carries exactly the
new certificate's comment — plain keys, certificates under other comments and entries that do not parse are never
touched, whatever the agent answers. -/
theorem c19_go_delete_only_duplicates (ext : AgentExt κ π) (comment : List Char) (p : π)
    (h : AgentEffect.remove p ∈ (KM.Gen.GoAgent.deleteDuplicateEntries ext comment).2) :
    ∃ l k, ext.list = (l, none) ∧ k ∈ l ∧ ext.parse k = (p, none) ∧ ext.isCert p = true ∧ ext.comment k = comment := by
  rw [delete_eq] at h
  rcases hl : ext.list with ⟨l, _ | e⟩
  · rw [hl] at h; simp only at h
    rcases delGo_only ext comment l 0 [] p h with h1 | ⟨k, hk, hd, hp⟩
    · cases h1
    · refine ⟨l, k, rfl, hk, ?_⟩
      unfold dup at hd
      simp only [Bool.and_eq_true, Option.isNone_iff_eq_none, beq_iff_eq] at hd
      obtain ⟨⟨h1, h2⟩, h3⟩ := hd
      refine ⟨?_, by rw [← hp]; exact h2, h3⟩
      rw [← hp]; exact Prod.ext rfl h1
  · rw [hl] at h; cases h

/-- **and when it reports success all of them are gone**: without an error the removals are exactly the listing's
stale certificates of that name, each once, in listing order, and the count returned is their number. -/
theorem c19_go_delete_complete (ext : AgentExt κ π) (comment : List Char) (l : List κ) (hl : ext.list = (l, none))
    (h : (KM.Gen.GoAgent.deleteDuplicateEntries ext comment).1.2 = none) :
    KM.Gen.GoAgent.deleteDuplicateEntries ext comment =
      (((l.filter (dup ext comment)).length, none),
        (l.filter (dup ext comment)).map (fun k => .remove (ext.parse k).1)) := by
  rw [delete_eq, hl] at h ⊢
  simp only at h ⊢
  rw [delGo_all ext comment l 0 [] h]
  simp

/-- the translation runs: of a plain key, a stale certificate and a certificate under another name only the stale
certificate is removed -/
example :
    let ext : AgentExt Nat Nat := ⟨([1, 2, 3], none), fun k => (k, none), fun p => p != 1,
      fun k => if k == 3 then "other".toList else "keymaster".toList, fun _ => none⟩
    (KM.Gen.GoAgent.deleteDuplicateEntries ext "keymaster".toList).1 = (1, none) := by decide

end KM.AgentGo
