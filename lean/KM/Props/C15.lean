import KM.Lemmas.Storage
import KM.Gen.C15
/-! # C15 — profiles survive storage round trips; the offline cache mirrors the primary

Property theorems only.  `sync` is `copyDBIntoSQLite` (repaired) as a statement list executed
under explicit transaction semantics `sem : TxSem` (both fields universally quantified);
`rowsU`/`rowsS` are what the two SELECTs on the primary returned (`Selects`); `fault = some k`
makes the k-th SQL statement report an error. -/
namespace KM.Storage
open KM.SiteC15

variable {U B D : Type} [DecidableEq U]

/-- **Exact mirror.**  A synchronisation that meets no error leaves in the cache exactly the
primary's users and its unexpired signed records — whatever the cache held before (so
additions, changes *and deletions* are mirrored), for every primary, cache, time and driver. -/
theorem c15_sync_exact (sem : TxSem) (primary cache : Store U B D) (now : Int)
    (rowsU : List (U × B)) (rowsS : List ((U × Nat) × SRec D))
    (hu : Selects primary.users rowsU) (hs : Selects (unexpired now primary.signed) rowsS) :
    sync sem rowsU rowsS cache none = content now primary := by
  rw [sync_ok_eq, writesOf_innerList, writes_exact primary.users (unexpired now primary.signed) rowsU rowsS hu hs]
  rfl

/-- **Atomic.**  A synchronisation in which the k-th statement fails — for every k, including the
COMMIT itself, whether a failed COMMIT was applied or not — leaves the cache equal to its
previous content or to the content a fault-free run produces; never a mixture. -/
theorem c15_sync_atomic (sem : TxSem) (cache : Store U B D)
    (rowsU : List (U × B)) (rowsS : List ((U × Nat) × SRec D)) (k : Nat) :
    sync sem rowsU rowsS cache (some k) = cache ∨
    sync sem rowsU rowsS cache (some k) = sync sem rowsU rowsS cache none :=
  sync_fault_cases sem rowsU rowsS cache k

/-- **Histories.**  For every history of save / delete / saveSigned / deleteSigned / tick /
restart / sync(fault?) operations from a well-formed state: right after a fault-free synchronisation,
and for as long as no further synchronisation runs, the cache equals the primary's content
(users, unexpired signed records) at the moment of that synchronisation. -/
theorem c15_history (s0 : State U B D) (h0 : s0.WF) (pre post : List (Op U B D)) (sem : TxSem)
    (hpost : ∀ o ∈ post, o.isSync = false) :
    (runOps s0 (pre ++ [.sync sem none] ++ post)).cache =
      content (runOps s0 pre).now (runOps s0 pre).primary := by
  rw [runOps_append, cache_nonsync_ops _ _ hpost, runOps_append]
  have hwf := wf_runOps s0 h0 pre
  have hsel := selects_state _ hwf
  show (stepOp (runOps s0 pre) (.sync sem none)).cache = _
  simp only [stepOp, stepOpWith]
  exact c15_sync_exact sem (runOps s0 pre).primary _ _ _ _ hsel.1 hsel.2

/-- **Histories, faults included.**  Whatever faults hit whichever synchronisations, the cache
always equals its initial content or the primary's content at the moment of some earlier
synchronisation of the history — it never holds a mixture of two moments. -/
theorem c15_history_snapshot (s0 : State U B D) (h0 : s0.WF) (ops : List (Op U B D)) :
    (runOps s0 ops).cache = s0.cache ∨
    ∃ pre rest, ops = pre ++ rest ∧
      (runOps s0 ops).cache = content (runOps s0 pre).now (runOps s0 pre).primary := by
  induction ops generalizing s0 with
  | nil => left; rfl
  | cons o r ih =>
    have hstep : runOps s0 (o :: r) = runOps (stepOp s0 o) r := rfl
    rcases ih (stepOp s0 o) (wf_step _ s0 h0 o) with h | ⟨pre, rest, hr, h⟩
    · cases ho : o.isSync with
      | false => left; rw [hstep, h, cache_nonsync s0 o ho]
      | true =>
        cases o with
        | sync sem fault =>
          have hsel := selects_state s0 h0
          have hexact := c15_sync_exact sem s0.primary s0.cache s0.now _ _ hsel.1 hsel.2
          have hc : (stepOp s0 (.sync sem fault)).cache = s0.cache ∨
              (stepOp s0 (.sync sem fault)).cache = content s0.now s0.primary := by
            simp only [stepOp, stepOpWith]
            cases fault with
            | none => right; exact hexact
            | some k =>
              rcases c15_sync_atomic sem s0.cache s0.rowsU s0.rowsS k with h1 | h1
              · left; exact h1
              · right; exact h1.trans hexact
          rcases hc with hc | hc
          · left; rw [hstep, h, hc]
          · right; exact ⟨[], _, rfl, by rw [hstep, h, hc]; rfl⟩
        | _ => simp [Op.isSync] at ho
    · right
      exact ⟨o :: pre, rest, by rw [hr]; rfl, by rw [hstep, h]; rfl⟩

/-- **Round trip.**  Given the codec law (decode ∘ encode = id — the assumption on
encoding/gob), a saved profile is read back identical from the primary, and identical from
the cache after the next completed synchronisation; saving one user changes no other row. -/
theorem c15_roundtrip {P : Type} (c : Codec P B) (law : ∀ p, c.dec (c.enc p) = some p)
    (s : State U B D) (h : s.WF) (u : U) (p : P) (sem : TxSem) :
    loadProfile c (stepOp s (.save u (c.enc p))).primary.users u = some p ∧
    loadProfile c (runOps s [.save u (c.enc p), .sync sem none]).cache.users u = some p ∧
    ∀ v, v ≠ u → (stepOp s (.save u (c.enc p))).primary.users v = s.primary.users v := by
  refine ⟨?_, ?_, ?_⟩
  · simp [loadProfile, stepOp, stepOpWith, State.primary, Tbl.put, upd, law]
  · have := c15_history s h [.save u (c.enc p)] [] sem (by simp)
    simp only [List.append_nil] at this
    have h2 : ([Op.save u (c.enc p)] ++ [Op.sync sem none] : List (Op U B D)) =
        [.save u (c.enc p), .sync sem none] := rfl
    rw [h2] at this
    rw [this]
    simp [loadProfile, content, runOps, stepOp, stepOpWith, State.primary, Tbl.put, upd, law]
  · intro v hv
    simp [stepOp, stepOpWith, State.primary, Tbl.put, upd, hv]

/-! ### regenerated tables -/

/-- **Statement list.**  The storage calls of `copyDBIntoSQLite` in the current source are, in
order, exactly the statement shape the theorems above are about: both deletes are executed
with `Exec` on the destination transaction before the re-inserts, only unexpired signed
records are selected, both row loops test `rows.Err()`. -/
theorem c15_sync_sites : KM.Gen.C15.syncSites = syncShape := by decide

def classOK : GuardClass → Bool
  | .guarded | .direct => true
  | .unguarded | .unknown => false

/-- **Read-only during an outage.**  Every function of the current source that writes profile
data to the primary either cannot reach the write when the `LoadUserProfile` before it was
answered by the cache (`guarded`), or loads nothing and writes straight to the primary, which
fails while the primary is unreachable (`direct`); no function is `unguarded`/`unknown`.
Consequently no write ever carries a cached (possibly stale) profile, and with the primary
unreachable nothing is written at all. -/
theorem c15_outage_readonly :
    KM.Gen.C15.guardTable.all (fun r => classOK r.2.2) = true ∧
    (KM.Gen.C15.guardTable.filter (fun r => r.2.2 == GuardClass.guarded)).length ≥ 14 ∧
    (KM.Gen.C15.guardTable.filter (fun r => r.1 == "webauthnAuthFinish".toList)).map (·.2.2) = [GuardClass.guarded] ∧
    (KM.Gen.C15.guardTable.filter (fun r => r.1 == "deleteUserHandler".toList)).map (·.2.2) = [GuardClass.direct] ∧
    (∀ c, classOK c = true → ∀ writable, handlerEffect c true writable ≠ Effect.wroteStale) ∧
    (∀ c, classOK c = true → ∀ fromCache, handlerEffect c fromCache false = Effect.refused ∨
        handlerEffect c fromCache false = Effect.writeFailed) := by
  refine ⟨by decide, by decide, by decide, by decide, ?_, ?_⟩
  · intro c hc w; cases c <;> cases w <;> simp_all [classOK, handlerEffect]
  · intro c hc f; cases c <;> cases f <;> simp_all [classOK, handlerEffect]

/-- **Restart.**  Every SQL statement that `initDB` (and what it calls synchronously) executes at
start-up in the current source is harmless to existing rows (`create table if not exists`, additive
schema changes) — so, for every cache content, starting the daemon again on the same data directory
leaves the cache file's content untouched (`reopen`), in particular for the modelled `restart` step. -/
theorem c15_restart_keeps_cache :
    KM.Gen.C15.initStmts.all InitStmt.harmless = true ∧
    (∀ (c : Store U B D), reopen KM.Gen.C15.initStmts c = c) ∧
    (∀ (s : State U B D), (stepOp s .restart).cache = s.cache) := by
  have h : KM.Gen.C15.initStmts.all InitStmt.harmless = true := by decide
  exact ⟨h, fun c => reopen_harmless _ h c, fun s => rfl⟩

/-- a start-up path that drops a cache table (the statement class `destructive`) loses the cache:
non-vacuity of the `harmless` requirement -/
example : reopen [.createIfNotExists .users, .destructive]
    (⟨fun _ => some 1, fun _ => none⟩ : Store Nat Nat Nat) = Store.empty := rfl

/-! ### the code as found -/

/-- `copyDBIntoSQLite` **as found** violates the property, three ways (users, blobs and signed
data are numbers here):
1. SQLite (`queryExecutes = false`): add user 1 and a signed record, sync, delete both in the
   primary, sync — the cache still holds both;
2. a driver that executes the `Query` delete (`queryExecutes = true`): the delete is outside
   the transaction, so an error at the next statement leaves the cache with *no* users —
   neither its previous nor its new content;
3. the signed-row loop does not test `rows.Err()`: a read error after the first row commits a
   cache in which record (2,1) is new and record (1,1) is still the old one. -/
theorem c15_unfixed_counterexample :
    ((runOpsOld (State.init : State Nat Nat Nat)
        [.save 1 7, .saveSigned 1 1 ⟨9, 5500⟩, .sync ⟨false, false⟩ none,
         .delete 1, .deleteSigned 1 1, .sync ⟨false, false⟩ none]).cache.users 1 = some 7 ∧
     (runOpsOld (State.init : State Nat Nat Nat)
        [.save 1 7, .saveSigned 1 1 ⟨9, 5500⟩, .sync ⟨false, false⟩ none,
         .delete 1, .deleteSigned 1 1, .sync ⟨false, false⟩ none]).cache.signed (1, 1) = some ⟨9, 5500⟩ ∧
     (runOpsOld (State.init : State Nat Nat Nat)
        [.save 1 7, .saveSigned 1 1 ⟨9, 5500⟩, .sync ⟨false, false⟩ none,
         .delete 1, .deleteSigned 1 1, .sync ⟨false, false⟩ none]).primary.users 1 = none) ∧
    ((runOpsOld (State.init : State Nat Nat Nat)
        [.save 2 4, .sync ⟨true, false⟩ none]).cache.users 2 = some 4 ∧
     (runOpsOld (State.init : State Nat Nat Nat)
        [.save 2 4, .sync ⟨true, false⟩ none, .sync ⟨true, false⟩ (some 4)]).cache.users 2 = none) ∧
    ((runOpsOld (State.init : State Nat Nat Nat)
        [.saveSigned 1 1 ⟨10, 5500⟩, .saveSigned 2 1 ⟨20, 5500⟩, .sync ⟨false, false⟩ none,
         .saveSigned 1 1 ⟨11, 5500⟩, .saveSigned 2 1 ⟨21, 5500⟩,
         .sync ⟨false, false⟩ (some 9)]).cache.signed (2, 1) = some ⟨21, 5500⟩ ∧
     (runOpsOld (State.init : State Nat Nat Nat)
        [.saveSigned 1 1 ⟨10, 5500⟩, .saveSigned 2 1 ⟨20, 5500⟩, .sync ⟨false, false⟩ none,
         .saveSigned 1 1 ⟨11, 5500⟩, .saveSigned 2 1 ⟨21, 5500⟩,
         .sync ⟨false, false⟩ (some 9)]).cache.signed (1, 1) = some ⟨10, 5500⟩) := by
  decide

/-- the repaired code on the first of these histories: the cache mirrors the deletions -/
theorem c15_fixed_on_counterexample :
    (runOps (State.init : State Nat Nat Nat)
        [.save 1 7, .saveSigned 1 1 ⟨9, 5500⟩, .sync ⟨false, false⟩ none,
         .delete 1, .deleteSigned 1 1, .sync ⟨false, false⟩ none]).cache.users 1 = none ∧
    (runOps (State.init : State Nat Nat Nat)
        [.save 1 7, .saveSigned 1 1 ⟨9, 5500⟩, .sync ⟨false, false⟩ none,
         .delete 1, .deleteSigned 1 1, .sync ⟨false, false⟩ none]).cache.signed (1, 1) = none := by
  decide

/-! ### non-vacuity -/

/-- `Selects` is satisfiable for a non-empty table, `WF` for a non-trivial state, and the codec
law for a codec -/
example : Selects (fun k : Nat => if k = 3 then some 8 else none) [(3, 8)] := by
  constructor
  · intro r hr; simp at hr; subst hr; simp
  · intro k v h; by_cases e : k = 3 <;> simp_all

example : (runOps (State.init : State Nat Nat Nat) [.save 1 7, .saveSigned 1 1 ⟨9, 5500⟩]).WF :=
  wf_runOps _ ⟨fun _ h => absurd rfl h, fun _ h => absurd rfl h⟩ _

example : ∃ c : Codec Nat Nat, ∀ p, c.dec (c.enc p) = some p := ⟨⟨id, some⟩, fun _ => rfl⟩

/-- an expired record is *not* mirrored (the statement is about unexpired records only) -/
example : (runOps (State.init : State Nat Nat Nat)
    [.saveSigned 1 1 ⟨9, 5500⟩, .tick 6000, .sync ⟨false, false⟩ none]).cache.signed (1, 1) = none := by
  decide

end KM.Storage
