/-! # C15 — property theorems (stub: not built yet) -/
