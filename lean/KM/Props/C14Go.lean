import KM.Model.GoLite
import KM.Model.GoTypes
import KM.Gen.GoTotp
import KM.Gen.GoPwLimit
import KM.Props.C06Go
/-! # C14 (and C05, C16) — `validateUserTOTP` as TRANSLATED from the current source (go2lean)

The whole function is translated from /repo's working tree on every run (`KM/Gen/GoTotp.lean`): the 2 s spacing
test-and-set under `totpLocalTateLimitMutex`, the lock-out test, the 24 h reset, the "already done in this period"
test, the loop over the user's devices, the profile save, the failure accounting.  Its externals (profile store,
decryption, `totpMatchedCounter`) are parameters; the mutex operations, the writes to the shared rate-limit table,
every code evaluation and the profile save are EFFECTS recorded in a trace, in program order.  One reading of the clock
per call (`now`).  The theorems hold for every behaviour of the externals, any number of devices, any stored record. -/
namespace KM.Totp
open KM.Go KM.GoTypes

/-- the lock discipline read off a trace: (mutex held?, every store so far happened while it was held and every
lock/unlock alternated) -/
def lockStep : Bool × Bool → TotpEffect → Bool × Bool
  | (l, ok), .lock => (true, ok && !l)
  | (l, ok), .unlock => (false, ok && l)
  | (l, ok), .storeRate _ => (l, ok && l)
  | st, _ => st

/-- the trace leaves the mutex free and never broke the discipline -/
def Disciplined (tr : List TotpEffect) : Prop := tr.foldl lockStep (false, true) = (false, true)

theorem disciplined_append {a b : List TotpEffect} (ha : Disciplined a) (hb : Disciplined b) : Disciplined (a ++ b) := by
  unfold Disciplined at *
  rw [List.foldl_append, ha, hb]

/-- **lock discipline of `validateUserTOTP`, on the translated source**: in every execution, for every behaviour of
the profile store, of decryption and of code matching, every write to the shared rate-limit table happens while
`totpLocalTateLimitMutex` is held, lock and unlock alternate, and the mutex is free at every return -/
theorem go_totp_disciplined (ext : TotpExt) (now : Int) (rate0 : totpRateLimitInfo) (user : Str) (otp t : Int) :
    Disciplined (KM.Gen.GoTotp.validateUserTOTP ext now rate0 user otp t).2 := by
  obtain ⟨loadProfile, otpString, decrypt, matched, saveResult⟩ := ext
  unfold KM.Gen.GoTotp.validateUserTOTP
  dsimp -iota only
  rcases loadProfile user with ⟨profile, b, fromCache, _ | e⟩
  · dsimp only
    simp only [List.nil_append, Option.isSome_none, Bool.false_eq_true, if_false]
    have h0 : ∀ r : totpRateLimitInfo, Disciplined ([TotpEffect.lock] ++ [TotpEffect.storeRate r] ++ [TotpEffect.unlock]) := by
      intro r; simp [Disciplined, lockStep]
    split
    · simp [Disciplined, lockStep]
    · split
      · exact h0 _
      · split
        · exact h0 _
        · split
          · rename_i r heq
            exact forRange_ret heq (fun s => Disciplined s.2.1) (fun r => Disciplined r.2) (h0 _) (by
            intro x _ s hs
            unfold Disciplined at hs ⊢
            (repeat' split) <;> simp only [Ctl.post] <;> first | exact hs | (simp only [List.foldl_append, hs, List.foldl_cons, List.foldl_nil, lockStep, Bool.and_self, Bool.not_false, Bool.not_true, Bool.and_true, Bool.true_and]))
          · rename_i p tr u heq
            have hd : Disciplined tr := forRange_done heq (fun s => Disciplined s.2.1) (fun r => Disciplined r.2) (h0 _) (by
            intro x _ s hs
            unfold Disciplined at hs ⊢
            (repeat' split) <;> simp only [Ctl.post] <;> first | exact hs | simp only [List.foldl_append, hs, List.foldl_cons, List.foldl_nil, lockStep, Bool.and_self, Bool.not_false, Bool.not_true, Bool.and_true, Bool.true_and])
            unfold Disciplined at hd ⊢
            dsimp only
            simp only [List.foldl_append, hd, List.foldl_cons, List.foldl_nil, lockStep, Bool.and_self, Bool.not_false, Bool.and_true, Bool.true_and]
  · simp [Disciplined]

def isEvalOrSave : TotpEffect → Bool
  | .eval .. => true
  | .saveProfile .. => true
  | _ => false

/-- **the two gates come before any evaluation**, on the translated source: while the previous check of this user is
less than 2 s old, or while a lock-out is running, the answer is `false` and neither a code evaluation nor a profile
write happens -/
theorem c14_go_totp_gates (ext : TotpExt) (now : Int) (rate0 : totpRateLimitInfo) (user : Str) (otp t : Int)
    (hg : rate0.lastCheckTime + 2 > now ∨ rate0.lockoutExpirationTime > now) :
    (KM.Gen.GoTotp.validateUserTOTP ext now rate0 user otp t).1.1 = false ∧
    ∀ e ∈ (KM.Gen.GoTotp.validateUserTOTP ext now rate0 user otp t).2, isEvalOrSave e = false := by
  obtain ⟨loadProfile, otpString, decrypt, matched, saveResult⟩ := ext
  unfold KM.Gen.GoTotp.validateUserTOTP
  dsimp -iota only
  rcases loadProfile user with ⟨profile, b, fromCache, _ | e⟩
  · dsimp only
    simp only [List.nil_append, Option.isSome_none, Bool.false_eq_true, if_false]
    by_cases h1 : rate0.lastCheckTime + 2 > now
    · simp [h1, isEvalOrSave]
    · have h2 : rate0.lockoutExpirationTime > now := by
        rcases hg with h | h
        · exact absurd h h1
        · exact h
      simp [h1, h2, isEvalOrSave]
  · simp

/-- **an accepted code is fresh, and its use is recorded first**, on the translated source: `true` is answered only
past both gates, for a code that some ENABLED device of THIS user's profile validates for a step strictly later than
the last accepted one (and the current step is not the last accepted one); unless the profile came from the read-only
cache, the new step was written to the profile store successfully before the answer -/
theorem go_totp_accept (ext : TotpExt) (now : Int) (rate0 : totpRateLimitInfo) (user : Str) (otp t : Int)
    (h : (KM.Gen.GoTotp.validateUserTOTP ext now rate0 user otp t).1.1 = true) :
    (ext.loadProfile user).2.2.2 = none ∧
    ¬ (rate0.lastCheckTime + 2 > now) ∧ ¬ (rate0.lockoutExpirationTime > now) ∧
    (ext.loadProfile user).1.LastSuccessfullTOTPCounter ≠ t / 30 ∧
    ∃ d ∈ (ext.loadProfile user).1.TOTPAuthData, d.Enabled = true ∧ (ext.decrypt d.EncryptedSecret).2 = none ∧
      (ext.matched (ext.otpString otp) (ext.decrypt d.EncryptedSecret).1 (t / 30) 30).2 = true ∧
      (ext.matched (ext.otpString otp) (ext.decrypt d.EncryptedSecret).1 (t / 30) 30).1 >
        (ext.loadProfile user).1.LastSuccessfullTOTPCounter ∧
      ((ext.loadProfile user).2.2.1 = false →
        ext.saveResult user { (ext.loadProfile user).1 with LastSuccessfullTOTPCounter :=
          (ext.matched (ext.otpString otp) (ext.decrypt d.EncryptedSecret).1 (t / 30) 30).1 } = none) := by
  obtain ⟨loadProfile, otpString, decrypt, matched, saveResult⟩ := ext
  revert h
  unfold KM.Gen.GoTotp.validateUserTOTP
  dsimp -iota only
  rcases loadProfile user with ⟨profile, b, fromCache, _ | e⟩
  · dsimp only
    simp only [List.nil_append, Option.isSome_none, Bool.false_eq_true, if_false]
    by_cases h1 : rate0.lastCheckTime + 2 > now
    · simp [h1]
    by_cases h2 : rate0.lockoutExpirationTime > now
    · simp [h1, h2]
    by_cases h3 : profile.LastSuccessfullTOTPCounter = t / 30
    · simp [h1, h2, h3]
    simp only [h1, h2, h3, decide_false, decide_true, Bool.false_eq_true, if_false, beq_iff_eq, not_false_eq_true, true_and, ne_eq]
    split
    · rename_i r heq
      intro hr
      exact forRange_ret heq (fun s => s.1 = profile)
        (fun r => r.1.1 = true → ∃ d ∈ profile.TOTPAuthData, d.Enabled = true ∧ (decrypt d.EncryptedSecret).2 = none ∧
          (matched (otpString otp) (decrypt d.EncryptedSecret).1 (t / 30) 30).2 = true ∧
          (matched (otpString otp) (decrypt d.EncryptedSecret).1 (t / 30) 30).1 > profile.LastSuccessfullTOTPCounter ∧
          (fromCache = false → saveResult user { profile with LastSuccessfullTOTPCounter :=
            (matched (otpString otp) (decrypt d.EncryptedSecret).1 (t / 30) 30).1 } = none))
        rfl (by
          intro x hx s hs
          obtain ⟨p, tr, u⟩ := s
          simp only at hs
          subst hs
          by_cases c1 : x.Enabled = true
          · cases c2 : (decrypt x.EncryptedSecret).2 with
            | some e => simp [Ctl.post, c1, c2]
            | none =>
              by_cases c3 : (matched (otpString otp) (decrypt x.EncryptedSecret).1 (t / 30) 30).2 = true
              · by_cases c4 : (matched (otpString otp) (decrypt x.EncryptedSecret).1 (t / 30) 30).1 ≤ p.LastSuccessfullTOTPCounter
                · simp [Ctl.post, c1, c2, c3, c4]
                · cases fromCache with
                  | true =>
                    simp only [Ctl.post, c1, c2, c3, c4, Bool.not_true, Bool.false_eq_true, if_false, Option.isSome_none,
                      Bool.false_or, decide_false, Bool.true_eq_false, Bool.not_false]
                    intro _
                    exact ⟨x, hx, c1, c2, c3, by omega, by intro hh; cases hh⟩
                  | false =>
                    cases c5 : saveResult user { LastSuccessfullTOTPCounter := (matched (otpString otp) (decrypt x.EncryptedSecret).1 (t / 30) 30).1, TOTPAuthData := p.TOTPAuthData } with
                    | some e => simp [Ctl.post, c1, c2, c3, c4, c5]
                    | none =>
                      simp only [Ctl.post, c1, c2, c3, c4, c5, Bool.not_true, Bool.false_eq_true, if_false, Option.isSome_none,
                        Bool.false_or, decide_false, Bool.not_false, if_true]
                      intro _
                      exact ⟨x, hx, c1, c2, c3, by omega, fun _ => c5⟩
              · simp [Ctl.post, c1, c2, c3]
          · simp [Ctl.post, c1]) hr
    · simp
  · simp

/-- the record after the 24 h reset test: `lastCheckTime` is now; a last failure older than 24 h clears the count -/
def afterReset (now : Int) (r : totpRateLimitInfo) : totpRateLimitInfo :=
  if r.lastFailTime + 24 * 3600 < now then
    { lastCheckTime := now, failCount := 0, lastFailTime := r.lastFailTime, lockoutExpirationTime := now }
  else { lastCheckTime := now, failCount := r.failCount, lastFailTime := r.lastFailTime,
         lockoutExpirationTime := r.lockoutExpirationTime }

/-- the record a failed check leaves behind: one more failure, and every 5th one starts a lock-out of `count / 5` hours -/
def bumped (now : Int) (u : totpRateLimitInfo) : totpRateLimitInfo :=
  { lastCheckTime := u.lastCheckTime, failCount := u.failCount + 1, lastFailTime := now,
    lockoutExpirationTime :=
      if (Int.tmod (u.failCount + 1) 5 == 0) = true then now + Int.tdiv (u.failCount + 1) 5 * 3600
      else u.lockoutExpirationTime }

/-- **a failed check is counted and the count is what locks**, on the translated source: past both gates, with a
code that no enabled device validates for a later step, the answer is `false` and the LAST thing the function does is
to store — under the mutex — the record with one more failure, whose lock-out expiry is `now + (count / 5) h` when the
count reached a multiple of 5 -/
theorem c14_go_totp_failure (ext : TotpExt) (now : Int) (rate0 : totpRateLimitInfo) (user : Str) (otp t : Int)
    (hload : (ext.loadProfile user).2.2.2 = none)
    (h1 : ¬ (rate0.lastCheckTime + 2 > now)) (h2 : ¬ (rate0.lockoutExpirationTime > now))
    (h3 : (ext.loadProfile user).1.LastSuccessfullTOTPCounter ≠ t / 30)
    (hno : ∀ d ∈ (ext.loadProfile user).1.TOTPAuthData, d.Enabled = true →
      (ext.decrypt d.EncryptedSecret).2 = none ∧
      ((ext.matched (ext.otpString otp) (ext.decrypt d.EncryptedSecret).1 (t / 30) 30).2 = false ∨
       (ext.matched (ext.otpString otp) (ext.decrypt d.EncryptedSecret).1 (t / 30) 30).1 ≤
         (ext.loadProfile user).1.LastSuccessfullTOTPCounter)) :
    ∃ pre, KM.Gen.GoTotp.validateUserTOTP ext now rate0 user otp t =
      ((false, none), pre ++ [TotpEffect.lock, TotpEffect.storeRate (bumped now (afterReset now rate0)), TotpEffect.unlock]) := by
  obtain ⟨loadProfile, otpString, decrypt, matched, saveResult⟩ := ext
  revert hload h3 hno
  unfold KM.Gen.GoTotp.validateUserTOTP
  dsimp -iota only
  rcases loadProfile user with ⟨profile, b, fromCache, _ | e⟩
  · dsimp only
    intro _ h3 hno
    simp only [List.nil_append, Option.isSome_none, Bool.false_eq_true, if_false, h1, h2, h3, decide_false,
      beq_iff_eq]
    split
    · rename_i r heq
      exact absurd (forRange_ret heq (fun s => s.1 = profile) (fun _ => False) rfl (by
        intro x hx s hs
        obtain ⟨p, tr, u⟩ := s
        simp only at hs
        subst hs
        by_cases c1 : x.Enabled = true
        · obtain ⟨c2, c3⟩ := hno x hx c1
          rcases c3 with c3 | c3
          · simp [Ctl.post, c1, c2, c3]
          · simp [Ctl.post, c1, c2, c3]
        · simp [Ctl.post, c1])) id
    · rename_i p tr u heq
      have hu := forRange_done heq (fun s => s.2.2 = afterReset now rate0) (fun _ => True) (by
        unfold afterReset
        by_cases hc : rate0.lastFailTime + 24 * 3600 < now <;> simp [hc]) (by
        intro x _ s hs
        obtain ⟨p, tr, u⟩ := s
        simp only at hs
        subst hs
        (repeat' split) <;> simp [Ctl.post])
      simp only at hu
      subst hu
      refine ⟨tr, ?_⟩
      by_cases hm : Int.tmod ((afterReset now rate0).failCount + 1) 5 = 0 <;> simp [bumped, hm]
  · intro h; simp at h

/-- **a lock-out that was started is effective**: for the record a 5k-th failure leaves behind, every later call
before the lock-out expires is refused without any code evaluation or profile write -/
theorem c14_go_totp_lockout_effective (ext : TotpExt) (now now' : Int) (u : totpRateLimitInfo) (user : Str) (otp t : Int)
    (h5 : Int.tmod (u.failCount + 1) 5 = 0) (hlater : now' < now + Int.tdiv (u.failCount + 1) 5 * 3600) :
    (KM.Gen.GoTotp.validateUserTOTP ext now' (bumped now u) user otp t).1.1 = false ∧
    ∀ e ∈ (KM.Gen.GoTotp.validateUserTOTP ext now' (bumped now u) user otp t).2, isEvalOrSave e = false := by
  apply c14_go_totp_gates
  right
  simp only [bumped, h5, beq_self_eq_true, if_true]
  omega

/-- non-vacuity: the translated function run on a tiny world (one enabled device whose secret decrypts to "k"; the
code "1" is valid for step 41): accepted once; refused within 2 s; the fifth failure starts a one-hour lock-out -/
def exExt : TotpExt where
  loadProfile _ := (⟨40, [⟨true, 7⟩]⟩, true, false, none)
  otpString n := if n = 1 then ['1'] else ['0']
  decrypt _ := (['k'], none)
  matched otp _ _ _ := if otp = ['1'] then (41, true) else (0, false)
  saveResult _ _ := none

example : (KM.Gen.GoTotp.validateUserTOTP exExt 1000 ⟨0, 0, 0, 0⟩ ['u'] 1 1240).1 = (true, none) ∧
    (KM.Gen.GoTotp.validateUserTOTP exExt 1000 ⟨999, 0, 0, 0⟩ ['u'] 1 1240) = ((false, none), [.lock, .unlock]) ∧
    (KM.Gen.GoTotp.validateUserTOTP exExt 1000 ⟨0, 4, 990, 0⟩ ['u'] 0 1240).2.getLast? = some .unlock ∧
    TotpEffect.storeRate ⟨1000, 5, 1000, 4600⟩ ∈ (KM.Gen.GoTotp.validateUserTOTP exExt 1000 ⟨0, 4, 990, 0⟩ ['u'] 0 1240).2 := by
  decide

end KM.Totp

/-! ## `checkPasswordAttemptLimit`, the whole function (`KM/Gen/GoPwLimit.lean`) -/
namespace KM.PwLimitGo
open KM.GoTypes KM.Go

/-- **every password attempt takes a token of the global limiter, and without a token it goes no further** (C14), on the
translated source: the function asks the limiter exactly once; it returns an error — after writing 429 — exactly when
the limiter refused, and `checkAuth` (translated: `c06_go_check_auth_admits`, the `limitCheck` effect precedes the
question to the password backend) returns on that error before the backend is asked. -/
theorem c14_go_password_limit (allow : Bool) (user : List Char) :
    KM.Gen.GoPwLimit.checkPasswordAttemptLimit allow user =
      if allow then (none, [.tokenTaken])
      else (some "too many password attempts, host: %s user: %s".toList, [.tokenTaken, .fail 429]) := by
  cases allow <;> rfl

open KM.CheckAuthGo

/-- what a question to the password backend rests on, in a trace -/
def AfterLimiter (ext : CheckAuthExt) (t : List AuthEffect) : Prop :=
  ∀ u p, AuthEffect.passwordTried u p ∈ t →
    ∃ u0 ok, ext.basicAuth = (u0, p, ok) ∧ ext.attemptLimit u0 = none ∧ u = ext.reprocess u0 ∧
      AuthEffect.limitCheck u0 ∈ t

def NoPw (t : List AuthEffect) : Prop := ∀ u p, AuthEffect.passwordTried u p ∉ t

theorem NoPw.after {ext : CheckAuthExt} {t : List AuthEffect} (h : NoPw t) : AfterLimiter ext t :=
  fun u p hm => absurd hm (h u p)

theorem NoPw.fail {t : List AuthEffect} (h : NoPw t) (s : Nat) : NoPw (t ++ [AuthEffect.fail s]) := by
  intro u p hm
  rcases List.mem_append.mp hm with h1 | h1
  · exact h u p h1
  · simp at h1

/-- invariant of the translated `checkAuth` over its whole trace (proved along the structure of the function, like
`checkAuth_good`) -/
theorem checkAuth_after_limiter (ext : CheckAuthExt) (method host : List Char) (hasTLS hasChains : Bool)
    (cookies : List Cookie) (req : Nat) :
    AfterLimiter ext (KM.Gen.GoCheckAuth.checkAuth ext method host hasTLS hasChains cookies req).2 := by
  obtain ⟨referer, parseURL, urlHost, kmSigned, ipRestricted, basicAuth, attemptLimit, reprocess, checkPassword, now,
    getAuthInfo, expired⟩ := ext
  obtain ⟨bu, bp, bok⟩ := basicAuth
  obtain ⟨kmU, kmNb, kmErr⟩ := kmSigned
  obtain ⟨ipU, ipNb, ipUserErr, ipErr⟩ := ipRestricted
  unfold KM.Gen.GoCheckAuth.checkAuth
  extract_lets tr0 c0 e1 cfg e2 e3 e4 e5 k2 ad0 ad512 k3 k1 ref tr400 tr401
  have h2 : ∀ tr, NoPw tr → AfterLimiter ⟨referer, parseURL, urlHost, (kmU, kmNb, kmErr), (ipU, ipNb, ipUserErr, ipErr), (bu, bp, bok),
      attemptLimit, reprocess, checkPassword, now, getAuthInfo, expired⟩ (k2 tr).2 := by
    intro tr hn
    unfold k2
    rw [cookie_loop]
    generalize lastNamed "auth_cookie".toList cookies c0 = la
    dsimp only
    cases la with
    | none =>
      simp only [Option.isNone_none, if_true]
      by_cases hp : ((2 &&& req) == 0) = true
      · simp only [hp, if_true]; exact (hn.fail 401).after
      · simp only [hp]
        cases bok
        · simp only [Bool.not_false, if_true]; exact (hn.fail 401).after
        · simp only [Bool.not_true, Bool.false_eq_true, if_false]
          by_cases ha : (attemptLimit bu).isSome = true
          · simp only [ha, if_true]
            intro u p hm
            rcases List.mem_append.mp hm with h1 | h1
            · exact absurd h1 (hn u p)
            · simp at h1
          · simp only [ha]
            have ha' : attemptLimit bu = none := by
              cases h : attemptLimit bu with
              | none => rfl
              | some e => rw [h] at ha; simp at ha
            have key : ∀ t : List AuthEffect, (∀ u p, AuthEffect.passwordTried u p ∈ t →
                AuthEffect.passwordTried u p ∈ tr ++ [AuthEffect.limitCheck bu] ++ [AuthEffect.passwordTried (reprocess bu) bp] ∨
                False) → (∀ x, x ∈ tr ++ [AuthEffect.limitCheck bu] → x ∈ t) →
                AfterLimiter ⟨referer, parseURL, urlHost, (kmU, kmNb, kmErr), (ipU, ipNb, ipUserErr, ipErr), (bu, bp, true),
                  attemptLimit, reprocess, checkPassword, now, getAuthInfo, expired⟩ t := by
              intro t hsub hsup u p hm
              rcases hsub u p hm with h1 | h1
              · rcases List.mem_append.mp h1 with h1 | h1
                · rcases List.mem_append.mp h1 with h1 | h1
                  · exact absurd h1 (hn u p)
                  · simp at h1
                · simp only [List.mem_singleton, AuthEffect.passwordTried.injEq] at h1
                  obtain ⟨rfl, rfl⟩ := h1
                  exact ⟨bu, true, rfl, ha', rfl, hsup _ (by simp)⟩
              · exact h1.elim
            by_cases he : (checkPassword (reprocess bu) bp).2.isSome = true
            · simp only [he, if_true]
              apply key
              · intro u p hm; left
                rcases List.mem_append.mp hm with h1 | h1
                · exact h1
                · simp at h1
              · intro x hx; exact List.mem_append_left _ (List.mem_append_left _ hx)
            · simp only [he]
              by_cases hv : (checkPassword (reprocess bu) bp).1 = true
              · simp only [hv, Bool.not_true, Bool.false_eq_true, if_false]
                apply key
                · intro u p hm; left; exact hm
                · intro x hx; exact List.mem_append_left _ hx
              · have hv' : (checkPassword (reprocess bu) bp).1 = false := by simpa using hv
                simp only [hv', Bool.not_false, if_true]
                apply key
                · intro u p hm; left
                  rcases List.mem_append.mp hm with h1 | h1
                  · exact h1
                  · simp at h1
                · intro x hx; exact List.mem_append_left _ (List.mem_append_left _ hx)
    | some c =>
      simp only [Option.isNone_some, Bool.false_eq_true, if_false, cookieValue]
      by_cases he : (getAuthInfo c.value).2.isSome = true
      · simp only [he, if_true]; exact (hn.fail 401).after
      · simp only [he]
        by_cases hx : expired (getAuthInfo c.value).1 = true
        · simp only [hx, if_true]; exact (hn.fail 401).after
        · simp only [hx]
          by_cases hlv : (((getAuthInfo c.value).1.AuthType &&& req) == 0) = true
          · simp only [hlv, if_true]; exact (hn.fail 401).after
          · simp only [hlv]; exact hn.after
  have h3 : ∀ ad tr, NoPw tr → AfterLimiter ⟨referer, parseURL, urlHost, (kmU, kmNb, kmErr),
      (ipU, ipNb, ipUserErr, ipErr), (bu, bp, bok), attemptLimit, reprocess, checkPassword, now, getAuthInfo, expired⟩
      (k3 (ad, tr)).2 := by
    intro ad tr hn
    unfold k3
    dsimp only
    by_cases hc : (ad.Username != [] && ad.AuthType &&& req != 0) = true
    · simp only [hc, if_true]; exact hn.after
    · simp only [hc, Bool.false_eq_true, if_false]; exact h2 tr hn
  have h1 : ∀ tr, NoPw tr → AfterLimiter ⟨referer, parseURL, urlHost, (kmU, kmNb, kmErr),
      (ipU, ipNb, ipUserErr, ipErr), (bu, bp, bok), attemptLimit, reprocess, checkPassword, now, getAuthInfo, expired⟩
      (k1 tr).2 := by
    intro tr hn
    unfold k1
    dsimp only
    by_cases hA : (req &&& (32 ||| 512) != 0 && hasTLS) = true
    · simp only [hA, if_true]
      by_cases hCh : hasChains = true
      · simp only [hCh, if_true]
        by_cases h32 : (req &&& 32 != 0) = true
        · simp only [h32, if_true]
          repeat' split
          all_goals first | exact (hn.fail _).after | exact h3 _ tr hn | exact h2 tr hn
        · simp only [h32, Bool.false_eq_true, if_false]; exact h3 _ tr hn
      · simp only [hCh, Bool.false_eq_true, if_false]; exact h2 tr hn
    · simp only [hA, Bool.false_eq_true, if_false]; exact h2 tr hn
  have hn0 : NoPw tr0 := by intro u p hm; simp [tr0] at hm
  by_cases hm : (method != "GET".toList) = true
  · simp only [hm, if_true]
    by_cases hr : (decide (List.length ref > 0) && decide (host.length > 0)) = true
    · simp only [hr, if_true]
      by_cases he : (parseURL ref).2.isSome = true
      · simp only [he, if_true]; exact (hn0.fail 400).after
      · simp only [he, Bool.false_eq_true, if_false]
        by_cases hh : (urlHost (parseURL ref).1 != host) = true
        · simp only [hh, if_true]; exact (hn0.fail 401).after
        · simp only [hh, Bool.false_eq_true, if_false]; exact h1 tr0 hn0
    · simp only [hr, Bool.false_eq_true, if_false]; exact h1 tr0 hn0
  · simp only [hm, Bool.false_eq_true, if_false]; exact h1 tr0 hn0

/-- **the password backend is asked only after the global limiter let the attempt through** (C14), on the translated
source of the whole of `checkAuth`: whenever it puts a question to the password backend, the question is about the
Basic-auth user (normalised) and password of this request, the limiter was charged for that user earlier in the same
call, and it answered "go on". -/
theorem c14_go_backend_only_after_limiter (ext : CheckAuthExt) (method host : List Char) (hasTLS hasChains : Bool)
    (cookies : List Cookie) (req : Nat) (u p : List Char)
    (h : AuthEffect.passwordTried u p ∈ (KM.Gen.GoCheckAuth.checkAuth ext method host hasTLS hasChains cookies req).2) :
    ∃ u0 ok, ext.basicAuth = (u0, p, ok) ∧ ext.attemptLimit u0 = none ∧ u = ext.reprocess u0 ∧
      AuthEffect.limitCheck u0 ∈ (KM.Gen.GoCheckAuth.checkAuth ext method host hasTLS hasChains cookies req).2 :=
  checkAuth_after_limiter ext method host hasTLS hasChains cookies req u p h

end KM.PwLimitGo
