import KM.Props.C03
import KM.Gen.GoCertGen
/-! # C03 / C02 — the tail of `certGenHandler` as TRANSLATED from the current source (go2lean)

`KM.Gen.GoCertGen.certgenIssue` is every statement of `certGenHandler` from `duration := maxCertificateLifetime` to the
end of the function: the form's `duration`, its parsing and the three refusals, the clamp by
`time.Until(authData.IssuedAt.Add(maxCertificateLifetime))` (its value is the binder `untilMax`), the `type` field and
the dispatch.  Refusals and the calls of the two signing handlers (with the user and the lifetime they are given) are
effects. -/
namespace KM.ValidityGo
open KM.Validity KM.GoTypes KM.Go

/-- the request as the model's `Req` -/
def reqOf (ext : IssueExt) (fd : List (List Char) × Bool) : Req :=
  if fd.2 then
    match ext.parseDuration (fd.1.headD []) with
    | (_, some _) => .malformed
    | (nd, none) => .parsed nd
  else .absent

/-- the dispatch on the `type` field -/
def dispatch (user : List Char) (ft : List (List Char) × Bool) (d : Int) : List IssueEffect :=
  let t := if ft.2 then ft.1.headD [] else "ssh".toList
  if t == "ssh".toList then [.ssh user d]
  else if t == "x509".toList then [.x509 user d false]
  else if t == "x509-kubernetes".toList then [.x509 user d true]
  else [.fail 400]

/-- **The translated tail of the handler is the model's duration decision followed by the dispatch**: what it does is
exactly — refuse with 400 a `duration` that does not parse, is negative or exceeds the cap; otherwise call the signing
handler chosen by `type`, for `targetUser`, with the requested duration (the cap when none was given) clamped by the
time left until 24 h after the credential was issued. -/
theorem c03_go_issue (ext : IssueExt) (user : List Char) (fd ft : List (List Char) × Bool) (L untilMax : Int) :
    (KM.Gen.GoCertGen.certgenIssue ext user fd ft L untilMax).2 =
      match reqOf ext fd with
      | .absent => dispatch user ft (clampTo L untilMax)
      | .malformed => [.fail 400]
      | .parsed nd =>
        if nd < 0 then [.fail 400] else if nd > L then [.fail 400]
        else dispatch user ft (clampTo nd untilMax) := by
  obtain ⟨fdv, fdok⟩ := fd
  obtain ⟨ftv, ftok⟩ := ft
  obtain ⟨pd⟩ := ext
  unfold KM.Gen.GoCertGen.certgenIssue reqOf dispatch clampTo
  dsimp only
  generalize (if ftok = true then ftv.headD [] else "ssh".toList) = t
  generalize pd (fdv.headD []) = r
  obtain ⟨nd, err⟩ := r
  cases fdok
  · simp only [Bool.false_eq_true, if_false, List.nil_append, decide_eq_true_eq]
    by_cases c1 : (t == "ssh".toList) = true
    · simp only [c1, if_true, Bool.false_eq_true, if_true, if_false]
    · by_cases c2 : (t == "x509".toList) = true
      · simp only [c1, c2, if_true, if_false, Bool.false_eq_true, if_true, if_false]
      · by_cases c3 : (t == "x509-kubernetes".toList) = true
        · simp only [c1, c2, c3, if_true, if_false, Bool.false_eq_true, if_true, if_false]
        · simp only [c1, c2, c3, if_false, Bool.false_eq_true, if_true, if_false]
  · cases err with
    | some e => simp
    | none =>
      simp only [if_true, Option.isSome_none, Bool.false_eq_true, if_false, List.nil_append, decide_eq_true_eq]
      by_cases h0 : nd < 0
      · simp only [h0, if_true]
      · by_cases h1 : nd > L
        · simp only [h0, h1, if_true, if_false]
        · simp only [h0, h1, if_false]
          by_cases c1 : (t == "ssh".toList) = true
          · simp only [c1, if_true, Bool.false_eq_true, if_true, if_false]
          · by_cases c2 : (t == "x509".toList) = true
            · simp only [c1, c2, if_true, if_false, Bool.false_eq_true, if_true, if_false]
            · by_cases c3 : (t == "x509-kubernetes".toList) = true
              · simp only [c1, c2, c3, if_true, if_false, Bool.false_eq_true, if_true, if_false]
              · simp only [c1, c2, c3, if_false, Bool.false_eq_true, if_true, if_false]

/-- **every certificate the handler asks for is for the authenticated user and short-lived** (C02, C03), on the
translated source: whatever the form holds and whatever `time.ParseDuration` answers, a signing handler is called at
most once, only for `targetUser`, and with a lifetime that is at most the cap, at most the time left until 24 h after
the credential was issued, and at most what was asked for. -/
theorem c03_go_issue_bounded (ext : IssueExt) (user : List Char) (fd ft : List (List Char) × Bool) (L untilMax : Int)
    (e : IssueEffect)
    (h : e ∈ (KM.Gen.GoCertGen.certgenIssue ext user fd ft L untilMax).2) :
    (KM.Gen.GoCertGen.certgenIssue ext user fd ft L untilMax).2 = [e] ∧
    ∀ u d, (e = .ssh u d ∨ ∃ k, e = .x509 u d k) →
      u = user ∧ d ≤ L ∧ d ≤ untilMax ∧
      (∀ nd, reqOf ext fd = .parsed nd → 0 ≤ nd ∧ d ≤ nd) := by
  have hd : ∀ d0, e ∈ dispatch user ft d0 → dispatch user ft d0 = [e] ∧
      ∀ u d, (e = .ssh u d ∨ ∃ k, e = .x509 u d k) → u = user ∧ d = d0 := by
    intro d0 he
    unfold dispatch at he ⊢
    dsimp only at he ⊢
    generalize (if ft.2 = true then ft.1.headD [] else "ssh".toList) = t at he ⊢
    by_cases c1 : (t == "ssh".toList) = true
    · simp only [c1, if_true, Bool.false_eq_true, if_true, if_false, List.mem_singleton] at he ⊢; subst he; simp
    · by_cases c2 : (t == "x509".toList) = true
      · simp only [c1, c2, if_true, if_false, Bool.false_eq_true, if_true, if_false, List.mem_singleton] at he ⊢; subst he; simp
      · by_cases c3 : (t == "x509-kubernetes".toList) = true
        · simp only [c1, c2, c3, if_true, if_false, Bool.false_eq_true, if_true, if_false, List.mem_singleton] at he ⊢; subst he; simp
        · simp only [c1, c2, c3, if_false, Bool.false_eq_true, if_true, if_false, List.mem_singleton] at he ⊢; subst he; simp
  rw [c03_go_issue] at h ⊢
  cases hr : reqOf ext fd with
  | absent =>
    rw [hr] at h; dsimp only at h ⊢
    obtain ⟨h1, h2⟩ := hd _ h
    refine ⟨h1, fun u d hu => ?_⟩
    obtain ⟨rfl, rfl⟩ := h2 u d hu
    refine ⟨rfl, ?_, ?_, fun nd hn => by cases hn⟩ <;> unfold clampTo <;> split <;> omega
  | malformed =>
    rw [hr] at h; dsimp only at h ⊢
    simp only [List.mem_singleton] at h; subst h
    exact ⟨rfl, fun u d hu => by rcases hu with hu | ⟨k, hu⟩ <;> cases hu⟩
  | parsed nd =>
    rw [hr] at h; dsimp only at h ⊢
    by_cases h0 : nd < 0
    · simp only [h0, if_true, List.mem_singleton] at h ⊢; subst h
      exact ⟨rfl, fun u d hu => by rcases hu with hu | ⟨k, hu⟩ <;> cases hu⟩
    · by_cases h1 : nd > L
      · simp only [h0, h1, if_true, if_false, List.mem_singleton] at h ⊢; subst h
        exact ⟨rfl, fun u d hu => by rcases hu with hu | ⟨k, hu⟩ <;> cases hu⟩
      · simp only [h0, h1, if_false] at h ⊢
        obtain ⟨h1', h2⟩ := hd _ h
        refine ⟨h1', fun u d hu => ?_⟩
        obtain ⟨rfl, rfl⟩ := h2 u d hu
        refine ⟨rfl, ?_, ?_, fun nd' hn => ?_⟩
        · unfold clampTo; split <;> omega
        · unfold clampTo; split <;> omega
        · cases hn; refine ⟨by omega, ?_⟩; unfold clampTo; split <;> omega

/-- the translated tail agrees with the model's interpreted block (`certgenDuration`, the function the differential
runs and `c03_ssh` / `c03_x509` are about) at the clock readings it is given -/
theorem c03_go_issue_is_model (ext : IssueExt) (user : List Char) (fd ft : List (List Char) × Bool) (t1 iat : Int) :
    (KM.Gen.GoCertGen.certgenIssue ext user fd ft userCap (sat64 (iat + userCap - t1))).2 =
      match certgenDuration KM.Gen.C03.shape KM.Gen.C03.maxCertificateLifetime (reqOf ext fd) t1 iat with
      | .issue d => dispatch user ft d
      | .reject _ => [.fail 400]
      | .stuck => [] := by
  rw [c03_go_issue, c03_decision]
  cases reqOf ext fd with
  | absent => rfl
  | malformed => rfl
  | parsed nd =>
    dsimp only
    by_cases h0 : nd < 0
    · simp [h0]
    · by_cases h1 : nd > userCap
      · simp [h0, h1]
      · simp [h0, h1]

/-- the translation runs: a 1 h request on a credential with 10 min left gets 10 min, for the authenticated user -/
example : (KM.Gen.GoCertGen.certgenIssue ⟨fun _ => (3600000000000, none)⟩ "alice".toList (["1h".toList], true)
    (["x509".toList], true) userCap 600000000000).2 = [.x509 "alice".toList 600000000000 false] := by decide

end KM.ValidityGo
