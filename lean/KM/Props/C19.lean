import KM.Lemmas.Client
/-! # C19 — the client never sends private keys and installs credentials safely

Property theorems only.  Model: `KM/Model/Client.lean`.  Generated facts: `KM/Gen/Client.lean`
(client key generation per preference, certificate requests, the server's key-type alternation
and strength thresholds, every use / serialisation of private-key material in the client). -/
namespace KM.Client
open KM.ClientSite

/-- the hand-written `offers` is what the current client source does (regenerated tables):
for every preference the list of (certificate type, key, mandatory) is the same -/
theorem c19_offers_match_source :
    ∀ p ∈ [Pref.rsa, Pref.p256, Pref.p384], offersFromSource p = (offers p).map some := by
  decide

/-- the facts the line model relies on: the regex is the modelled one around the alternation, and
no alternative contains a space -/
theorem c19_regex_shape :
    KM.Gen.sshKeyRegexRestAsModelled = true ∧
    KM.Gen.sshKeyTypeAlternation.all (fun t => !t.contains ' ' && !t.isEmpty) = true := by
  decide

/-- base64 text as `ssh.MarshalAuthorizedKey` produces it: a non-empty run of the standard
alphabet followed by at most two `=` -/
def IsB64Body (body : List Char) : Prop := body ≠ [] ∧ ∀ c ∈ body, isB64 c = true

/-- **Every key the client offers is one the server certifies.**  For every key preference, every
certificate request `setupCerts` makes (x509, x509-kubernetes, ssh with the main key, ssh with
the Ed25519 key) and whatever the key bytes are: the server's key-file checks pass — for the SSH
requests on the very line the client sends.  The only condition is the server-side configuration
of an Ed25519 CA for the (optional) Ed25519 request; the mandatory requests need nothing. -/
theorem c19_offer_accepted (p : Pref) (cfg : ServerCfg) (o : Offer) (ho : o ∈ offers p)
    (hc : o.mandatory = true ∨ cfg.ed25519CA = true)
    (body pad : List Char) (hb : IsB64Body body) (hp : isPad pad) :
    accepts KM.Gen.sshKeyTypeAlternation cfg o.cert (clientLine o.key body pad) o.key = true := by
  have ssh : ∀ k : Key, ∀ ty, sshTypeName k = some ty →
      KM.Gen.sshKeyTypeAlternation.contains ty = true → (∀ c ∈ ty, c ≠ ' ') → strong k = true →
      (k.kind ≠ KeyKind.ed25519 ∨ cfg.ed25519CA = true) →
      accepts KM.Gen.sshKeyTypeAlternation cfg .ssh (clientLine k body pad) k = true := by
    intro k ty hty hin hsp hst hed
    have hl : lineOK KM.Gen.sshKeyTypeAlternation (clientLine k body pad) = true := by
      unfold clientLine
      rw [hty]
      exact lineOK_clientLine _ ty body pad hin hsp hb.2 hb.1 hp
    simp only [accepts, sshVerdict, hl, if_true, hst]
    rcases hed with h | h
    · simp [h]
    · simp [h]
  have hca : o.mandatory = false → cfg.ed25519CA = true := by
    intro hm; rcases hc with h | h
    · rw [hm] at h; cases h
    · exact h
  cases p with
  | unknown => simp [offers, mainKey] at ho
  | rsa =>
    simp only [offers, mainKey, List.mem_cons, List.not_mem_nil, or_false] at ho
    rcases ho with h | h | h | h <;> subst h
    · simp only [accepts]; decide
    · simp only [accepts]; decide
    · exact ssh _ "ssh-rsa".toList rfl (by decide) (by decide) (by decide) (Or.inl (by decide))
    · exact ssh _ "ssh-ed25519".toList rfl (by decide) (by decide) (by decide) (Or.inr (hca rfl))
  | p256 =>
    simp only [offers, mainKey, List.mem_cons, List.not_mem_nil, or_false] at ho
    rcases ho with h | h | h | h <;> subst h
    · simp only [accepts]; decide
    · simp only [accepts]; decide
    · exact ssh _ "ecdsa-sha2-nistp256".toList rfl (by decide) (by decide) (by decide) (Or.inl (by decide))
    · exact ssh _ "ssh-ed25519".toList rfl (by decide) (by decide) (by decide) (Or.inr (hca rfl))
  | p384 =>
    simp only [offers, mainKey, List.mem_cons, List.not_mem_nil, or_false] at ho
    rcases ho with h | h | h | h <;> subst h
    · simp only [accepts]; decide
    · simp only [accepts]; decide
    · exact ssh _ "ecdsa-sha2-nistp384".toList rfl (by decide) (by decide) (by decide) (Or.inl (by decide))
    · exact ssh _ "ssh-ed25519".toList rfl (by decide) (by decide) (by decide) (Or.inr (hca rfl))

/-- the alternation of the pinned tree -/
def alternationAsFound : List (List Char) :=
  ["ssh-rsa".toList, "ssh-dss".toList, "ecdsa-sha2-nistp256".toList, "ssh-ed25519".toList]

/-- with `-preferredKeyType p384` the client's main SSH key is `ecdsa-sha2-nistp384`; the regex
of the pinned tree refuses the line the client sends (so `setupCerts` fails as a whole), while
the same server accepts the same key for X.509 -/
theorem c19_unfixed_counterexample :
    (⟨.ssh, ⟨.ecdsa, 384, 0⟩, true⟩ : Offer) ∈ offers .p384 ∧
    accepts alternationAsFound ⟨true⟩ .ssh (clientLine ⟨.ecdsa, 384, 0⟩ "AAAAE2VjZHNh".toList []) ⟨.ecdsa, 384, 0⟩ = false ∧
    sshVerdict alternationAsFound (clientLine ⟨.ecdsa, 384, 0⟩ "AAAAE2VjZHNh".toList []) (some ⟨.ecdsa, 384, 0⟩) = .badRe ∧
    accepts alternationAsFound ⟨true⟩ .x509 [] ⟨.ecdsa, 384, 0⟩ = true := by
  decide

/-- non-vacuity: the hypotheses of `c19_offer_accepted` are satisfiable -/
example : IsB64Body "AAAAC3NzaC1lZDI1NTE5".toList ∧ isPad ['='] ∧
    (⟨.ssh, ed25519Key, false⟩ : Offer) ∈ offers .rsa := by
  refine ⟨⟨by decide, by decide⟩, Or.inr (Or.inl rfl), by decide⟩

/-! ## agent -/

/-- **Agent upsert.**  For every agent content (each key blob held once, as OpenSSH's agent
guarantees) and every new certificate entry with a fresh blob: after the upsert the agent holds
exactly the old entries that are not certificates with the new entry's comment, in their order,
plus the new entry; so exactly one certificate carries the comment — the new one — and every
other entry (other comments, plain keys) is untouched. -/
theorem c19_agent (a : List Entry) (new : Entry) (hnd : (a.map Entry.blob).Nodup) (hc : new.isCert = true) :
    agentUpsert a new = a.filter (fun e => !isDup new e) ++ [new] ∧
    (agentUpsert a new).filter (isDup new) = [new] ∧
    ∀ e, isDup new e = false → (e ∈ agentUpsert a new ↔ e ∈ a) := by
  have h := agentUpsert_eq a new hnd
  have hself : isDup new new = true := by simp [isDup, hc]
  refine ⟨h, ?_, ?_⟩
  · rw [h, List.filter_append, List.filter_filter]
    have : a.filter (fun e => isDup new e && !isDup new e) = [] := by
      apply List.filter_eq_nil_iff.mpr
      intro e _
      cases isDup new e <;> simp
    rw [this]
    simp [hself]
  · intro e he
    rw [h]
    simp only [List.mem_append, List.mem_filter, List.mem_singleton, he, Bool.not_false, and_true]
    constructor
    · intro h'
      rcases h' with h' | h'
      · exact h'
      · subst h'; rw [hself] at he; cases he
    · intro h'; exact Or.inl h'

/-- **Replacement survives failed attempts (round 5).**  The client installs a certificate by an
attempt with a lifetime and, if that fails, a retry of the same certificate without one; the agent
may fail any single request (`List`, the k-th `Remove`, `Add`) of any attempt.  For every agent
content (blobs pairwise distinct), every new certificate entry and every sequence of per-attempt
faults, of any length: if some attempt succeeds the agent holds exactly the old entries that are not
certificates with the label plus the new one — so the new certificate is the only one under its
label however many attempts failed before and wherever they failed; if none succeeds no entry other
than certificates with that label has been touched and nothing has been added. -/
theorem c19_agent_retry (a : List Entry) (new : Entry) (fs : List Fault)
    (hnd : (a.map Entry.blob).Nodup) (hc : new.isCert = true) :
    ((install a new fs).2 = true →
      (install a new fs).1 = a.filter (fun e => !isDup new e) ++ [new] ∧
      (install a new fs).1.filter (isDup new) = [new]) ∧
    ((install a new fs).2 = false →
      (install a new fs).1.filter (fun e => !isDup new e) = a.filter (fun e => !isDup new e) ∧
      ∀ e ∈ (install a new fs).1, e ∈ a) := by
  have h := install_spec fs new a hnd
  refine ⟨fun hok => ⟨h.1 hok, ?_⟩, h.2⟩
  rw [h.1 hok, ← agentUpsert_eq a new hnd]
  exact (c19_agent a new hnd hc).2.1

/-- the retry scenario is not vacuous: an earlier certificate under the label, first attempt fails
at `List`, the retry succeeds — one certificate under the label; and a memo "already cleaned" taken
before the clean-up succeeded (the retry only adds) would leave two -/
example : install [⟨"l".toList, 1, true⟩, ⟨"o".toList, 2, false⟩] ⟨"l".toList, 3, true⟩ [.list, .none] =
    ([⟨"o".toList, 2, false⟩, ⟨"l".toList, 3, true⟩], true) := by decide

/-- **Agent upsert source** (regenerated): the two functions `agentUpsert` transcribes read, after
whitespace normalisation, exactly as they did when the model was written (list the agent; for every
entry that parses as a certificate and carries the comment: `Remove`; then `Add`).  Any edit —
even a harmless one — breaks this tie and sends the check looking for a failing input. -/
theorem c19_agent_source :
    KM.Gen.deleteDuplicateEntriesSrc = "{ keyList, err := agentClient.List() if err != nil { return 0, err } deletedCount := 0 for _, key := range keyList { pubKey, err := ssh.ParsePublicKey(key.Marshal()) if err != nil { logger.Debugln(0, err) continue } _, ok := pubKey.(*ssh.Certificate) if !ok { continue } if key.Comment != comment { continue } err = agentClient.Remove(pubKey) if err != nil { return deletedCount, err } deletedCount++ } return deletedCount, nil }".toList ∧
    KM.Gen.withAddedKeyUpsertCertIntoAgentConnectionSrc = "{ if certToAdd.Certificate == nil { return fmt.Errorf(\"Needs a certificate to be added\") } agentClient := agent.NewClient(conn) _, err := deleteDuplicateEntries(certToAdd.Comment, agentClient, logger) if err != nil { logger.Printf(\"failed during deletion err=%s\", err) return err } if runtime.GOOS == \"windows\" { certToAdd.LifetimeSecs = 0 certToAdd.ConfirmBeforeUse = false } return agentClient.Add(certToAdd) }".toList := by
  exact ⟨rfl, rfl⟩

/-- every key kind of the regenerated client table is one the agent differential knows how to make
(so that a new key type in `signers.compute` is either covered or stops the build) -/
theorem c19_agent_key_kinds :
    KM.Gen.clientKeyGen.all (fun r => r.2.2.1 == KeyKind.rsa || r.2.2.1 == KeyKind.ecdsa || r.2.2.1 == KeyKind.ed25519) = true := by
  decide

/-- identities that are not certificates — plain keys, and identities of key algorithms the SSH
library cannot even parse (`deleteDuplicateEntries` skips both) — neither prevent the replacement
nor are touched, wherever the agent lists them (before or after the old certificate), even when
they carry the label themselves -/
theorem c19_agent_foreign (pre post : List Entry) (f new : Entry) (hf : f.isCert = false)
    (hnd : ((pre ++ f :: post).map Entry.blob).Nodup) (hc : new.isCert = true) :
    (agentUpsert (pre ++ f :: post) new).filter (isDup new) = [new] ∧
    f ∈ agentUpsert (pre ++ f :: post) new := by
  have h := c19_agent (pre ++ f :: post) new hnd hc
  refine ⟨h.2.1, (h.2.2 f (by simp [isDup, hf])).mpr (by simp)⟩

/-- why the blob hypothesis is there: were the same certificate blob held under two comments,
`Remove` by blob would delete both -/
example : agentUpsert [⟨"a".toList, 1, true⟩, ⟨"b".toList, 1, true⟩] ⟨"a".toList, 2, true⟩ =
    [⟨"a".toList, 2, true⟩] := by decide

/-! ## where the private key goes at installation -/

/-- **Installation destination.**  Whatever the environment and whoever listens wherever: the
private key is handed to a socket only if that socket is the one the user configured
(`$SSH_AUTH_SOCK`) and something accepts it there; in every other case — in particular with no
agent configured, regardless of listeners on any other path — it ends in a file of mode 0600. -/
theorem c19_install_dest (sock : List Char) (listening : List Char → Bool) :
    (∀ p, installDest sock listening = .agent p → p = sock ∧ sock ≠ [] ∧ listening sock = true) ∧
    ((sock = [] ∨ listening sock = false) → installDest sock listening = .file 0o600) := by
  unfold installDest
  constructor
  · intro p hp
    split at hp
    · rename_i h
      simp only [Bool.and_eq_true, bne_iff_ne, ne_eq] at h
      injection hp with hp
      exact ⟨hp.symm, h.1, h.2⟩
    · cases hp
  · intro h
    rcases h with h | h <;> simp [h]

/-- the only place the client picks an agent socket reads as when `installDest` was written:
`$SSH_AUTH_SOCK`, nothing else -/
theorem c19_agent_location_source :
    KM.Gen.connectToDefaultSSHAgentLocationSrc = "{ if runtime.GOOS == \"windows\" { return npipe.Dial(`\\\\.\\pipe\\openssh-ssh-agent`) } socket := os.Getenv(\"SSH_AUTH_SOCK\") return net.Dial(\"unix\", socket) }".toList := rfl

/-! ## where private keys go (regenerated tables) -/

def useOK (pkg : ClientPkg) : KeyUse → Bool
  | .public | .passed | .tlsKey | .assigned | .nilCheck | .typeSwitch | .returned | .declared => true
  -- serialising a private key and handing it to the agent happen in the CLI and its file / agent
  -- helpers only, never in the packages that talk to the server
  | .serialised => pkg == .main || pkg == .util
  | .agentKey => pkg == .main || pkg == .sshagent
  | .field | .agentAdd | .unknown => false

def addedKeyUseOK : KeyUse → Bool
  | .assigned | .passed | .field | .agentAdd => true
  | _ => false

def sinkOK : KeySink → Bool
  | .file mode => mode == 0o600
  | .unused => true
  | .unknown => false

/-- **Flows.**  In cmd/keymaster and lib/client/*: every occurrence of a private-key valued
expression is a `.Public()` call, a hand-over to another function of these packages (whose
parameter is in the table again), the in-process TLS client key, a definition, or — only in the
CLI itself and its file / agent helpers — a serialisation or an `agent.AddedKey`; every
serialisation of a private key (PKCS#8, PKCS#1, EC, OpenSSH) flows only into
`pem.EncodeToMemory` → `WriteFile(…, 0600)`; every `agent.AddedKey` value only reaches
`agentClient.Add`; and the request-building package lib/client/twofa touches signers only
through `.Public()` (or passes them to the function that does). -/
theorem c19_flows :
    KM.Gen.clientKeyUses.all (fun u => useOK u.1 u.2.2) = true ∧
    KM.Gen.clientKeySinks.all (fun s => sinkOK s.2.2) = true ∧
    KM.Gen.clientAddedKeyUses.all (fun u => addedKeyUseOK u.2.2) = true ∧
    (KM.Gen.clientKeyUses.filter (fun u => u.1 == ClientPkg.twofa)).all
      (fun u => u.2.2 == KeyUse.public || u.2.2 == KeyUse.passed) = true ∧
    (KM.Gen.clientKeyUses.filter (fun u => u.1 == ClientPkg.twofa && u.2.2 == KeyUse.public)).length ≥ 1 ∧
    (KM.Gen.clientKeySinks.filter (fun s => s.2.2 == KeySink.file 0o600)).length ≥ 3 ∧
    (KM.Gen.clientAddedKeyUses.filter (fun u => u.2.2 == KeyUse.agentAdd)).length ≥ 1 := by
  decide

end KM.Client
