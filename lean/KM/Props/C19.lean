/-! # C19 — property theorems (stub: not built yet) -/
