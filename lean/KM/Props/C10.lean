/-! # C10 — property theorems (stub: not built yet) -/
