import KM.Model.KeyStrength
import KM.Lemmas.IPBlock
/-! # C10 — only strong public keys are certified; malformed input never panics a handler

Property theorems only.  `strong` mirrors `certgen.ValidatePublicKeyStrength` with the thresholds
regenerated from the source, `decide'` what every issuing path does with submitted bytes,
`KM.Gen.C10.issuingPaths` is the regenerated table of the six issuing paths, `KM.IPBlock.decode`
the address-extension decoder with Go's index checks explicit. -/
namespace KM.KeyStrength

/-- **Predicate**: over every RSA size and exponent, every curve Go can parse (P-224, P-256, P-384,
P-521 — no curve lies between the code's 255 and the property's 256), Ed25519 and every other key
type, the predicate of the current source accepts exactly what the property allows. -/
theorem c10_strong (k : KeyDesc) (hc : ∀ cb, k = .ecdsa cb → cb ∈ goCurves) :
    strong k = spec k := by
  cases k with
  | rsa bits e =>
    simp only [strong, strongWith, current, KM.Gen.C10.rsaMinBits, KM.Gen.C10.rsaMinE, passes, spec]
    by_cases h1 : bits < 2048 <;> by_cases h2 : e < 65537 <;> simp [h1, h2] <;> omega
  | ecdsa cb =>
    have := hc cb rfl
    simp only [goCurves, List.mem_cons, List.not_mem_nil, or_false] at this
    rcases this with h | h | h | h <;> subst h <;> decide
  | ed25519 => decide
  | other => decide

/-- without the restriction to parseable curves the two differ only on a 255-bit "curve" -/
theorem c10_strong_any_curve (cb : Nat) : strong (.ecdsa cb) = spec (.ecdsa cb) ∨ cb = 255 := by
  simp only [strong, strongWith, current, KM.Gen.C10.ecdsaBitSizeBelow, passes, spec]
  by_cases h1 : cb < 255 <;> by_cases h2 : 256 ≤ cb <;> simp [h1, h2] <;> omega

/-- **Decision**: on every path, whatever bytes are submitted and whatever the regular expression
says, a certificate is issued only for a key the property allows; unparsable input is refused. -/
theorem c10_issue (p : Path) (re : Bool) (s : Submitted) (h : decide' p re s = .issue) :
    ∃ k, s = .key k ∧ ((∀ cb, k = .ecdsa cb → cb ∈ goCurves) → spec k = true) := by
  cases s with
  | unparsable => simp [decide', decideWith] at h
  | key k =>
    refine ⟨k, rfl, fun hc => ?_⟩
    rw [← c10_strong k hc]
    unfold decide' decideWith at h
    simp only at h
    split at h
    · cases h
    · split at h
      · assumption
      · cases h

/-- strong keys are accepted (the refusals are not over-broad): on the non-SSH paths every key the
property allows is issued for -/
theorem c10_issue_complete (p : Path) (re : Bool) (k : KeyDesc) (hp : p ≠ .ssh)
    (hc : ∀ cb, k = .ecdsa cb → cb ∈ goCurves) (hs : spec k = true) :
    decide' p re (.key k) = .issue := by
  rw [← c10_strong k hc] at hs
  unfold decide' decideWith
  simp only [hp, false_and, if_false]
  unfold strong at hs
  simp [hs]

/-- **What is tested is what is signed** (regenerated table + consequence): on each of the six paths
the expression whose strength is tested is the very expression handed on to the signer (SSH: the
helper parses its own parameter, the same string the handler gives to `GenSSHCertFileString`; the
role paths store the tested key in `rvalue.UserPub` and the signer reads `params.UserPub`; the AWS
signer callback tests and certifies the same `publicKey`).  Hence the key in a certificate is the key
that was tested: for any upload, however many keys it holds, a certificate carries only a key the
property allows. -/
theorem c10_validated_is_signed :
    KM.Gen.C10.keyFlow =
      [("ssh".toList, "userPubKey".toList, "userPubKey".toList), ("x509".toList, "userPub".toList, "userPub".toList),
       ("x509-kubernetes".toList, "userPub".toList, "userPub".toList),
       ("role-requesting".toList, "userPub".toList, "userPub".toList),
       ("role-refresh".toList, "userPub".toList, "userPub".toList), ("aws-role".toList, "pub".toList, "pub".toList)] ∧
    KM.Gen.C10.keyFlow.all (fun r => r.2.1 == r.2.2) = true ∧
    KM.Gen.C10.roleSignerKeyArg = "params.UserPub".toList ∧
    KM.Gen.C10.awsSignerFlow = ("publicKey".toList, "publicKey".toList) ∧
    (∀ p re s k, certifiedWith current p re s s = some k →
      (∀ cb, k = .ecdsa cb → cb ∈ goCurves) → spec k = true) ∧
    -- and it matters: a path that tests one key of the upload and signs another certifies a weak key
    certifiedWith current .ssh true (.key (.rsa 2048 65537)) (.key (.rsa 1024 65537)) = some (.rsa 1024 65537) := by
  refine ⟨by decide, by decide, by decide, by decide, ?_, by decide⟩
  intro p re s k h hc
  unfold certifiedWith at h
  cases hd : decideWith current p re s with
  | refuse => simp [hd] at h
  | issue =>
    cases s with
    | unparsable => simp [hd] at h
    | key k' =>
      simp only [hd, Option.some.injEq] at h
      subst h
      obtain ⟨k'', hk, hspec⟩ := c10_issue p re (.key k') hd
      injection hk with hk
      subst hk
      exact hspec hc

/-- **Paths** (regenerated table): each of the six issuing paths — ssh, x509, x509-kubernetes,
role-requesting, role-refresh, aws-role — tests key strength (directly or in its parsing helper) in
a top-level statement that precedes the signing call, and the branch taken for a weak key writes a
4xx status; `certGenHandler` dispatches only to those handlers and refuses unknown certificate
types with 400; the signer behind the AWS path tests again; no other function of cmd/keymasterd
calls a signing primitive except CA self-signing and the first-run TLS certificate. -/
theorem c10_paths :
    KM.Gen.C10.issuingPaths.map (·.name) =
      ["ssh".toList, "x509".toList, "x509-kubernetes".toList, "role-requesting".toList,
       "role-refresh".toList, "aws-role".toList] ∧
    KM.Gen.C10.issuingPaths.all pathOK = true ∧
    KM.Gen.C10.certTypeDispatch =
      [("ssh".toList, "postAuthSSHCertHandler".toList), ("x509".toList, "postAuthX509CertHandler".toList),
       ("x509-kubernetes".toList, "postAuthX509CertHandler".toList), ("default".toList, "refuse:400".toList)] ∧
    KM.Gen.C10.awsSignerTests = true ∧
    KM.Gen.C10.signSites =
      ["generateCADer→certgen.GenSelfSignedCACert".toList,
       "generateCertAndWriteToFile→x509.CreateCertificate".toList,
       "generateRoleCert→x509.CreateCertificate".toList,
       "generateSelfRoleRequestingCADer→certgen.GenSelfSignedCACert".toList,
       "postAuthSSHCertHandler→certgen.GenSSHCertFileString".toList,
       "postAuthX509CertHandler→certgen.GenUserX509Cert".toList,
       "withParamsGenerateRoleRequestingCert→certgen.GenIPRestrictedX509Cert".toList] ∧
    KM.Gen.C10.signerCallers =
      ["certGenHandler→postAuthSSHCertHandler".toList, "certGenHandler→postAuthX509CertHandler".toList,
       "certGenHandler→postAuthX509CertHandler".toList,
       "loadVerifyConfigFile→CertificateGenerator=runtimeState.generateRoleCert".toList,
       "refreshRoleRequestingCertGenHandler→withParamsGenerateRoleRequestingCert".toList,
       "roleRequetingCertGenHandler→withParamsGenerateRoleRequestingCert".toList] := by
  decide

/-- **Source of the predicate** (regenerated): the function is one type switch with exactly the
recognised cases and tests; nothing else influences the verdict. -/
theorem c10_predicate_source :
    KM.Gen.C10.rsaMinBits = some 2048 ∧ KM.Gen.C10.rsaMinE = some 65537 ∧
    KM.Gen.C10.ecdsaBitSizeBelow = some 255 ∧ KM.Gen.C10.ed25519Accepted = true ∧
    KM.Gen.C10.defaultRefuses = true ∧ KM.Gen.C10.strengthUnrecognised = [] ∧
    KM.Gen.C10.sshKeyTypes =
      ["ssh-rsa".toList, "ssh-dss".toList, "ecdsa-sha2-nistp256".toList, "ecdsa-sha2-nistp384".toList,
       "ssh-ed25519".toList] := by
  decide

end KM.KeyStrength

namespace KM.IPBlock

/-- **Decoder totality**: for every bit string whatsoever — any claimed bit length, any number of
bytes, DER-valid or not — the address decoder of the current source returns a block or an error:
under its guard (`BitLength ≤ 32`, `len(Bytes) ≥ ⌈BitLength/8⌉`, as read from the source) the copy
loop, modelled with Go's two index checks, never reaches one; hence neither reader of an address
extension panics and the refresh handler never crashes, for every extension and every peer. -/
theorem c10_decode_total :
    (∀ s : BitStr, decode s ≠ .panic) ∧
    (∀ s : BitStr, s.bitLen ≤ 32 → (s.bitLen + 7) / 8 ≤ s.bytes.length →
      ∀ fuel i acc, ∃ ip, copyLoop s fuel i acc = .ok ip) ∧
    (∀ e p, verify e p ≠ .panic ∧ extract e ≠ .panic) ∧
    (∀ cn e p env, refresh cn e p env ≠ .crashed ∧ ipAuth cn e p env ≠ .crashed) := by
  refine ⟨decode_ne_panic, copyLoop_safe, fun e p =>
    ⟨verify_ne_panic decode_ne_panic e p, extract_ne_panic decode_ne_panic e⟩, ?_⟩
  intro cn e p env
  have hv := verify_ne_panic decode_ne_panic e p
  have hx := extract_ne_panic decode_ne_panic e
  constructor
  · unfold refresh refreshWith ipAuthWith
    cases h1 : verifyWith decode e p with
    | panic => exact absurd h1 hv
    | err => simp
    | ok t =>
      cases t <;> simp
      cases env.denied <;> cases env.automation <;> cases env.revoked <;> simp
      split
      · simp
      · cases h2 : extractWith decode e with
        | panic => exact absurd h2 hx
        | err => simp
        | ok n => simp
  · unfold ipAuth ipAuthWith
    cases h1 : verifyWith decode e p with
    | panic => exact absurd h1 hv
    | err => simp
    | ok t =>
      cases t <;> simp
      cases env.denied <;> cases env.automation <;> cases env.revoked <;> simp

end KM.IPBlock

namespace KM.KeyStrength

/-- the pinned tree breaks the property in three places: its predicate certifies a 2047-bit RSA key;
its AWS path has no strength test of its own, so a weak key is answered with 500, not a client
error; its address decoder panics on a 40-bit address. -/
theorem c10_unfixed_counterexample :
    strongWith asFound (.rsa 2047 65537) = true ∧ spec (.rsa 2047 65537) = false ∧
    decideWith asFound .x509 true (.key (.rsa 2041 65537)) = .issue ∧
    pathOK ⟨"aws-role".toList, "requestHandler".toList, .inSigner, false, 500⟩ = false ∧
    KM.IPBlock.decodeOld ⟨40, [10, 0, 0, 0, 0]⟩ = .panic := by
  decide

/-! non-vacuity -/
example : strong (.rsa 2048 65537) = true ∧ strong (.rsa 2047 65537) = false ∧
    strong (.rsa 4096 3) = false ∧ strong (.ecdsa 224) = false ∧ strong (.ecdsa 256) = true ∧
    strong .ed25519 = true ∧ strong .other = false := by decide
example : decide' .ssh false (.key (.ecdsa 384)) = .refuse ∧ decide' .x509 false (.key (.ecdsa 384)) = .issue := by
  decide

end KM.KeyStrength
