import KM.Lemmas.PwCache
/-! # C07 — the directory's verdict on a password is final; the offline cache only fills outages

Model: `KM.PwCache` (repaired code; as-found variants `checkServerUnfixed`, `checkRecUnfixed`,
`syncUnfixed`). Cryptography is a parameter: a row verifies only if keymaster's key signed its
content (`coerce` in the `tamper` op), an Argon2 hash matches exactly the password `pwId`.
The theorems quantify over ALL states / ALL operation lists: logins of any user with any
password, servers going up, down or erroring, password changes, clock advances, primary slow or
unreachable, synchronisations, and an attacker who rewrites any row of either database with
anything he can build from blobs keymaster has signed. -/
namespace KM.PwCache

/-! ## generated facts the model rests on -/

/-- **The source still has the shape the model transcribes** (regenerated on every run): cache
duration 96 h, record type 1, `expirationDuration` only ever set to that constant; the server loop
is `bind DN → CheckLDAPUserPassword → on error continue → updateOrDeletePasswordHash → return the
verdict`, the stored hash is consulted only after the loop and only accepts on a match;
`updateOrDeletePasswordHash` upserts with expiry now + duration / deletes only on a match;
`CheckLDAPUserPassword` refuses the empty password first, turns a bind error containing the literal
"Invalid Credentials" into a verdict and every other error into a fall-through; `GetSigned` compares
signed subject, type and expiry; synchronisation empties both cache tables inside its transaction;
every caller of `checkUserPassword` passes the reprocessed name, which reaches the backend as is. -/
theorem c07_source_shape :
    KM.Gen.C07.cacheDurationSecs = 96 * 3600 ∧ KM.Gen.C07.passwordDataType = 1 ∧
    KM.Gen.C07.expirationDurationInits = ["defaultCacheDuration".toList] ∧
    KM.Gen.C07.authTop = [.initInvalid, .serverLoop, .cacheFallback, .returnReject] ∧
    KM.Gen.C07.loopBody = [.bindDN, .check, .onErrContinue, .updateOrDelete, .logOnly, .returnVerdict] ∧
    KM.Gen.C07.fallback = [.logOnly, .getSigned, .onErrReject, .acceptIfMatches] ∧
    KM.Gen.C07.updPrologue = [.noStorageError] ∧
    KM.Gen.C07.updValid = [.makeHash, .onErrNil, .expiryNowPlusDuration, .upsert, .logOnly, .returnErr] ∧
    KM.Gen.C07.updInvalid = [.getSigned, .onErrNil, .deleteIfMatches] ∧
    KM.Gen.C07.updEpilogue = [.returnNil] ∧
    KM.Gen.C07.bindStmts = [.timeoutDecl, .rejectEmptyPassword, .connect, .onConnErr, .deferClose, .setTimeout,
                            .start, .bind, .onBindErr, .returnTrue] ∧
    KM.Gen.C07.invalidCredentialsLiteral = "Invalid Credentials".toList ∧
    KM.Gen.C07.checkCallers = ["lib/pwauth/ldap:passwordAuthenticate".toList] ∧
    KM.Gen.C07.signedChecks = [.subjectIsUser, .typeIsRequested, .notExpired] ∧
    KM.Gen.C07.getSignedReturnsSignedData = true ∧
    KM.Gen.C07.rowFilterIsUserTypeAndColumnExpiryStrict = true ∧
    KM.Gen.C07.syncDeletes = [.txExec "user_profile".toList, .txExec "expiring_signed_user_data".toList] ∧
    KM.Gen.C07.syncCopiesUnexpiredByColumn = true ∧
    KM.Gen.C07.passwordCallers.all (fun c => c.2 == NormClass.reprocessedSameVar) = true ∧
    KM.Gen.C07.passwordCallers.map (·.1) = ["checkAuth".toList, "loginHandler".toList] ∧
    KM.Gen.C07.checkUserPasswordPassesNameThrough = true ∧
    KM.Gen.C07.reprocessUsername = [.lowerUnlessDisabled, .regexFilter, .returnName] := by decide

/-! ## the directory's verdict is final -/

/-- **Some (server, bind pattern) pair answers with a verdict ⇒ the result is the directory's
verdict** (`answers`: a reachable server and a pattern the directory does not answer with an error;
`dirAccepts`: the FIRST such pattern names the user's entry and the directory holds this non-empty
password — errors fall through to the next pattern and the next server, a verdict never does),
whatever the stores hold (tampered, expired, foreign-signed, another user's record), whatever the
other servers do and whatever later patterns would have answered; an
acceptance is recorded as a confirmation and — the primary being writable — leaves exactly one fresh
record for this user and password, signed for this user, of the password type, expiring
`cacheDur` from now; a rejection confirms nothing, never touches the cache database and never
creates a record. -/
theorem c07_dir_final (s : State) (u : User) (pw : Pw) (h : answers s) :
    (login s u pw).2 = dirAccepts s u pw ∧
    (dirAccepts s u pw = true →
      (login s u pw).1.confirmed = (u, pw, s.now) :: s.confirmed ∧
      (writable s = true → (login s u pw).1.primary u =
        some { signed := { subject := u, pwId := pw, exp := s.now + cacheDur, type := pwType },
               sigOK := true, columnExp := s.now + cacheDur })) ∧
    (dirAccepts s u pw = false →
      (login s u pw).1.confirmed = s.confirmed ∧ (login s u pw).1.issued = s.issued ∧
      (login s u pw).1.cache = s.cache ∧
      ∀ x, (login s u pw).1.primary x = s.primary x ∨ (login s u pw).1.primary x = none) := by
  unfold login loginWith
  rw [loop_of_answers s u pw h]
  cases hd : dirAccepts s u pw
  · refine ⟨rfl, (fun hc => by cases hc), fun _ => ?_⟩
    simp only
    split
    · split
      · refine ⟨rfl, rfl, rfl, fun x => ?_⟩
        simp only [delete]
        split
        · by_cases hx : x = u
          · right; rw [hx, upd_self]
          · left; rw [upd_other _ _ hx]
        · exact Or.inl rfl
      · exact ⟨rfl, rfl, rfl, fun _ => Or.inl rfl⟩
    · exact ⟨rfl, rfl, rfl, fun _ => Or.inl rfl⟩
  · refine ⟨rfl, (fun _ => ⟨rfl, fun hw => ?_⟩), (fun hc => by cases hc)⟩
    simp only [upsert, hw, if_true, upd_self, freshRec, freshSigned]

/-- **Servers × patterns: the first verdict in loop order is final.** With any number of servers in any
state and any list of bind patterns, as soon as one pair gives verdicts the login is accepted exactly
when the password is non-empty, the first pattern not answered with an error names the user's entry,
the directory holds that password and the account is in a usable state; in particular a refusal for a
disabled / locked / expired account is a rejection like any other, and a rejection under an earlier pattern is not
overridden by a later pattern's success or error, nor by the cached hash. -/
theorem c07_first_verdict_final (s : State) (u : User) (pw : Pw) (h : answers s) :
    ((login s u pw).2 = true ↔
      (pw ≠ 0 ∧ firstPat s = some Pat.entry ∧ s.dir u = some pw ∧ s.disabled u = false)) ∧
    (firstPat s ≠ some Pat.entry → (login s u pw).2 = false) := by
  rw [(c07_dir_final s u pw h).1]
  unfold dirAccepts
  constructor
  · simp [holds, Bool.and_eq_true, and_assoc]
  · intro hne
    have : (firstPat s == some Pat.entry) = false := by simpa using hne
    rw [this]; simp

/-- **Rejection of the cached password evicts it.** Full statement wanted by the property:
`answers s → dirAccepts s u pw = false → (the user's stored hash is pw's) → afterwards no store
holds it`. That is FALSE while the primary is unreachable or its cache is stale
(`c07_evict_lost_witness`, known finding): the proved part — when the store `GetSigned` consults
holds a valid record of this password and the primary is writable, the primary's record is gone
after the login; any other rejected password leaves both stores exactly as they were. -/
theorem c07_evict_partial (s : State) (u : User) (pw : Pw) (h : answers s) (hd : dirAccepts s u pw = false) :
    (getSigned s u = .found pw → writable s = true → (login s u pw).1.primary u = none) ∧
    (getSigned s u ≠ .found pw → (login s u pw).1.primary = s.primary ∧ (login s u pw).1.cache = s.cache) := by
  unfold login loginWith
  rw [loop_of_answers s u pw h, hd]
  constructor
  · intro hg hw
    simp only [hg, if_true, delete, hw, upd_self]
  · intro hg
    simp only
    split
    · rename_i p hp
      split
      · rename_i hpp; subst hpp; exact absurd hp hg
      · exact ⟨rfl, rfl⟩
    · exact ⟨rfl, rfl⟩

/-- the double fault behind the known finding: the directory rejects the cached password while the
primary is unreachable (the delete fails), the primary comes back, the directory goes away — and the
rejected password is accepted -/
theorem c07_evict_lost_witness :
    (login (run init [.setServers [.up], .setPats [.entry], .changePw 0 (some 1), .login 0 1, .sync, .changePw 0 (some 3),
                      .setPrim .down, .login 0 1, .setPrim .up, .setServers [.down]]) 0 1).2 = true := by
  decide

/-! ## the invariant, over arbitrary histories -/

/-- **Every record that verifies comes from a directory-confirmed login**: in every state reachable by
ANY operation list, each password record keymaster ever signed names a `(user, password, time)` the
directory confirmed and expires exactly `cacheDur` after it; every row of either database that
verifies carries such signed content; confirmations never concern the empty password and lie in the
past. -/
theorem c07_invariant (ops : List Op) : Inv (run init ops) := inv_run inv_init ops

/-- **Confirmations come only from the directory**: an entry enters the list of confirmed logins
only through a login during which a server answered and the directory held exactly that password
for that user at that time. -/
theorem c07_confirm_only_by_directory (s : State) (op : Op) (u : User) (pw : Pw) (t : Nat)
    (h : (u, pw, t) ∈ (step s op).confirmed) :
    (u, pw, t) ∈ s.confirmed ∨ (op = .login u pw ∧ answers s ∧ dirAccepts s u pw = true ∧ t = s.now) := by
  cases op with
  | login u' pw' =>
    simp only [step, stepWith, repaired] at h
    unfold loginWith at h
    split at h
    · rename_i hl
      simp only [List.mem_cons] at h
      rcases h with heq | h
      · right
        injection heq with h1 h2; injection h2 with h2 h3
        subst h1; subst h2; subst h3
        exact ⟨rfl, (loop_some_true s u pw hl).1, (loop_some_true s u pw hl).2, rfl⟩
      · exact Or.inl h
    · left
      split at h
      · split at h
        · exact h
        · exact h
      · exact h
    · left
      split at h <;> exact h
  | setServer i st => exact Or.inl h
  | setServers l => exact Or.inl h
  | setPats l => exact Or.inl h
  | changePw u' p => exact Or.inl h
  | setAccount u' ok => exact Or.inl h
  | setAnon b => exact Or.inl h
  | advance dt => exact Or.inl h
  | setPrim p => exact Or.inl h
  | sync =>
    left
    simp only [step, stepWith, repaired, sync] at h
    split at h <;> exact h
  | tamper st u' o => cases st <;> exact Or.inl h
  | signOther sg =>
    left
    simp only [step, stepWith] at h
    split at h <;> exact h

/-! ## only when no server answers may a cached hash decide -/

/-- **No server answers ∧ accepted ⇒ a record of an earlier confirmed login decided**: in any state
satisfying the invariant, an acceptance while no server gives verdicts rests on the row of the store
`GetSigned` consults: it verifies under keymaster's key, is signed for this very user, for the
password data type and for this very password; the directory confirmed that user with that password
at some earlier time `t`; the signed expiry is exactly `t + cacheDur`, has not passed, and neither has
the unsigned column's. The empty password is never accepted. -/
theorem c07_offline_state (s : State) (hinv : Inv s) (u : User) (pw : Pw) (hno : ¬ answers s)
    (hacc : (login s u pw).2 = true) :
    ∃ r t, readRow s u = some r ∧ r.sigOK = true ∧ r.signed.subject = u ∧ r.signed.type = pwType ∧
      r.signed.pwId = pw ∧ (u, pw, t) ∈ s.confirmed ∧ t ≤ s.now ∧ r.signed.exp = t + cacheDur ∧
      s.now ≤ r.signed.exp ∧ s.now < r.columnExp ∧ pw ≠ 0 := by
  unfold login loginWith at hacc
  have hg : getSigned s u = .found pw := by
    rcases loop_of_not_answers s u pw hno with hl | hl
    · rw [hl] at hacc
      simp only at hacc
      split at hacc
      · rename_i p hp
        have : p = pw := by simpa using hacc
        rw [← this]; exact hp
      · cases hacc
    · rw [hl] at hacc
      cases hacc
  obtain ⟨r, hr, hc⟩ := getSigned_found hg
  obtain ⟨hcol, hok, hsub, hty, hexp, hpw⟩ := checkRec_found hc
  obtain ⟨hI, hR, hC⟩ := hinv
  have hiss := hR u r (readRow_mem hr) hok
  obtain ⟨t, hm, he⟩ := hI r.signed hiss hty
  rw [hsub, hpw] at hm
  obtain ⟨hnz, htn⟩ := hC u pw t hm
  exact ⟨r, t, hr, hok, hsub, hty, hpw, hm, htn, he, hexp, hcol, hnz⟩

/-- the same over histories: after ANY operation list (including every tampering the model's
attacker can do), an offline acceptance implies an earlier directory-confirmed login of the same user
with the same password, no more than `cacheDur` (96 h) ago, whose validly signed record decided. -/
theorem c07_offline (ops : List Op) (u : User) (pw : Pw) (hno : ¬ answers (run init ops))
    (hacc : (login (run init ops) u pw).2 = true) :
    ∃ r t, readRow (run init ops) u = some r ∧ r.sigOK = true ∧ r.signed.subject = u ∧
      r.signed.type = pwType ∧ r.signed.pwId = pw ∧ (u, pw, t) ∈ (run init ops).confirmed ∧
      t ≤ (run init ops).now ∧ (run init ops).now ≤ t + cacheDur ∧ r.signed.exp = t + cacheDur ∧ pw ≠ 0 := by
  obtain ⟨r, t, h1, h2, h3, h4, h5, h6, h7, h8, h9, _, h11⟩ :=
    c07_offline_state (run init ops) (c07_invariant ops) u pw hno hacc
  exact ⟨r, t, h1, h2, h3, h4, h5, h6, h7, by omega, h8, h11⟩

/-- **A password is accepted only if the directory accepted it for that user** — now or, offline, at
most `cacheDur` ago: the end-to-end reading of the property over arbitrary histories. -/
theorem c07_accept_only_confirmed (ops : List Op) (u : User) (pw : Pw)
    (hacc : (login (run init ops) u pw).2 = true) :
    dirAccepts (run init ops) u pw = true ∨
    ∃ t, (u, pw, t) ∈ (run init ops).confirmed ∧ t ≤ (run init ops).now ∧ (run init ops).now ≤ t + cacheDur := by
  by_cases ha : answers (run init ops)
  · left
    rw [← (c07_dir_final _ u pw ha).1]; exact hacc
  · right
    obtain ⟨_, t, _, _, _, _, _, h6, h7, h8, _, _⟩ := c07_offline ops u pw ha hacc
    exact ⟨t, h6, h7, h8⟩

/-! ## an evicted hash stays out (synchronisation mirrors deletions) -/

/-- neither database holds, under `u`, a record of password `pw` -/
def Clean (s : State) (u : User) (pw : Pw) : Prop :=
  (∀ r, s.primary u = some r → r.signed.pwId ≠ pw) ∧ (∀ r, s.cache u = some r → r.signed.pwId ≠ pw)

/-- operations that neither rewrite database rows behind keymaster's back nor make `pw` the
directory password of `u` again -/
def Quiet (u : User) (pw : Pw) : Op → Prop
  | .tamper _ _ _ => False
  | .changePw u' p => ¬ (u' = u ∧ p = some pw)
  | _ => True

theorem dirAccepts_false_of_dir {s : State} {u : User} {pw : Pw} (h : s.dir u ≠ some pw) :
    dirAccepts s u pw = false := by
  unfold dirAccepts holds
  have : (s.dir u == some pw) = false := by simpa using h
  rw [this]; simp

theorem clean_step {s : State} {u : User} {pw : Pw} (hc : Clean s u pw) (hd : s.dir u ≠ some pw)
    (op : Op) (hq : Quiet u pw op) : Clean (step s op) u pw ∧ (step s op).dir u ≠ some pw := by
  cases op with
  | login u' pw' =>
    have hd' : (step s (.login u' pw')).dir u ≠ some pw := by
      simp only [step, stepWith, repaired, loginWith]
      split
      · exact hd
      · split
        · split <;> exact hd
        · exact hd
      · split <;> exact hd
    refine ⟨?_, hd'⟩
    simp only [step, stepWith, repaired, loginWith]
    split
    · rename_i hl
      have hacc := (loop_some_true s u' pw' hl).2
      refine ⟨fun r hr => ?_, hc.2⟩
      simp only [upsert] at hr
      split at hr
      · rcases upd_some hr with ⟨hx, hv⟩ | ⟨_, hv⟩
        · injection hv with hv; subst hv
          simp only [freshRec, freshSigned]
          intro hpp; subst hpp; subst hx
          rw [dirAccepts_false_of_dir hd] at hacc; cases hacc
        · exact hc.1 r hv
      · exact hc.1 r hr
    · split
      · split
        · refine ⟨fun r hr => ?_, hc.2⟩
          simp only [delete] at hr
          split at hr
          · rcases upd_some hr with ⟨_, hv⟩ | ⟨_, hv⟩
            · cases hv
            · exact hc.1 r hv
          · exact hc.1 r hr
        · exact hc
      · exact hc
    · split <;> exact hc
  | setServer i st => exact ⟨hc, hd⟩
  | setServers l => exact ⟨hc, hd⟩
  | setPats l => exact ⟨hc, hd⟩
  | changePw u' p =>
    refine ⟨hc, ?_⟩
    simp only [step, stepWith]
    by_cases hu : u = u'
    · subst hu
      simp only [if_true]
      intro hp
      exact hq ⟨rfl, hp⟩
    · simp only [hu, if_false]; exact hd
  | setAccount u' ok => exact ⟨hc, hd⟩
  | setAnon b => exact ⟨hc, hd⟩
  | advance dt => exact ⟨hc, hd⟩
  | setPrim p => exact ⟨hc, hd⟩
  | sync =>
    simp only [step, stepWith, repaired, sync]
    split
    · exact ⟨hc, hd⟩
    · refine ⟨⟨hc.1, fun r hr => ?_⟩, hd⟩
      exact hc.1 r (unexpired_some hr).1
  | tamper st u' o => exact absurd hq (by simp [Quiet])
  | signOther sg =>
    simp only [step, stepWith]
    split <;> exact ⟨hc, hd⟩

theorem clean_rejects {s : State} {u : User} {pw : Pw} (hc : Clean s u pw) (hd : dirAccepts s u pw = false) :
    (login s u pw).2 = false := by
  unfold login loginWith
  split
  · rename_i hl
    have := (loop_some_true s u pw hl).2
    rw [hd] at this; cases this
  · rfl
  · split
    · rename_i p hp
      obtain ⟨r, hr, hcr⟩ := getSigned_found hp
      have hpw := (checkRec_found hcr).2.2.2.2.2
      have hne : r.signed.pwId ≠ pw := by
        rcases readRow_mem hr with h' | h'
        · exact hc.1 r h'
        · exact hc.2 r h'
      rw [hpw] at hne
      simp [hne]
    · rfl

theorem clean_run {s : State} {u : User} {pw : Pw} (ops : List Op) (hc : Clean s u pw)
    (hd : s.dir u ≠ some pw) (hq : ∀ op ∈ ops, Quiet u pw op) :
    Clean (run s ops) u pw ∧ (run s ops).dir u ≠ some pw := by
  induction ops generalizing s with
  | nil => exact ⟨hc, hd⟩
  | cons op rest ih =>
    have h1 := clean_step hc hd op (hq op List.mem_cons_self)
    exact ih h1.1 h1.2 (fun o ho => hq o (List.mem_cons_of_mem _ ho))

theorem login_reject_found {s : State} {u : User} {pw : Pw} (h : answers s) (hd : dirAccepts s u pw = false)
    (hg : getSigned s u = .found pw) : (login s u pw).1 = delete s u := by
  unfold login loginWith
  rw [loop_of_answers s u pw h, hd]
  simp only [hg, if_true]

/-- **Rejected, evicted, synchronised ⇒ stays out**: the directory rejects the password the store
holds and the directory no longer does (primary reachable), the caches are synchronised, and from then on — through ANY history of
logins of anybody, server and primary outages, changes of the configured bind patterns, clock advances, further synchronisations and other
password changes, as long as nobody rewrites database rows and the directory does not take that
password back — that password is never accepted for that user again, offline or online. -/
theorem c07_evicted_stays_out (s : State) (u : User) (pw : Pw) (ops : List Op)
    (hup : s.prim = .up) (h : answers s) (hdir : s.dir u ≠ some pw) (hg : getSigned s u = .found pw)
    (hq : ∀ op ∈ ops, Quiet u pw op) :
    (login (run (step (step s (.login u pw)) .sync) ops) u pw).2 = false := by
  have hd : dirAccepts s u pw = false := dirAccepts_false_of_dir hdir
  have hs1 : step s (.login u pw) = delete s u := login_reject_found h hd hg
  rw [hs1]
  have hc : Clean (step (delete s u) .sync) u pw := by
    simp only [step, stepWith, repaired, sync, delete, writable, hup]
    constructor
    · intro r hr
      simp [upd_self] at hr
    · intro r hr
      simp [upd_self, unexpired] at hr
  have hd2 : (step (delete s u) .sync).dir u ≠ some pw := by
    simp only [step, stepWith, repaired, sync, delete, hup]
    exact hdir
  have := clean_run ops hc hd2 hq
  exact clean_rejects this.1 (dirAccepts_false_of_dir this.2)

/-! ## the tree as found -/

def asFoundC04 : Variant := { lp := loop, get := getSignedWith checkRecUnfixed, sync := sync }
def asFoundC15 : Variant := { lp := loop, get := getSigned, sync := syncUnfixed }
def asFoundEmpty : Variant :=
  { lp := fun s u pw => loopWith (fun st => loopWith (fun p => checkServerUnfixed s st p u pw) s.pats) s.srv,
    get := getSigned, sync := sync }

/-- the reviewer's seeded variant: within one server only the LAST bind pattern's rejection decides -/
def lastPatternDecides : Variant :=
  { lp := fun s u pw => loopWith (fun st => patLoopLastDecides (fun p => checkServer s st p u pw) s.pats) s.srv,
    get := getSigned, sync := sync }

def lastLogin (v : Variant) (ops : List Op) (u : User) (pw : Pw) : Option Bool :=
  (stepWith v (runWith v init ops) (.login u pw)).2

def expiredRaised : List Op :=
  [.setServers [.up], .setPats [.entry], .changePw 0 (some 1), .login 0 1, .advance (100 * 3600), .setServers [.down],
   .tamper .primary 0 (some { signed := { subject := 0, pwId := 1, exp := 0 + cacheDur, type := pwType },
                              sigOK := true, columnExp := 150 * 3600 })]

/-- as found (b-c04's defect): the signed expiry has passed 4 h ago, the unsigned column is raised,
the directory is unreachable — accepted; repaired: rejected -/
theorem c07_unfixed_counterexample_column_expiry :
    lastLogin asFoundC04 expiredRaised 0 1 = some true ∧ lastLogin repaired expiredRaised 0 1 = some false := by
  decide

def typeSwapped : List Op :=
  [.setServers [.down], .setPats [.entry], .signOther { subject := 0, pwId := 3, exp := 50 * 3600, type := pwType + 1 },
   .tamper .primary 0 (some { signed := { subject := 0, pwId := 3, exp := 50 * 3600, type := pwType + 1 },
                              sigOK := true, columnExp := 50 * 3600 })]

/-- as found (b-c04's defect): a record keymaster signed for another data type, its row's type
column edited, is honoured as a password hash -/
theorem c07_unfixed_counterexample_type_swap :
    lastLogin asFoundC04 typeSwapped 0 3 = some true ∧ lastLogin repaired typeSwapped 0 3 = some false := by
  decide

def evictedThenOutage : List Op :=
  [.setServers [.up], .setPats [.entry], .changePw 0 (some 1), .login 0 1, .sync, .changePw 0 (some 3), .login 0 1, .sync,
   .setServers [.down], .setPrim .slow]

/-- as found (b-c15's defect): the directory rejected the cached password, the hash was evicted
from the primary, the caches were synchronised — and the password still works offline, because
synchronisation never deleted anything from the cache -/
theorem c07_unfixed_counterexample_sync_eviction :
    lastLogin asFoundC15 evictedThenOutage 0 1 = some true ∧ lastLogin repaired evictedThenOutage 0 1 = some false := by
  decide

def emptyPassword : List Op := [.setServers [.up], .setPats [.entry], .changePw 0 (some 1), .setAnon true]

/-- as found: a directory that allows unauthenticated binds "confirms" the empty password for anybody -/
theorem c07_unfixed_counterexample_empty_password :
    lastLogin asFoundEmpty emptyPassword 0 0 = some true ∧ lastLogin asFoundEmpty emptyPassword 7 0 = some true ∧
    lastLogin repaired emptyPassword 0 0 = some false := by
  decide

def rejectedThenPatternError : List Op :=
  [.setServers [.up, .up], .setPats [.entry, .malformed], .changePw 0 (some 1), .login 0 1, .changePw 0 (some 3)]

/-- several bind patterns (seeded variant, not the tree as found): the directory rejects the old
password under the first pattern, the last pattern is answered with an error, and the variant falls
through to the cached hash — accepted, and not evicted, so still accepted when the servers are gone;
the code's rule "first verdict in servers × patterns order is final" rejects and evicts -/
theorem c07_last_pattern_decides_counterexample :
    lastLogin lastPatternDecides rejectedThenPatternError 0 1 = some true ∧
    lastLogin lastPatternDecides (rejectedThenPatternError ++ [.login 0 1, .setServers [.down, .down]]) 0 1 = some true ∧
    lastLogin repaired rejectedThenPatternError 0 1 = some false ∧
    lastLogin repaired (rejectedThenPatternError ++ [.login 0 1, .setServers [.down, .down]]) 0 1 = some false := by
  decide

/-! ## the other backends, and the name in front of all of them -/

/-- **htpasswd / command backends: accepted ⇒ the backend accepted the reprocessed name**: through
`loginHandler`/`checkAuth` the backend is asked about `reprocessUsername(name)`; htpasswd accepts only
if the file parses, has an entry under exactly that name, the entry is a `$2y$` bcrypt hash and it
matches; the command backend only if the command, given that name as its first argument and the
password on stdin, exits 0. -/
theorem c07_backend_only (disable : Bool) (lower : List Char → List Char) (filter : Option (List Char → List Char))
    (name : List Char) (pw : Pw) :
    (∀ file, appCheck (reprocess disable lower filter) (htpasswdAuth file) name pw = .accept →
      ∃ f e, file = some f ∧ f (reprocess disable lower filter name) = some e ∧ e.bcrypt2y = true ∧ e.matchesPw = pw) ∧
    (∀ exitCode, appCheck (reprocess disable lower filter) (commandAuth exitCode) name pw = .accept →
      exitCode (reprocess disable lower filter name) pw = some 0) := by
  constructor
  · intro file h
    unfold appCheck htpasswdAuth at h
    split at h
    · cases h
    · rename_i f
      split at h
      · cases h
      · rename_i e he
        split at h
        · cases h
        · rename_i hb
          split at h
          · rename_i hm
            refine ⟨f, e, rfl, he, ?_, hm⟩
            cases hbb : e.bcrypt2y
            · exact absurd hbb hb
            · rfl
          · cases h
  · intro ec h
    unfold appCheck commandAuth at h
    split at h
    · rename_i h0; exact h0
    · cases h
    · cases h

/-- the LDAP path behind the application: the user whose directory entry is bound and whose hash is
stored, looked up and evicted is the one named by the reprocessed name -/
def appLogin (norm : List Char → List Char) (uid : List Char → User) (s : State) (name : List Char) (pw : Pw) :
    State × Bool := login s (uid (norm name)) pw

/-- **The name looked up is `reprocessUsername(name)`**: two spellings with the same reprocessed form
are the same login — same verdict, same stored record, same eviction — and with normalisation on,
reprocessing is idempotent when lower-casing is (so a stored key is always found again). -/
theorem c07_normalised (disable : Bool) (lower : List Char → List Char) (filter : Option (List Char → List Char))
    (uid : List Char → User) (s : State) (n1 n2 : List Char) (pw : Pw)
    (h : reprocess disable lower filter n1 = reprocess disable lower filter n2) :
    appLogin (reprocess disable lower filter) uid s n1 pw = appLogin (reprocess disable lower filter) uid s n2 pw ∧
    appLogin (reprocess disable lower filter) uid s n1 pw = login s (uid (reprocess disable lower filter n1)) pw ∧
    ((∀ x, lower (lower x) = lower x) →
      reprocess disable lower none (reprocess disable lower none n1) = reprocess disable lower none n1) := by
  refine ⟨by unfold appLogin; rw [h], rfl, fun hl => ?_⟩
  unfold reprocess
  cases disable <;> simp [hl]

/-! ### a refusal is a verdict whatever the directory writes next to it (seeded variant, round 3) -/

/-- **An unusable account is rejected while a server answers, and its cached hash is evicted**: the
account is disabled / locked out / expired in the directory, the password is the right one and its hash
is cached — the login is rejected and (primary writable) the hash is gone from the primary, so the
next outage does not bring the account back. -/
theorem c07_unusable_account_rejected (s : State) (u : User) (pw : Pw) (h : answers s)
    (hdis : s.disabled u = true) :
    (login s u pw).2 = false ∧
    (getSigned s u = .found pw → writable s = true → (login s u pw).1.primary u = none) := by
  have hd : dirAccepts s u pw = false := by simp [dirAccepts, holds, hdis]
  exact ⟨by rw [(c07_dir_final s u pw h).1, hd], (c07_evict_partial s u pw h hd).1⟩

/-- the reviewer's seeded variant: a refusal that carries an Active-Directory account-state sub-code
is reported as an error (fall through) instead of a rejection -/
def checkServerAcctStateIsError (s : State) (st : Srv) (p : Pat) (u : User) (pw : Pw) : Option Bool :=
  if pw = 0 then some false
  else match st, p with
    | .up, .entry => if s.disabled u && s.dir u == some pw then none else some (holds s u pw)
    | st, p => checkServer s st p u pw

def acctStateIsError : Variant :=
  { lp := fun s u pw => loopWith (fun st => loopWith (fun p => checkServerAcctStateIsError s st p u pw) s.pats) s.srv,
    get := getSigned, sync := sync }

def disabledAfterLogin : List Op :=
  [.setServers [.up, .up], .setPats [.entry], .changePw 0 (some 1), .login 0 1, .sync, .setAccount 0 false]

/-- with that variant the disabled account logs in from the cache while the directory is up, and keeps
doing so when it is down; the code's rule rejects, evicts, and the outage changes nothing -/
theorem c07_account_state_is_error_counterexample :
    lastLogin acctStateIsError disabledAfterLogin 0 1 = some true ∧
    lastLogin acctStateIsError (disabledAfterLogin ++ [.login 0 1, .sync, .setServers [.down, .down]]) 0 1 = some true ∧
    lastLogin repaired disabledAfterLogin 0 1 = some false ∧
    lastLogin repaired (disabledAfterLogin ++ [.login 0 1, .sync, .setServers [.down, .down]]) 0 1 = some false := by
  decide

/-- the literals the judge uses are the source's: 96 hours, record type 1 -/
theorem c07_judge_spec : cacheDur = 96 * 3600 ∧ pwType = 1 := by decide

/-! ### the name as typed must not reach the backend (seeded variant, round 2) -/

/-- a two-entry htpasswd file with a legacy mixed-case entry -/
def legacyFile : List Char → Option HtEntry := fun n =>
  if n = "alice".toList then some { bcrypt2y := true, matchesPw := 1 }
  else if n = "Alice".toList then some { bcrypt2y := true, matchesPw := 2 }
  else none

def lowerAlice : List Char → List Char := fun n => if n = "Alice".toList then "alice".toList else n

/-- the typed spelling `Alice` as a store key of its own (5), the normalised user being 0; the
directory itself is case-insensitive, so both name the same entry -/
def typedKeyHistory (typedKey : User) : List Op :=
  [.setServers [.up], .setPats [.entry], .changePw 0 (some 1), .changePw 5 (some 1), .login typedKey 1,
   .changePw 0 (some 3), .changePw 5 (some 3), .login 0 1, .sync, .setServers [.down]]

/-- **Asking the backend about the name as typed breaks the property** (a reviewer's seeded change in
`checkAuth`: identity = normalised name, backend = typed name). htpasswd: `Alice` + the legacy
entry's password is accepted and identity `alice` granted although the backend rejects it for
`alice`; through `appCheck` it is rejected. LDAP: the hash cached under the typed key is not evicted
by the directory's rejection for the normalised user and is accepted offline; with the normalised key
everywhere the same history ends in a rejection. -/
theorem c07_typed_name_counterexample :
    htpasswdAuth (some legacyFile) "Alice".toList 2 = .accept ∧
    appCheck (reprocess false lowerAlice none) (htpasswdAuth (some legacyFile)) "Alice".toList 2 = .reject ∧
    lastLogin repaired (typedKeyHistory 5) 5 1 = some true ∧
    lastLogin repaired (typedKeyHistory 0) 0 1 = some false := by
  decide

/-! ## non-vacuity -/

/-- the hypotheses are satisfiable and the offline path does accept: a confirmed login, both servers
down, 95 h later the cached hash still decides, 5 h after that it no longer does -/
example :
    (login (run init [.setServers [.up, .up], .setPats [.malformed, .entry], .changePw 0 (some 1), .login 0 1, .sync, .setServers [.down, .err],
                      .advance (95 * 3600)]) 0 1).2 = true ∧
    (login (run init [.setServers [.up, .up], .setPats [.malformed, .entry], .changePw 0 (some 1), .login 0 1, .sync, .setServers [.down, .err],
                      .advance (95 * 3600), .advance (5 * 3600)]) 0 1).2 = false ∧
    ¬ answers (run init [.setServers [.up, .up], .setPats [.malformed, .entry], .changePw 0 (some 1), .login 0 1, .sync, .setServers [.down, .err]]) := by
  decide

end KM.PwCache
