/-! # C07 — property theorems (stub: not built yet) -/
