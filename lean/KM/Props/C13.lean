/-! # C13 — property theorems (stub: not built yet) -/
