import KM.Lemmas.Redirect
import KM.Gen.C13
import KM.Lemmas.GoRedirect
/-! # C13 — authorization codes are redirected only to the client's own https hosts

Property theorems only.  `decide` mirrors `CanRedirectToURL` over parsed components, `goParse` the part of
Go's `url.Parse` that determines them, `browserHost` is the WHATWG reference for where a browser goes with
the same string; `re` (the verdicts of `regexp.MatchString`) is a parameter of every theorem. -/
namespace KM.Redirect

theorem reLoop_true {re : List Char → Option Bool} {pats : List (List Char)} (h : reLoop re pats = some true) :
    ∃ pat ∈ pats, re pat = some true := by
  induction pats with
  | nil => simp [reLoop] at h
  | cons p rest ih =>
    unfold reLoop at h
    split at h
    · cases h
    · rename_i hp; exact ⟨p, List.mem_cons_self, hp⟩
    · obtain ⟨q, hq, hr⟩ := ih h
      exact ⟨q, List.mem_cons_of_mem _ hq, hr⟩

theorem ofBool_accept {b : Bool} (h : Verdict.ofBool b = .accept) : b = true := by
  cases b <;> simp [Verdict.ofBool] at h ⊢

theorem any_hostMatches {doms : List (List Char)} {host : List Char}
    (h : doms.any (fun d => hostMatches host d) = true) :
    ∃ d ∈ doms, d ≠ [] ∧ host ≠ [] ∧ (host = d ∨ dotted d <:+ host) := by
  rw [List.any_eq_true] at h
  obtain ⟨d, hd, hm⟩ := h
  exact ⟨d, hd, (hostMatches_iff host d).mp hm⟩

/-- **Decision**: whatever the regular expressions answer, an accepted redirect URL was parsed, has scheme
https, no query, no ".." in its path, a host, that host is a configured domain or ends with "." ++ domain
(when domains are configured), and one of the patterns matched (when patterns are configured). -/
theorem c13_decision (re : List Char → Option Bool) (c : Client) (p : Option Parsed)
    (h : decide re c p = .accept) :
    ∃ u, p = some u ∧ u.scheme = https ∧ u.rawQuery = [] ∧ ¬ (['.', '.'] <:+: u.path) ∧ u.host ≠ [] ∧
      (c.domains ≠ [] → ∃ d ∈ c.domains, d ≠ [] ∧ (u.host = d ∨ dotted d <:+ u.host)) ∧
      (c.patterns ≠ [] → ∃ pat ∈ c.patterns, re pat = some true) := by
  unfold decide at h
  split at h
  · cases h
  · split at h
    · cases h
    · rename_i m hre
      split at h
      · cases h
      · rename_i u
        split at h
        · cases h
        · rename_i hs
          split at h
          · cases h
          · rename_i hq
            split at h
            · cases h
            · rename_i hdd
              split at h
              · cases h
              · rename_i hhost
                refine ⟨u, rfl, by simpa using hs, by simpa using hq, ?_, hhost, ?_⟩
                · intro hin
                  exact hdd ((hasDotDot_iff _).mpr hin)
                · unfold domainStep at h
                  split at h
                  · rename_i hnd
                    have hm := ofBool_accept h
                    subst hm
                    constructor
                    · intro hne
                      cases hd : c.domains with
                      | nil => exact absurd hd hne
                      | cons a as => rw [hd] at hnd; simp at hnd
                    · intro _
                      exact reLoop_true hre
                  · have hb := ofBool_accept h
                    simp only [Bool.and_eq_true] at hb
                    constructor
                    · intro _
                      obtain ⟨d, hd, h1, _, h3⟩ := any_hostMatches hb.1
                      exact ⟨d, hd, h1, h3⟩
                    · intro hne
                      have hm : m = true := by
                        have := hb.2
                        split at this
                        · rename_i hl
                          cases hp : c.patterns with
                          | nil => exact absurd hp hne
                          | cons a as => rw [hp] at hl; simp at hl
                        · exact this
                      subst hm
                      exact reLoop_true hre

/-- **Patterns fail closed**: a client that has patterns configured is never redirected to when none of
them answers "match" — in particular when every pattern fails to compile (`re pat = none`, e.g. a pattern
written for another regexp dialect) — whatever its domains say.  An uncompilable pattern therefore must
reach the validator as written: a loader that drops it turns "domains and patterns" into "domains only". -/
theorem c13_patterns_fail_closed (re : List Char → Option Bool) (c : Client) (p : Option Parsed)
    (hne : c.patterns ≠ []) (h : ∀ pat ∈ c.patterns, re pat ≠ some true) : decide re c p ≠ .accept := by
  intro hacc
  obtain ⟨_, _, _, _, _, _, _, hpat⟩ := c13_decision re c p hacc
  obtain ⟨pat, hm, ht⟩ := hpat hne
  exact h pat hm ht

/-- **Unconfigured client**: a client with neither domains nor patterns is never redirected to. -/
theorem c13_unconfigured_client (re : List Char → Option Bool) (c : Client) (p : Option Parsed)
    (h1 : c.domains = []) (h2 : c.patterns = []) : decide re c p = .reject := by
  simp [decide, h1, h2]

theorem getClient_some {clients : List Client} {id : List Char} {c : Client} (h : getClient clients id = some c) :
    c ∈ clients ∧ c.id = id := by
  unfold getClient at h
  have h1 := List.mem_of_find?_eq_some h
  have h2 := List.find?_some h
  exact ⟨h1, by simpa using h2⟩

/-- **Authorize step**: a code leaves only to the very string that `CanRedirectToURL` of the client
registered under the submitted client id accepted. -/
theorem c13_authorize (re : List Char → List Char → Option Bool) (clients : List Client) (id s t : List Char)
    (h : authorizeTarget re clients id s = some t) :
    t = s ∧ ∃ c ∈ clients, c.id = id ∧ canRedirect re c s = .accept := by
  unfold authorizeTarget at h
  split at h
  · cases h
  · rename_i c hc
    split at h
    · rename_i hacc
      simp at h
      exact ⟨h.symm, c, (getClient_some hc).1, (getClient_some hc).2, hacc⟩
    · cases h

/-- **Unknown client**: a client id that no configured client carries never gets a code. -/
theorem c13_unknown_client (re : List Char → List Char → Option Bool) (clients : List Client) (id s : List Char)
    (h : ∀ c ∈ clients, c.id ≠ id) : authorizeTarget re clients id s = none := by
  cases hr : authorizeTarget re clients id s with
  | none => rfl
  | some t =>
    obtain ⟨_, c, hc, hid, _⟩ := c13_authorize re clients id s t hr
    exact absurd hid (h c hc)

/-- Go and the browser agree on the host of every string that Go parses as https with a host. -/
theorem browser_agrees {s : List Char} {u : Parsed} (h : goParse s = some u) (h1 : u.scheme = https)
    (h2 : u.host ≠ []) :
    browserHost s = .fail ∨ browserHost s = .domain (lower u.host) ∨ browserHost s = .ipv6 (lower u.host) := by
  obtain ⟨a, sch', auth, tail, hs, rfl, hal, hsc, hlow, hdel, htail, hpa, hhost⟩ := goParse_shape h h1 h2
  obtain ⟨hsafe, hph⟩ := parseAuthority_some hpa
  have hne : auth ≠ [] := by
    intro e
    subst e
    have : hs = [] := by
      have e0 : parseHost (afterLast '@' []) = some [] := by decide
      rw [e0] at hph
      simpa using hph.symm
    subst this
    exact h2 (by rw [hhost]; decide)
  have hauth : ∀ c ∈ auth, authC c := fun c hc => ⟨hsafe c hc, hdel c hc⟩
  rw [browser_on_shape hal hsc hlow hauth hne htail, hhost]
  exact host_agree hph

/-- **String, end to end**: for every redirect_uri string that `CanRedirectToURL` accepts — whatever the
patterns answer — a browser handed the same string either refuses it or navigates to exactly the host that
Go matched (lower-cased; as a domain, or as the text of an IPv6 literal).  This excludes user-info tricks,
backslashes, tabs and newlines, missing or extra slashes, ports and percent-escapes in the authority. -/
theorem c13_string (re : List Char → List Char → Option Bool) (c : Client) (s : List Char)
    (h : canRedirect re c s = .accept) :
    ∃ u, goParse s = some u ∧ u.host ≠ [] ∧
      (browserHost s = .fail ∨ browserHost s = .domain (lower u.host) ∨ browserHost s = .ipv6 (lower u.host)) := by
  obtain ⟨u, hu, hs, _, _, hh, _, _⟩ := c13_decision _ c _ h
  exact ⟨u, hu, hh, browser_agrees hu hs hh⟩

/-- **String, with domains**: when the client has domains configured, the host the browser ends at is a
configured domain (as a browser spells it: lower-cased) or ends with "." ++ that domain. -/
theorem c13_string_domains (re : List Char → List Char → Option Bool) (c : Client) (s bh : List Char)
    (h : canRedirect re c s = .accept) (hd : c.domains ≠ [])
    (hb : browserHost s = .domain bh ∨ browserHost s = .ipv6 bh) :
    ∃ d ∈ c.domains, d ≠ [] ∧ (bh = lower d ∨ dotted (lower d) <:+ bh) := by
  obtain ⟨u, hu, hs, _, _, hh, hdom, _⟩ := c13_decision _ c _ h
  obtain ⟨d, hdm, hdne, hmatch⟩ := hdom hd
  have hbh : bh = lower u.host := by
    rcases browser_agrees hu hs hh with e | e | e <;> rcases hb with b | b <;> rw [e] at b <;> cases b <;> rfl
  have hm : hostMatches u.host d = true := (hostMatches_iff _ _).mpr ⟨hdne, hh, hmatch⟩
  have := (hostMatches_iff _ _).mp (hostMatches_lower hm)
  exact ⟨d, hdm, hdne, by rw [hbh]; exact this.2.2⟩

/-- **CORS / audience**: `CorsOriginAllowed` and `idpOpenIDCGenericIsCorsOriginAllowed` answer true only
for an https origin whose host is a configured domain or ends with "." ++ domain, and a browser agrees
on that host. -/
theorem c13_cors (doms : List (List Char)) (s : List Char) (h : corsAllowed doms (goParse s) = true) :
    ∃ u, goParse s = some u ∧ u.scheme = https ∧
      (∃ d ∈ doms, d ≠ [] ∧ (u.host = d ∨ dotted d <:+ u.host)) ∧
      (browserHost s = .fail ∨ browserHost s = .domain (lower u.host) ∨ browserHost s = .ipv6 (lower u.host)) := by
  unfold corsAllowed corsAllowedWith at h
  split at h
  · cases h
  · rename_i u hu
    split at h
    · cases h
    · rename_i hs
      have hs' : u.scheme = https := by simpa using hs
      obtain ⟨d, hd, h1, h2, h3⟩ := any_hostMatches h
      exact ⟨u, hu, hs', ⟨d, hd, h1, h3⟩, browser_agrees hu hs' h2⟩

theorem c13_cors_generic (clients : List Client) (s : List Char)
    (h : genericCorsAllowed clients (goParse s) = true) :
    ∃ u, goParse s = some u ∧ u.scheme = https ∧
      (∃ c ∈ clients, ∃ d ∈ c.domains, d ≠ [] ∧ (u.host = d ∨ dotted d <:+ u.host)) ∧
      (browserHost s = .fail ∨ browserHost s = .domain (lower u.host) ∨ browserHost s = .ipv6 (lower u.host)) := by
  unfold genericCorsAllowed genericCorsAllowedWith at h
  split at h
  · cases h
  · rename_i u hu
    split at h
    · cases h
    · rename_i hs
      have hs' : u.scheme = https := by simpa using hs
      rw [List.any_eq_true] at h
      obtain ⟨c, hc, hm⟩ := h
      obtain ⟨d, hd, h1, h2, h3⟩ := any_hostMatches hm
      exact ⟨u, hu, hs', ⟨c, hc, d, hd, h1, h3⟩, browser_agrees hu hs' h2⟩

end KM.Redirect

/-! ### the pinned tree, witnesses and non-vacuity -/
namespace KM.Redirect

def exDomains : Client := { id := "dom".toList, domains := ["example.com".toList], patterns := [] }
def exPatterns : Client := { id := "docre".toList, domains := [], patterns := ["docs".toList] }
def exEmptyDomain : Client := { id := "odd".toList, domains := [[]], patterns := [] }
/-- an oracle under which every pattern matches (the harness replays the witnesses with real regexps) -/
def reYes : List Char → List Char → Option Bool := fun _ _ => some true

/-- the validator as found is **not** safe:
* the suffix test without label boundary accepts `https://evilexample.com/cb` for the domain `example.com`;
* an empty configured domain accepts every https host;
* a URL that Go parses without host (`https:/evil.example\.example.com/`, which the regexp of
  docs/website/openidc-idp.md matches) is accepted for a patterns-only client although a browser
  navigates to `evil.example`. -/
theorem c13_unfixed_counterexample :
    (canRedirectOld reYes exDomains "https://evilexample.com/cb".toList = .accept ∧
      browserHost "https://evilexample.com/cb".toList = .domain "evilexample.com".toList ∧
      hostMatches "evilexample.com".toList "example.com".toList = false) ∧
    (canRedirectOld reYes exEmptyDomain "https://evil.example/".toList = .accept) ∧
    (canRedirectOld reYes exPatterns "https:/evil.example\\.example.com/".toList = .accept ∧
      (goParse "https:/evil.example\\.example.com/".toList).map (·.host) = some [] ∧
      browserHost "https:/evil.example\\.example.com/".toList = .domain "evil.example".toList) := by
  decide

/-- the repaired validator refuses all three -/
theorem c13_fixed_witnesses :
    canRedirect reYes exDomains "https://evilexample.com/cb".toList = .reject ∧
    canRedirect reYes exEmptyDomain "https://evil.example/".toList = .reject ∧
    canRedirect reYes exPatterns "https:/evil.example\\.example.com/".toList = .reject := by
  decide

/-- non-vacuity: ordinary redirect URIs are accepted, and Go and the browser see the same host -/
example : canRedirect reYes exDomains "https://www.example.com:443/cb".toList = .accept ∧
    browserHost "https://www.example.com:443/cb".toList = .domain "www.example.com".toList ∧
    canRedirect reYes exDomains "https://example.com".toList = .accept ∧
    canRedirect reYes exPatterns "https://u:p@App.example.net/x#f".toList = .accept ∧
    browserHost "https://u:p@App.example.net/x#f".toList = .domain "app.example.net".toList := by
  decide

/-- the three results of `browserHost` in `c13_string` all occur on accepted strings: a host with a port the
browser refuses, a domain, an IPv6 literal -/
example : canRedirect reYes exPatterns "https://www.example.com:99999/".toList = .accept ∧
    browserHost "https://www.example.com:99999/".toList = .fail ∧
    canRedirect reYes exPatterns "https://[::1]:8443/cb".toList = .accept ∧
    browserHost "https://[::1]:8443/cb".toList = .ipv6 "::1".toList := by
  decide

/-- strings on which Go and a browser see different hosts exist, and every one of them is refused:
user-info tricks, backslashes, tab in the host, missing slashes -/
example :
    (["https://good.example.com@evil.example/", "https://evil.example\\@good.example.com/",
      "https://good.example.com\\@evil.example/", "https://evil.example#@good.example.com/",
      "https:/\\evil.example/.example.com/", "https:\\\\evil.example/.example.com",
      "https://evil.example\\.example.com/", "https://ww\tw.evil.example/.example.com",
      "https://evil.example%2f.example.com/", "https://evil.example%23.example.com/"].map
        (fun s => canRedirect reYes exDomains s.toList)).all (· != .accept) = true := by
  decide

end KM.Redirect

/-! ### the source of the current tree (regenerated tables) -/
namespace KM.Redirect
open KM.RedirectSite KM.Gen.C13

/-- **Sites**: the statements of `CanRedirectToURL`, `CorsOriginAllowed` and
`idpOpenIDCGenericIsCorsOriginAllowed` are, in this order, exactly the tests that `decide`, `corsAllowed`
and `genericCorsAllowed` mirror (scheme literal "https", the `RawQuery` test, the ".." literal, the host
test); every comparison of a parsed host with a configured domain in cmd/keymasterd goes through the
label-boundary helper, whose text is the one `hostMatches` mirrors; and in the authorize handler the client
comes from `idpOpenIDCGetClientConfig`, both failure branches of `CanRedirectToURL` return, and the only
redirect of the function appends `?code=…` to the validated, never re-assigned variable. -/
theorem c13_sites :
    canRedirectSteps = [
      .noConfigReject, .flagInit "matchedRE".toList false, .reLoop, .parse, .parseErrReject,
      .schemeNeReject https, .rawQueryReject, .pathContainsReject ['.', '.'], .hostEmptyReject,
      .noDomainsReturnRE, .noPatternsSetRE, .flagInit "matchedDomain".toList false,
      .domainLoop .dotBoundary, .returnBoth] ∧
    corsSteps = [.parse, .parseErrReject, .schemeNeReject https, .domainLoopReturnTrue .dotBoundary, .returnFalse] ∧
    genericCorsSteps = [.parse, .parseErrReject, .schemeNeReject https,
      .clientsDomainLoopReturnTrue .dotBoundary, .returnFalse] ∧
    hostSites.length = 3 ∧ hostSites.all (fun s => s.2 == HostCmp.dotBoundary) = true ∧
    hostHelper = [
      ("domain == \"\" || host == \"\"".toList, "false".toList),
      ("host == domain".toList, "true".toList),
      ("strings.HasPrefix(domain, \".\")".toList, "strings.HasSuffix(host, domain)".toList),
      ("".toList, "strings.HasSuffix(host, \".\"+domain)".toList)] ∧
    authorize = {
      lookupCall := "oidcClient, err := state.idpOpenIDCGetClientConfig(clientID)".toList,
      lookupErrReturns := true,
      validateCall := "ok, parsedRedirectURL, err := oidcClient.CanRedirectToURL(requestRedirectURLString)".toList,
      validatedVar := "requestRedirectURLString".toList,
      errGuardReturns := true, okGuardReturns := true, varAssignments := 1, redirectCalls := 1,
      redirectFmt := "%s?code=%s&state=%s".toList,
      redirectFirstArg := "requestRedirectURLString".toList,
      orderOK := true } := by
  decide

/-- **Configuration reaches the validator as written**: no statement of cmd/keymasterd assigns to a
client's `AllowedRedirectURLRE` / `AllowedRedirectDomains` or to the client table — the YAML decoder is
the only writer, so the lists `decide` is applied to are the operator's. -/
theorem c13_config_as_written : clientConfigWrites = [] := by
  decide

end KM.Redirect

/-! ### the validators as TRANSLATED from the current source (go2lean, `KM/Gen/GoOidc.lean`)

`hostMatchesDomain`, `CanRedirectToURL`, `CorsOriginAllowed` and
`idpOpenIDCGenericIsCorsOriginAllowed` are translated statement by statement from /repo's working
tree on every run, parameterised by the two library calls they make (`url.Parse`,
`regexp.MatchString`: the record `ext`).  The theorems below hold for EVERY behaviour of those two
and are about the translations themselves, so C13 is re-proved against what the code says now. -/
namespace KM.Redirect
open KM.Go KM.GoTypes

/-- the translated `hostMatchesDomain` is the model's `hostMatches` -/
theorem c13_go_hostMatches (h d : List Char) :
    KM.Gen.GoOidc.hostMatchesDomain h d = hostMatches h d := go_hostMatches_eq h d

/-- the translated `CanRedirectToURL` is the model's `decide` (accept / reject / error), whatever
`url.Parse` and `regexp.MatchString` answer -/
theorem c13_go_canRedirect (ext : UrlExt) (c : OpenIDConnectClientConfig) (s : List Char) :
    verdictOf3 (KM.Gen.GoOidc.CanRedirectToURL ext c s) =
      decide (reOf ext s) (clientOf c) (parsedOf ext s) := go_canRedirect_eq ext c s

/-- on acceptance the URL handed to the authorization handler is the one `url.Parse` produced -/
theorem c13_go_canRedirect_url (ext : UrlExt) (c : OpenIDConnectClientConfig) (s : List Char)
    (h : (KM.Gen.GoOidc.CanRedirectToURL ext c s).1 = true) :
    (KM.Gen.GoOidc.CanRedirectToURL ext c s).2.1 = (ext.urlParse s).1 := go_canRedirect_url ext c s h

/-- **Decision, on the translated source**: if the translated `CanRedirectToURL` accepts (true, no
error) then `url.Parse` succeeded and gave scheme https, no query, no ".." in the path, a non-empty
host that is a configured domain or below one behind a dot (when domains are configured), and a
configured pattern matched (when patterns are configured). -/
theorem c13_go_decision (ext : UrlExt) (c : OpenIDConnectClientConfig) (s : List Char)
    (h : verdictOf3 (KM.Gen.GoOidc.CanRedirectToURL ext c s) = .accept) :
    ∃ u, parsedOf ext s = some u ∧ u.scheme = https ∧ u.rawQuery = [] ∧ ¬ (['.', '.'] <:+: u.path) ∧ u.host ≠ [] ∧
      (c.AllowedRedirectDomains ≠ [] → ∃ d ∈ c.AllowedRedirectDomains, d ≠ [] ∧ (u.host = d ∨ dotted d <:+ u.host)) ∧
      (c.AllowedRedirectURLRE ≠ [] → ∃ p ∈ c.AllowedRedirectURLRE, reOf ext s p = some true) := by
  rw [c13_go_canRedirect] at h
  exact c13_decision (reOf ext s) (clientOf c) (parsedOf ext s) h

/-- the externals as the string-level model has them: Go's `url.Parse` is `goParse`, and
`regexp.MatchString(p, s)` is the parameter `re` -/
def extOfModel (re : List Char → List Char → Option Bool) : UrlExt where
  urlParse s := match goParse s with
    | none => (none, some "parse error".toList)
    | some u => (some { Scheme := u.scheme, Hostname := u.host, RawQuery := u.rawQuery, Path := u.path }, none)
  reMatch p s := match re p s with
    | none => (false, some "bad pattern".toList)
    | some b => (b, none)

theorem parsedOf_extOfModel (re : List Char → List Char → Option Bool) (s : List Char) :
    parsedOf (extOfModel re) s = goParse s := by
  show (match (match goParse s with
      | none => ((none : Option URL), some "parse error".toList)
      | some u => (some { Scheme := u.scheme, Hostname := u.host, RawQuery := u.rawQuery, Path := u.path }, none)) with
    | (_, some _) => none
    | (u, none) => some (parsedOfURL u)) = goParse s
  cases goParse s <;> rfl

theorem reOf_extOfModel (re : List Char → List Char → Option Bool) (s p : List Char) :
    reOf (extOfModel re) s p = re p s := by
  unfold reOf extOfModel
  cases h : re p s <;> simp [h]

/-- **String level, on the translated source** (`c13_string` for the code as it reads now): with
`url.Parse` behaving as the validated model `goParse`, a string the translated `CanRedirectToURL`
accepts is one whose host a browser resolves to the same (lower-cased) host, or refuses. -/
theorem c13_go_string (re : List Char → List Char → Option Bool) (c : OpenIDConnectClientConfig) (s : List Char)
    (h : verdictOf3 (KM.Gen.GoOidc.CanRedirectToURL (extOfModel re) c s) = .accept) :
    ∃ u, goParse s = some u ∧ u.host ≠ [] ∧
      (browserHost s = .fail ∨ browserHost s = .domain (lower u.host) ∨ browserHost s = .ipv6 (lower u.host)) := by
  rw [c13_go_canRedirect, parsedOf_extOfModel] at h
  have e : reOf (extOfModel re) s = fun p => re p s := by funext p; exact reOf_extOfModel re s p
  rw [e] at h
  exact c13_string re (clientOf c) s h

/-- the translated `CorsOriginAllowed` is the model's `corsAllowed` and never returns an error -/
theorem c13_go_cors (ext : UrlExt) (c : OpenIDConnectClientConfig) (s : List Char) :
    KM.Gen.GoOidc.CorsOriginAllowed ext c s = (corsAllowed c.AllowedRedirectDomains (parsedOf ext s), none) :=
  go_cors_eq ext c s

/-- the translated `idpOpenIDCGenericIsCorsOriginAllowed` is the model's `genericCorsAllowed` over
the configured clients and never returns an error -/
theorem c13_go_cors_generic (ext : UrlExt) (cs : List OpenIDConnectClientConfig) (s : List Char) :
    KM.Gen.GoOidc.idpOpenIDCGenericIsCorsOriginAllowed ext cs s =
      (genericCorsAllowed (cs.map clientOf) (parsedOf ext s), none) := go_generic_cors_eq ext cs s

/-- the translated `idpOpenIDCGetClientConfig` is the model's `getClient` (first client with that id), and it
answers an error exactly when there is none -/
theorem c13_go_getClient (cs : List OpenIDConnectClientConfig) (id : List Char) :
    (KM.Gen.GoOidc.idpOpenIDCGetClientConfig cs id).1.map clientOf = getClient (cs.map clientOf) id ∧
    ((KM.Gen.GoOidc.idpOpenIDCGetClientConfig cs id).2.isSome ↔ getClient (cs.map clientOf) id = none) := by
  unfold KM.Gen.GoOidc.idpOpenIDCGetClientConfig getClient
  rw [forRange_findRet (fun c : OpenIDConnectClientConfig => c.ClientID == id) (fun c => (some c, none)) _ (by
    intro x s; cases s; rfl)]
  rw [List.find?_map]
  have e : ((fun c : Client => c.id == id) ∘ clientOf) = (fun c : OpenIDConnectClientConfig => c.ClientID == id) := by
    funext c; rfl
  rw [e]
  cases cs.find? (fun c : OpenIDConnectClientConfig => c.ClientID == id) <;> simp

/-- non-vacuity: the translated validator, run on concrete inputs with the model's `url.Parse` -/
example :
    verdictOf3 (KM.Gen.GoOidc.CanRedirectToURL (extOfModel (fun _ _ => some true))
      { ClientID := "c".toList, ClientSecret := [], AllowClientChosenAudiences := false,
        AllowedRedirectURLRE := [], AllowedRedirectDomains := ["example.com".toList] }
      "https://app.example.com/cb".toList) = .accept ∧
    verdictOf3 (KM.Gen.GoOidc.CanRedirectToURL (extOfModel (fun _ _ => some true))
      { ClientID := "c".toList, ClientSecret := [], AllowClientChosenAudiences := false,
        AllowedRedirectURLRE := [], AllowedRedirectDomains := ["example.com".toList] }
      "https://evilexample.com/cb".toList) = .reject := by decide

end KM.Redirect
