import KM.Lemmas.LoginDest
import KM.Gen.Redirects
import KM.Lemmas.GoLoginDest
import KM.Gen.GoLoginDest
/-! # C17 — post-login redirects never leave the keymaster origin

Property theorems only.  `filter` mirrors `getLoginDestination`, `location` mirrors what
`net/http.Redirect` writes into `Location`, `browserStart` is the WHATWG reference. -/
namespace KM.LoginDest

/-- a rooted list whose tail is free of bad characters and does not start with '/' is a safe Location -/
theorem safeLoc_of_tail {y : List Char} (hh : y.head? ≠ some '/')
    (hb : ∀ c ∈ y, badChar c = false) : safeLoc ('/' :: y) = true := by
  cases y with
  | nil => simp [safeLoc]
  | cons a as =>
    have ha := hb a List.mem_cons_self
    simp only [badChar, Bool.or_eq_false_iff, beq_eq_false_iff_ne, ne_eq] at ha
    have h1 : a ≠ '/' := by simpa using hh
    unfold safeLoc
    split
    · rename_i heq; injection heq with _ h2; injection h2 with h3 _; exact absurd h3 h1
    · rename_i heq; injection heq with _ h2; injection h2 with h3 _; exact absurd h3 ha.1
    · rename_i rest _ _ heq
      injection heq with _ h2
      subst h2
      simp only [Bool.not_eq_true', List.any_eq_false]
      intro c hc
      have := hb c hc
      simp only [badChar, Bool.or_eq_false_iff] at this
      simp [this.2]
    · rename_i h; exact absurd rfl (h _)

theorem esc_tail_ok {y : List Char} (hh : y.head? ≠ some '/')
    (hb : ∀ c ∈ y, badChar c = false) :
    (escNonASCII y).head? ≠ some '/' ∧ ∀ c ∈ escNonASCII y, badChar c = false := by
  constructor
  · cases y with
    | nil => simp [escNonASCII]
    | cons a as =>
      rcases head_escNonASCII a as with h | h
      · rw [h]; simpa using hh
      · rw [h]; decide
  · intro c hc
    rcases mem_escNonASCII hc with h | h
    · exact hb c h
    · simp [badChar, h.1, h.2.2]

/-- **Filter**: whatever the client submits, the destination used is the profile page or passes the test. -/
theorem c17_filter (l : List Char) : filter l = profilePath ∨ safeDest (filter l) = true := by
  unfold filter
  split
  · rename_i h; exact Or.inr h.2
  · exact Or.inl rfl

theorem c17_profile_safe : safeDest profilePath = true := by decide

/-- **Location**: a destination that passes the test yields a `Location` header value with a
single leading slash, followed by neither slash nor backslash, free of control characters —
whether or not `url.Parse` accepted it (i.e. with or without `path.Clean`). -/
theorem c17_location_safe (l : List Char) (parseOK : Bool) (h : safeDest l = true) :
    safeLoc (location parseOK l) = true := by
  -- shape of l
  obtain ⟨rest, hl, hhead, hbad⟩ : ∃ rest, l = '/' :: rest ∧ rest.head? ≠ some '/' ∧
      ∀ c ∈ rest, badChar c = false := by
    unfold safeDest at h
    split at h
    · cases h
    · rename_i rest hne
      refine ⟨rest, rfl, ?_, ?_⟩
      · intro hc
        cases rest with
        | nil => cases hc
        | cons a as => simp at hc; subst hc; exact hne as rfl
      · simpa using h
    · cases h
  subst hl
  have hbadl : ∀ c ∈ '/' :: rest, badChar c = false := by
    intro c hc
    cases hc with
    | head => decide
    | tail _ h' => exact hbad c h'
  cases parseOK with
  | false =>
    have : location false ('/' :: rest) = '/' :: escNonASCII rest := by
      simp only [location, Bool.false_eq_true, if_false]
      exact escNonASCII_cons_ascii (by decide)
    rw [this]
    have := esc_tail_ok hhead hbad
    exact safeLoc_of_tail this.1 this.2
  | true =>
    simp only [location, if_true]
    have hp : (splitQuery ('/' :: rest)).1 = '/' :: (splitQuery rest).1 :=
      splitQuery_fst_cons (by decide)
    -- all characters of the cleaned path and the query are good
    have hq : ∀ c ∈ (splitQuery ('/' :: rest)).2, badChar c = false :=
      fun c hc => hbadl c (mem_splitQuery_snd hc)
    have hsegs : ∀ s ∈ cleanSegs [] (splitSlash (splitQuery ('/' :: rest)).1),
        s ≠ [] ∧ ∀ c ∈ s, badChar c = false ∧ c ≠ '/' := by
      intro s hs
      rcases mem_cleanSegs hs with h1 | h1
      · cases h1
      · refine ⟨h1.2, fun c hc => ?_⟩
        have := mem_splitSlash h1.1 c hc
        exact ⟨hbadl c (mem_splitQuery_fst this.1), this.2⟩
    have hjoin : ∀ c ∈ joinSlash (cleanSegs [] (splitSlash (splitQuery ('/' :: rest)).1)),
        badChar c = false := by
      intro c hc
      rcases mem_joinSlash hc with h1 | ⟨s, hs, hcs⟩
      · subst h1; decide
      · exact ((hsegs s hs).2 c hcs).1
    -- the tail after the leading '/'
    have key : ∃ y, cleanKeepTrailing (splitQuery ('/' :: rest)).1 ++ (splitQuery ('/' :: rest)).2
        = '/' :: y ∧ y.head? ≠ some '/' ∧ ∀ c ∈ y, badChar c = false := by
      generalize hS : cleanSegs [] (splitSlash (splitQuery ('/' :: rest)).1) = segs at hsegs hjoin
      cases segs with
      | nil =>
        refine ⟨(splitQuery ('/' :: rest)).2, ?_, ?_, hq⟩
        · simp [cleanKeepTrailing, cleanRooted, hS, joinSlash, endsWithSlash]
        · rcases head_splitQuery_snd ('/' :: rest) with h1 | h1
          · rw [h1]; simp
          · rw [h1]; decide
      | cons s ss =>
        have hs := hsegs s List.mem_cons_self
        have hhd : (joinSlash (s :: ss)).head? ≠ some '/' := by
          rw [head_joinSlash hs.1]
          cases s with
          | nil => exact absurd rfl hs.1
          | cons a as =>
            have := (hs.2 a List.mem_cons_self).2
            simpa using this
        have hne : joinSlash (s :: ss) ≠ [] := by
          cases s with
          | nil => exact absurd rfl hs.1
          | cons a as => cases ss <;> simp [joinSlash]
        unfold cleanKeepTrailing
        split
        · refine ⟨joinSlash (s :: ss) ++ ['/'] ++ (splitQuery ('/' :: rest)).2, ?_, ?_, ?_⟩
          · simp [cleanRooted, hS]
          · cases hj : joinSlash (s :: ss) with
            | nil => exact absurd hj hne
            | cons a as => rw [hj] at hhd; simpa using hhd
          · intro c hc
            simp only [List.append_assoc, List.mem_append, List.mem_cons, List.not_mem_nil,
              or_false] at hc
            rcases hc with h1 | h1 | h1
            · exact hjoin c h1
            · subst h1; decide
            · exact hq c h1
        · refine ⟨joinSlash (s :: ss) ++ (splitQuery ('/' :: rest)).2, ?_, ?_, ?_⟩
          · simp [cleanRooted, hS]
          · cases hj : joinSlash (s :: ss) with
            | nil => exact absurd hj hne
            | cons a as => rw [hj] at hhd; simpa using hhd
          · intro c hc
            simp only [List.mem_append] at hc
            rcases hc with h1 | h1
            · exact hjoin c h1
            · exact hq c h1
    obtain ⟨y, hy, hyh, hyb⟩ := key
    rw [hy, escNonASCII_cons_ascii (by decide)]
    have := esc_tail_ok hyh hyb
    exact safeLoc_of_tail this.1 this.2

theorem noctl_dropTabNl (l : List Char) (h : l.any isCtl = false) : dropTabNl l = l := by
  unfold dropTabNl
  apply List.filter_eq_self.mpr
  intro c hc
  have hcc : isCtl c = false := by
    have := List.any_eq_false.mp h c hc
    simpa using this
  simp only [Bool.not_eq_true', Bool.or_eq_false_iff, beq_eq_false_iff_ne, ne_eq]
  refine ⟨⟨?_, ?_⟩, ?_⟩ <;> (intro e; subst e; revert hcc; decide)

/-- **Browser**: a Location of that shape is resolved as a path on the same origin. -/
theorem c17_same_origin (l : List Char) (h : safeLoc l = true) :
    browserStart l = .pathAbsolute := by
  unfold safeLoc at h
  split at h
  · cases h
  · cases h
  · rename_i rest h1 h2
    simp only [Bool.not_eq_true'] at h
    have hs : stripLead ('/' :: rest) = '/' :: rest := by simp [stripLead]
    have hd : dropTabNl ('/' :: rest) = '/' :: rest := by
      have : dropTabNl rest = rest := noctl_dropTabNl _ h
      unfold dropTabNl at this ⊢
      rw [List.filter_cons_of_pos (by decide), this]
    unfold browserStart
    rw [hs, hd]
    split <;> simp_all
  · cases h

/-- **End to end**: for every submitted destination string and either answer of `url.Parse`,
the redirect emitted after login resolves on keymaster's own origin. -/
theorem c17_end_to_end (l : List Char) (parseOK : Bool) :
    browserStart (location parseOK (filter l)) = .pathAbsolute := by
  apply c17_same_origin
  apply c17_location_safe
  rcases c17_filter l with h | h
  · rw [h]; exact c17_profile_safe
  · exact h

/-- the pinned tree's two-prefix filter is **not** safe: `/\evil.example`, `/./\evil.example`
(cleaned by `http.Redirect` into `/\evil.example`) and a tab between the slashes. -/
theorem c17_unfixed_counterexample :
    browserStart (location false (filterOld "/\\evil.example".toList)) = .authority ∧
    browserStart (location true (filterOld "/./\\evil.example".toList)) = .authority ∧
    browserStart (location false (filterOld "/\t/evil.example".toList)) = .authority := by
  decide

/-- non-vacuity: ordinary destinations pass the repaired filter unchanged -/
example : filter "/idp/oauth2/authorize?client_id=x&state=y".toList =
    "/idp/oauth2/authorize?client_id=x&state=y".toList := by decide

end KM.LoginDest

/-! ### every redirect site of the current source tree (regenerated table) -/
namespace KM.LoginDest
open KM.Site

/-- classes of `http.Redirect` arguments that are acceptable: the filtered destination (or a
parked copy of it), fixed same-origin paths, and the three by-design classes that are not
client-chosen destinations (the validated OpenID redirect — property C13 —, the CLI's
`http://localhost:<port>` hand-off, the operator-configured federation URL). -/
def siteOK : RedirClass → Bool
  | .filtered | .pendingField | .profileUri | .federationConfig | .oidcRedirectUri => true
  | .const s => safeLoc s
  | .sprintf f => f == "/?user=%s".toList || f == "http://localhost:%d%s?auth_cookie=%s".toList
  | .mixed | .unknown => false

/-- **Sites**: every redirect in cmd/keymasterd hands `http.Redirect` an acceptable class, and
the only thing ever parked as a pending federated-login destination is a filtered one. -/
theorem c17_sites :
    KM.Gen.redirectSites.all (fun s => siteOK s.2) = true ∧
    KM.Gen.pendingDestinationSources.all (· == RedirClass.filtered) = true ∧
    (KM.Gen.redirectSites.filter (fun s => s.2 == RedirClass.filtered)).length ≥ 5 := by
  decide

end KM.LoginDest

namespace KM.LoginDest

/-- **Filter source** (regenerated): the two functions the hand-written `filter` transcribes read,
after whitespace normalisation, exactly as they did when the model was written. Any edit to the
filter — even a harmless one — breaks this tie and sends the check looking for a failing input. -/
theorem c17_filter_source :
    KM.Gen.getLoginDestinationSrc = "{ loginDestination := profilePath if r.FormValue(\"login_destination\") != \"\" { inboundLoginDestination := r.Form.Get(\"login_destination\") if isSafeLoginDestination(inboundLoginDestination) { loginDestination = inboundLoginDestination } } return loginDestination }".toList ∧
    KM.Gen.isSafeLoginDestinationSrc = "{ if !strings.HasPrefix(destination, \"/\") || strings.HasPrefix(destination, \"//\") { return false } for _, c := range destination { if c == '\\\\' || unicode.IsControl(c) { return false } } return true }".toList := by
  exact ⟨rfl, rfl⟩

end KM.LoginDest

/-! ### the filter as TRANSLATED from the current source (go2lean, `KM/Gen/GoLoginDest.lean`)

`isSafeLoginDestination` and `getLoginDestination` are translated statement by statement from
/repo's working tree on every run; the theorems below are about those translations, so the
property is re-proved against what the code says now (not against a transcription of it). -/
namespace KM.LoginDest
open KM.Go

/-- the translated `isSafeLoginDestination` is the model's `safeDest`, for every string -/
theorem c17_go_safe_eq (d : List Char) : KM.Gen.GoLoginDest.isSafeLoginDestination d = safeDest d := by
  unfold KM.Gen.GoLoginDest.isSafeLoginDestination
  rw [forRange_any (fun c => c == '\\' || unicode_IsControl c) false _ (by intro x s; cases s; rfl)]
  rw [safeDest_flat]
  have e : (fun c => c == '\\' || unicode_IsControl c) = badChar := by funext c; rfl
  have e1 : "/".toList = ['/'] := by decide
  have e2 : "//".toList = ['/', '/'] := by decide
  rw [e, e1, e2]
  cases strings_HasPrefix d ['/'] <;> cases strings_HasPrefix d ['/', '/'] <;> cases d.any badChar <;> rfl

/-- the translated `getLoginDestination` (as a function of the `login_destination` form value) is
the model's `filter` -/
theorem c17_go_dest_eq (v : List Char) : KM.Gen.GoLoginDest.getLoginDestination v = filter v := by
  unfold KM.Gen.GoLoginDest.getLoginDestination filter
  dsimp -proj -iota only
  rw [c17_go_safe_eq]
  have e : "/profile/".toList = profilePath := rfl
  rw [e]
  by_cases h1 : v = [] <;> by_cases h2 : safeDest v = true <;> simp [h1, h2]

/-- **End to end, on the translated source**: whatever the client sends as `login_destination`,
the value `getLoginDestination` (as the code reads now) hands to `http.Redirect` produces a
`Location` a browser resolves inside the keymaster origin. -/
theorem c17_go_end_to_end (v : List Char) (parseOK : Bool) :
    browserStart (location parseOK (KM.Gen.GoLoginDest.getLoginDestination v)) = .pathAbsolute := by
  rw [c17_go_dest_eq]; exact c17_end_to_end v parseOK

/-- non-vacuity: the translated function, run on concrete inputs -/
example : KM.Gen.GoLoginDest.getLoginDestination "/idp/oauth2/authorize?x=1".toList = "/idp/oauth2/authorize?x=1".toList ∧
    KM.Gen.GoLoginDest.getLoginDestination "/\\evil.example".toList = "/profile/".toList ∧
    KM.Gen.GoLoginDest.getLoginDestination "//evil.example".toList = "/profile/".toList := by decide

end KM.LoginDest

/-! ### the federated login as a history (begin / begin again / callback, in any order)

Round 5: the parked destination is client-chosen state that lives across requests; the property
must hold for every *history* of requests on the two handlers, not only for begin → callback. -/
namespace KM.LoginDest

/-- invariant: every parked destination passes the filter's test -/
def PendSafe (s : Flow) : Prop := ∀ p ∈ s.pend, safeDest p.dest = true

theorem findPending_mem {c : Nat} {ps : List Pending} {p : Pending}
    (h : findPending c ps = some p) : p ∈ ps := by
  induction ps with
  | nil => simp [findPending] at h
  | cons q qs ih =>
    unfold findPending at h
    split at h
    · cases h; exact List.mem_cons_self
    · exact List.mem_cons_of_mem _ (ih h)

theorem callbackDest_safe {d : List Char} (h : safeDest d = true) :
    safeDest (callbackDest d) = true := by
  unfold callbackDest
  split
  · exact c17_profile_safe
  · exact h

theorem fstep_inv (o : List Char → Bool) (s : Flow) (x : FStep) (h : PendSafe s) :
    PendSafe (fstep o s x).1 := by
  cases x with
  | begin d =>
    intro p hp
    simp only [fstep, List.mem_cons] at hp
    rcases hp with rfl | hp
    · rcases c17_filter d with e | e
      · show safeDest (filter d) = true
        rw [e]; exact c17_profile_safe
      · exact e
    · exact h p hp
  | callback st c =>
    cases hf : findPending c s.pend with
    | none => simp only [fstep, hf]; exact h
    | some q =>
      by_cases hs : q.st = st
      · simp only [fstep, hf, hs, ne_eq, not_true_eq_false, if_false]
        intro p hp
        exact h p (List.mem_filter.mp hp).1
      · simp only [fstep, hf, hs, ne_eq, not_false_eq_true, if_true]; exact h

theorem fstep_emit (o : List Char → Bool) (s : Flow) (x : FStep) (l : List Char) (h : PendSafe s)
    (he : (fstep o s x).2 = some l) : browserStart l = .pathAbsolute := by
  cases x with
  | begin d => simp only [fstep] at he; cases he
  | callback st c =>
    cases hf : findPending c s.pend with
    | none => simp only [fstep, hf] at he; cases he
    | some q =>
      by_cases hs : q.st = st
      · simp only [fstep, hf, hs, ne_eq, not_true_eq_false, if_false, Option.some.injEq] at he
        rw [← he]
        apply c17_same_origin
        apply c17_location_safe
        exact callbackDest_safe (h q (findPending_mem hf))
      · simp only [fstep, hf, hs, ne_eq, not_false_eq_true, if_true] at he; cases he

/-- **Flow**: in every history of begin and callback requests — any number of attempts, begun with
any destinations and any cookies presented, completed in any order, with matching or mismatching
state/cookie pairs — and for every answer of `url.Parse`, each `Location` the callback emits
resolves on keymaster's own origin. -/
theorem c17_flow_history (o : List Char → Bool) (hist : List FStep) (l : List Char)
    (hl : some l ∈ frun o Flow.init hist) : browserStart l = .pathAbsolute := by
  have gen : ∀ (hist : List FStep) (s : Flow), PendSafe s → some l ∈ frun o s hist →
      browserStart l = .pathAbsolute := by
    intro hist
    induction hist with
    | nil => intro s _ hm; simp [frun] at hm
    | cons x xs ih =>
      intro s hs hm
      simp only [frun, List.mem_cons] at hm
      rcases hm with hm | hm
      · exact fstep_emit o s x l hs hm.symm
      · exact ih _ (fstep_inv o s x hs) hm
  exact gen hist Flow.init (by intro p hp; cases hp) hl

/-- a restarted attempt does not touch the one parked before: the first attempt's callback still
goes where its own begin said (non-vacuity of `c17_flow_history`, and the restart scenario) -/
theorem c17_flow_restart_example :
    frun (fun _ => true) Flow.init
      [.begin "/idp/x".toList, .begin "//evil.example".toList, .callback 1 0, .callback 1 1,
       .callback 0 0, .callback 0 0] =
    [none, none, none, some "/profile/".toList, some "/idp/x".toList, none] := by
  decide

end KM.LoginDest
