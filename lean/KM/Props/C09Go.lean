import KM.Model.GoLite
import KM.Model.GoTypes
import KM.Gen.GoSeal
import KM.Gen.GoGate
import KM.Gen.GoInject
/-! # C09 — `unsealCA` as TRANSLATED from the current source (go2lean)

The whole injection step is translated from /repo's working tree on every run (`KM/Gen/GoSeal.lean`): the mutex
(`Lock`, the deferred `Unlock`), the already-unsealed test, the PGP decryption of the main and of the optional
Ed25519 key file with the posted passphrase, `loadSignersFromPemData`, `signerPublicKeyToKeymasterKeys` and the send on
`SignerIsReady`.  Decryption and the result of loading are parameters; the mutex operations, the load, the publication
and the ready signal are effects recorded in program order.  `signerSet` is what `state.Signer != nil` reads. -/
namespace KM.Seal
open KM.Go KM.GoTypes

def errAlready : Err := "signer not null, already unlocked".toList

/-- the translated function in normal form -/
theorem unsealCA_eq (ext : SealExt) (signerSet hasEd : Bool) (pw : Str) :
    KM.Gen.GoSeal.unsealCA ext signerSet hasEd pw =
      if signerSet = true then (some errAlready, [.lock, .unlock])
      else match ext.decrypt .main pw with
        | (_, some e) => (some e, [.lock, .unlock])
        | (m, none) =>
          match (if hasEd = true then ext.decrypt .ed25519 pw else ([], none)) with
          | (_, some e) => (some e, [.lock, .unlock])
          | (k, none) =>
            match ext.loadResult m k with
            | some e => (some e, [.lock, .loadSigners m k, .unlock])
            | none => (none, [.lock, .loadSigners m k, .publishKeys, .ready true, .unlock]) := by
  obtain ⟨decrypt, loadResult⟩ := ext
  unfold KM.Gen.GoSeal.unsealCA errAlready
  dsimp -iota only
  cases signerSet with
  | true => rfl
  | false =>
    rcases hm : decrypt .main pw with ⟨m, _ | e⟩
    · cases hasEd with
      | true =>
        rcases hk : decrypt .ed25519 pw with ⟨k, _ | e⟩
        · cases hl : loadResult m k <;> simp [hm, hk, hl]
        · simp [hm, hk]
      | false =>
        cases hl : loadResult m [] <;> simp [hm, hl]
    · simp [hm]

def changesState : SealEffect → Bool
  | .loadSigners .. => true
  | .publishKeys => true
  | .ready _ => true
  | _ => false

/-- **a wrong passphrase changes nothing**: when the main key file does not decrypt with the posted passphrase (or the
Ed25519 file, when there is one, does not), an error is returned and nothing but the mutex was touched -/
theorem c09_go_wrong_passphrase (ext : SealExt) (signerSet hasEd : Bool) (pw : Str)
    (h : (ext.decrypt .main pw).2 ≠ none ∨ (hasEd = true ∧ (ext.decrypt .ed25519 pw).2 ≠ none)) :
    (KM.Gen.GoSeal.unsealCA ext signerSet hasEd pw).1 ≠ none ∧
    (KM.Gen.GoSeal.unsealCA ext signerSet hasEd pw).2 = [.lock, .unlock] := by
  rw [unsealCA_eq]
  cases signerSet with
  | true => simp
  | false =>
    rcases hm : ext.decrypt .main pw with ⟨m, _ | e⟩
    · rcases h with h | ⟨hed, h⟩
      · rw [hm] at h; exact absurd rfl h
      · subst hed
        rcases hk : ext.decrypt .ed25519 pw with ⟨k, _ | e⟩
        · rw [hk] at h; exact absurd rfl h
        · simp [hk]
    · simp

/-- **unsealed once**: while a signer is loaded every injection — right passphrase or not — is refused and touches
nothing but the mutex -/
theorem c09_go_already_unsealed (ext : SealExt) (hasEd : Bool) (pw : Str) :
    KM.Gen.GoSeal.unsealCA ext true hasEd pw = (some errAlready, [.lock, .unlock]) := by
  rw [unsealCA_eq]; rfl

/-- **success is exactly**: sealed, both files decrypt with the posted passphrase, the signers load — and then the
signers are loaded, their keys published and readiness signalled, once each, in that order, all while the mutex is
held; in every other case no readiness is signalled and no key is published -/
theorem c09_go_success_iff (ext : SealExt) (signerSet hasEd : Bool) (pw : Str) :
    ((KM.Gen.GoSeal.unsealCA ext signerSet hasEd pw).1 = none ↔
      (signerSet = false ∧ (ext.decrypt .main pw).2 = none ∧ (hasEd = true → (ext.decrypt .ed25519 pw).2 = none) ∧
       ext.loadResult (ext.decrypt .main pw).1 (if hasEd = true then (ext.decrypt .ed25519 pw).1 else []) = none)) ∧
    ((KM.Gen.GoSeal.unsealCA ext signerSet hasEd pw).1 = none →
      (KM.Gen.GoSeal.unsealCA ext signerSet hasEd pw).2 =
        [.lock, .loadSigners (ext.decrypt .main pw).1 (if hasEd = true then (ext.decrypt .ed25519 pw).1 else []),
         .publishKeys, .ready true, .unlock]) ∧
    ((KM.Gen.GoSeal.unsealCA ext signerSet hasEd pw).1 ≠ none →
      ∀ e ∈ (KM.Gen.GoSeal.unsealCA ext signerSet hasEd pw).2, e ≠ .publishKeys ∧ e ≠ .ready true) := by
  rw [unsealCA_eq]
  cases signerSet with
  | true => simp
  | false =>
    rcases hm : ext.decrypt .main pw with ⟨m, _ | e⟩
    · cases hasEd with
      | true =>
        rcases hk : ext.decrypt .ed25519 pw with ⟨k, _ | e⟩
        · cases hl : ext.loadResult m k <;> simp [hl]
        · simp
      | false => cases hl : ext.loadResult m [] <;> simp [hl]
    · simp

/-- the mutex is taken first and released last, in every execution -/
theorem c09_go_under_mutex (ext : SealExt) (signerSet hasEd : Bool) (pw : Str) :
    (KM.Gen.GoSeal.unsealCA ext signerSet hasEd pw).2.head? = some .lock ∧
    (KM.Gen.GoSeal.unsealCA ext signerSet hasEd pw).2.getLast? = some .unlock ∧
    ((KM.Gen.GoSeal.unsealCA ext signerSet hasEd pw).2.filter (fun e => e == .lock || e == .unlock)).length = 2 := by
  rw [unsealCA_eq]
  cases signerSet with
  | true => simp
  | false =>
    rcases hm : ext.decrypt .main pw with ⟨m, _ | e⟩
    · cases hasEd with
      | true =>
        rcases hk : ext.decrypt .ed25519 pw with ⟨k, _ | e⟩
        · cases hl : ext.loadResult m k <;> simp [hl]
        · simp
      | false => cases hl : ext.loadResult m [] <;> simp [hl]
    · simp

/-- non-vacuity: the translated function run with a passphrase that opens the main file only -/
def exExt : SealExt where
  decrypt f pw := if pw = ['o', 'k'] then ((if f = .main then ['M'] else ['E']), none) else ([], some ['b', 'a', 'd'])
  loadResult _ _ := none

example : KM.Gen.GoSeal.unsealCA exExt false true ['o', 'k'] =
      (none, [.lock, .loadSigners ['M'] ['E'], .publishKeys, .ready true, .unlock]) ∧
    KM.Gen.GoSeal.unsealCA exExt false false ['n', 'o'] = (some ['b', 'a', 'd'], [.lock, .unlock]) ∧
    (KM.Gen.GoSeal.unsealCA exExt true true ['o', 'k']).2 = [.lock, .unlock] := by decide

/-- **the sealed gate most handlers start with, on the translated source** (`sendFailureToClientIfLocked`): it reads
`state.Signer` under the mutex, and it stops the handler (`true`, one 500) exactly when no signer is loaded -/
theorem c09_go_locked_gate (signerNil : Bool) :
    KM.Gen.GoGate.sendFailureToClientIfLocked signerNil =
      if signerNil = true then (true, [.lock, .unlock, .securityHeaders, .fail 500])
      else (false, [.lock, .unlock, .securityHeaders]) := by
  cases signerNil <;> rfl

end KM.Seal

/-! ## `secretInjectorHandler`, the whole handler (`KM/Gen/GoInject.lean`) -/
namespace KM.InjectGo
open KM.GoTypes KM.Go

/-- **closed form of the translated handler** -/
theorem inject_eq (ext : InjectExt) (noTLS noChains : Bool) (client : List Char) (formPw : List (List Char) × Bool) :
    (KM.Gen.GoInject.secretInjectorHandler ext noTLS noChains client formPw).2 =
      if noTLS then [.status 500]
      else if noChains then [.status 403]
      else if !formPw.2 then [.status 400]
      else [.unseal (formPw.1.headD []) client,
            .status (if (ext.unsealResult (formPw.1.headD []) client).isSome then 400 else 200)] := by
  obtain ⟨pws, ok⟩ := formPw
  unfold KM.Gen.GoInject.secretInjectorHandler
  dsimp only
  cases noTLS
  · cases noChains
    · cases ok
      · simp
      · cases h : ext.unsealResult (pws.headD []) client <;> simp [h]
    · simp
  · simp

/-- **only a request over TLS with a verified client certificate can deliver a passphrase** (C09), on the translated
source: `unsealCA` is called at most once, only when the connection is TLS and carries at least one verified chain and
the form holds `ssh_ca_password`; it is called with that field's first value and the common name of the verified leaf;
and the handler answers 200 exactly when that call returned no error. -/
theorem c09_go_injector (ext : InjectExt) (noTLS noChains : Bool) (client : List Char)
    (formPw : List (List Char) × Bool) :
    (∀ pw c, InjectEffect.unseal pw c ∈ (KM.Gen.GoInject.secretInjectorHandler ext noTLS noChains client formPw).2 →
      noTLS = false ∧ noChains = false ∧ formPw.2 = true ∧ pw = formPw.1.headD [] ∧ c = client) ∧
    (InjectEffect.status 200 ∈ (KM.Gen.GoInject.secretInjectorHandler ext noTLS noChains client formPw).2 ↔
      noTLS = false ∧ noChains = false ∧ formPw.2 = true ∧ ext.unsealResult (formPw.1.headD []) client = none) := by
  rw [inject_eq]
  obtain ⟨pws, ok⟩ := formPw
  cases noTLS <;> cases noChains <;> cases ok <;> simp

end KM.InjectGo
