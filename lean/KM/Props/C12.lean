/-! # C12 — property theorems (stub: not built yet) -/
