import KM.Lemmas.Token
import KM.Model.Oidc
import KM.Gen.C12
import KM.Model.GoTypes
import KM.Gen.GoOidc
/-! # C12 — OpenID tokens go only to the right client and name the right user

Property theorems only; the model is `KM.Oidc` (token endpoint, PKCE, userinfo) over the artefacts
of `KM.Token`. -/
namespace KM.Oidc
open KM.Token KM.Gen.C04

/-! ### unpacking a successful token request -/

theorem length_pos_ne_nil {s : Str} : (decide (s.length > 0) = true) ↔ s ≠ [] := by
  cases s <;> simp

theorem gStr_optStr (s : Str) : (decStr (optStr s)).getD [] = s := by
  unfold optStr
  by_cases h : s = []
  · simp [h, decStr]
  · simp [h, decStr]

theorem token_ok {cfg : Cfg} {now : Clock} {r : TokenReq} {idt acc : Wire}
    (h : token cfg now r = .ok (idt, acc)) :
    r.method = "POST".toList ∧ r.grantType = "authorization_code".toList ∧ r.redirect ≠ [] ∧
    verifies cfg.dep r.code = true ∧ typedCode r.code.claims = true ∧
    ∃ id pass cl, creds r = .ok (id, pass) ∧ getClient cfg id = some cl ∧
      ¬(r.verifier ≠ [] ∧ cl.secret ≠ []) ∧ credsValid cfg cl pass r.verifier r.code.claims = true ∧
      codeChecks now id r.redirect r.code.claims = .ok () ∧
      idt = emitId cfg.dep r.code.claims id now.sec ∧ acc = emitAccess cfg.dep r.code.claims now.sec := by
  unfold token at h
  split at h
  · cases h
  · rename_i h1
    split at h
    · cases h
    · rename_i h2
      split at h
      · cases h
      · rename_i h3
        split at h
        · cases h
        · rename_i h4
          split at h
          · cases h
          · rename_i h5
            split at h
            · cases h
            · rename_i id pass hc
              split at h
              · cases h
              · rename_i cl hcl
                split at h
                · cases h
                · rename_i h6
                  split at h
                  · cases h
                  · rename_i h7
                    split at h
                    · cases h
                    · rename_i hcc
                      injection h with h
                      injection h with hi ha
                      refine ⟨by simpa using h1, by simpa using h2, by simpa using h3, by simpa using h4,
                        by simpa using h5, id, pass, cl, hc, hcl, ?_, by simpa using h7, hcc, hi.symm, ha.symm⟩
                      intro ⟨hv, hs⟩
                      apply h6
                      simp only [Bool.and_eq_true, bne_iff_ne, ne_eq]
                      exact ⟨length_pos_ne_nil.mpr hv, hs⟩

/-- what the handler's `valid` flag amounts to once the PKCE gate was passed -/
theorem proved_of_valid {cfg : Cfg} {cl : Client} {pass verifier : Str} {c : Wire}
    (hg : ¬(verifier ≠ [] ∧ cl.secret ≠ [])) (hv : credsValid cfg cl pass verifier c = true) :
    provedClient cfg cl pass verifier c = true := by
  simp only [credsValid, Bool.or_eq_true, Bool.and_eq_true, beq_iff_eq] at hv
  by_cases hve : verifier = []
  · have h12 : decide (pass.length > 0) = true ∧ pass = cl.secret := by
      rcases hv with ⟨h1, _⟩ | h
      · rw [hve] at h1; simp at h1
      · exact h
    have hs : cl.secret ≠ [] := by
      intro hs
      have := length_pos_ne_nil.mp h12.1
      exact this (h12.2.trans hs)
    simp [provedClient, hve, hs, h12.2]
  · have hs : cl.secret = [] := by
      cases hh : cl.secret with
      | nil => rfl
      | cons a as => exact absurd ⟨hve, by simp [hh]⟩ hg
    have hvv : validCodeVerifier cfg verifier c = true := by
      rcases hv with ⟨_, h2⟩ | ⟨h1, h2⟩
      · exact h2
      · have := length_pos_ne_nil.mp h1
        exact absurd (h2.trans hs) this
    simp [provedClient, hve, hs, hvv]

/-- **Release.** Tokens leave the token endpoint only if: the code carries a signature of one of the
deployment's keys; the caller named a registered client and proved to be it — by the client secret
(no verifier involved), or, for a secret-less client, by a verifier matching the challenge sealed
inside the code; the code was issued to that client; it has not expired; the redirect URI is the
one bound into the code; and it is an authorization code (`type = token_endpoint`). -/
theorem c12_release (cfg : Cfg) (now : Clock) (r : TokenReq) (idt acc : Wire)
    (h : token cfg now r = .ok (idt, acc)) : releasable cfg now r = true := by
  obtain ⟨_, _, _, hv, _, id, pass, cl, hc, hcl, hg, hcv, hcc, _, _⟩ := token_ok h
  obtain ⟨h1, h2, h3, h4⟩ := codeChecks_ok hcc
  simp [releasable, hc, hcl, verifies_signed hv, proved_of_valid hg hcv, h1, h2, h3, h4]

/-- the same with the conjuncts spelled out -/
theorem c12_release_explicit (cfg : Cfg) (now : Clock) (r : TokenReq) (idt acc : Wire)
    (h : token cfg now r = .ok (idt, acc)) :
    ∃ id pass cl, creds r = .ok (id, pass) ∧ getClient cfg id = some cl ∧ cl.id = id ∧
      ((cl.secret ≠ [] ∧ r.verifier = [] ∧ pass = cl.secret) ∨
       (cl.secret = [] ∧ r.verifier ≠ [] ∧ validCodeVerifier cfg r.verifier r.code.claims = true)) ∧
      signedByDeployment cfg.dep r.code = true ∧ gStr r.code.claims .sub = id ∧
      now.sec ≤ gInt r.code.claims .exp ∧ gStr r.code.claims .redirectUri = r.redirect ∧
      gStr r.code.claims .typ = codeType := by
  obtain ⟨_, _, _, hv, _, id, pass, cl, hc, hcl, hg, hcv, hcc, _, _⟩ := token_ok h
  obtain ⟨h1, h2, h3, h4⟩ := codeChecks_ok hcc
  have hp0 := proved_of_valid hg hcv
  simp only [provedClient, Bool.or_eq_true, Bool.and_eq_true, bne_iff_ne, ne_eq, beq_iff_eq] at hp0
  have hp : (cl.secret ≠ [] ∧ r.verifier = [] ∧ pass = cl.secret) ∨
      (cl.secret = [] ∧ r.verifier ≠ [] ∧ validCodeVerifier cfg r.verifier r.code.claims = true) := by
    rcases hp0 with ⟨a, c⟩ | ⟨⟨a, b⟩, c⟩
    · have hv' : r.verifier = [] := by
        by_cases e : r.verifier = []
        · exact e
        · exact absurd ⟨e, a⟩ hg
      exact Or.inl ⟨a, hv', c⟩
    · exact Or.inr ⟨a, b, c⟩
  have hid : cl.id = id := by
    unfold getClient at hcl
    have := List.find?_some hcl
    simpa using this
  exact ⟨id, pass, cl, hc, hcl, hid, hp, verifies_signed hv, h1, h2, h3, h4⟩

/-! ### what the released tokens say -/

/-- **ID token.** Issuer is this server, the audience is exactly the authenticated client, the
subject is the user bound into the code, the nonce is the code's, and it expires when the code's
`auth_exp` says. -/
theorem c12_idtoken (cfg : Cfg) (now : Clock) (r : TokenReq) (idt acc : Wire)
    (h : token cfg now r = .ok (idt, acc)) :
    ∃ id pass, creds r = .ok (id, pass) ∧
      idt .iss = some (.str cfg.dep.issuer) ∧ idt .aud = some (.strs [id]) ∧
      idt .sub = some (.str (gStr r.code.claims .username)) ∧
      gStr idt .nonce = gStr r.code.claims .nonce ∧
      idt .exp = some (.num (gInt r.code.claims .authExp)) ∧ idt .iat = some (.num now.sec) ∧
      idt .typ = none ∧ idt .tokenType = none := by
  obtain ⟨_, _, _, _, _, id, pass, cl, hc, _, _, _, _, hi, _⟩ := token_ok h
  subst hi
  refine ⟨id, pass, hc, rfl, rfl, rfl, ?_, rfl, rfl, rfl, rfl⟩
  show (decStr (optStr (gStr r.code.claims .nonce))).getD [] = _
  exact gStr_optStr _

theorem mintCode_some {cfg : Cfg} {user : Str} {q : AuthzReq} {t : Int} {c : Wire}
    (hm : mintCode cfg user q t = some c) :
    ∃ p : CodeParams, c = emitCode cfg.dep p t ∧ p.client = q.client ∧ p.user = user ∧ p.nonce = q.nonce ∧
      p.redirect = q.redirect ∧ p.scope = q.scope ∧ p.accessAudience = q.audience := by
  unfold mintCode at hm
  split at hm
  · cases hm
  · injection hm with hm
    exact ⟨_, hm.symm, rfl, rfl, rfl, rfl, rfl, rfl⟩

theorem emitCode_getters (d : Deployment) (p : CodeParams) (t : Int) (h0 : 0 ≤ t) (h1 : t < 4611686018427387904) :
    gStr (emitCode d p t) .sub = p.client ∧ gStr (emitCode d p t) .username = p.user ∧
    gStr (emitCode d p t) .nonce = p.nonce ∧ gStr (emitCode d p t) .redirectUri = p.redirect ∧
    gStr (emitCode d p t) .scope = p.scope ∧ gStr (emitCode d p t) .typ = codeType ∧
    gInt (emitCode d p t) .authExp = t + 57600 ∧ gInt (emitCode d p t) .exp = t + 300 := by
  have e1 : inI64 (t + KM.Gen.maxAgeSecondsAuthCookie) = true := by
    unfold inI64 KM.Gen.maxAgeSecondsAuthCookie; simp; omega
  have e2 : inI64 (t + KM.Gen.idpOpenIDCMaxAuthProcessMaxDurationSeconds) = true := by
    unfold inI64 KM.Gen.idpOpenIDCMaxAuthProcessMaxDurationSeconds; simp; omega
  refine ⟨by simp [emitCode, gStr, decStr], by simp [emitCode, gStr, decStr], by simp [emitCode, gStr, decStr],
    by simp [emitCode, gStr, decStr], by simp [emitCode, gStr, decStr], by simp [emitCode, gStr, decStr], ?_, ?_⟩
  · simp only [emitCode, gInt, decInt, e1]
    simp [KM.Gen.maxAgeSecondsAuthCookie]
  · simp only [emitCode, gInt, decInt, e2]
    simp [KM.Gen.idpOpenIDCMaxAuthProcessMaxDurationSeconds]

/-- **ID token, end to end.** For a code minted by the authorization handler at time `t` for the
logged-in `user` (client, redirect URI, nonce taken from that request): whenever the token endpoint
later releases tokens on it, the ID token names this server as issuer, exactly the requesting client
as audience and `user` as subject, echoes that request's nonce, and expires exactly 16 hours after
the authorization (`maxAgeSecondsAuthCookie`); the redirect URI presented equals the authorized one
and the code was at most 300 s old. -/
theorem c12_idtoken_end_to_end (cfg : Cfg) (user : Str) (q : AuthzReq) (t : Int) (c : Wire)
    (h0 : 0 ≤ t) (h1 : t < 4611686018427387904)
    (hm : mintCode cfg user q t = some c) (now : Clock) (r : TokenReq) (idt acc : Wire)
    (hr : r.code.claims = c) (h : token cfg now r = .ok (idt, acc)) :
    idt .iss = some (.str cfg.dep.issuer) ∧ idt .aud = some (.strs [q.client]) ∧
    idt .sub = some (.str user) ∧ gStr idt .nonce = q.nonce ∧
    idt .exp = some (.num (t + 16 * 3600)) ∧ r.redirect = q.redirect ∧ now.sec ≤ t + 300 := by
  obtain ⟨id, pass, hc, k1, k2, k3, k4, k5, _⟩ := c12_idtoken cfg now r idt acc h
  obtain ⟨_, _, _, _, _, id', pass', cl, hc', _, _, _, hcc, _, _⟩ := token_ok h
  rw [hc] at hc'
  injection hc' with hc'
  injection hc' with hid _
  subst hid
  obtain ⟨c1, c2, c3, _⟩ := codeChecks_ok hcc
  obtain ⟨p, hp, p1, p2, p3, p4, _⟩ := mintCode_some hm
  obtain ⟨g1, g2, g3, g4, _, _, g7, g8⟩ := emitCode_getters cfg.dep p t h0 h1
  rw [hr, hp] at k3 k4 k5 c1 c2 c3
  rw [g1] at c1
  rw [g2] at k3
  rw [g3] at k4
  rw [g7] at k5
  rw [g8] at c2
  rw [g4] at c3
  refine ⟨k1, ?_, ?_, ?_, ?_, ?_, c2⟩
  · rw [k2, ← c1, p1]
  · rw [k3, p2]
  · rw [k4, p3]
  · rw [k5]; congr 2
  · rw [← c3, p4]

/-! ### optional authorization parameters: what flows into which token -/

/-- **Released tokens satisfy the property's predicates.** The ID token names this server, the
authenticated client as its *sole* audience (whatever `access_audience` the code carries), the code's
user and nonce, and the code's `auth_exp`; the code's `access_audience` reaches only the access
token, followed by the userinfo URL. -/
theorem c12_tokens_pred (cfg : Cfg) (now : Clock) (r : TokenReq) (idt acc : Wire)
    (h : token cfg now r = .ok (idt, acc)) :
    ∃ id pass, creds r = .ok (id, pass) ∧
      idTokenOK cfg.dep id (gStr r.code.claims .username) (gStr r.code.claims .nonce)
        (gInt r.code.claims .authExp) idt = true ∧
      accessTokenOK cfg.dep (gStr r.code.claims .username) (gStr r.code.claims .scope)
        (gStrs r.code.claims .accessAudience) (gInt r.code.claims .authExp) acc = true := by
  obtain ⟨id, pass, hc, k1, k2, k3, k4, k5, _⟩ := c12_idtoken cfg now r idt acc h
  obtain ⟨_, _, _, _, _, id', pass', cl, hc', _, _, _, _, _, ha⟩ := token_ok h
  refine ⟨id, pass, hc, ?_, ?_⟩
  · simp [idTokenOK, k1, k2, k3, k4, k5]
  · subst ha
    unfold accessTokenOK
    by_cases hl : gStrs r.code.claims .accessAudience = []
    · simp [emitAccess, hl]
    · have hpos : (gStrs r.code.claims .accessAudience).length > 0 := by
        cases hh : gStrs r.code.claims .accessAudience with
        | nil => exact absurd hh hl
        | cons a as => simp
      simp [emitAccess, hl, hpos, optStrs]

theorem emitCode_getters2 (d : Deployment) (p : CodeParams) (t : Int) :
    gStrs (emitCode d p t) .accessAudience = p.accessAudience := by
  simp only [emitCode, gStrs, optStrs]
  by_cases h : p.accessAudience = []
  · simp [h, decStrs]
  · simp [h, decStrs]

theorem authorize_ok {cfg : Cfg} {user : Str} {f : AuthzForm} {t : Int} {c : Wire}
    (h : authorize cfg user f t = .ok c) :
    f.responseType = "code".toList ∧ f.clientID ≠ [] ∧ scopeHasOpenid f.scope = true ∧ f.redirectOK = true ∧
    (∃ cl, getClient cfg f.clientID = some cl ∧
      (f.audience ≠ [] → cl.chosenAudiences = true ∧ f.audienceOriginOK = true)) ∧
    (f.nonce = [] ∨ 6 ≤ f.nonce.length) ∧ mintCode cfg user f.toReq t = some c := by
  unfold authorize at h
  split at h
  · cases h
  · rename_i h1
    split at h
    · cases h
    · rename_i h2
      split at h
      · cases h
      · rename_i h3
        split at h
        · cases h
        · rename_i cl hcl
          split at h
          · cases h
          · rename_i h4
            split at h
            · cases h
            · split at h
              · cases h
              · rename_i h6
                split at h
                · cases h
                · rename_i h7
                  split at h
                  · cases h
                  · rename_i h8
                    split at h
                    · cases h
                    · rename_i c' hm
                      injection h with h
                      subst h
                      refine ⟨by simpa using h1, by simpa using h2, by simpa using h3, by simpa using h4,
                        ⟨cl, hcl, ?_⟩, ?_, hm⟩
                      · intro ha
                        simp only [Bool.and_eq_true, bne_iff_ne, ne_eq, Bool.not_eq_true', not_and,
                          Bool.not_eq_false] at h6 h7
                        exact ⟨h6 ha, h7 ha⟩
                      · simp only [Bool.and_eq_true, decide_eq_true_eq, not_and, Decidable.not_not] at h8
                        by_cases hn : f.nonce = []
                        · exact Or.inl hn
                        · right
                          have : f.nonce.length ≠ 0 := by
                            intro e; exact hn (List.length_eq_zero_iff.mp e)
                          by_cases hlt : f.nonce.length < 6
                          · exact absurd (h8 hlt) this
                          · omega

/-- **Authorization request → tokens.** Take any authorization request the handler accepts for the
logged-in `user` at time `t` — whatever its optional parameters (scope variants, nonce, audience,
PKCE challenge) — and any later token request on that code that releases tokens. Then the ID token
is for this issuer, **exactly** `[client_id]`, `user`, that request's nonce and expires 16 h after
`t`; the access token is a bearer token for `user` with the requested scope whose audience is absent
when no `audience` was requested and otherwise that audience plus the userinfo URL; an audience was
accepted only for a client allowed to choose one and only if its origin is allowed; and the token
request used the authorized redirect URI. -/
theorem c12_authorize_flow (cfg : Cfg) (user : Str) (f : AuthzForm) (t : Int) (c : Wire)
    (h0 : 0 ≤ t) (h1 : t < 4611686018427387904)
    (ha : authorize cfg user f t = .ok c) (now : Clock) (r : TokenReq) (idt acc : Wire)
    (hr : r.code.claims = c) (h : token cfg now r = .ok (idt, acc)) :
    idTokenOK cfg.dep f.clientID user f.nonce (t + 16 * 3600) idt = true ∧
    accessTokenOK cfg.dep user f.scope (if f.audience = [] then [] else [f.audience]) (t + 16 * 3600) acc = true ∧
    (f.audience ≠ [] → ∃ cl, getClient cfg f.clientID = some cl ∧ cl.chosenAudiences = true ∧
      f.audienceOriginOK = true) ∧
    scopeHasOpenid f.scope = true ∧ f.redirectOK = true ∧ r.redirect = f.redirect := by
  obtain ⟨_, _, a3, a4, ⟨cl, hcl, haud⟩, _, hm⟩ := authorize_ok ha
  obtain ⟨e1, e2, e3, e4, e5, e6, _⟩ := c12_idtoken_end_to_end cfg user f.toReq t c h0 h1 hm now r idt acc hr h
  obtain ⟨id, pass, _, _, hacc⟩ := c12_tokens_pred cfg now r idt acc h
  obtain ⟨p, hp, p1, p2, p3, p4, p5, p6⟩ := mintCode_some hm
  obtain ⟨g1, g2, g3, g4, g5, _, g7, _⟩ := emitCode_getters cfg.dep p t h0 h1
  have paud : p.accessAudience = (if f.audience = [] then [] else [f.audience]) := by
    rw [p6]; rfl
  refine ⟨?_, ?_, ?_, a3, a4, e6⟩
  · simp only [AuthzForm.toReq] at e2 e4
    simp [idTokenOK, e1, e2, e3, e4, e5]
  · rw [hr, hp, g2, g5, g7, emitCode_getters2, p2, p5, paud] at hacc
    simpa [AuthzForm.toReq] using hacc
  · intro hne
    exact ⟨cl, hcl, haud hne⟩

/-- **Redeeming later, or twice.** Redemptions of the same code at different moments release ID and
access tokens with the *same* expiry — the authorization's `auth_exp` — however late and however often
within the code's life they happen. -/
theorem c12_redeem_twice (cfg : Cfg) (now1 now2 : Clock) (r1 r2 : TokenReq) (i1 a1 i2 a2 : Wire)
    (hc : r1.code.claims = r2.code.claims)
    (h1 : token cfg now1 r1 = .ok (i1, a1)) (h2 : token cfg now2 r2 = .ok (i2, a2)) :
    i1 .exp = i2 .exp ∧ a1 .exp = a2 .exp ∧ i1 .exp = some (.num (gInt r1.code.claims .authExp)) := by
  obtain ⟨_, _, _, _, _, _, _, k1, _⟩ := c12_idtoken cfg now1 r1 i1 a1 h1
  obtain ⟨_, _, _, _, _, _, _, k2, _⟩ := c12_idtoken cfg now2 r2 i2 a2 h2
  obtain ⟨_, _, _, _, _, _, _, _, _, _, _, _, _, _, e1⟩ := token_ok h1
  obtain ⟨_, _, _, _, _, _, _, _, _, _, _, _, _, _, e2⟩ := token_ok h2
  refine ⟨by rw [k1, k2, hc], ?_, k1⟩
  subst e1 e2
  simp [emitAccess, hc]

/-! ### PKCE -/

/-- **PKCE methods** (RFC 7636 §4.6) as `idpOpenIDCValidCodeVerifier` implements them: `S256` compares
the hashed verifier, `plain` and an absent method compare the verifier itself, anything else fails. -/
theorem c12_pkce (cfg : Cfg) (p : Protected) (v : Str) :
    (p.method = "S256".toList → methodCheck cfg p v = (cfg.s256 v == p.challenge)) ∧
    (p.method = "plain".toList ∨ p.method = [] → methodCheck cfg p v = (v == p.challenge)) ∧
    (p.method ≠ [] → p.method ≠ "plain".toList → p.method ≠ "S256".toList → methodCheck cfg p v = false) := by
  refine ⟨?_, ?_, ?_⟩
  · intro h; simp [methodCheck, h]
  · intro h; rcases h with h | h <;> simp [methodCheck, h]
  · intro h1 h2 h3
    unfold methodCheck
    rw [if_neg (not_or.mpr ⟨h1, h2⟩), if_neg h3]

/-- **PKCE gate.** Whenever tokens are released: a request carrying a verifier came from a
secret-less client and the code's sealed data opened to a challenge the verifier matches under its
method; a request without verifier came from a secret-bearing client presenting exactly its secret.
Hence a secret-bearing client can never use a verifier, a public client can never get by without
one, and a code minted without challenge is useless to a public client. -/
theorem c12_pkce_gate (cfg : Cfg) (now : Clock) (r : TokenReq) (idt acc : Wire)
    (h : token cfg now r = .ok (idt, acc)) :
    ∃ id pass cl, creds r = .ok (id, pass) ∧ getClient cfg id = some cl ∧
      (r.verifier ≠ [] → cl.secret = [] ∧
        ∃ p, cfg.openSealed (gStr r.code.claims .protectedDataKey) (gStr r.code.claims .protectedData)
               (gStr r.code.claims .jti) = some p ∧ methodCheck cfg p r.verifier = true) ∧
      (r.verifier = [] → cl.secret ≠ [] ∧ pass = cl.secret) := by
  obtain ⟨id, pass, cl, hc, hcl, _, hp, _⟩ := c12_release_explicit cfg now r idt acc h
  refine ⟨id, pass, cl, hc, hcl, ?_, ?_⟩
  · intro hv
    rcases hp with ⟨_, h2, _⟩ | ⟨h1, _, h3⟩
    · exact absurd h2 hv
    · refine ⟨h1, ?_⟩
      unfold validCodeVerifier at h3
      split at h3
      · cases h3
      · rename_i p hp'
        exact ⟨p, hp', h3⟩
  · intro hv
    rcases hp with ⟨h1, _, h3⟩ | ⟨_, h2, _⟩
    · exact ⟨h1, h3⟩
    · exact absurd hv h2

/-! ### userinfo -/

theorem verifies_of_key {d : Deployment} {l : List Alg} (hl : allowed d = some l) {k : Key} (hk : k ∈ d.trusted)
    {al : Alg} (hal : algOf k.ty = some al) (w : Wire) :
    verifies d { claims := w, alg := al, signedBy := some k.id, sigAlg := al } = true := by
  unfold verifies
  rw [hl]
  simp only [Bool.and_eq_true, List.contains_iff_mem, List.any_eq_true]
  refine ⟨(allowed_mem hl al).mpr ⟨k, hk, hal⟩, k, hk, ?_⟩
  simp [hal]

theorem emitAccess_aud (d : Deployment) (c : Wire) (t : Int) :
    (emitAccess d c t) .aud = none ∨
    ∃ l, (emitAccess d c t) .aud = some (.strs l) ∧ l.contains d.userinfoURL = true := by
  simp only [emitAccess]
  split
  · right
    refine ⟨gStrs c .accessAudience ++ [d.userinfoURL], ?_, by simp⟩
    unfold optStrs
    rw [if_neg (by simp)]
  · left; rfl

theorem emitAccess_getters (d : Deployment) (c : Wire) (t : Int) (ht : inI64 t = true) :
    typedAccess (emitAccess d c t) = true ∧ gInt (emitAccess d c t) .exp = gInt c .authExp ∧
    gStr (emitAccess d c t) .typ = accessType ∧ gStr (emitAccess d c t) .iss = d.issuer ∧
    gStr (emitAccess d c t) .username = gStr c .username ∧
    (gStrs (emitAccess d c t) .aud = [] ∨ (gStrs (emitAccess d c t) .aud).contains d.userinfoURL = true) := by
  have hr := gInt_range c .authExp
  refine ⟨?_, ?_, ?_, ?_, ?_, ?_⟩
  · unfold typedAccess okStr okStrs okInt
    rcases emitAccess_aud d c t with ha | ⟨l, ha, _⟩
    · rw [ha]; simp [emitAccess, decStr, decInt, decStrs, hr, ht]
    · rw [ha]; simp [emitAccess, decStr, decInt, decStrs, hr, ht]
  · show (decInt (some (.num (gInt c .authExp)))).getD 0 = gInt c .authExp
    simp only [decInt, hr]
    rfl
  · simp [emitAccess, gStr, decStr]
  · simp [emitAccess, gStr, decStr]
  · show (decStr (some (.str (gStr c .username)))).getD [] = gStr c .username
    simp [decStr]
  · unfold gStrs
    rcases emitAccess_aud d c t with ha | ⟨l, ha, hl⟩
    · left; rw [ha]; simp [decStrs]
    · right; rw [ha]; simpa [decStrs] using hl

/-- **Userinfo.** Let the token endpoint release `(idt, acc)` on a code. Presented to userinfo at any
later time, signed as keymaster signs it (a trusted key `k`, its own algorithm), the access token
yields exactly the user bound into the code, for as long as `auth_exp` has not passed; and whatever
userinfo answers for that token is that user. -/
theorem c12_userinfo (cfg : Cfg) (now : Clock) (r : TokenReq) (idt acc : Wire)
    (h : token cfg now r = .ok (idt, acc)) (hn : inI64 now.sec = true)
    (k : Key) (hk : k ∈ cfg.dep.trusted) (al : Alg) (hal : algOf k.ty = some al) (now' : Clock) :
    (now'.sec ≤ gInt r.code.claims .authExp →
      userinfo cfg now' { claims := acc, alg := al, signedBy := some k.id, sigAlg := al }
        = .ok (gStr r.code.claims .username)) ∧
    (∀ u, userinfo cfg now' { claims := acc, alg := al, signedBy := some k.id, sigAlg := al } = .ok u →
      u = gStr r.code.claims .username) := by
  obtain ⟨_, _, _, hv, _, id, pass, cl, _, _, _, _, _, _, ha⟩ := token_ok h
  subst ha
  obtain ⟨g1, g2, g3, g4, g5, g6⟩ := emitAccess_getters cfg.dep r.code.claims now.sec hn
  have hal' : ∃ l, allowed cfg.dep = some l := by
    unfold verifies at hv
    split at hv
    · cases hv
    · rename_i l hl; exact ⟨l, hl⟩
  obtain ⟨l, hl⟩ := hal'
  have hvv := verifies_of_key hl hk hal (emitAccess cfg.dep r.code.claims now.sec)
  constructor
  · intro hle
    unfold userinfo acceptAccess
    simp only [hvv, g1, g2, g3, g4, g5, Bool.not_true, Bool.false_eq_true, if_false]
    have h1 : ¬ (gInt r.code.claims .authExp < now'.sec) := by omega
    simp only [h1, if_false, bne_self_eq_false, Bool.false_eq_true]
    rcases g6 with g6 | g6
    · simp [g6]
    · simp only [List.contains_iff_mem] at g6
      simp [g6]
  · intro u hu
    obtain ⟨_, _, _, _, _, _, hh⟩ := acceptAccess_ok hu
    rw [hh, g5]

/-- **Userinfo answers only for genuine access tokens** (from C04): whatever makes userinfo answer
carries a deployment signature, is of kind `bearer`, is unexpired, names this server as issuer and
the answer is its `username` claim; codes and ID tokens never qualify (`c04_matrix`). -/
theorem c12_userinfo_only (cfg : Cfg) (now : Clock) (tok : Artefact) (u : Str)
    (h : userinfo cfg now tok = .ok u) :
    signedByDeployment cfg.dep tok = true ∧ gStr tok.claims .typ = accessType ∧
    now.sec ≤ gInt tok.claims .exp ∧ gStr tok.claims .iss = cfg.dep.issuer ∧ u = gStr tok.claims .username := by
  obtain ⟨hv, _, h1, h2, h3, _, h5⟩ := acceptAccess_ok h
  exact ⟨verifies_signed hv, h2, h1, h3, h5⟩

/-- the same as the Boolean predicate the judge evaluates on every userinfo answer -/
theorem c12_userinfo_pred (cfg : Cfg) (now : Clock) (tok : Artefact) (u : Str)
    (h : userinfo cfg now tok = .ok u) : userinfoAllowed cfg now tok u = true := by
  obtain ⟨h1, h2, h3, h4, h5⟩ := c12_userinfo_only cfg now tok u h
  simp [userinfoAllowed, h1, h2, h3, h4, h5]

/-! ### a credential before and after its expiry (round 5) -/

/-- **No grace period for a code.** Whatever else is right about the request — client, secret or verifier,
redirect, signature —, from the first second after the code's `exp` on the token endpoint releases
nothing; presented at any second up to and including `exp` the expiry test is not what refuses it
(`c12_release_explicit` has `now ≤ exp` as a *necessary* conjunct; this is its contrapositive, stated for
all later moments at once). -/
theorem c12_code_after_expiry (cfg : Cfg) (now : Clock) (r : TokenReq)
    (hexp : gInt r.code.claims .exp < now.sec) : ∀ idt acc, token cfg now r ≠ .ok (idt, acc) := by
  intro idt acc h
  obtain ⟨_, _, _, _, _, _, _, _, _, hle, _, _⟩ := c12_release_explicit cfg now r idt acc h
  omega

/-- **No grace period for an access token.** From the first second after its `exp` an access token makes
userinfo answer for nobody. -/
theorem c12_access_after_expiry (cfg : Cfg) (now : Clock) (tok : Artefact)
    (hexp : gInt tok.claims .exp < now.sec) : ∀ u, userinfo cfg now tok ≠ .ok u := by
  intro u h
  obtain ⟨_, _, hle, _, _⟩ := c12_userinfo_only cfg now tok u h
  omega

/-- **The same code at two moments.** If a code is redeemed at `now2`, then the same request at any earlier
moment `now1` was redeemable as well: the only time-dependent test is the expiry, so a code never
"becomes valid" later and there is exactly one instant — `exp` — after which it stops working. -/
theorem c12_code_expiry_is_the_only_clock (cfg : Cfg) (now1 now2 : Clock) (r : TokenReq) (idt acc : Wire)
    (hle : now1.sec ≤ now2.sec) (h : token cfg now2 r = .ok (idt, acc)) : releasable cfg now1 r = true := by
  have h2 := c12_release cfg now2 r idt acc h
  unfold releasable at h2 ⊢
  split at h2
  · exact h2
  · split at h2
    · exact h2
    · simp only [Bool.and_eq_true, decide_eq_true_eq] at h2 ⊢
      obtain ⟨⟨⟨⟨⟨a, b⟩, c⟩, d⟩, e⟩, f⟩ := h2
      exact ⟨⟨⟨⟨⟨a, b⟩, c⟩, by omega⟩, e⟩, f⟩

/-! ### the published JWKS -/

/-- **JWKS.** Whatever kind of key the deployment signs with (RSA, P-256, P-384, P-521, Ed25519 —
every kind keymaster derives an algorithm for) and whatever other keys it trusts: a token signed by
one of the deployment's keys under that key's algorithm — as the token endpoint signs the ID token
and the access token — verifies under the key set the JWKS handler publishes; and conversely a
token that verifies under the published set verifies for keymaster's own consumers. -/
theorem c12_jwks (cfg : Cfg) (k : Key) (hk : k ∈ cfg.dep.trusted) (al : Alg) (hal : algOf k.ty = some al) (w : Wire) :
    rpVerifies (published cfg) { claims := w, alg := al, signedBy := some k.id, sigAlg := al } = true ∧
    (∀ a : Artefact, rpVerifies (published cfg) a = signedByDeployment cfg.dep a) := by
  constructor
  · simp only [rpVerifies, published, List.any_eq_true]
    exact ⟨k, hk, by simp [hal]⟩
  · intro a; rfl

/-- every key kind the signer loader accepts and keymaster can sign tokens with has an algorithm -/
example : [KeyType.rsa, .p256, .p384, .p521, .ed25519].all (fun t => (algOf t).isSome) = true := by decide
/-- a P-521 signer next to an Ed25519 ssh-CA key: the ES512 token verifies under the published set -/
example : rpVerifies (published { dep := { issuer := [], trusted := [⟨1, .ed25519⟩, ⟨2, .p521⟩] }, clients := [],
                                   s256 := fun _ => [], openSealed := fun _ _ _ => none })
    { claims := Wire.empty, alg := .ES512, signedBy := some 2, sigAlg := .ES512 } = true := by decide

/-! ### the regenerated facts the model was transcribed from -/

/-- **Sites.** The PKCE switch has exactly the arms modelled by `methodCheck`; a client may use PKCE
iff its secret is empty, a secret is valid iff equal to the configured one; the credential `if`s of
the token handler are the ones `creds` / `token` mirror; the authorization handler refuses a
challenge with a method other than "" / "S256" and seals exactly challenge and method; and the ID
token, access token and code are filled from the sources the emit functions use. -/
theorem c12_sites :
    KM.Gen.C12.pkceSwitchTag = "protectedData.CodeChallengeMethod".toList ∧
    KM.Gen.C12.pkceSwitch = [([[], "plain".toList], .verifierEqChallenge), (["S256".toList], .s256EqChallenge),
                             (["<default>".toList], .alwaysFalse)] ∧
    KM.Gen.C12.clientCanDoPKCE = "client.ClientSecret == \"\", nil".toList ∧
    KM.Gen.C12.validClientSecret = "clientSecret == client.ClientSecret".toList ∧
    KM.Gen.C12.tokenAuthConditions = ["!ok".toList, "len(pass) < 1 && len(codeVerifier) < 1".toList,
      "len(clientID) < 1".toList, "len(codeVerifier) > 0".toList, "!canUserCodeVerifier".toList,
      "!valid && len(pass) > 0".toList, "!valid".toList] ∧
    KM.Gen.C12.authzChallengeConditions = ["len(protectedData.CodeChallenge) > 0".toList,
      "len(protectedData.CodeChallengeMethod) > 0 && protectedData.CodeChallengeMethod != \"S256\"".toList] ∧
    KM.Gen.C12.protectedDataAssignments = [("CodeChallenge".toList, "r.Form.Get(\"code_challenge\")".toList),
      ("CodeChallengeMethod".toList, "r.Form.Get(\"code_challenge_method\")".toList)] ∧
    KM.Gen.C12.idTokenAssignments = [("Issuer".toList, "state.idpGetIssuer()".toList),
      ("Subject".toList, "keymasterToken.Username".toList), ("Audience".toList, "[]string{clientID}".toList),
      ("Nonce".toList, "keymasterToken.Nonce".toList), ("Expiration".toList, "keymasterToken.AuthExpiration".toList),
      ("IssuedAt".toList, "time.Now().Unix()".toList)] ∧
    KM.Gen.C12.accessTokenAssignments = [("Issuer".toList, "state.idpGetIssuer()".toList),
      ("Username".toList, "keymasterToken.Username".toList), ("Scope".toList, "keymasterToken.Scope".toList),
      ("Expiration".toList, "idToken.Expiration".toList), ("Type".toList, "\"bearer\"".toList),
      ("IssuedAt".toList, "time.Now().Unix()".toList),
      ("Audience".toList, "append(keymasterToken.AccessAudience, state.idpGetIssuer()+idpOpenIDCUserinfoPath)".toList)] ∧
    KM.Gen.C12.codeAssignments = [("Issuer".toList, "state.idpGetIssuer()".toList), ("Subject".toList, "clientID".toList),
      ("IssuedAt".toList, "time.Now().Unix()".toList), ("JWTId".toList, "jwtId".toList), ("Scope".toList, "scope".toList),
      ("AuthExpiration".toList, "time.Now().Unix() + maxAgeSecondsAuthCookie".toList),
      ("Expiration".toList, "time.Now().Unix() + idpOpenIDCMaxAuthProcessMaxDurationSeconds".toList),
      ("Username".toList, "authData.Username".toList), ("RedirectURI".toList, "requestRedirectURLString".toList),
      ("Type".toList, "\"token_endpoint\"".toList), ("ProtectedData".toList, "protectedCipherText".toList),
      ("ProtectedDataKey".toList, "protectedCipherTextKeys".toList), ("AccessAudience".toList, "accessAudience".toList),
      ("Nonce".toList, "r.Form.Get(\"nonce\")".toList)] ∧
    cmps_idpOpenIDCTokenHandler = [⟨.subject, .ne, .loc "clientID".toList⟩, ⟨.expiration, .lt, .nowUnix⟩,
      ⟨.redirectURI, .ne, .form "redirect_uri".toList⟩, ⟨.typ, .ne, .lit codeType⟩] ∧
    KM.Gen.maxAgeSecondsAuthCookie = 16 * 3600 ∧ KM.Gen.idpOpenIDCMaxAuthProcessMaxDurationSeconds = 300 := by
  decide

/-- **Sites (JWKS).** The JWKS handler ranges over `KeymasterPublicKeys`, leaves no entry out, publishes
the entry itself under its fingerprint — the fingerprint the token endpoint puts into `kid`. -/
theorem c12_sites_jwks :
    KM.Gen.C12.jwksRange = "state.KeymasterPublicKeys".toList ∧ KM.Gen.C12.jwksSkipConditions = [] ∧
    KM.Gen.C12.jwksKey = "key".toList ∧ KM.Gen.C12.jwksKid = "kid".toList ∧
    KM.Gen.C12.tokenKidHeader = "getKeyFingerprint(state.Signer.Public())".toList := by
  decide

/-! ### non-vacuity -/

def exDep : Deployment := { issuer := "https://km".toList, trusted := [⟨1, .rsa⟩] }
/-- toy stand-ins for SHA-256 and for the sealed data of the example code -/
def exCfg : Cfg :=
  { dep := exDep, clients := [⟨"web".toList, "s3cret".toList, false⟩, ⟨"spa".toList, [], true⟩],
    s256 := fun v => 'h' :: v,
    openSealed := fun k d _ => if k = "K".toList ∧ d = "D".toList then some ⟨'h' :: "ver".toList, "S256".toList⟩ else none }
def exCode (client : Str) (pd : Str) : Artefact :=
  { claims := emitCode exDep ⟨client, "alice".toList, "openid".toList, "n-123456".toList, "https://app/cb".toList, [], "j".toList,
                               if pd = [] then [] else "K".toList, pd⟩ 1000,
    alg := .RS256, signedBy := some 1, sigAlg := .RS256 }
def exReq (client : Str) (pd verifier : Str) (basic : Option (Str × Str)) : TokenReq :=
  { method := "POST".toList, grantType := "authorization_code".toList, redirect := "https://app/cb".toList,
    code := exCode client pd, verifier := verifier, basic := basic, formClientID := client, formSecret := [] }

/-- a confidential client with its secret, and a public client with the right verifier, get tokens -/
example : isOk (token exCfg ⟨1100, 0⟩ (exReq "web".toList [] [] (some ("web".toList, "s3cret".toList)))) = true := by decide
example : isOk (token exCfg ⟨1100, 0⟩ (exReq "spa".toList "D".toList "ver".toList none)) = true := by decide
/-- wrong verifier, verifier = challenge under S256, confidential client using a verifier, expired code: refused -/
example : isOk (token exCfg ⟨1100, 0⟩ (exReq "spa".toList "D".toList "bad".toList none)) = false := by decide
example : isOk (token exCfg ⟨1100, 0⟩ (exReq "spa".toList "D".toList ('h' :: "ver".toList) none)) = false := by decide
example : isOk (token exCfg ⟨1100, 0⟩ (exReq "web".toList "D".toList "ver".toList (some ("web".toList, "s3cret".toList)))) = false := by decide
example : isOk (token exCfg ⟨1301, 0⟩ (exReq "web".toList [] [] (some ("web".toList, "s3cret".toList)))) = false := by decide

def exForm (client audience nonce : Str) : AuthzForm :=
  { responseType := "code".toList, clientID := client, scope := "email openid".toList, redirect := "https://app/cb".toList,
    nonce := nonce, audience := audience, challenge := [], challengeMethod := [], redirectOK := true,
    audienceOriginOK := true, jti := "j".toList, sealedKey := [], sealedData := [] }
/-- an audience is accepted for the client that may choose one, refused for the other; short nonces are refused -/
example : isOk (authorize exCfg "alice".toList (exForm "spa".toList "https://api.app".toList "n-123456".toList) 1000) = true := by decide
example : isOk (authorize exCfg "alice".toList (exForm "web".toList "https://api.app".toList "n-123456".toList) 1000) = false := by decide
example : isOk (authorize exCfg "alice".toList (exForm "web".toList [] "abc".toList) 1000) = false := by decide
example : isOk (authorize exCfg "alice".toList (exForm "web".toList [] [] ) 1000) = true := by decide

end KM.Oidc

/-! ### the client-credential predicates as TRANSLATED from the current source (go2lean) -/
namespace KM.Oidc
open KM.GoTypes

/-- how a configured client reads in the model -/
def clientOfGo (c : OpenIDConnectClientConfig) : Client :=
  { id := c.ClientID, secret := c.ClientSecret, chosenAudiences := c.AllowClientChosenAudiences }

/-- the translated `ValidClientSecret` is byte equality with the configured secret — the
comparison `credsValid`/`provedClient` use -/
theorem c12_go_valid_secret (c : OpenIDConnectClientConfig) (pass : List Char) :
    KM.Gen.GoOidc.ValidClientSecret c pass = (pass == (clientOfGo c).secret) := rfl

/-- the translated `ClientCanDoPKCEAuth`: exactly the clients without a secret, never an error —
the test `tokenEndpoint` applies before it looks at a verifier -/
theorem c12_go_pkce_allowed (c : OpenIDConnectClientConfig) :
    KM.Gen.GoOidc.ClientCanDoPKCEAuth c = ((clientOfGo c).secret == [], none) := rfl

/-- the RFC 7636 §4.6 switch of `idpOpenIDCValidCodeVerifier`, as translated from the current tree (go2lean, tail
block; SHA-256 + base64url is the parameter `s256`), is the model's `methodCheck`: absent/`plain` compare the verifier
itself, `S256` its digest, any other method refuses -/
theorem c12_go_method_check (cfg : Cfg) (p : keymasterdIDPCodeProtectedData) (verifier : List Char) :
    KM.Gen.GoOidc.codeVerifierMethodCheck cfg.s256 p verifier =
      methodCheck cfg ⟨p.CodeChallenge, p.CodeChallengeMethod⟩ verifier := by
  unfold KM.Gen.GoOidc.codeVerifierMethodCheck methodCheck
  dsimp only
  by_cases h1 : p.CodeChallengeMethod = []
  · simp [h1]
  · by_cases h2 : p.CodeChallengeMethod = "plain".toList
    · simp [h2]
    · by_cases h3 : p.CodeChallengeMethod = "S256".toList
      · simp [h3]
      · simp [h1, h2, h3]

end KM.Oidc
