import KM.Props.C14Go
/-! # C16 — lock discipline of `validateUserTOTP` on the TRANSLATED source (go2lean)

The mutex operations and the writes to the shared per-user rate-limit table are effects of the translation
(`KM/Gen/GoTotp.lean`), recorded in program order; see `KM/Props/C14Go.lean`. -/
namespace KM.Totp
open KM.Go KM.GoTypes

/-- **every write to `totpLocalRateLimit` happens under `totpLocalTateLimitMutex`**, lock and unlock alternate and
the mutex is free at every return — in every execution of the function as it reads now, for every behaviour of the
profile store, of decryption and of code matching, and any number of devices -/
theorem c16_go_totp_disciplined (ext : TotpExt) (now : Int) (rate0 : totpRateLimitInfo) (user : Str) (otp t : Int) :
    Disciplined (KM.Gen.GoTotp.validateUserTOTP ext now rate0 user otp t).2 :=
  go_totp_disciplined ext now rate0 user otp t

/-- the discipline is not vacuous: a store outside the lock, or a second lock, is rejected by the predicate -/
example : ¬ Disciplined [.storeRate ⟨0, 0, 0, 0⟩] ∧ ¬ Disciplined [.lock, .lock, .unlock] ∧
    Disciplined [.lock, .storeRate ⟨0, 0, 0, 0⟩, .unlock, .eval [] [] 0 0] := by
  refine ⟨?_, ?_, ?_⟩ <;> simp [Disciplined, lockStep]

end KM.Totp
