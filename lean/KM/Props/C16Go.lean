import KM.Props.C14Go
import KM.Gen.GoChal
/-! # C16 — lock discipline of `validateUserTOTP` on the TRANSLATED source (go2lean)

The mutex operations and the writes to the shared per-user rate-limit table are effects of the translation
(`KM/Gen/GoTotp.lean`), recorded in program order; see `KM/Props/C14Go.lean`. -/
namespace KM.Totp
open KM.Go KM.GoTypes

/-- **every write to `totpLocalRateLimit` happens under `totpLocalTateLimitMutex`**, lock and unlock alternate and
the mutex is free at every return — in every execution of the function as it reads now, for every behaviour of the
profile store, of decryption and of code matching, and any number of devices -/
theorem c16_go_totp_disciplined (ext : TotpExt) (now : Int) (rate0 : totpRateLimitInfo) (user : Str) (otp t : Int) :
    Disciplined (KM.Gen.GoTotp.validateUserTOTP ext now rate0 user otp t).2 :=
  go_totp_disciplined ext now rate0 user otp t

/-- the discipline is not vacuous: a store outside the lock, or a second lock, is rejected by the predicate -/
example : ¬ Disciplined [.storeRate ⟨0, 0, 0, 0⟩] ∧ ¬ Disciplined [.lock, .lock, .unlock] ∧
    Disciplined [.lock, .storeRate ⟨0, 0, 0, 0⟩, .unlock, .eval [] [] 0 0] := by
  refine ⟨?_, ?_, ?_⟩ <;> simp [Disciplined, lockStep]

end KM.Totp

/-! ### `consumeLoginChallenge` as translated: a hardware-token challenge is spent once -/
namespace KM.Chal
open KM.Go KM.GoTypes

/-- the translated function in normal form: under one hold of `state.Mutex` the pending challenge is compared with
the one the assertion was made over and removed — or nothing happens -/
theorem c16_go_consume_atomic (stored : localUserData × Bool) (user : Str) (used : localUserData) :
    KM.Gen.GoChal.consumeLoginChallenge stored user used =
      if stored.2 = true ∧ stored.1.U2fAuthChallenge = used.U2fAuthChallenge ∧
         stored.1.WebAuthnChallenge = used.WebAuthnChallenge
      then (true, [.lock, .delete user, .unlock]) else (false, [.lock, .unlock]) := by
  obtain ⟨cur, ok⟩ := stored
  unfold KM.Gen.GoChal.consumeLoginChallenge
  dsimp only
  cases ok with
  | false => simp
  | true =>
    by_cases h1 : cur.U2fAuthChallenge = used.U2fAuthChallenge <;>
    by_cases h2 : cur.WebAuthnChallenge = used.WebAuthnChallenge <;> simp [h1, h2]

/-- what a call sees of the table and what it leaves: `state.localAuthData[user]` before and after (the function is
one critical section, so concurrent presentations are a sequence of such steps in some order) -/
def consumeStep (user : Str) (st : Option localUserData) (used : localUserData) : Bool × Option localUserData :=
  ((KM.Gen.GoChal.consumeLoginChallenge (match st with | some c => (c, true) | none => (⟨0, 0, 0⟩, false)) user used).1,
   if ChalEffect.delete user ∈
       (KM.Gen.GoChal.consumeLoginChallenge (match st with | some c => (c, true) | none => (⟨0, 0, 0⟩, false)) user used).2
   then none else st)

/-- the answers of a sequence of presentations (any assertions, in any order) against one table entry -/
def answers (user : Str) : Option localUserData → List localUserData → List Bool
  | _, [] => []
  | st, u :: rest => (consumeStep user st u).1 :: answers user (consumeStep user st u).2 rest

theorem consumeStep_true {user : Str} {st : Option localUserData} {used : localUserData}
    (h : (consumeStep user st used).1 = true) : (consumeStep user st used).2 = none := by
  unfold consumeStep at *
  rw [c16_go_consume_atomic] at *
  cases st with
  | none => simp at h
  | some c =>
    dsimp only at h ⊢
    by_cases hc : c.U2fAuthChallenge = used.U2fAuthChallenge ∧ c.WebAuthnChallenge = used.WebAuthnChallenge
    · simp [hc]
    · simp [hc] at h

theorem answers_none (user : Str) (us : List localUserData) : ∀ b ∈ answers user none us, b = false := by
  induction us with
  | nil => intro b hb; cases hb
  | cons u rest ih =>
    intro b hb
    have h1 : consumeStep user none u = (false, none) := by
      unfold consumeStep; rw [c16_go_consume_atomic]; simp
    simp only [answers, h1, List.mem_cons] at hb
    rcases hb with rfl | hb
    · rfl
    · exact ih b hb

/-- **one challenge, at most one success** — on the translated source, for ANY number of presentations of ANY
assertions in ANY order against one pending challenge: at most one of them is honoured -/
theorem c16_go_consume_at_most_once (user : Str) (st : Option localUserData) (us : List localUserData) :
    ((answers user st us).filter (· = true)).length ≤ 1 := by
  induction us generalizing st with
  | nil => simp [answers]
  | cons u rest ih =>
    simp only [answers]
    cases hb : (consumeStep user st u).1 with
    | false => simpa [List.filter] using ih _
    | true =>
      rw [consumeStep_true hb]
      have hn := answers_none user rest
      have : (answers user none rest).filter (· = true) = [] := by
        rw [List.filter_eq_nil_iff]
        intro b hbm
        simp [hn b hbm]
      have hnt : true ∉ answers user none rest := fun hm => by simpa using hn true hm
      simp [List.filter, hnt]

end KM.Chal
