/-! # C11 — property theorems (stub: not built yet) -/
