import KM.Lemmas.IPBlock
/-! # C11 — IP-restricted automation certificates work only from their netblocks

Property theorems only.  `encode`/`decode` mirror `encodeIpAddressChoice` /
`decodeIPV4AddressChoice`, `parseBits`/`marshalBits` the DER layer of a BIT STRING,
`verify`/`extract` the two readers, `mintExt` what a reader sees of a certificate made by
`GenIPRestrictedX509Cert`, `refresh` the refresh handler behind `checkAuth(AuthTypeIPCertificate)`.
Every statement holds for all addresses and all prefix lengths 0–32 (no enumeration of addresses;
the 33 mask shapes are a finite table closed by `decide` in `KM.Lemmas.IPBlock.mask_shape`). -/
namespace KM.IPBlock

/-- **Round trip**: a canonical block (host bits zero, as `net.ParseCIDR` delivers) survives
encode → `asn1.Marshal` → `asn1.Unmarshal` → decode unchanged. -/
theorem c11_roundtrip (b : Block) (h : b.ones ≤ 32) (hc : b.canonical) :
    parseBits (marshalBits (encode b)) = some (encode b) ∧ decode (encode b) = .ok b := by
  refine ⟨?_, decode_encode_canonical b h hc⟩
  rw [parse_marshal_encode b h, if_neg (canonical_not_dirty b h hc)]

/-- **Round trip, any block**: with host bits set the DER layer either refuses the value (set
padding bits — every reader then reports an error) or the decoder returns the block with its host
bits cleared; that block admits exactly the peers the original one describes.  Never wider. -/
theorem c11_roundtrip_any (b : Block) (h : b.ones ≤ 32) :
    (parseBits (marshalBits (encode b)) = none ∨
      (parseBits (marshalBits (encode b)) = some (encode b) ∧ decode (encode b) = .ok b.canon)) ∧
    ∀ p, contains b.canon p = contains b p := by
  refine ⟨?_, fun p => contains_canon b p⟩
  rw [parse_marshal_encode b h]
  by_cases hd : dirty b
  · left; simp [hd]
  · right; exact ⟨by simp [hd], decode_encode_of_clean b h hd⟩

/-- **Membership**: a certificate minted for canonical netblocks `bs` authenticates a peer iff the
peer has an IPv4 (or IPv4-mapped) address `a` with `a & mask(len) = addr` for one of the blocks;
the reader never errs on such a certificate unless the peer string has no port. -/
theorem c11_member (bs : List Block) (hb : ∀ b ∈ bs, b.ones ≤ 32 ∧ b.canonical) (p : Peer) :
    ∃ e, mintExt (bs.map Net.v4) = some e ∧
      (verify e p = .ok true ↔
        p ≠ .noPort ∧ ∃ b ∈ bs, ∃ a, p.ip4 = some a ∧ a.and (mask b.ones) = b.ip) ∧
      (p ≠ .noPort → verify e p = .ok true ∨ verify e p = .ok false) ∧
      (p = .noPort → verify e p = .err) := by
  refine ⟨_, mintExt_canonical bs hb, ?_, ?_, ?_⟩
  · cases p with
    | noPort => simp [verify, verifyWith]
    | _ =>
      simp only [verify, verifyWith, verifyFamsWith, ne_eq, not_true_eq_false, if_false,
        verifyAddrs_mint bs hb, reduceCtorEq, not_false_eq_true, true_and]
      cases hany : bs.any (contains · _) with
      | false =>
        constructor
        · intro h; injection h with h; cases h
        · rintro ⟨b, hbm, a, ha, hm⟩
          have := List.any_eq_false.mp hany b hbm
          exact absurd ((contains_canonical (hb b hbm).2 _).mpr ⟨a, ha, hm⟩) this
      | true =>
        refine ⟨fun _ => ?_, fun _ => rfl⟩
        obtain ⟨b, hbm, hc⟩ := List.any_eq_true.mp hany
        obtain ⟨a, ha, hm⟩ := (contains_canonical (hb b hbm).2 _).mp hc
        exact ⟨b, hbm, a, ha, hm⟩
  · intro hp
    cases p with
    | noPort => exact absurd rfl hp
    | _ =>
      simp only [verify, verifyWith, verifyFamsWith, ne_eq, not_true_eq_false, if_false,
        verifyAddrs_mint bs hb]
      cases bs.any (contains · _) <;> simp
  · intro hp; subst hp; simp [verify, verifyWith]

/-- the 32-bit reading of the membership test: `a & (0xFFFFFFFF << (32-len)) = addr` -/
theorem c11_member_bv (b : Block) (h : b.ones ≤ 32) (a : IP4) :
    a.and (mask b.ones) = b.ip ↔
      toBV a &&& (BitVec.allOnes (8 + 8 + 8 + 8) <<< (32 - b.ones)) = toBV b.ip := by
  rw [← mask_bv ⟨b.ones, by omega⟩, ← and_bv]
  exact ⟨fun h => by rw [h], toBV_inj⟩

/-- **Read back**: the netblocks extracted from a minted certificate are the ones it was minted
with (same order) — what the refresh handler copies into the new certificate. -/
theorem c11_extract (bs : List Block) (hb : ∀ b ∈ bs, b.ones ≤ 32 ∧ b.canonical) :
    ∃ e, mintExt (bs.map Net.v4) = some e ∧ extract e = .ok bs ∧ e.restricted = true := by
  refine ⟨_, mintExt_canonical bs hb, ?_, rfl⟩
  simp [extract, extractWith, extractFamsWith, extractAddrs_mint bs hb]

/-- anything that is not an IPv4 netblock is refused at minting time -/
theorem c11_mint_other (ns : List Net) (h : Net.other ∈ ns) : mintExt ns = none := by
  have : encodeNets ns = none := by
    induction ns with
    | nil => cases h
    | cons n ns ih =>
      cases n with
      | other => simp [encodeNets]
      | v4 b =>
        have h' : Net.other ∈ ns := by
          cases h with
          | tail _ h' => exact h'
        simp [encodeNets, ih h']
  simp [mintExt, mintFams, this]

/-- **Malformed extensions**, for every extension value a trusted certificate could carry and every
peer: (1) neither reader panics; (2) an oversized or short bit string is an error of the decoder;
(3) `true` is only ever answered on the strength of a well-formed IPv4 block that contains the
peer — nothing malformed widens access; (4) one undecodable block or one foreign family makes
extraction (hence refresh) fail; (5) a value `asn1.Unmarshal` rejects is an error. -/
theorem c11_malformed :
    (∀ e p, verify e p ≠ .panic ∧ extract e ≠ .panic) ∧
    (∀ s : BitStr, 32 < s.bitLen ∨ s.bytes.length < (s.bitLen + 7) / 8 → decode s = .err) ∧
    (∀ e p, verify e p = .ok true →
      ∃ fs, e = .parsed fs ∧ ∃ f ∈ fs, f.afi = v4afi ∧ ∃ s ∈ f.addrs, ∃ b, decode s = .ok b ∧
        contains b p = true ∧ s.bitLen ≤ 32 ∧ (s.bitLen + 7) / 8 ≤ s.bytes.length ∧ b.ones = s.bitLen) ∧
    (∀ fs bs, extract (.parsed fs) = .ok bs →
      ∀ f ∈ fs, f.afi = v4afi ∧ ∀ s ∈ f.addrs, ∃ b, decode s = .ok b) ∧
    (∀ p, verify .unparsable p = .err ∧ extract .unparsable = .err ∧
      verify .absent p ≠ .ok true ∧ extract .absent = .err) := by
  refine ⟨fun e p => ⟨verify_ne_panic decode_ne_panic e p, extract_ne_panic decode_ne_panic e⟩,
    fun s h => by simp [decode, guard_true h], ?_, ?_, ?_⟩
  · intro e p h
    cases e with
    | absent => cases p <;> simp [verify, verifyWith] at h
    | unparsable => cases p <;> simp [verify, verifyWith] at h
    | parsed fs =>
      refine ⟨fs, rfl, ?_⟩
      have h' : verifyFamsWith decode fs p = .ok true := by
        cases p <;> simp [verify, verifyWith] at h <;> exact h
      obtain ⟨f, hf, hafi, s, hs, b, hb, hc⟩ := verifyFams_true h'
      have := decode_ok_bounds hb
      exact ⟨f, hf, hafi, s, hs, b, hb, hc, this.1, this.2.1, this.2.2⟩
  · intro fs bs h
    exact extractFams_ok (by simpa [extract, extractWith] using h)
  · intro p
    refine ⟨by cases p <;> simp [verify, verifyWith], by simp [extract, extractWith],
      by cases p <;> simp [verify, verifyWith], by simp [extract, extractWith]⟩

/-- wire level: a BIT STRING with more than 7 padding bits, with padding but no data, or with a set
padding bit is refused by the DER layer, so the whole extension is unparsable -/
theorem c11_malformed_wire (w : WireBits)
    (h : 7 < w.pad ∨ (w.bytes = [] ∧ w.pad ≠ 0) ∨
      (w.bytes ≠ [] ∧ (w.bytes.getLast?.getD 0) &&& lowBitsMask w.pad ≠ 0)) :
    parseBits w = none ∧
    ∀ afi pre post fpre fpost, Ext.ofWire (fpre ++ ⟨afi, pre ++ w :: post⟩ :: fpost) = .unparsable := by
  have hp : parseBits w = none := by
    unfold parseBits
    rcases h with h | ⟨h1, h2⟩ | ⟨h1, h2⟩
    · simp [h]
    · simp [h1, h2]
    · by_cases h7 : 7 < w.pad
      · simp [h7]
      · simp [h7, h1, h2]
  refine ⟨hp, ?_⟩
  intro afi pre post fpre fpost
  have ha : parseAddrs (pre ++ w :: post) = none := by
    induction pre with
    | nil => simp [parseAddrs, hp]
    | cons x xs ih =>
      simp only [List.cons_append, parseAddrs, ih]
      cases parseBits x <;> rfl
  have hf : parseFams (fpre ++ ⟨afi, pre ++ w :: post⟩ :: fpost) = none := by
    induction fpre with
    | nil => simp [parseFams, ha]
    | cons x xs ih =>
      simp only [List.cons_append, parseFams, ih]
      cases parseAddrs x.addrs <;> rfl
  simp [Ext.ofWire, hf]

/-- **Refresh**: whatever extension the presented (trusted) certificate carries, a refresh is
answered with a new certificate only if the peer lies inside one of the well-formed IPv4 blocks of
that certificate, the key is not deny-listed, the name is an automation user; the new certificate
names the same identity and exactly the netblocks read from the old one.  The handler never
crashes. -/
theorem c11_refresh (cn : List Char) (e : Ext) (p : Peer) (env : Env) :
    refresh cn e p env ≠ .crashed ∧
    ∀ u nets, refresh cn e p env = .issued u nets →
      u = cn ∧ extract e = .ok nets ∧ verify e p = .ok true ∧
      env.denied = false ∧ env.automation = true ∧ env.revoked = false ∧
      ∃ b ∈ nets, contains b p = true := by
  have hv := verify_ne_panic decode_ne_panic e p
  have hx := extract_ne_panic decode_ne_panic e
  unfold verify at *
  unfold extract at *
  constructor
  · unfold refresh refreshWith ipAuthWith
    cases h1 : verifyWith decode e p with
    | panic => exact absurd h1 hv
    | err => simp
    | ok t =>
      cases t <;> simp
      cases env.denied <;> cases env.automation <;> cases env.revoked <;> simp
      split
      · simp
      · cases h2 : extractWith decode e with
        | panic => exact absurd h2 hx
        | err => simp
        | ok n => simp
  · intro u nets h
    unfold refresh refreshWith ipAuthWith at h
    cases h1 : verifyWith decode e p with
    | panic => exact absurd h1 hv
    | err => simp [h1] at h
    | ok t =>
      cases t with
      | false => simp [h1] at h
      | true =>
        cases hd : env.denied <;> cases ha : env.automation <;> cases hr : env.revoked <;>
          simp [h1, hd, ha, hr] at h
        by_cases hcn : cn = []
        · simp [hcn] at h
        · simp only [hcn, if_false] at h
          cases h2 : extractWith decode e with
          | panic => exact absurd h2 hx
          | err => simp [h2] at h
          | ok n =>
            simp only [h2, Refresh.issued.injEq] at h
            obtain ⟨hu, hn⟩ := h
            subst hu hn
            refine ⟨rfl, rfl, rfl, rfl, rfl, rfl, ?_⟩
            -- the block that admitted the peer is among the extracted ones
            cases e with
            | absent => simp [extractWith] at h2
            | unparsable => simp [extractWith] at h2
            | parsed fs =>
              have h1' : verifyFamsWith decode fs p = .ok true := by
                cases p <;> simp [verifyWith] at h1 <;> exact h1
              obtain ⟨f, hf, _, s, hs, b, hb, hc⟩ := verifyFams_true h1'
              exact ⟨b, extractFams_mem (by simpa [extractWith] using h2) hf hs hb, hc⟩

/-- **A certificate that carries the extension is only ever an IP credential**: for every chain
length, every extension value that is present (well-formed, malformed, empty, foreign families only,
unparsable) and every peer, `checkAuth(…, AuthTypeAny)` names a user only if a well-formed IPv4
block of that extension contains the TCP peer and the certificate is in good standing.  A malformed
extension never turns the certificate into an ordinary keymaster identity. -/
theorem c11_restricted_never_plain (chainLen : Nat) (cn : List Char) (e : Ext) (p : Peer) (env : Env)
    (he : e ≠ .absent) (u : List Char) (h : authAny chainLen cn e p env = .user u) :
    u = cn ∧ verify e p = .ok true ∧
    env.denied = false ∧ env.automation = true ∧ env.revoked = false ∧
    ∃ fs, e = .parsed fs ∧ ∃ f ∈ fs, f.afi = v4afi ∧ ∃ s ∈ f.addrs, ∃ b, decode s = .ok b ∧
      contains b p = true := by
  have hr : e.restricted = true := by cases e <;> simp_all [Ext.restricted]
  unfold authAny authAnyWith at h
  simp only [hr, Bool.true_eq_false, false_and, and_false, if_false] at h
  unfold ipAuthWith at h
  cases h1 : verifyWith decode e p with
  | panic => simp [h1] at h
  | err => simp [h1] at h
  | ok t =>
    cases t with
    | false => simp [h1] at h
    | true =>
      cases hd : env.denied <;> cases ha : env.automation <;> cases hrv : env.revoked <;>
        simp [h1, hd, ha, hrv] at h
      have hv : verify e p = .ok true := h1
      obtain ⟨fs, hfs, f, hf, hafi, s, hs, b, hb, hc, _⟩ := c11_malformed.2.2.1 e p hv
      exact ⟨h.symm, hv, rfl, rfl, rfl, fs, hfs, f, hf, hafi, s, hs, b, hb, hc⟩

/-- **Refresh of a minted certificate**: for a certificate minted for canonical netblocks `bs`
under the name `cn`, presented by a peer in good standing, refresh succeeds iff the peer is inside
one of `bs`, and then yields `(cn, bs)` again; from anywhere else it is 403 (or 500 for a peer
string without port). -/
theorem c11_refresh_minted (cn : List Char) (hcn : cn ≠ []) (bs : List Block)
    (hb : ∀ b ∈ bs, b.ones ≤ 32 ∧ b.canonical) (p : Peer) (env : Env)
    (henv : env.denied = false ∧ env.automation = true ∧ env.revoked = false) :
    ∃ e, mintExt (bs.map Net.v4) = some e ∧
      ((∃ b ∈ bs, ∃ a, p.ip4 = some a ∧ a.and (mask b.ones) = b.ip) →
        p ≠ .noPort → refresh cn e p env = .issued cn bs) ∧
      ((¬ ∃ b ∈ bs, ∃ a, p.ip4 = some a ∧ a.and (mask b.ones) = b.ip) →
        p ≠ .noPort → refresh cn e p env = .status 403) ∧
      (p = .noPort → refresh cn e p env = .status 500) := by
  obtain ⟨e, he, hmem, hok, herr⟩ := c11_member bs hb p
  obtain ⟨e', he', hex, _⟩ := c11_extract bs hb
  rw [he] at he'
  injection he' with he'
  subst he'
  obtain ⟨h1, h2, h3⟩ := henv
  refine ⟨e, he, ?_, ?_, ?_⟩
  · intro hin hp
    have hv := hmem.mpr ⟨hp, hin⟩
    unfold verify at hv
    unfold extract at hex
    simp [refresh, refreshWith, ipAuthWith, hv, h1, h2, h3, hcn, hex]
  · intro hout hp
    have hv : verify e p = .ok false := by
      rcases hok hp with h | h
      · exact absurd (hmem.mp h).2 hout
      · exact h
    unfold verify at hv
    simp [refresh, refreshWith, ipAuthWith, hv]
  · intro hp
    have hv := herr hp
    unfold verify at hv
    simp [refresh, refreshWith, ipAuthWith, hv]

/-- the decoder of the pinned tree (no test before the loop) **panics** on an address extension a
trusted certificate can carry: 40 bits (`index out of range [4] with length 4`), and — by a direct
call only, the DER layer never produces it — 8 bits without bytes; the reader, and with it the
handler goroutine behind `checkAuth`, goes down with it. -/
theorem c11_unfixed_counterexample :
    decodeOld ⟨40, [10, 0, 0, 0, 0]⟩ = .panic ∧
    decodeOld ⟨8, []⟩ = .panic ∧
    parseBits ⟨0, [10, 0, 0, 0, 0]⟩ = some ⟨40, [10, 0, 0, 0, 0]⟩ ∧
    verifyOld (.parsed [⟨v4afi, [⟨40, [10, 0, 0, 0, 0]⟩]⟩]) (.v4 ⟨10, 0, 0, 1⟩) = .panic ∧
    extractOld (.parsed [⟨v4afi, [⟨40, [10, 0, 0, 0, 0]⟩]⟩]) = .panic ∧
    refreshWith decodeOld "role1".toList (.parsed [⟨v4afi, [⟨40, [10, 0, 0, 0, 0]⟩]⟩])
      (.v4 ⟨192, 168, 1, 1⟩) ⟨false, true, false⟩ = .crashed := by
  decide

/-- **Source facts** (regenerated from the working tree on every run): the decoder tests
`BitLength > 32` and `len(Bytes) < (BitLength+7)/8` before a copy loop of the recognised shape into
a 4-byte array; the family constant is `{0,1,1}` and the OID 1.3.6.1.5.5.7.1.7; the verifier skips
and the extractor refuses foreign families; the IP branch of `checkAuth` verifies the presented
leaf against `r.RemoteAddr` and names its CN; the refresh handler demands `AuthTypeIPCertificate`,
takes the identity from the credential and the netblocks from the presented leaf. -/
theorem c11_source :
    KM.Gen.C11.decodeGuardMaxBits = some 32 ∧ KM.Gen.C11.decodeGuardBytes = true ∧
    KM.Gen.C11.decodeLoopRecognised = true ∧ KM.Gen.C11.decodeArrayLen = 4 ∧
    KM.Gen.C11.ipV4FamilyEncoding = [0, 1, 1] ∧
    KM.Gen.C11.oidIPAddressDelegation = [1, 3, 6, 1, 5, 5, 7, 1, 7] ∧
    KM.Gen.C11.verifyWrongFamily = "skip".toList ∧ KM.Gen.C11.extractWrongFamily = "error".toList ∧
    KM.Gen.C11.ipBranchVerifyCert = "VerifiedChains[0][0]".toList ∧
    KM.Gen.C11.ipBranchVerifyAddr = "r.RemoteAddr".toList ∧
    KM.Gen.C11.ipBranchNameSource = "VerifiedChains[0][0].Subject.CommonName".toList ∧
    KM.Gen.C11.refreshAuthMask = "AuthTypeIPCertificate".toList ∧
    KM.Gen.C11.refreshRoleSource = "authData.Username".toList ∧
    KM.Gen.C11.refreshNetblocksSource =
      "certgen.ExtractIPNetsFromIPRestrictedX509(r.TLS.VerifiedChains[0][0])".toList := by
  decide

/-! non-vacuity: the hypotheses are satisfiable and the model computes what one expects -/
example : (⟨⟨10, 32, 0, 0⟩, 12⟩ : Block).canonical := by decide
example : ¬ (⟨⟨10, 33, 0, 0⟩, 12⟩ : Block).canonical := by decide
example : mintExt [.v4 ⟨⟨10, 32, 0, 0⟩, 12⟩, .v4 ⟨⟨192, 168, 7, 128⟩, 25⟩] =
    some (.parsed [⟨v4afi, [⟨12, [10, 32]⟩, ⟨25, [192, 168, 7, 128]⟩]⟩]) := by decide
example : verify (.parsed [⟨v4afi, [⟨12, [10, 32]⟩, ⟨25, [192, 168, 7, 128]⟩]⟩]) (.v4 ⟨10, 47, 255, 255⟩)
    = .ok true := by decide
example : verify (.parsed [⟨v4afi, [⟨12, [10, 32]⟩, ⟨25, [192, 168, 7, 128]⟩]⟩]) (.v4mapped ⟨10, 48, 0, 0⟩)
    = .ok false := by decide
example : verify (.parsed [⟨v4afi, [⟨40, [10, 0, 0, 0, 0]⟩]⟩]) (.v4 ⟨10, 0, 0, 1⟩) = .err := by decide
example : mintExt [.v4 ⟨⟨10, 33, 0, 0⟩, 12⟩] = some .unparsable := by decide
example : refresh "role1".toList (.parsed [⟨v4afi, [⟨8, [10]⟩]⟩]) (.v4 ⟨10, 1, 2, 3⟩) ⟨false, true, false⟩
    = .issued "role1".toList [⟨⟨10, 0, 0, 0⟩, 8⟩] := by decide

end KM.IPBlock
