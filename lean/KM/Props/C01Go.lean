import KM.Model.CertGen
import KM.Model.GoLite
import KM.Gen.GoCertGen
import KM.Model.GoTypes
import KM.Props.C06Go
/-! # C01 — the level test of `certGenHandler` as TRANSLATED from the current source (go2lean)

The statements of `certGenHandler` between the credential check and the refusal — `sufficientAuthLevel := false`,
the loop over the operator's list, the trailing U2F test — are translated on every run from /repo's working tree
(`KM/Gen/GoCertGen.lean`, block mode of the translator).  `c01_go_sufficient` says that this code computes exactly
the rule of the property's statement (`specSufficientB`: password listed, or the U2F bit, or a listed second factor
whose bit the session carries), for every operator list of arbitrary strings and every level bit set. -/
namespace KM.CertGen
open KM.Go KM.Gen

theorem ite_true_or (c s : Bool) : (if c = true then true else s) = (s || c) := by
  cases c <;> cases s <;> rfl

theorem foldl_or {α : Type} (g : α → Bool) (l : List α) (s : Bool) :
    l.foldl (fun s x => s || g x) s = (s || l.any g) := by
  induction l generalizing s with
  | nil => simp
  | cons x rest ih => simp [List.foldl, ih, Bool.or_assoc]

theorem any_or {α : Type} (a b : α → Bool) (l : List α) :
    l.any (fun x => a x || b x) = (l.any a || l.any b) := by
  induction l with
  | nil => rfl
  | cons x rest ih =>
    simp only [List.any_cons, ih]
    cases a x <;> cases b x <;> cases rest.any a <;> cases rest.any b <;> rfl

/-- what one round of the translated loop adds for the entry `p` -/
def goClause (lvl : Nat) (p : List Char) : Bool :=
  p == "password".toList ||
  (p == "U2F".toList && (lvl &&& 8 == 8)) || (p == "TOTP".toList && (lvl &&& 64 == 64)) ||
  (p == "SymantecVIP".toList && (lvl &&& 16 == 16)) || (p == "IPCertificate".toList && (lvl &&& 32 == 32)) ||
  (p == "Okta2FA".toList && (lvl &&& 128 == 128)) || (p == "WebauthForCLI".toList && (lvl &&& 1024 == 1024))

theorem goClause_spec (lvl : Nat) (p : List Char) :
    goClause lvl p = (p == protoAuthTypePassword.toList ||
      match factorBit p with
      | some b => hasAll lvl b
      | Option.none => false) := by
  unfold goClause factorBit hasAll protoAuthTypePassword protoAuthTypeU2F protoAuthTypeTOTP protoAuthTypeSymantecVIP
    protoAuthTypeIPCertificate protoAuthTypeOkta2FA protoAuthTypeWebauthForCLI authTypeU2F authTypeTOTP
    authTypeSymantecVIP authTypeIPCertificate authTypeOkta2FA authTypeWebauthForCLI
  by_cases h1 : p = "U2F".toList
  · subst h1; simp
  by_cases h2 : p = "TOTP".toList
  · subst h2; simp
  by_cases h3 : p = "SymantecVIP".toList
  · subst h3; simp
  by_cases h4 : p = "IPCertificate".toList
  · subst h4; simp
  by_cases h5 : p = "Okta2FA".toList
  · subst h5; simp
  by_cases h6 : p = "WebauthForCLI".toList
  · subst h6; simp
  have b1 := beq_eq_false_iff_ne.mpr h1
  have b2 := beq_eq_false_iff_ne.mpr h2
  have b3 := beq_eq_false_iff_ne.mpr h3
  have b4 := beq_eq_false_iff_ne.mpr h4
  have b5 := beq_eq_false_iff_ne.mpr h5
  have b6 := beq_eq_false_iff_ne.mpr h6
  simp only [b1, b2, b3, b4, b5, b6, Bool.false_and, Bool.or_false, Bool.false_eq_true, if_false]

/-- one round of the loop adds `goClause`, and the trailing U2F test: together the statement's rule -/
theorem anyClause_spec (allowed : List (List Char)) (lvl : Nat) :
    (allowed.any (goClause lvl) || (lvl &&& 8 == 8)) = specSufficientB allowed lvl := by
  have e : allowed.any (goClause lvl) =
      (allowed.contains protoAuthTypePassword.toList || allowed.any (fun f => match factorBit f with
        | some b => hasAll lvl b
        | Option.none => false)) := by
    have : goClause lvl = fun p => (p == protoAuthTypePassword.toList) || (match factorBit p with
        | some b => hasAll lvl b
        | Option.none => false) := by funext p; exact goClause_spec lvl p
    rw [this, any_or]
    congr 1
    induction allowed with
    | nil => rfl
    | cons a as ih => rw [List.any_cons, List.contains_cons, ih, Bool.beq_comm]
  unfold specSufficientB
  rw [e]
  have hu : (lvl &&& 8 == 8) = hasAll lvl authTypeU2F := rfl
  rw [hu]
  cases allowed.contains protoAuthTypePassword.toList <;> cases hasAll lvl authTypeU2F <;>
    cases allowed.any (fun f => match factorBit f with | some b => hasAll lvl b | Option.none => false) <;> rfl

/-- **the translated level test is the statement's rule** -/
theorem c01_go_sufficient (allowed : List (List Char)) (lvl : Nat) :
    KM.Gen.GoCertGen.certgenSufficientAuthLevel allowed lvl = specSufficientB allowed lvl := by
  unfold KM.Gen.GoCertGen.certgenSufficientAuthLevel
  dsimp -proj -iota only
  rw [forRange_fold (fun s p => s || goClause lvl p) _ (by
    intro x s
    simp only [ite_true_or, goClause, Bool.or_assoc])]
  rw [foldl_or]
  simp only [ite_true_or, Bool.false_or]
  exact anyClause_spec allowed lvl

/-- **password-only refused, on the translated source**: with no `password` entry in the operator's list a
session that proved nothing but the password (level = the password bit) fails the translated test -/
theorem c01_go_password_only_refused (allowed : List (List Char))
    (h : allowed.contains protoAuthTypePassword.toList = false) :
    KM.Gen.GoCertGen.certgenSufficientAuthLevel allowed authTypePassword = false := by
  rw [c01_go_sufficient]
  unfold specSufficientB
  rw [h]
  have h0 : hasAll authTypePassword authTypeU2F = false := by decide
  rw [h0]
  simp only [Bool.false_or]
  rw [List.any_eq_false]
  have hb : ∀ f b, factorBit f = some b → hasAll authTypePassword b = false := by
    intro f b hf
    unfold factorBit at hf
    repeat' split at hf
    all_goals first | (cases hf; decide) | cases hf
  intro f _
  cases hfb : factorBit f with
  | none => simp
  | some b => simp [hb f b hfb]

/-- non-vacuity: the translated test on concrete configurations -/
example : KM.Gen.GoCertGen.certgenSufficientAuthLevel ["TOTP".toList] (2 ||| 64) = true ∧
    KM.Gen.GoCertGen.certgenSufficientAuthLevel ["TOTP".toList] 2 = false ∧
    KM.Gen.GoCertGen.certgenSufficientAuthLevel [] (2 ||| 8) = true ∧
    KM.Gen.GoCertGen.certgenSufficientAuthLevel ["password".toList] 2 = true := by decide

/-! ### the gates of `certGenHandler`, in program order (block of the handler up to the method test) -/

open KM.GoTypes in
/-- **the gates of the certificate endpoint, on the translated source**: a sealed server answers 500; then the
credential check decides (a refusal is written by `checkAuth` itself); then the level test of the statement — 401;
then the URL user must be the authenticated user — 403; then the method must be POST — 405; only a request that passed
all of them reaches the code that parses the form and signs.  For every behaviour of `checkAuth`, every operator list,
level, URL user and method. -/
theorem c01_go_gates (ext : CertgenExt) (sealed : Bool) (allowed : List (List Char)) (urlUser method : List Char) :
    (KM.Gen.GoCertGen.certgenGates ext sealed allowed urlUser method).2 =
      if sealed = true then [HttpEffect.fail 500]
      else match ext.checkAuth 65535 with
        | (_, some _) => []
        | (info, none) =>
          if specSufficientB allowed info.AuthType = false then [HttpEffect.fail 401]
          else if info.Username ≠ urlUser then [HttpEffect.fail 403]
          else if method ≠ "POST".toList then [HttpEffect.fail 405]
          else [HttpEffect.reached] := by
  obtain ⟨checkAuth⟩ := ext
  unfold KM.Gen.GoCertGen.certgenGates
  dsimp -iota only
  cases sealed with
  | true => rfl
  | false =>
    rcases hca : checkAuth 65535 with ⟨info, _ | e⟩
    · dsimp only
      rw [forRange_fold (fun s p => s || goClause info.AuthType p) _ (by
        intro x s
        simp only [ite_true_or, goClause, Bool.or_assoc])]
      rw [foldl_or]
      simp only [ite_true_or, Bool.false_or, anyClause_spec]
      cases specSufficientB allowed info.AuthType with
      | false => simp
      | true =>
        have hP : "POST".toList = ['P', 'O', 'S', 'T'] := by decide
        rw [hP]
        by_cases hu : info.Username = urlUser
        · by_cases hm : method = ['P', 'O', 'S', 'T']
          · simp [hu, hm]
          · simp [hu, hm]
        · simp [hu]
    · simp

open KM.GoTypes in
/-- the code that signs is reached only by an unsealed server, an admitted credential whose level meets the
statement's rule, for the authenticated user, with POST -/
theorem c01_go_reached (ext : CertgenExt) (sealed : Bool) (allowed : List (List Char)) (urlUser method : List Char)
    (h : HttpEffect.reached ∈ (KM.Gen.GoCertGen.certgenGates ext sealed allowed urlUser method).2) :
    sealed = false ∧ (ext.checkAuth 65535).2 = none ∧
    specSufficientB allowed (ext.checkAuth 65535).1.AuthType = true ∧
    (ext.checkAuth 65535).1.Username = urlUser ∧ method = "POST".toList := by
  rw [c01_go_gates] at h
  have hP : "POST".toList = ['P', 'O', 'S', 'T'] := by decide
  rw [hP] at h ⊢
  cases sealed with
  | true => simp at h
  | false =>
    rcases hca : ext.checkAuth 65535 with ⟨info, _ | e⟩
    · rw [hca] at h
      dsimp only at h
      cases hs : specSufficientB allowed info.AuthType with
      | false => simp [hs] at h
      | true =>
        by_cases hu : info.Username = urlUser
        · by_cases hm : method = ['P', 'O', 'S', 'T']
          · exact ⟨rfl, rfl, rfl, hu, hm⟩
          · simp [hs, hu, hm] at h
        · simp [hs, hu] at h
    · rw [hca] at h; simp at h

end KM.CertGen

/-! ### the two translations composed: the gates of `certGenHandler` over the translated `checkAuth` -/
namespace KM.CertGenGo
open KM.GoTypes KM.Go KM.CheckAuthGo

/-- `checkAuth` as `certGenHandler` uses it: the translated function of `KM/Gen/GoCheckAuth.lean`, its pointer result
read as the handler reads it -/
def checkAuthAsExt (cx : CheckAuthExt) (method host : List Char) (hasTLS hasChains : Bool) (cookies : List Cookie) :
    CertgenExt :=
  ⟨fun req =>
    let r := (KM.Gen.GoCheckAuth.checkAuth cx method host hasTLS hasChains cookies req).1
    (r.1.getD ⟨[], 0, 0, 0⟩, r.2)⟩

/-- **certificates are issued only after the operator-required authentication** (C01), end to end on the translated
source — the gates of `certGenHandler` over the translated `checkAuth`, every backend and library call arbitrary: the
form-parsing and signing code is reached only on an unsealed server, for a POST, when `checkAuth` handed out an
identity (so: a verified client certificate, a confirmed password with no cookie present, or a verified unexpired
cookie — `Admitted`), whose level satisfies the operator's list for certificates (or carries U2F), and whose user name
is the one in the URL. -/
theorem c01_go_end_to_end (cx : CheckAuthExt) (method host : List Char) (hasTLS hasChains : Bool)
    (cookies : List Cookie) (sealed : Bool) (allowed : List (List Char)) (urlUser : List Char)
    (h : HttpEffect.reached ∈ (KM.Gen.GoCertGen.certgenGates
      (checkAuthAsExt cx method host hasTLS hasChains cookies) sealed allowed urlUser method).2) :
    sealed = false ∧ method = "POST".toList ∧
    ∃ info, (KM.Gen.GoCheckAuth.checkAuth cx method host hasTLS hasChains cookies 65535).1 = (some info, none) ∧
      Admitted cx hasTLS hasChains cookies 65535 info ∧
      KM.CertGen.specSufficientB allowed info.AuthType = true ∧ info.Username = urlUser := by
  rw [KM.CertGen.c01_go_gates] at h
  cases sealed
  · simp only [Bool.false_eq_true, if_false] at h
    unfold checkAuthAsExt at h
    dsimp only at h
    rcases hr : (KM.Gen.GoCheckAuth.checkAuth cx method host hasTLS hasChains cookies 65535).1 with ⟨oi, e⟩
    rw [hr] at h
    cases e with
    | some e => simp at h
    | none =>
      cases oi with
      | none =>
        have := c06_go_check_auth_refuses cx method host hasTLS hasChains cookies 65535 (by rw [hr])
        rw [hr] at this; cases this
      | some info =>
        simp only [Option.getD_some] at h
        have hadm := (c06_go_check_auth_admits cx method host hasTLS hasChains cookies 65535 info none hr).2
        by_cases h1 : KM.CertGen.specSufficientB allowed info.AuthType = false
        · rw [if_pos h1] at h; simp at h
        · rw [if_neg h1] at h
          by_cases h2 : info.Username ≠ urlUser
          · rw [if_pos h2] at h; simp at h
          · rw [if_neg h2] at h
            by_cases h3 : method ≠ "POST".toList
            · rw [if_pos h3] at h; simp at h
            · refine ⟨rfl, Classical.not_not.mp h3, info, rfl, hadm, by simpa using h1, Classical.not_not.mp h2⟩
  · simp at h

end KM.CertGenGo
