import KM.Model.CertGen
import KM.Model.GoLite
import KM.Gen.GoCertGen
/-! # C01 — the level test of `certGenHandler` as TRANSLATED from the current source (go2lean)

The statements of `certGenHandler` between the credential check and the refusal — `sufficientAuthLevel := false`,
the loop over the operator's list, the trailing U2F test — are translated on every run from /repo's working tree
(`KM/Gen/GoCertGen.lean`, block mode of the translator).  `c01_go_sufficient` says that this code computes exactly
the rule of the property's statement (`specSufficientB`: password listed, or the U2F bit, or a listed second factor
whose bit the session carries), for every operator list of arbitrary strings and every level bit set. -/
namespace KM.CertGen
open KM.Go KM.Gen

theorem ite_true_or (c s : Bool) : (if c = true then true else s) = (s || c) := by
  cases c <;> cases s <;> rfl

theorem foldl_or {α : Type} (g : α → Bool) (l : List α) (s : Bool) :
    l.foldl (fun s x => s || g x) s = (s || l.any g) := by
  induction l generalizing s with
  | nil => simp
  | cons x rest ih => simp [List.foldl, ih, Bool.or_assoc]

theorem any_or {α : Type} (a b : α → Bool) (l : List α) :
    l.any (fun x => a x || b x) = (l.any a || l.any b) := by
  induction l with
  | nil => rfl
  | cons x rest ih =>
    simp only [List.any_cons, ih]
    cases a x <;> cases b x <;> cases rest.any a <;> cases rest.any b <;> rfl

/-- what one round of the translated loop adds for the entry `p` -/
def goClause (lvl : Nat) (p : List Char) : Bool :=
  p == "password".toList ||
  (p == "U2F".toList && (lvl &&& 8 == 8)) || (p == "TOTP".toList && (lvl &&& 64 == 64)) ||
  (p == "SymantecVIP".toList && (lvl &&& 16 == 16)) || (p == "IPCertificate".toList && (lvl &&& 32 == 32)) ||
  (p == "Okta2FA".toList && (lvl &&& 128 == 128)) || (p == "WebauthForCLI".toList && (lvl &&& 1024 == 1024))

theorem goClause_spec (lvl : Nat) (p : List Char) :
    goClause lvl p = (p == protoAuthTypePassword.toList ||
      match factorBit p with
      | some b => hasAll lvl b
      | Option.none => false) := by
  unfold goClause factorBit hasAll protoAuthTypePassword protoAuthTypeU2F protoAuthTypeTOTP protoAuthTypeSymantecVIP
    protoAuthTypeIPCertificate protoAuthTypeOkta2FA protoAuthTypeWebauthForCLI authTypeU2F authTypeTOTP
    authTypeSymantecVIP authTypeIPCertificate authTypeOkta2FA authTypeWebauthForCLI
  by_cases h1 : p = "U2F".toList
  · subst h1; simp
  by_cases h2 : p = "TOTP".toList
  · subst h2; simp
  by_cases h3 : p = "SymantecVIP".toList
  · subst h3; simp
  by_cases h4 : p = "IPCertificate".toList
  · subst h4; simp
  by_cases h5 : p = "Okta2FA".toList
  · subst h5; simp
  by_cases h6 : p = "WebauthForCLI".toList
  · subst h6; simp
  have b1 := beq_eq_false_iff_ne.mpr h1
  have b2 := beq_eq_false_iff_ne.mpr h2
  have b3 := beq_eq_false_iff_ne.mpr h3
  have b4 := beq_eq_false_iff_ne.mpr h4
  have b5 := beq_eq_false_iff_ne.mpr h5
  have b6 := beq_eq_false_iff_ne.mpr h6
  simp only [b1, b2, b3, b4, b5, b6, Bool.false_and, Bool.or_false, Bool.false_eq_true, if_false]

/-- **the translated level test is the statement's rule** -/
theorem c01_go_sufficient (allowed : List (List Char)) (lvl : Nat) :
    KM.Gen.GoCertGen.certgenSufficientAuthLevel allowed lvl = specSufficientB allowed lvl := by
  unfold KM.Gen.GoCertGen.certgenSufficientAuthLevel
  dsimp -proj -iota only
  rw [forRange_fold (fun s p => s || goClause lvl p) _ (by
    intro x s
    simp only [ite_true_or, goClause, Bool.or_assoc])]
  rw [foldl_or]
  simp only [ite_true_or, Bool.false_or]
  have e : allowed.any (goClause lvl) =
      (allowed.contains protoAuthTypePassword.toList || allowed.any (fun f => match factorBit f with
        | some b => hasAll lvl b
        | Option.none => false)) := by
    have : goClause lvl = fun p => (p == protoAuthTypePassword.toList) || (match factorBit p with
        | some b => hasAll lvl b
        | Option.none => false) := by funext p; exact goClause_spec lvl p
    rw [this, any_or]
    congr 1
    induction allowed with
    | nil => rfl
    | cons a as ih => rw [List.any_cons, List.contains_cons, ih, Bool.beq_comm]
  unfold specSufficientB
  rw [e]
  have hu : (lvl &&& 8 == 8) = hasAll lvl authTypeU2F := rfl
  rw [hu]
  cases allowed.contains protoAuthTypePassword.toList <;> cases hasAll lvl authTypeU2F <;>
    cases allowed.any (fun f => match factorBit f with | some b => hasAll lvl b | Option.none => false) <;> rfl

/-- **password-only refused, on the translated source**: with no `password` entry in the operator's list a
session that proved nothing but the password (level = the password bit) fails the translated test -/
theorem c01_go_password_only_refused (allowed : List (List Char))
    (h : allowed.contains protoAuthTypePassword.toList = false) :
    KM.Gen.GoCertGen.certgenSufficientAuthLevel allowed authTypePassword = false := by
  rw [c01_go_sufficient]
  unfold specSufficientB
  rw [h]
  have h0 : hasAll authTypePassword authTypeU2F = false := by decide
  rw [h0]
  simp only [Bool.false_or]
  rw [List.any_eq_false]
  have hb : ∀ f b, factorBit f = some b → hasAll authTypePassword b = false := by
    intro f b hf
    unfold factorBit at hf
    repeat' split at hf
    all_goals first | (cases hf; decide) | cases hf
  intro f _
  cases hfb : factorBit f with
  | none => simp
  | some b => simp [hb f b hfb]

/-- non-vacuity: the translated test on concrete configurations -/
example : KM.Gen.GoCertGen.certgenSufficientAuthLevel ["TOTP".toList] (2 ||| 64) = true ∧
    KM.Gen.GoCertGen.certgenSufficientAuthLevel ["TOTP".toList] 2 = false ∧
    KM.Gen.GoCertGen.certgenSufficientAuthLevel [] (2 ||| 8) = true ∧
    KM.Gen.GoCertGen.certgenSufficientAuthLevel ["password".toList] 2 = true := by decide

end KM.CertGen
