import KM.Model.GoLite
import KM.Model.GoTypes
import KM.Gen.GoAuth
/-! # C06 — the session-cookie tail of `checkAuth` as TRANSLATED from the current source (go2lean, tail block)

The statements of `checkAuth` from `info, err := state.getAuthInfoFromAuthJWT(authCookie.Value)` to the end of the
function — verification of the cookie, its expiry, the endpoint's mask — are translated from /repo's working tree on
every run (`KM/Gen/GoAuth.lean`), with `writeFailureResponse` recorded as an effect.  The theorems hold for every
behaviour of the token verifier and of the clock test. -/
namespace KM.Auth
open KM.Go KM.GoTypes

def errInvalid : Err := "Invalid Cookie".toList
def errExpired : Err := "Expired Cookie".toList
def errLevel : Err := "Insufficient Auth Level in critical cookie".toList

/-- the translated tail in normal form (its three error texts named) -/
theorem cookieTail_eq (ext : CookieExt) (v : Str) (mask : Nat) :
    KM.Gen.GoAuth.checkAuthCookieTail ext v mask =
      match ext.getAuthInfo v with
      | (_, some _) => ((none, some errInvalid), [HttpEffect.fail 401])
      | (i, none) =>
        if ext.expired i = true then ((none, some errExpired), [HttpEffect.fail 401])
        else if (i.AuthType &&& mask == 0) = true then ((none, some errLevel), [HttpEffect.fail 401])
        else ((some i, none), []) := by
  unfold KM.Gen.GoAuth.checkAuthCookieTail errInvalid errExpired errLevel
  dsimp -iota only
  rcases ext.getAuthInfo v with ⟨i, _ | e⟩ <;> rfl

/-- **admitted exactly when** the cookie verifies, has not expired and carries a bit of the endpoint's mask; what is
handed back is what the verifier established -/
theorem c06_go_cookie_admitted (ext : CookieExt) (v : Str) (mask : Nat) (info : authInfo) :
    (KM.Gen.GoAuth.checkAuthCookieTail ext v mask).1.1 = some info ↔
      ((ext.getAuthInfo v).2 = none ∧ ext.expired (ext.getAuthInfo v).1 = false ∧
       (ext.getAuthInfo v).1.AuthType &&& mask ≠ 0 ∧ info = (ext.getAuthInfo v).1) := by
  rw [cookieTail_eq]
  rcases ext.getAuthInfo v with ⟨i, _ | e⟩
  · dsimp only
    cases hx : ext.expired i
    · cases hb : (i.AuthType &&& mask == 0)
      · have hne : i.AuthType &&& mask ≠ 0 := by
          intro h; rw [h] at hb; exact absurd hb (by decide)
        simp only [Bool.false_eq_true, if_false, Option.some.injEq, true_and, ne_eq, hne, not_false_eq_true]
        exact eq_comm
      · have he : i.AuthType &&& mask = 0 := by
          have := beq_iff_eq.mp hb; exact this
        simp only [Bool.false_eq_true, if_false, if_true, reduceCtorEq, false_iff, true_and, ne_eq, he,
          not_true_eq_false, false_and, not_false_eq_true]
    · simp only [if_true, reduceCtorEq, false_iff, true_and, Bool.true_eq_false, false_and, not_false_eq_true]
  · simp only [reduceCtorEq, false_iff, false_and, not_false_eq_true]

/-- **every refusal is one 401 and an error**; an admission writes nothing and returns no error -/
theorem c06_go_cookie_refusal (ext : CookieExt) (v : Str) (mask : Nat) :
    ((KM.Gen.GoAuth.checkAuthCookieTail ext v mask).1.1 = none →
      (KM.Gen.GoAuth.checkAuthCookieTail ext v mask).2 = [HttpEffect.fail 401] ∧
      (KM.Gen.GoAuth.checkAuthCookieTail ext v mask).1.2.isSome = true) ∧
    ((KM.Gen.GoAuth.checkAuthCookieTail ext v mask).1.1 ≠ none →
      (KM.Gen.GoAuth.checkAuthCookieTail ext v mask).2 = [] ∧
      (KM.Gen.GoAuth.checkAuthCookieTail ext v mask).1.2 = none) := by
  rw [cookieTail_eq]
  rcases ext.getAuthInfo v with ⟨i, _ | e⟩
  · dsimp only
    cases hx : ext.expired i
    · cases hb : (i.AuthType &&& mask == 0) <;> simp
    · simp
  · simp

/-- an endpoint whose mask shares no bit with the session's level refuses it — in particular a password-only session
(level 2) at an endpoint that wants a second factor -/
theorem c06_go_cookie_mask (ext : CookieExt) (v : Str) (mask : Nat)
    (h : (ext.getAuthInfo v).1.AuthType &&& mask = 0) :
    (KM.Gen.GoAuth.checkAuthCookieTail ext v mask).1.1 = none := by
  cases hr : (KM.Gen.GoAuth.checkAuthCookieTail ext v mask).1.1 with
  | none => rfl
  | some info => exact absurd h ((c06_go_cookie_admitted ext v mask info).mp hr).2.2.1

/-- non-vacuity: a verified, unexpired cookie of level password|TOTP at a TOTP-masked endpoint is admitted; the
same cookie at a U2F-masked endpoint, an expired one and an unverifiable one are refused with one 401 -/
def exCookieExt (ok expired : Bool) : CookieExt where
  getAuthInfo _ := (⟨['a'], 66, 0, 0⟩, if ok then none else some ['b', 'a', 'd'])
  expired _ := expired

example : (KM.Gen.GoAuth.checkAuthCookieTail (exCookieExt true false) ['c'] 64).1.1 = some ⟨['a'], 66, 0, 0⟩ ∧
    (KM.Gen.GoAuth.checkAuthCookieTail (exCookieExt true false) ['c'] 8) = ((none, some "Insufficient Auth Level in critical cookie".toList), [HttpEffect.fail 401]) ∧
    (KM.Gen.GoAuth.checkAuthCookieTail (exCookieExt true true) ['c'] 64).2 = [HttpEffect.fail 401] ∧
    (KM.Gen.GoAuth.checkAuthCookieTail (exCookieExt false false) ['c'] 64).1.1 = none := by decide

end KM.Auth
