import KM.Model.GoLite
import KM.Model.GoTypes
import KM.Gen.GoAuth
import KM.Gen.GoCheckAuth
import KM.Gen.GoKmSigned
/-! # C06 — the session-cookie tail of `checkAuth` as TRANSLATED from the current source (go2lean, tail block)

The statements of `checkAuth` from `info, err := state.getAuthInfoFromAuthJWT(authCookie.Value)` to the end of the
function — verification of the cookie, its expiry, the endpoint's mask — are translated from /repo's working tree on
every run (`KM/Gen/GoAuth.lean`), with `writeFailureResponse` recorded as an effect.  The theorems hold for every
behaviour of the token verifier and of the clock test. -/
namespace KM.Auth
open KM.Go KM.GoTypes

def errInvalid : Err := "Invalid Cookie".toList
def errExpired : Err := "Expired Cookie".toList
def errLevel : Err := "Insufficient Auth Level in critical cookie".toList

/-- the translated tail in normal form (its three error texts named) -/
theorem cookieTail_eq (ext : CookieExt) (v : Str) (mask : Nat) :
    KM.Gen.GoAuth.checkAuthCookieTail ext v mask =
      match ext.getAuthInfo v with
      | (_, some _) => ((none, some errInvalid), [HttpEffect.fail 401])
      | (i, none) =>
        if ext.expired i = true then ((none, some errExpired), [HttpEffect.fail 401])
        else if (i.AuthType &&& mask == 0) = true then ((none, some errLevel), [HttpEffect.fail 401])
        else ((some i, none), []) := by
  unfold KM.Gen.GoAuth.checkAuthCookieTail errInvalid errExpired errLevel
  dsimp -iota only
  rcases ext.getAuthInfo v with ⟨i, _ | e⟩ <;> rfl

/-- **admitted exactly when** the cookie verifies, has not expired and carries a bit of the endpoint's mask; what is
handed back is what the verifier established -/
theorem c06_go_cookie_admitted (ext : CookieExt) (v : Str) (mask : Nat) (info : authInfo) :
    (KM.Gen.GoAuth.checkAuthCookieTail ext v mask).1.1 = some info ↔
      ((ext.getAuthInfo v).2 = none ∧ ext.expired (ext.getAuthInfo v).1 = false ∧
       (ext.getAuthInfo v).1.AuthType &&& mask ≠ 0 ∧ info = (ext.getAuthInfo v).1) := by
  rw [cookieTail_eq]
  rcases ext.getAuthInfo v with ⟨i, _ | e⟩
  · dsimp only
    cases hx : ext.expired i
    · cases hb : (i.AuthType &&& mask == 0)
      · have hne : i.AuthType &&& mask ≠ 0 := by
          intro h; rw [h] at hb; exact absurd hb (by decide)
        simp only [Bool.false_eq_true, if_false, Option.some.injEq, true_and, ne_eq, hne, not_false_eq_true]
        exact eq_comm
      · have he : i.AuthType &&& mask = 0 := by
          have := beq_iff_eq.mp hb; exact this
        simp only [Bool.false_eq_true, if_false, if_true, reduceCtorEq, false_iff, true_and, ne_eq, he,
          not_true_eq_false, false_and, not_false_eq_true]
    · simp only [if_true, reduceCtorEq, false_iff, true_and, Bool.true_eq_false, false_and, not_false_eq_true]
  · simp only [reduceCtorEq, false_iff, false_and, not_false_eq_true]

/-- **every refusal is one 401 and an error**; an admission writes nothing and returns no error -/
theorem c06_go_cookie_refusal (ext : CookieExt) (v : Str) (mask : Nat) :
    ((KM.Gen.GoAuth.checkAuthCookieTail ext v mask).1.1 = none →
      (KM.Gen.GoAuth.checkAuthCookieTail ext v mask).2 = [HttpEffect.fail 401] ∧
      (KM.Gen.GoAuth.checkAuthCookieTail ext v mask).1.2.isSome = true) ∧
    ((KM.Gen.GoAuth.checkAuthCookieTail ext v mask).1.1 ≠ none →
      (KM.Gen.GoAuth.checkAuthCookieTail ext v mask).2 = [] ∧
      (KM.Gen.GoAuth.checkAuthCookieTail ext v mask).1.2 = none) := by
  rw [cookieTail_eq]
  rcases ext.getAuthInfo v with ⟨i, _ | e⟩
  · dsimp only
    cases hx : ext.expired i
    · cases hb : (i.AuthType &&& mask == 0) <;> simp
    · simp
  · simp

/-- an endpoint whose mask shares no bit with the session's level refuses it — in particular a password-only session
(level 2) at an endpoint that wants a second factor -/
theorem c06_go_cookie_mask (ext : CookieExt) (v : Str) (mask : Nat)
    (h : (ext.getAuthInfo v).1.AuthType &&& mask = 0) :
    (KM.Gen.GoAuth.checkAuthCookieTail ext v mask).1.1 = none := by
  cases hr : (KM.Gen.GoAuth.checkAuthCookieTail ext v mask).1.1 with
  | none => rfl
  | some info => exact absurd h ((c06_go_cookie_admitted ext v mask info).mp hr).2.2.1

/-- non-vacuity: a verified, unexpired cookie of level password|TOTP at a TOTP-masked endpoint is admitted; the
same cookie at a U2F-masked endpoint, an expired one and an unverifiable one are refused with one 401 -/
def exCookieExt (ok expired : Bool) : CookieExt where
  getAuthInfo _ := (⟨['a'], 66, 0, 0⟩, if ok then none else some ['b', 'a', 'd'])
  expired _ := expired

example : (KM.Gen.GoAuth.checkAuthCookieTail (exCookieExt true false) ['c'] 64).1.1 = some ⟨['a'], 66, 0, 0⟩ ∧
    (KM.Gen.GoAuth.checkAuthCookieTail (exCookieExt true false) ['c'] 8) = ((none, some "Insufficient Auth Level in critical cookie".toList), [HttpEffect.fail 401]) ∧
    (KM.Gen.GoAuth.checkAuthCookieTail (exCookieExt true true) ['c'] 64).2 = [HttpEffect.fail 401] ∧
    (KM.Gen.GoAuth.checkAuthCookieTail (exCookieExt false false) ['c'] 64).1.1 = none := by decide

end KM.Auth

/-! ## `checkAuth`, the WHOLE function (`KM/Gen/GoCheckAuth.lean`, translated with join points)

The CSRF test, the two client-certificate evaluations, the search for the auth cookie, Basic auth against the password
backend, and the cookie tail — every statement of the function as it reads in the current tree.  External and
arbitrary: `Origin`/`Referer`, `url.Parse`, the certificate evaluations over the verified chains, Basic-auth parsing,
the attempt limiter, user-name normalisation, the password backend, the clock, `getAuthInfoFromAuthJWT`, the expiry
test. -/
namespace KM.CheckAuthGo
open KM.GoTypes KM.Go

/-- the cookie `checkAuth` ends up with: the LAST request cookie named `auth_cookie` -/
def lastNamed (nm : List Char) (cs : List Cookie) (st : Option Cookie) : Option Cookie :=
  cs.foldl (fun acc c => if c.name != nm then acc else some c) st
def lastAuth (cs : List Cookie) : Option Cookie := lastNamed "auth_cookie".toList cs none

/-- what it takes for `checkAuth` to hand an identity to a handler -/
def Admitted (ext : CheckAuthExt) (hasTLS hasChains : Bool) (cookies : List Cookie) (req : Nat) (info : authInfo) :
    Prop :=
  (info.AuthType &&& req) ≠ 0 ∧
  ((hasTLS = true ∧ hasChains = true ∧ info.Username ≠ [] ∧
      ((∃ nb, ext.kmSigned = (info.Username, nb, none) ∧ info.AuthType = 512 ∧ info.IssuedAt = nb) ∨
       (∃ nb, (req &&& 32) ≠ 0 ∧ ext.ipRestricted = (info.Username, nb, none, none) ∧ info.IssuedAt = nb ∧
          (info.AuthType = 32 ∨ info.AuthType = 544)))) ∨
   (lastAuth cookies = none ∧ ∃ u p, ext.basicAuth = (u, p, true) ∧ ext.attemptLimit u = none ∧
      ext.checkPassword (ext.reprocess u) p = (true, none) ∧ info = ⟨ext.reprocess u, 2, 0, ext.now⟩) ∨
   (∃ c, lastAuth cookies = some c ∧ ext.getAuthInfo c.value = (info, none) ∧ ext.expired info = false))

/-- an answer of `checkAuth`: an identity comes with no error and only when `Admitted`; no identity comes with an error -/
def Good (ext : CheckAuthExt) (hasTLS hasChains : Bool) (cookies : List Cookie) (req : Nat)
    (r : (Option authInfo × Option Err) × List AuthEffect) : Prop :=
  match r.1 with
  | (some info, e) => e = none ∧ Admitted ext hasTLS hasChains cookies req info
  | (none, e) => e.isSome = true

theorem good_none {ext : CheckAuthExt} {hasTLS hasChains : Bool} {cookies : List Cookie} {req : Nat}
    {e : Option Err} {t : List AuthEffect} (h : e.isSome = true) :
    Good ext hasTLS hasChains cookies req ((none, e), t) := h

theorem good_some {ext : CheckAuthExt} {hasTLS hasChains : Bool} {cookies : List Cookie} {req : Nat}
    {info : authInfo} {t : List AuthEffect} (h : Admitted ext hasTLS hasChains cookies req info) :
    Good ext hasTLS hasChains cookies req ((some info, none), t) := ⟨rfl, h⟩

theorem cookie_loop {ρ : Type} (nm : List Char) (cs : List Cookie) (st : Option Cookie) :
    KM.Go.forRange (ρ := ρ) (cs.map some) st (fun cookie st => match st with
        | authCookie =>
          if ((KM.GoTypes.cookieName cookie) != nm) then
            KM.Go.Ctl.next authCookie
          else
            let authCookie := cookie;
            KM.Go.Ctl.next authCookie) =
      .done (lastNamed nm cs st) := by
  induction cs generalizing st with
  | nil => simp [forRange, lastNamed]
  | cons c cs ih =>
    simp only [List.map_cons, forRange, lastNamed, List.foldl_cons, cookieName]
    by_cases h : (c.name != nm) = true
    · simp only [h, if_true]; exact ih st
    · simp only [h, if_false]; exact ih (some c)

/-- every answer of the translated `checkAuth` is `Good` -/
theorem checkAuth_good (ext : CheckAuthExt) (method host : List Char) (hasTLS hasChains : Bool)
    (cookies : List Cookie) (req : Nat) :
    Good ext hasTLS hasChains cookies req
      (KM.Gen.GoCheckAuth.checkAuth ext method host hasTLS hasChains cookies req) := by
  obtain ⟨referer, parseURL, urlHost, kmSigned, ipRestricted, basicAuth, attemptLimit, reprocess, checkPassword, now,
    getAuthInfo, expired⟩ := ext
  obtain ⟨kmU, kmNb, kmErr⟩ := kmSigned
  obtain ⟨ipU, ipNb, ipUserErr, ipErr⟩ := ipRestricted
  unfold KM.Gen.GoCheckAuth.checkAuth
  extract_lets tr0 c0 e1 cfg e2 e3 e4 e5 k2 ad0 ad512 k3 k1 ref tr400 tr401
  have h2 : ∀ tr, Good ⟨referer, parseURL, urlHost, (kmU, kmNb, kmErr), (ipU, ipNb, ipUserErr, ipErr), basicAuth, attemptLimit, reprocess,
      checkPassword, now, getAuthInfo, expired⟩ hasTLS hasChains cookies req (k2 tr) := by
    intro tr
    unfold k2
    rw [cookie_loop]
    generalize hl' : lastNamed "auth_cookie".toList cookies c0 = la
    have hl : lastAuth cookies = la := hl'
    dsimp only
    cases la with
    | none =>
      simp only [Option.isNone_none, if_true]
      by_cases hp : ((2 &&& req) == 0) = true
      · simp only [hp, if_true]; exact good_none rfl
      · simp only [hp]
        rcases hb : basicAuth with ⟨u, p, ok⟩
        cases ok
        · simp only [Bool.not_false, if_true]; exact good_none rfl
        · simp only [Bool.not_true, Bool.false_eq_true, if_false]
          cases ha : attemptLimit u with
          | some e => simp only [Option.isSome_some, if_true]; exact good_none rfl
          | none =>
            simp only [Option.isSome_none, Bool.false_eq_true, if_false]
            rcases hc : checkPassword (reprocess u) p with ⟨v, _ | e⟩
            · cases v
              · simp only [Option.isSome_none, Bool.false_eq_true, if_false, Bool.not_false, if_true]
                exact good_none rfl
              · simp only [Option.isSome_none, Bool.false_eq_true, if_false, Bool.not_true]
                refine good_some ⟨?_, Or.inr (Or.inl ⟨hl, u, p, rfl, ha, hc, rfl⟩)⟩
                simpa using hp
            · simp only [Option.isSome_some, if_true]; exact good_none rfl
    | some c =>
      simp only [Option.isNone_some, Bool.false_eq_true, if_false, cookieValue]
      by_cases he : (getAuthInfo c.value).2.isSome = true
      · simp only [he, if_true]; exact good_none rfl
      · simp only [he]
        have hg : getAuthInfo c.value = ((getAuthInfo c.value).1, none) := by
          cases h : (getAuthInfo c.value).2 with
          | none => exact Prod.ext rfl h
          | some e => rw [h] at he; simp at he
        by_cases hx : expired (getAuthInfo c.value).1 = true
        · simp only [hx, if_true]; exact good_none rfl
        · simp only [hx]
          by_cases hlv : (((getAuthInfo c.value).1.AuthType &&& req) == 0) = true
          · simp only [hlv, if_true]; exact good_none rfl
          · simp only [hlv]
            exact good_some ⟨by simpa using hlv, Or.inr (Or.inr ⟨c, hl, hg, by simpa using hx⟩)⟩
  have h3 : ∀ ad tr, (ad.Username ≠ [] → hasTLS = true ∧ hasChains = true ∧
        ((∃ nb, (kmU, kmNb, kmErr) = (ad.Username, nb, none) ∧ ad.AuthType = 512 ∧ ad.IssuedAt = nb) ∨
         (∃ nb, (req &&& 32) ≠ 0 ∧ (ipU, ipNb, ipUserErr, ipErr) = (ad.Username, nb, none, none) ∧ ad.IssuedAt = nb ∧
            (ad.AuthType = 32 ∨ ad.AuthType = 544)))) →
      Good ⟨referer, parseURL, urlHost, (kmU, kmNb, kmErr), (ipU, ipNb, ipUserErr, ipErr), basicAuth, attemptLimit,
        reprocess, checkPassword, now, getAuthInfo, expired⟩ hasTLS hasChains cookies req (k3 (ad, tr)) := by
    intro ad tr hok
    unfold k3
    dsimp only
    by_cases hc : (ad.Username != [] && ad.AuthType &&& req != 0) = true
    · simp only [hc, if_true]
      have hc' : ad.Username ≠ [] ∧ (ad.AuthType &&& req) ≠ 0 := by simpa using hc
      obtain ⟨h1, h2', h3'⟩ := hok hc'.1
      exact good_some ⟨hc'.2, Or.inl ⟨h1, h2', hc'.1, h3'⟩⟩
    · simp only [hc]; exact h2 tr
  have h1 : ∀ tr, Good ⟨referer, parseURL, urlHost, (kmU, kmNb, kmErr), (ipU, ipNb, ipUserErr, ipErr), basicAuth,
      attemptLimit, reprocess, checkPassword, now, getAuthInfo, expired⟩ hasTLS hasChains cookies req (k1 tr) := by
    intro tr
    unfold k1
    dsimp only
    by_cases hA : (req &&& (32 ||| 512) != 0 && hasTLS) = true
    · simp only [hA, if_true]
      have hT : hasTLS = true := by
        cases hasTLS
        · simp at hA
        · rfl
      by_cases hCh0 : hasChains = false
      · simp only [hCh0, Bool.false_eq_true, if_false]; rw [← hCh0]; exact h2 tr
      · have hCh : hasChains = true := by cases hasChains <;> simp_all
        rw [if_pos hCh]
        have e512 : ad512.AuthType = 512 := by simp [ad512, ad0]
        have e544 : (ad512.AuthType ||| 32) = 544 := by simp [ad512, ad0]
        have e32 : (ad0.AuthType ||| 32) = 32 := by simp [ad0]
        have eU0 : ad0.Username = [] := by simp [ad0]
        by_cases hk : (kmErr.isNone && kmU != []) = true
        · have hk' : kmErr = none ∧ kmU ≠ [] := by simpa using hk
          have hne : (kmU == ([] : List Char)) = false := by simpa using hk'.2
          simp only [hk, if_true, hne, Bool.false_eq_true, if_false]
          by_cases h32 : (req &&& 32 != 0) = true
          · simp only [h32, if_true]
            by_cases hip : (ipErr.isNone && ipUserErr.isNone) = true
            · have hip' : ipErr = none ∧ ipUserErr = none := by simpa using hip
              simp only [hip, if_true]
              apply h3
              intro _
              refine ⟨hT, hCh, Or.inr ⟨ipNb, by simpa using h32, ?_, rfl, Or.inr e544⟩⟩
              rw [hip'.1, hip'.2]
            · simp only [hip, Bool.false_eq_true, if_false]
              apply h3
              intro _
              refine ⟨hT, hCh, Or.inl ⟨kmNb, ?_, e512, rfl⟩⟩
              rw [hk'.1]
          · simp only [h32, Bool.false_eq_true, if_false]
            apply h3
            intro _
            refine ⟨hT, hCh, Or.inl ⟨kmNb, ?_, e512, rfl⟩⟩
            rw [hk'.1]
        · simp only [hk, Bool.false_eq_true, if_false]
          by_cases h32 : (req &&& 32 != 0) = true
          · simp only [h32, if_true]
            have hU : (ad0.Username == ([] : List Char)) = true := by simp [ad0]
            simp only [hU, if_true]
            by_cases hue : ipUserErr.isSome = true
            · rw [if_pos hue]; exact good_none hue
            · rw [if_neg hue]
              by_cases hie : ipErr.isSome = true
              · rw [if_pos hie]; exact good_none hie
              · rw [if_neg hie]
                have hn : ipErr = none ∧ ipUserErr = none := by
                  constructor
                  · cases h : ipErr with
                    | none => rfl
                    | some e => rw [h] at hie; simp at hie
                  · cases h : ipUserErr with
                    | none => rfl
                    | some e => rw [h] at hue; simp at hue
                have hip : (ipErr.isNone && ipUserErr.isNone) = true := by rw [hn.1, hn.2]; rfl
                rw [if_pos hip]
                apply h3
                intro _
                refine ⟨hT, hCh, Or.inr ⟨ipNb, by simpa using h32, ?_, rfl, Or.inl e32⟩⟩
                rw [hn.1, hn.2]
          · simp only [h32, Bool.false_eq_true, if_false]
            apply h3
            intro hne
            exact absurd eU0 hne
    · simp only [hA, Bool.false_eq_true, if_false]; exact h2 tr
  by_cases hm : (method != "GET".toList) = true
  · simp only [hm, if_true]
    by_cases hr : (decide (List.length ref > 0) && decide (host.length > 0)) = true
    · simp only [hr, if_true]
      by_cases he : (parseURL ref).2.isSome = true
      · simp only [he, if_true]; exact good_none he
      · simp only [he, Bool.false_eq_true, if_false]
        by_cases hh : (urlHost (parseURL ref).1 != host) = true
        · simp only [hh, if_true]; exact good_none rfl
        · simp only [hh, Bool.false_eq_true, if_false]; exact h1 tr0
    · simp only [hr, Bool.false_eq_true, if_false]; exact h1 tr0
  · simp only [hm, Bool.false_eq_true, if_false]; exact h1 tr0


/-- **no identity without a valid credential the endpoint accepts** (C06, C01), on the translated source of the whole
of `checkAuth`: whenever it hands an identity to a handler there is no error, the identity's level has a bit of the
endpoint's mask, and the identity is — a verified client certificate (keymaster-signed, or IP-restricted when the
endpoint accepts those and both its evaluations succeeded) over TLS with a verified chain; or, with NO auth cookie in
the request, the Basic-auth user whose password the backend confirmed after the attempt limiter let the attempt through
(level: password only); or what `getAuthInfoFromAuthJWT` verified from the LAST `auth_cookie` of the request, not
expired. -/
theorem c06_go_check_auth_admits (ext : CheckAuthExt) (method host : List Char) (hasTLS hasChains : Bool)
    (cookies : List Cookie) (req : Nat) (info : authInfo) (e : Option Err)
    (h : (KM.Gen.GoCheckAuth.checkAuth ext method host hasTLS hasChains cookies req).1 = (some info, e)) :
    e = none ∧ Admitted ext hasTLS hasChains cookies req info := by
  have := checkAuth_good ext method host hasTLS hasChains cookies req
  unfold Good at this
  rw [h] at this
  exact this

/-- and when it hands out no identity it returns an error (the caller stops) -/
theorem c06_go_check_auth_refuses (ext : CheckAuthExt) (method host : List Char) (hasTLS hasChains : Bool)
    (cookies : List Cookie) (req : Nat)
    (h : (KM.Gen.GoCheckAuth.checkAuth ext method host hasTLS hasChains cookies req).1.1 = none) :
    (KM.Gen.GoCheckAuth.checkAuth ext method host hasTLS hasChains cookies req).1.2.isSome = true := by
  have := checkAuth_good ext method host hasTLS hasChains cookies req
  unfold Good at this
  rcases hr : (KM.Gen.GoCheckAuth.checkAuth ext method host hasTLS hasChains cookies req).1 with ⟨_ | i, e⟩
  · rw [hr] at this; exact this
  · rw [hr] at h; cases h

/-- a level outside the endpoint's mask is never admitted, whatever the credential -/
theorem c06_go_check_auth_mask (ext : CheckAuthExt) (method host : List Char) (hasTLS hasChains : Bool)
    (cookies : List Cookie) (req : Nat) (info : authInfo) (e : Option Err)
    (h : (KM.Gen.GoCheckAuth.checkAuth ext method host hasTLS hasChains cookies req).1 = (some info, e)) :
    (info.AuthType &&& req) ≠ 0 :=
  (c06_go_check_auth_admits ext method host hasTLS hasChains cookies req info e h).2.1

end KM.CheckAuthGo

/-! ## `getUsernameIfKeymasterSigned` (cmd/keymasterd, whole function; `KM/Gen/GoKmSigned.lean`)

Three nested loops over the verified chains, the deny list and the deployment's public keys.  External and arbitrary:
the accessors of a chain, the IP-restriction test and `getKeyFingerprint`.  Proved with the Hoare rule for `forRange`
(`forRange_ret`), not by a closed form. -/
namespace KM.KmSignedGo
open KM.GoTypes KM.Go

variable {χ κ : Type}

/-- what an identity returned by the function rests on -/
def Trusted (ext : KmSignedExt χ κ) (chains : List χ) (denied : List (List Char)) (trusted : List κ)
    (u : List Char) (nb : Nat) : Prop :=
  ∃ chain ∈ chains, ext.short chain = false ∧ ext.isIPRestricted chain = false ∧
    ∃ f lf, ext.fingerprint (ext.issuerKey chain) = (f, none) ∧ ext.fingerprint (ext.leafKey chain) = (lf, none) ∧
      lf ∉ denied ∧ (∃ k ∈ trusted, ext.fingerprint k = (f, none)) ∧
      u = ext.commonName chain ∧ nb = ext.notBefore chain

/-- **a client certificate yields an identity only if it was signed directly by one of the deployment's own keys**
(C06; the keys are those of C04/C09), on the translated source: a non-empty user name without an error comes back only
for a verified chain of at least two certificates whose leaf is NOT an IP-restricted certificate (those are judged by
`getUsernameIfIPRestricted`), whose issuer's key has the fingerprint of one of `state.KeymasterPublicKeys`, and whose
own key is not on the deny list; the name is that leaf's common name and the time its not-before. -/
theorem c06_go_km_signed (ext : KmSignedExt χ κ) (chains : List χ) (denied : List (List Char)) (trusted : List κ)
    (u : List Char) (nb : Nat)
    (h : KM.Gen.GoKmSigned.getUsernameIfKeymasterSigned ext chains denied trusted = (u, nb, none)) (hu : u ≠ []) :
    Trusted ext chains denied trusted u nb := by
  obtain ⟨short, cn, ik, lk, nbf, ipr, fpr⟩ := ext
  unfold KM.Gen.GoKmSigned.getUsernameIfKeymasterSigned at h
  dsimp only at h
  let Post : List Char × Nat × Option Err → Prop := fun r =>
    r.2.2 = none → r.1 ≠ [] → Trusted ⟨short, cn, ik, lk, nbf, ipr, fpr⟩ chains denied trusted r.1 r.2.1
  suffices hP : Post (u, nb, none) from hP rfl hu
  revert h
  generalize hb : (fun chain (st : Unit) => _) = body
  cases hl : forRange chains () body with
  | done s => intro h; cases s; cases h; exact fun _ h => absurd rfl h
  | ret r =>
    intro h
    simp only at h
    subst h
    refine forRange_ret hl (fun _ => True) Post trivial ?_
    intro chain hc s _
    subst hb
    cases s
    dsimp only
    by_cases hs : short chain = true
    · simp only [hs, if_true, Ctl.post]
    · have hs' : short chain = false := by simpa using hs
      simp only [hs', Bool.false_eq_true, if_false]
      by_cases hi : ipr chain = true
      · simp only [hi, if_true, Ctl.post]
      · have hi' : ipr chain = false := by simpa using hi
        simp only [hi', Bool.false_eq_true, if_false]
        by_cases he1 : (fpr (ik chain)).2.isSome = true
        · simp only [he1, if_true, Ctl.post]
          intro hn; rw [hn] at he1; cases he1
        · simp only [he1, if_false]
          have hf1 : fpr (ik chain) = ((fpr (ik chain)).1, none) := by
            cases h : (fpr (ik chain)).2 with
            | none => exact Prod.ext rfl h
            | some e => rw [h] at he1; simp at he1
          by_cases he2 : (fpr (lk chain)).2.isSome = true
          · simp only [he2, if_true, Ctl.post]
            intro hn; rw [hn] at he2; cases he2
          · simp only [he2, if_false]
            have hf2 : fpr (lk chain) = ((fpr (lk chain)).1, none) := by
              cases h : (fpr (lk chain)).2 with
              | none => exact Prod.ext rfl h
              | some e => rw [h] at he2; simp at he2
            rw [forRange_findRet (fun r => (fpr (lk chain)).1 == r)
              (fun _ => (([] : List Char), (0 : Nat), (some "revoked key with FP:%s".toList : Option Err)))
              _ (by intro x s; cases s; rfl)]
            cases hd : denied.find? (fun r => (fpr (lk chain)).1 == r) with
            | some r => simp only [Ctl.post]; intro hn; cases hn
            | none =>
              have hnd : (fpr (lk chain)).1 ∉ denied := by
                intro hm
                have := List.find?_eq_none.mp hd _ hm
                simp at this
              simp only
              generalize hb2 : (fun key (st : Unit) => _) = body2
              cases hl2 : forRange trusted () body2 with
              | done s => cases s; simp only [Ctl.post]; trivial
              | ret r =>
                simp only [Ctl.post]
                refine forRange_ret hl2 (fun _ => True) Post trivial ?_
                intro key hk s _
                subst hb2
                cases s
                dsimp only
                by_cases he3 : (fpr key).2.isSome = true
                · simp only [he3, if_true, Ctl.post]
                  intro hn; rw [hn] at he3; cases he3
                · simp only [he3, if_false]
                  have hf3 : fpr key = ((fpr key).1, none) := by
                    cases h : (fpr key).2 with
                    | none => exact Prod.ext rfl h
                    | some e => rw [h] at he3; simp at he3
                  by_cases hm : ((fpr (ik chain)).1 == (fpr key).1) = true
                  · simp only [hm, if_true, Ctl.post]
                    intro _ _
                    refine ⟨chain, hc, hs', hi', (fpr (ik chain)).1, (fpr (lk chain)).1, hf1, hf2, hnd,
                      ⟨key, hk, ?_⟩, rfl, rfl⟩
                    have : (fpr (ik chain)).1 = (fpr key).1 := by simpa using hm
                    rw [this]; exact hf3
                  · simp only [hm, Ctl.post]; trivial

end KM.KmSignedGo
