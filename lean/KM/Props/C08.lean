/-! # C08 — property theorems (stub: not built yet) -/
